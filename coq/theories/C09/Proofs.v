(* C09 — proofs: the search trie represents the set of added routes; Search finds
   exactly the literal-over-variable best match with its bindings; the router built
   by any list of Handle calls answers as the plain route list prescribes. *)
From Coq Require Import List String Ascii Bool ZArith Lia.
From GZ Require Import C09.Model C09.Spec.
Import ListNotations.
Open Scope string_scope.

(* ------------------------------------------------------------------ basics *)

Lemma eqb_false_neq : forall a b : string, (a =? b) = false -> a <> b.
Proof. intros a b H. apply String.eqb_neq. exact H. Qed.

Lemma neq_eqb_false : forall a b : string, a <> b -> (a =? b) = false.
Proof. intros a b H. apply String.eqb_neq. exact H. Qed.

Lemma is_var_nonempty : forall s, is_var s = true -> s <> "".
Proof. intros s H E. subst s. discriminate H. Qed.

Lemma segs_eqb_eq : forall a b, segs_eqb a b = true <-> a = b.
Proof.
  induction a as [|x a IH]; destruct b as [|y b]; cbn; split; intro H; try congruence; try discriminate.
  - apply andb_true_iff in H. destruct H as [H1 H2].
    apply String.eqb_eq in H1. apply IH in H2. congruence.
  - inversion H; subst. rewrite String.eqb_refl. cbn. apply IH. reflexivity.
Qed.

Lemma segs_eqb_refl : forall a, segs_eqb a a = true.
Proof. intro a. apply segs_eqb_eq. reflexivity. Qed.

(* ---------------------------------------------------- association lists *)

Section Assoc.
Context {A : Type}.

Lemma assoc_put_same : forall k (v : A) l, assoc k (put k v l) = Some v.
Proof.
  induction l as [|[k' v'] l IH]; cbn.
  - rewrite String.eqb_refl. reflexivity.
  - destruct (k' =? k) eqn:E; cbn.
    + rewrite String.eqb_refl. reflexivity.
    + rewrite E. exact IH.
Qed.

Lemma assoc_put_other : forall k k' (v : A) l, k' <> k -> assoc k' (put k v l) = assoc k' l.
Proof.
  induction l as [|[k0 v0] l IH]; cbn; intro N.
  - rewrite (neq_eqb_false k k') by congruence. reflexivity.
  - destruct (k0 =? k) eqn:E; cbn.
    + apply String.eqb_eq in E. subst k0.
      rewrite (neq_eqb_false k k') by congruence. reflexivity.
    + destruct (k0 =? k'); [reflexivity | apply IH; exact N].
Qed.

Lemma assoc_in : forall k (v : A) l, assoc k l = Some v -> In (k, v) l.
Proof.
  induction l as [|[k' v'] l IH]; cbn; intro H; [discriminate|].
  destruct (k' =? k) eqn:E.
  - apply String.eqb_eq in E. left. congruence.
  - right. apply IH. exact H.
Qed.

Lemma in_assoc : forall k (v : A) l, NoDup (map fst l) -> In (k, v) l -> assoc k l = Some v.
Proof.
  induction l as [|[k' v'] l IH]; cbn; intros ND H; [contradiction|].
  apply NoDup_cons_iff in ND. destruct ND as [NI ND].
  destruct H as [H|H].
  - inversion H; subst. rewrite String.eqb_refl. reflexivity.
  - destruct (k' =? k) eqn:E.
    + apply String.eqb_eq in E. subst k'. exfalso. apply NI.
      change k with (fst (k, v)). apply in_map. exact H.
    + apply IH; assumption.
Qed.

Lemma assoc_none_notin : forall k l, assoc k l = None -> ~ In k (map (@fst string A) l).
Proof.
  induction l as [|[k' v'] l IH]; cbn; intros H I; [exact I|].
  destruct (k' =? k) eqn:E; [discriminate|].
  destruct I as [I|I]; [apply eqb_false_neq in E; contradiction | apply IH; assumption].
Qed.

Lemma in_put : forall k (v : A) l x, In x (put k v l) -> x = (k, v) \/ In x l.
Proof.
  induction l as [|[k' v'] l IH]; cbn; intros x H.
  - destruct H as [H|[]]. left. congruence.
  - destruct (k' =? k); cbn in H.
    + destruct H as [H|H]; [left; congruence | right; right; exact H].
    + destruct H as [H|H]; [right; left; exact H|].
      apply IH in H. destruct H; [left | right; right]; assumption.
Qed.

Lemma put_keys : forall k (v : A) l,
  map fst (put k v l) = match assoc k l with Some _ => map fst l | None => (map fst l ++ [k])%list end.
Proof.
  induction l as [|[k' v'] l IH]; cbn; [reflexivity|].
  destruct (k' =? k) eqn:E; cbn.
  - apply String.eqb_eq in E. subst. reflexivity.
  - rewrite IH. destruct (assoc k l); reflexivity.
Qed.

Lemma put_nodup : forall k (v : A) l, NoDup (map fst l) -> NoDup (map fst (put k v l)).
Proof.
  intros k v l ND. rewrite put_keys. destruct (assoc k l) eqn:E; [exact ND|].
  apply assoc_none_notin in E.
  apply NoDup_rev in ND. rewrite <- (rev_involutive (map fst l ++ [k])).
  apply NoDup_rev. rewrite rev_app_distr. cbn. constructor; [|exact ND].
  intro I. apply E. apply in_rev. exact I.
Qed.

End Assoc.

(* ------------------------------------------------- well-formed tries *)

Inductive node_ok : node -> Prop :=
| node_ok_intro : forall i l v,
    NoDup (map fst l) -> NoDup (map fst v) ->
    Forall (fun kc => is_var (fst kc) = false /\ fst kc <> "" /\ node_ok (snd kc)) l ->
    Forall (fun kc => is_var (fst kc) = true /\ node_ok (snd kc)) v ->
    node_ok (Node i l v).

Lemma empty_ok : node_ok empty_node.
Proof. constructor; constructor. Qed.

Lemma child_in : forall n s c, child n s = Some c ->
  if is_var s then In (s, c) (vars n) else In (s, c) (lits n).
Proof. intros n s c H. unfold child in H. destruct (is_var s); apply assoc_in; exact H. Qed.

Lemma child_ok : forall n s c, node_ok n -> child n s = Some c -> node_ok c.
Proof.
  intros n s c OK H. apply child_in in H. destruct OK as [i l v _ _ FL FV]. cbn in H.
  destruct (is_var s).
  - rewrite Forall_forall in FV. apply FV in H. apply H.
  - rewrite Forall_forall in FL. apply FL in H. apply H.
Qed.

Lemma lit_child : forall n k c, node_ok n -> In (k, c) (lits n) ->
  is_var k = false /\ k <> "" /\ node_ok c /\ child n k = Some c.
Proof.
  intros n k c OK I. destruct OK as [i l v NL _ FL _]. cbn in I.
  rewrite Forall_forall in FL. pose proof (FL _ I) as [H1 [H2 H3]]. cbn in H1, H2, H3.
  repeat split; try assumption. unfold child. rewrite H1. cbn. apply in_assoc; assumption.
Qed.

Lemma var_child : forall n k c, node_ok n -> In (k, c) (vars n) ->
  is_var k = true /\ node_ok c /\ child n k = Some c.
Proof.
  intros n k c OK I. destruct OK as [i l v _ NV _ FV]. cbn in I.
  rewrite Forall_forall in FV. pose proof (FV _ I) as [H1 H2]. cbn in H1, H2.
  repeat split; try assumption. unfold child. rewrite H1. cbn. apply in_assoc; assumption.
Qed.

Lemma put_child_ok : forall n s c, node_ok n -> node_ok c -> s <> "" -> node_ok (put_child n s c).
Proof.
  intros n s c OK OKc NE. destruct OK as [i l v NL NV FL FV]. unfold put_child. cbn.
  destruct (is_var s) eqn:V; constructor; try assumption; try (apply put_nodup; assumption).
  - rewrite Forall_forall in *. intros x I. apply in_put in I. destruct I as [I|I].
    + subst x. cbn. split; assumption.
    + apply FV. exact I.
  - rewrite Forall_forall in *. intros x I. apply in_put in I. destruct I as [I|I].
    + subst x. cbn. repeat split; assumption.
    + apply FL. exact I.
Qed.

Lemma child_put_same : forall n s c, child (put_child n s c) s = Some c.
Proof.
  intros n s c. unfold child, put_child. destruct (is_var s) eqn:V; cbn; apply assoc_put_same.
Qed.

Lemma child_put_other : forall n s c s', s' <> s -> child (put_child n s c) s' = child n s'.
Proof.
  intros n s c s' N. unfold child, put_child.
  destruct (is_var s) eqn:V; destruct (is_var s') eqn:V'; cbn; try reflexivity;
    apply assoc_put_other; exact N.
Qed.

Lemma item_put_child : forall n s c, item (put_child n s c) = item n.
Proof. intros n s c. unfold put_child. destruct (is_var s); reflexivity. Qed.

(* ------------------------------------- exact lookup of a pattern in a trie *)

(* the handler stored for the pattern whose (non-empty) segments are [pat];
   the root pattern "/" is the empty list here ([norm]) *)
Fixpoint getn (n : node) (pat : list string) {struct pat} : option handler :=
  match pat with
  | [] => item n
  | s :: rest => match child n s with Some c => getn c rest | None => None end
  end.

Definition nonempty (s : string) : Prop := s <> "".

(* a cleaned path / pattern: the root [""] or a non-empty list of non-empty segments *)
Definition cleanp (p : list string) : Prop := p = [""] \/ (p <> [] /\ Forall nonempty p).

Definition norm (p : list string) : list string :=
  match p with
  | [s] => if s =? "" then [] else p
  | _ => p
  end.

Definition has (n : node) (pat : list string) (h : handler) : Prop := getn n (norm pat) = Some h.

Lemma norm_root : norm [""] = [].
Proof. reflexivity. Qed.

Lemma norm_nes : forall p, Forall nonempty p -> norm p = p.
Proof.
  intros p F. destruct p as [|s [|s' p]]; try reflexivity. cbn.
  inversion F; subst. rewrite neq_eqb_false by assumption. reflexivity.
Qed.

Lemma norm_clean : forall p, cleanp p -> Forall nonempty (norm p).
Proof. intros p [E|[_ F]]; [subst; constructor | rewrite norm_nes; assumption]. Qed.

Lemma norm_inj : forall p q, cleanp p -> cleanp q -> norm p = norm q -> p = q.
Proof.
  intros p q [Ep|[Np Fp]] [Eq|[Nq Fq]] H; subst; try reflexivity.
  - rewrite norm_root, norm_nes in H by assumption. congruence.
  - rewrite norm_root, norm_nes in H by assumption. congruence.
  - rewrite !norm_nes in H by assumption. exact H.
Qed.

Lemma getn_empty : forall q, getn empty_node q = None.
Proof. destruct q as [|s q]; [reflexivity|]. cbn. unfold child. destruct (is_var s); reflexivity. Qed.

Lemma add_norm : forall n p h, cleanp p -> add n p h = add n (norm p) h.
Proof. intros n p h [E|[_ F]]; [subst; reflexivity | rewrite norm_nes; auto]. Qed.

Lemma add_cons : forall n s rest h, s <> "" ->
  add n (s :: rest) h =
  match add (match child n s with Some c => c | None => empty_node end) rest h with
  | inl c' => inl (put_child n s c')
  | inr e => inr e
  end.
Proof.
  intros n s rest h NE. cbn [add]. rewrite (neq_eqb_false _ _ NE).
  destruct rest; reflexivity.
Qed.

(* add inserts exactly one pattern, or reports a duplicate, and keeps the trie well-formed *)
Lemma add_getn : forall pat, Forall nonempty pat -> forall n h, node_ok n ->
  match add n pat h with
  | inl n' =>
    getn n pat = None /\ node_ok n' /\
    (forall q, getn n' q = if segs_eqb q pat then Some h else getn n q)
  | inr e => e = ErrDupItem /\ getn n pat <> None
  end.
Proof.
  induction pat as [|s rest IH]; intros F n h OK.
  - cbn [add]. unfold set_item. destruct (item n) eqn:I.
    + split; [reflexivity|]. cbn. congruence.
    + split; [exact I|]. split.
      * destruct OK. constructor; assumption.
      * intros [|q0 q']; cbn; [reflexivity|]. unfold child. destruct n; reflexivity.
  - inversion F as [|? ? NE F']; subst. rewrite add_cons by exact NE.
    set (c := match child n s with Some c => c | None => empty_node end).
    assert (OKc : node_ok c).
    { unfold c. destruct (child n s) eqn:C; [eapply child_ok; eassumption | apply empty_ok]. }
    assert (G : getn n (s :: rest) = getn c rest).
    { cbn. unfold c. destruct (child n s); [reflexivity | symmetry; apply getn_empty]. }
    specialize (IH F' c h OKc). destruct (add c rest h) as [c'|e].
    + destruct IH as [G0 [OK' Q]]. split; [congruence|]. split.
      * apply put_child_ok; assumption.
      * intros [|q0 q']; cbn [getn segs_eqb].
        { apply item_put_child. }
        destruct (q0 =? s) eqn:E.
        { apply String.eqb_eq in E. subst q0. rewrite child_put_same. rewrite Q. cbn.
          destruct (segs_eqb q' rest); [reflexivity|].
          unfold c. destruct (child n s); [reflexivity | apply getn_empty]. }
        { cbn. apply eqb_false_neq in E. rewrite child_put_other by exact E. reflexivity. }
    + destruct IH as [E G0]. split; [exact E | congruence].
Qed.

(* ------------------------------------------------ matching, list level *)

Lemma matches_cons : forall p pat s segs,
  matches (p :: pat) (s :: segs) <-> seg_match p s /\ matches pat segs.
Proof.
  intros. unfold matches. split; intro H.
  - inversion H; subst. split; assumption.
  - destruct H. constructor; assumption.
Qed.

Lemma matches_nil_l : forall segs, matches [] segs -> segs = [].
Proof. intros segs H. inversion H. reflexivity. Qed.

Lemma matches_nil_r : forall pat, matches pat [] -> pat = [].
Proof. intros pat H. inversion H. reflexivity. Qed.

Lemma matches_cons_r : forall pat s segs, matches pat (s :: segs) ->
  exists p pat', pat = p :: pat' /\ seg_match p s /\ matches pat' segs.
Proof. intros pat s segs H. inversion H; subst. eauto. Qed.

Lemma seg_matchb_iff : forall p s, seg_matchb p s = true <-> seg_match p s.
Proof.
  intros p s. unfold seg_matchb, seg_match. destruct (is_var p); cbn.
  - split; auto.
  - rewrite String.eqb_eq. split; [auto | intros [[_ H]|H]; [exact H | discriminate]].
Qed.

Lemma matchesb_iff : forall pat segs, matchesb pat segs = true <-> matches pat segs.
Proof.
  induction pat as [|p pat IH]; destruct segs as [|s segs]; cbn.
  - split; [constructor | reflexivity].
  - split; [discriminate | intro H; inversion H].
  - split; [discriminate | intro H; inversion H].
  - rewrite andb_true_iff, matches_cons, seg_matchb_iff, IH. reflexivity.
Qed.

(* under the side condition two distinct matching patterns are strictly ordered *)
Lemma best_unique : forall p q segs,
  matches p segs -> matches q segs -> compat p q = true ->
  not_worse p q = true -> not_worse q p = true -> p = q.
Proof.
  induction p as [|a p IH]; intros q segs Mp Mq C N1 N2.
  - apply matches_nil_l in Mp. subst. apply matches_nil_r in Mq. congruence.
  - destruct segs as [|s segs]; [inversion Mp|].
    apply matches_cons_r in Mq. destruct Mq as [b [q' [E [Mb Mq]]]]. subst q.
    apply matches_cons in Mp. destruct Mp as [Ma Mp].
    cbn in C, N1, N2. rewrite (String.eqb_sym b a) in N2.
    destruct (a =? b) eqn:E.
    + apply String.eqb_eq in E. subst b. f_equal. eapply IH; eassumption.
    + exfalso. apply eqb_false_neq in E. apply E.
      unfold seg_match in Ma, Mb.
      destruct (is_var a), (is_var b); cbn in C, N1, N2; try discriminate.
      destruct Ma as [[_ Ma]|Ma]; [|discriminate].
      destruct Mb as [[_ Mb]|Mb]; [|discriminate]. congruence.
Qed.

(* ------------------------------------------------ Search, trie level *)

(* the same recursion as [outcomes], without the special cases for the last token *)
Definition kid (s : string) (sub : node -> list (handler * params)) (kv : string * node)
  : list (handler * params) :=
  match match_seg (fst kv) s with
  | Some r => map (fun hp => (fst hp, add_match r (snd hp))) (sub (snd kv))
  | None => []
  end.

Fixpoint outs (n : node) (segs : list string) {struct segs} : list (handler * params) :=
  match segs with
  | [] => match item n with Some h => [(h, [])] | None => [] end
  | s :: rest => for_each n (kid s (fun c => outs c rest))
  end.

Lemma for_each_ext : forall A n (f g : string * node -> list A),
  (forall a, f a = g a) -> for_each n f = for_each n g.
Proof.
  intros A n f g E. unfold for_each.
  rewrite (flat_map_ext _ _ E (lits n)), (flat_map_ext _ _ E (vars n)). reflexivity.
Qed.

Lemma outcomes_outs : forall segs, segs <> [] -> Forall nonempty segs ->
  forall n, outcomes n segs = outs n segs.
Proof.
  induction segs as [|s rest IH]; intros NN F n; [congruence|].
  inversion F as [|? ? NE F']; subst. destruct rest as [|s' rest'].
  - cbn [outcomes outs]. unfold last_step. rewrite (neq_eqb_false _ _ NE).
    apply for_each_ext. intros [k c]. unfold kid. cbn [fst snd outs].
    destruct (match_seg k s); [|reflexivity]. destruct (item c); reflexivity.
  - change (outs n (s :: s' :: rest')) with (for_each n (kid s (fun c => outs c (s' :: rest')))).
    change (outcomes n (s :: s' :: rest')) with
      (for_each n (fun kv => match match_seg (fst kv) s with
                             | Some r => map (fun hp => (fst hp, add_match r (snd hp))) (outcomes (snd kv) (s' :: rest'))
                             | None => []
                             end)).
    apply for_each_ext. intros [k c]. unfold kid. cbn [fst snd].
    rewrite IH; [reflexivity | discriminate | exact F'].
Qed.

Lemma flat_map_nonempty : forall A B (f : A -> list B) l a, In a l -> f a <> [] -> flat_map f l <> [].
Proof.
  intros A B f l a I N E. destruct (f a) as [|b r] eqn:Fa; [congruence|].
  assert (In b (flat_map f l)) as H.
  { apply in_flat_map. exists a. split; [exact I | rewrite Fa; left; reflexivity]. }
  rewrite E in H. exact H.
Qed.

Lemma for_each_in : forall A n (f : string * node -> list A) x, In x (for_each n f) ->
  (exists kc, In kc (lits n) /\ In x (f kc)) \/
  (flat_map f (lits n) = [] /\ exists kc, In kc (vars n) /\ In x (f kc)).
Proof.
  intros A n f x H. unfold for_each in H. destruct (flat_map f (lits n)) eqn:E.
  - right. split; [reflexivity|]. apply in_flat_map. exact H.
  - left. rewrite <- E in H. apply in_flat_map. exact H.
Qed.

Lemma for_each_lit_nonempty : forall A n (f : string * node -> list A) kc,
  In kc (lits n) -> f kc <> [] -> for_each n f <> [].
Proof.
  intros A n f kc I N. pose proof (flat_map_nonempty _ _ f _ _ I N) as H.
  unfold for_each. destruct (flat_map f (lits n)); [congruence | discriminate].
Qed.

Lemma for_each_var_nonempty : forall A n (f : string * node -> list A) kc,
  In kc (vars n) -> f kc <> [] -> for_each n f <> [].
Proof.
  intros A n f kc I N. pose proof (flat_map_nonempty _ _ f _ _ I N) as H.
  unfold for_each. destruct (flat_map f (lits n)); [exact H | discriminate].
Qed.

Lemma kid_lit : forall s sub k c h ps, is_var k = false -> In (h, ps) (kid s sub (k, c)) ->
  k = s /\ In (h, ps) (sub c).
Proof.
  intros s sub k c h ps V I. unfold kid, match_seg in I. cbn [fst snd] in I. rewrite V in I.
  destruct (k =? s) eqn:E; [|contradiction]. apply String.eqb_eq in E. split; [exact E|].
  apply in_map_iff in I. destruct I as [[h0 ps0] [E0 I]]. cbn in E0. congruence.
Qed.

Lemma kid_var : forall s sub k c h ps, is_var k = true -> In (h, ps) (kid s sub (k, c)) ->
  exists ps', ps = set_param (var_name k) s ps' /\ In (h, ps') (sub c).
Proof.
  intros s sub k c h ps V I. unfold kid, match_seg in I. cbn [fst snd] in I. rewrite V in I.
  apply in_map_iff in I. destruct I as [[h0 ps0] [E0 I]]. cbn in E0.
  exists ps0. inversion E0; subst. split; [reflexivity | exact I].
Qed.

Lemma kid_nonempty : forall s sub k c, seg_match k s -> sub c <> [] -> kid s sub (k, c) <> [].
Proof.
  intros s sub k c M N. unfold kid, match_seg. cbn [fst snd].
  destruct M as [[V E]|V]; rewrite V.
  - subst. rewrite String.eqb_refl. intro H. apply map_eq_nil in H. contradiction.
  - intro H. apply map_eq_nil in H. contradiction.
Qed.

(* Search is sound, finds the literal-over-variable best match with its bindings, and is
   complete — for every order in which the children maps may be iterated *)
Lemma outs_spec : forall segs, Forall nonempty segs -> forall n, node_ok n ->
  (forall h ps, In (h, ps) (outs n segs) ->
     exists q, Forall nonempty q /\ getn n q = Some h /\ matches q segs /\ ps = binds q segs /\
       forall q' h', getn n q' = Some h' -> matches q' segs -> not_worse q q' = true)
  /\ (forall q h, getn n q = Some h -> matches q segs -> outs n segs <> []).
Proof.
  induction segs as [|s rest IH]; intros F n OK.
  - split.
    + intros h ps I. cbn in I. destruct (item n) eqn:It; [|contradiction].
      destruct I as [I|[]]. inversion I; subst.
      exists []. split; [constructor|]. split; [exact It|]. split; [constructor|].
      split; [reflexivity|]. intros q' h' _ M. reflexivity.
    + intros q h G M. apply matches_nil_r in M. subst q. cbn in G. cbn. rewrite G. discriminate.
  - inversion F as [|? ? NE F']; subst.
    cbn [outs]. set (sub := fun c => outs c rest).
    (* completeness first: it is needed for the preference argument *)
    assert (COMPLETE : forall q h, getn n q = Some h -> matches q (s :: rest) ->
                                   for_each n (kid s sub) <> []).
    { intros q h G M. apply matches_cons_r in M. destruct M as [q0 [q' [E [M0 M']]]]. subst q.
      cbn in G. destruct (child n q0) as [c|] eqn:C; [|discriminate].
      pose proof (child_ok _ _ _ OK C) as OKc.
      destruct (IH F' c OKc) as [_ IHc]. pose proof (IHc _ _ G M') as N.
      pose proof (kid_nonempty s sub q0 c M0 N) as K.
      apply child_in in C. destruct (is_var q0).
      - eapply for_each_var_nonempty; eassumption.
      - eapply for_each_lit_nonempty; eassumption. }
    split; [|exact COMPLETE].
    intros h ps I. apply for_each_in in I. destruct I as [[[k c] [I K]]|[EL [[k c] [I K]]]].
    + (* found under a literal child *)
      destruct (lit_child _ _ _ OK I) as [V [NEk [OKc C]]].
      apply kid_lit in K; [|exact V]. destruct K as [E K]. subst k.
      destruct (IH F' c OKc) as [IHs _]. destruct (IHs _ _ K) as [q [Fq [G [M [B W]]]]].
      exists (s :: q). split; [constructor; assumption|]. split; [cbn; rewrite C; exact G|].
      split; [apply matches_cons; split; [left; split; [exact V | reflexivity] | exact M]|].
      split; [cbn; rewrite V; exact B|].
      intros q' h' G' M'. apply matches_cons_r in M'. destruct M' as [p0 [p' [E [M0 M']]]]. subst q'.
      cbn. destruct (s =? p0) eqn:E.
      * apply String.eqb_eq in E. subst p0. cbn in G'. rewrite C in G'. eapply W; eassumption.
      * rewrite V. reflexivity.
    + (* no literal child succeeds; found under a variable child *)
      destruct (var_child _ _ _ OK I) as [V [OKc C]].
      apply kid_var in K; [|exact V]. destruct K as [ps' [Eps K]].
      destruct (IH F' c OKc) as [IHs _]. destruct (IHs _ _ K) as [q [Fq [G [M [B W]]]]].
      exists (k :: q). split; [constructor; [apply is_var_nonempty; exact V | assumption]|].
      split; [cbn; rewrite C; exact G|].
      split; [apply matches_cons; split; [right; exact V | exact M]|].
      split; [cbn; rewrite V; congruence|].
      intros q' h' G' M'. apply matches_cons_r in M'. destruct M' as [p0 [p' [E [M0 M']]]]. subst q'.
      cbn. destruct (k =? p0) eqn:E.
      * apply String.eqb_eq in E. subst p0. cbn in G'. rewrite C in G'. eapply W; eassumption.
      * rewrite V. cbn. destruct (is_var p0) eqn:V0; [reflexivity|]. exfalso.
        (* a matching literal sibling would have been found first *)
        cbn in G'. destruct (child n p0) as [c0|] eqn:C0; [|discriminate].
        pose proof (child_ok _ _ _ OK C0) as OKc0.
        destruct (IH F' c0 OKc0) as [_ IHc]. pose proof (IHc _ _ G' M') as N.
        pose proof (kid_nonempty s sub p0 c0 M0 N) as K0.
        apply child_in in C0. rewrite V0 in C0.
        exact (flat_map_nonempty _ _ _ _ _ C0 K0 EL).
Qed.

Lemma matches_single : forall q s, matches q [s] -> exists p, q = [p] /\ seg_match p s.
Proof.
  intros q s M. apply matches_cons_r in M. destruct M as [p [q' [E [M0 M']]]].
  apply matches_nil_r in M'. subst. eauto.
Qed.

Lemma seg_match_lit_empty : forall p, seg_match p "" -> is_var p = false -> p = "".
Proof. intros p [[_ E]|V] V0; [exact E | congruence]. Qed.

(* Tree.Search on a cleaned path, stated for cleaned patterns ([has]) *)
Lemma search_spec : forall n segs, node_ok n -> cleanp segs ->
  (forall h ps, In (h, ps) (outcomes n segs) ->
     exists q, cleanp q /\ has n q h /\ matches q segs /\ ps = binds q segs /\
       forall q' h', cleanp q' -> has n q' h' -> matches q' segs -> not_worse q q' = true)
  /\ (forall q h, cleanp q -> has n q h -> matches q segs -> outcomes n segs <> []).
Proof.
  intros n segs OK [E|[NN F]].
  - (* the root path *)
    subst segs. change (outcomes n [""]) with (last_step n ""). unfold last_step.
    rewrite String.eqb_refl. destruct (item n) as [h0|] eqn:It.
    + split.
      * intros h ps [I|[]]. inversion I; subst. exists [""].
        split; [left; reflexivity|]. split; [exact It|]. split; [constructor; [left; split; reflexivity | constructor]|].
        split; [reflexivity|]. intros q' h' _ _ M. apply matches_single in M.
        destruct M as [p [E _]]. subst q'. cbn. destruct p; reflexivity.
      * intros. discriminate.
    + set (G := fun kv : string * node =>
                  match match_seg (fst kv) "", item (snd kv) with
                  | Some r, Some h => [(h, add_match r [])]
                  | _, _ => []
                  end).
      split.
      * intros h ps I. apply for_each_in in I. destruct I as [[[k c] [I K]]|[_ [[k c] [I K]]]].
        { exfalso. destruct (lit_child _ _ _ OK I) as [V [NEk _]].
          unfold G, match_seg in K. cbn [fst snd] in K. rewrite V, (neq_eqb_false _ _ NEk) in K. exact K. }
        destruct (var_child _ _ _ OK I) as [V [OKc C]].
        unfold G, match_seg in K. cbn [fst snd] in K. rewrite V in K.
        destruct (item c) as [hc|] eqn:Ic; [|contradiction]. destruct K as [K|[]]. inversion K; subst.
        pose proof (is_var_nonempty _ V) as NEk.
        assert (Nk : norm [k] = [k]) by (apply norm_nes; repeat constructor; exact NEk).
        exists [k]. split; [right; split; [discriminate | repeat constructor; exact NEk]|].
        split; [unfold has; rewrite Nk; cbn; rewrite C; exact Ic|].
        split; [constructor; [right; exact V | constructor]|].
        split; [cbn; rewrite V; reflexivity|].
        intros q' h' _ H' M. apply matches_single in M. destruct M as [p [E M]]. subst q'.
        cbn. destruct (k =? p) eqn:E; [reflexivity|]. rewrite V. cbn.
        destruct (is_var p) eqn:Vp; [reflexivity|]. exfalso.
        apply seg_match_lit_empty in M; [|exact Vp]. subst p. unfold has in H'. cbn in H'. congruence.
      * intros q h _ H M. apply matches_single in M. destruct M as [p [E M]]. subst q.
        destruct (is_var p) eqn:Vp.
        { pose proof (is_var_nonempty _ Vp) as NEp.
          unfold has in H. rewrite norm_nes in H by (repeat constructor; exact NEp).
          cbn in H. destruct (child n p) as [c|] eqn:C; [|discriminate].
          apply child_in in C. rewrite Vp in C.
          apply (for_each_var_nonempty _ n G (p, c) C).
          unfold G, match_seg. cbn [fst snd]. rewrite Vp, H. discriminate. }
        { apply seg_match_lit_empty in M; [|exact Vp]. subst p. unfold has in H. cbn in H. congruence. }
  - (* at least one segment, none empty *)
    rewrite outcomes_outs by assumption.
    destruct (outs_spec segs F n OK) as [S C].
    assert (NES : forall q', cleanp q' -> matches q' segs -> norm q' = q').
    { intros q' [E|[_ Fq]] M; [|apply norm_nes; exact Fq]. subst q'. exfalso.
      destruct segs as [|s segs]; [congruence|]. apply matches_cons in M. destruct M as [M _].
      inversion F; subst. destruct M as [[_ E]|V]; [congruence | discriminate]. }
    split.
    + intros h ps I. destruct (S _ _ I) as [q [Fq [G [M [B W]]]]].
      exists q. assert (q <> []) as Nq.
      { intro E. subst q. apply matches_nil_l in M. contradiction. }
      split; [right; split; assumption|]. split; [unfold has; rewrite norm_nes; assumption|].
      split; [exact M|]. split; [exact B|].
      intros q' h' Cq' H' M'. unfold has in H'. rewrite (NES _ Cq' M') in H'. eapply W; eassumption.
    + intros q h Cq H M. unfold has in H. rewrite (NES _ Cq M) in H. eapply C; eassumption.
Qed.

Lemma outcomes_empty_node : forall segs, outcomes empty_node segs = [].
Proof. intros [|s [|s' rest]]; cbn; unfold last_step; try destruct (s =? ""); reflexivity. Qed.

(* ------------------------------------------------------------ path.Clean *)

Lemma clean_step_nonempty : forall st s, Forall nonempty st -> Forall nonempty (clean_step st s).
Proof.
  intros st s F. unfold clean_step. destruct (s =? "") eqn:E1; cbn; [exact F|].
  destruct (s =? "."); cbn; [exact F|]. destruct (s =? "..").
  - destruct st; [exact F | inversion F; assumption].
  - constructor; [apply eqb_false_neq; exact E1 | exact F].
Qed.

Lemma fold_clean_nonempty : forall l st, Forall nonempty st -> Forall nonempty (fold_left clean_step l st).
Proof.
  induction l as [|s l IH]; intros st F; cbn; [exact F|]. apply IH. apply clean_step_nonempty. exact F.
Qed.

Lemma clean_segs_cleanp : forall l, cleanp (clean_segs l).
Proof.
  intro l. unfold clean_segs. pose proof (fold_clean_nonempty l [] (Forall_nil _)) as F.
  destruct (fold_left clean_step l []) as [|x st] eqn:E; [left; reflexivity|].
  right. split.
  - intro H. apply (f_equal (@List.length string)) in H. rewrite rev_length in H. discriminate.
  - apply Forall_rev. exact F.
Qed.

Lemma clean_path_cleanp : forall p segs, clean_path p = Some segs -> cleanp segs.
Proof.
  intros p segs H. unfold clean_path in H. destruct p as [|c t]; [discriminate|].
  destruct (Ascii.eqb c slash); [|discriminate]. inversion H. apply clean_segs_cleanp.
Qed.

Lemma clean_path_none : forall p, clean_path p = None <->
  (p = "" \/ exists c t, p = String c t /\ c <> slash).
Proof.
  intro p. unfold clean_path. destruct p as [|c t].
  - split; auto.
  - destruct (Ascii.eqb c slash) eqn:E.
    + apply Ascii.eqb_eq in E. split; [discriminate|]. intros [H|[c' [t' [H N]]]]; [discriminate|].
      inversion H; subst. contradiction.
    + apply Ascii.eqb_neq in E. split; [|reflexivity]. intros _. right. eauto.
Qed.

(* ------------------------------------------------- the router invariant *)

Definition tree_of (r : router) (m : string) : node :=
  match assoc m (trees r) with Some t => t | None => empty_node end.

(* the per-method tries represent exactly the table of accepted routes *)
Record Inv (r : router) (T : table) : Prop := mkInv
  { inv_nodup : NoDup (map fst (trees r));
    inv_ok : forall m, node_ok (tree_of r m);
    inv_has : forall m q h, cleanp q -> (has (tree_of r m) q h <-> In (mkRoute m q h) T);
    inv_clean : forall t, In t T -> cleanp (tpat t) }.

Lemma inv_init : forall nf na, Inv (new_router nf na) [].
Proof.
  intros nf na. constructor.
  - constructor.
  - intro m. apply empty_ok.
  - intros m q h _. unfold tree_of, has. cbn. rewrite getn_empty. split; [discriminate | contradiction].
  - intros t [].
Qed.

Lemma dup_iff : forall T m pat,
  existsb (same_route m pat) T = true <-> exists h0, In (mkRoute m pat h0) T.
Proof.
  intros T m pat. rewrite existsb_exists. split.
  - intros [[m' pat' h'] [I S]]. unfold same_route in S. cbn in S.
    apply andb_true_iff in S. destruct S as [S1 S2].
    apply String.eqb_eq in S1. apply segs_eqb_eq in S2. subst. eauto.
  - intros [h0 I]. exists (mkRoute m pat h0). split; [exact I|].
    unfold same_route. cbn. rewrite String.eqb_refl, segs_eqb_refl. reflexivity.
Qed.

Lemma tree_of_put : forall r m t' m',
  tree_of (mkRouter (put m t' (trees r)) (custom_nf r) (custom_na r)) m' =
  if m' =? m then t' else tree_of r m'.
Proof.
  intros r m t' m'. unfold tree_of. cbn [trees]. destruct (m' =? m) eqn:E.
  - apply String.eqb_eq in E. subst. rewrite assoc_put_same. reflexivity.
  - apply eqb_false_neq in E. rewrite assoc_put_other by exact E. reflexivity.
Qed.

(* one Handle call: the answer is the one the route list prescribes, the invariant is kept
   for the extended table, and a rejected call changes nothing *)
Lemma handle_spec : forall r T m p h, Inv r T ->
  snd (handle r m p h) = reg_spec T m p /\
  Inv (fst (handle r m p h)) (table_step T (mkReg m p h)) /\
  custom_nf (fst (handle r m p h)) = custom_nf r /\
  custom_na (fst (handle r m p h)) = custom_na r /\
  (snd (handle r m p h) <> RegOk -> fst (handle r m p h) = r).
Proof.
  intros r T m p h I. unfold handle, table_step. cbn [rmethod rpath rhandler]. unfold reg_spec.
  destruct (negb (valid_method m)) eqn:VM; cbn [fst snd]; [auto|].
  destruct (clean_path p) as [pat|] eqn:CP; cbn [fst snd]; [|auto].
  pose proof (clean_path_cleanp _ _ CP) as Cpat.
  fold (tree_of r m). set (t := tree_of r m).
  pose proof (add_getn (norm pat) (norm_clean _ Cpat) t h (inv_ok _ _ I m)) as A.
  rewrite (add_norm _ _ _ Cpat). destruct (add t (norm pat) h) as [t'|e].
  - destruct A as [G [OK' Q]].
    assert (EX : existsb (same_route m pat) T = false).
    { destruct (existsb (same_route m pat) T) eqn:EX; [|reflexivity]. exfalso.
      apply dup_iff in EX. destruct EX as [h0 I0].
      apply (inv_has _ _ I m pat h0 Cpat) in I0. unfold has in I0. fold t in I0. congruence. }
    rewrite EX. cbn [fst snd]. split; [reflexivity|]. split; [|split; [reflexivity|split; [reflexivity|congruence]]].
    constructor.
    + cbn [trees]. apply put_nodup. apply (inv_nodup _ _ I).
    + intro m'. rewrite tree_of_put. destruct (m' =? m); [exact OK' | apply (inv_ok _ _ I)].
    + intros m' q h' Cq. rewrite tree_of_put. rewrite in_app_iff. cbn [In].
      destruct (m' =? m) eqn:E.
      * apply String.eqb_eq in E. subst m'. unfold has. rewrite Q.
        destruct (segs_eqb (norm q) (norm pat)) eqn:S.
        { apply segs_eqb_eq in S. apply norm_inj in S; [|assumption|assumption]. subst q. split.
          - intro H. right. left. congruence.
          - intros [H|[H|[]]]; [|congruence]. exfalso.
            apply (inv_has _ _ I m pat h' Cpat) in H. unfold has in H. fold t in H. congruence. }
        { split.
          - intro H. left. apply (inv_has _ _ I m q h' Cq). exact H.
          - intros [H|[H|[]]]; [apply (inv_has _ _ I m q h' Cq); exact H|]. exfalso.
            inversion H; subst. rewrite segs_eqb_refl in S. discriminate. }
      * apply eqb_false_neq in E. split.
        { intro H. left. apply (inv_has _ _ I m' q h' Cq). exact H. }
        { intros [H|[H|[]]]; [apply (inv_has _ _ I m' q h' Cq); exact H|]. inversion H; subst. congruence. }
    + intros t0 H. apply in_app_iff in H. destruct H as [H|[H|[]]]; [apply (inv_clean _ _ I); exact H|].
      subst t0. exact Cpat.
  - destruct A as [E G]. subst e. cbn [fst snd].
    assert (EX : existsb (same_route m pat) T = true).
    { apply dup_iff. destruct (getn t (norm pat)) as [h0|] eqn:G0; [|congruence].
      exists h0. apply (inv_has _ _ I m pat h0 Cpat). exact G0. }
    rewrite EX. auto.
Qed.

Lemma build_spec : forall regs r T, Inv r T ->
  Inv (build r regs) (fold_left table_step regs T) /\
  build_results r regs = reg_results T regs /\
  custom_nf (build r regs) = custom_nf r /\ custom_na (build r regs) = custom_na r.
Proof.
  induction regs as [|g regs IH]; intros r T I; cbn.
  - auto.
  - destruct g as [m p h]. unfold handle_reg. cbn [rmethod rpath rhandler].
    destruct (handle_spec r T m p h I) as [R [I' [NF [NA _]]]].
    destruct (IH _ _ I') as [I'' [BR [NF' NA']]].
    split; [exact I''|]. split; [rewrite R, BR; reflexivity|]. split; congruence.
Qed.

(* --------------------------------------------------------------- ServeHTTP *)

Lemma route_eta : forall t, t = mkRoute (tm t) (tpat t) (th t).
Proof. destruct t; reflexivity. Qed.

Lemma own_outcomes_eq : forall r m segs,
  match assoc m (trees r) with Some t => outcomes t segs | None => [] end = outcomes (tree_of r m) segs.
Proof.
  intros. unfold tree_of. destruct (assoc m (trees r)); [reflexivity | symmetry; apply outcomes_empty_node].
Qed.

Lemma own_search_eq : forall r m segs,
  match assoc m (trees r) with Some t => search t segs | None => None end = search (tree_of r m) segs.
Proof.
  intros. unfold tree_of. destruct (assoc m (trees r)); [reflexivity|].
  unfold search. rewrite outcomes_empty_node. reflexivity.
Qed.

Lemma dispatch_sound : forall r T m segs h ps, Inv r T -> cleanp segs ->
  In (h, ps) (outcomes (tree_of r m) segs) ->
  exists t, is_best T m segs t /\ th t = h /\ ps = binds (tpat t) segs.
Proof.
  intros r T m segs h ps I C H.
  destruct (search_spec _ _ (inv_ok _ _ I m) C) as [S _].
  destruct (S _ _ H) as [q [Cq [Hq [M [B W]]]]].
  exists (mkRoute m q h). split; [|split; [reflexivity | exact B]].
  split; [apply (inv_has _ _ I m q h Cq); exact Hq|]. split; [reflexivity|]. split; [exact M|].
  intros t' I' E' M'. cbn. apply (W (tpat t') (th t')).
  - apply (inv_clean _ _ I). exact I'.
  - apply (inv_has _ _ I m); [apply (inv_clean _ _ I); exact I'|].
    subst m. rewrite <- route_eta. exact I'.
  - exact M'.
Qed.

Lemma dispatch_complete : forall r T m segs t, Inv r T -> cleanp segs ->
  In t T -> tm t = m -> matches (tpat t) segs -> outcomes (tree_of r m) segs <> [].
Proof.
  intros r T m segs t I C H E M.
  destruct (search_spec _ _ (inv_ok _ _ I m) C) as [_ S].
  apply (S (tpat t) (th t)).
  - apply (inv_clean _ _ I). exact H.
  - apply (inv_has _ _ I m); [apply (inv_clean _ _ I); exact H|]. subst m. rewrite <- route_eta. exact H.
  - exact M.
Qed.

Lemma wf_compat : forall T t1 t2, one_var_name_per_position T = true ->
  In t1 T -> In t2 T -> tm t1 = tm t2 -> compat (tpat t1) (tpat t2) = true.
Proof.
  intros T t1 t2 W I1 I2 E. unfold one_var_name_per_position in W.
  rewrite forallb_forall in W. specialize (W _ I1). rewrite forallb_forall in W. specialize (W _ I2).
  rewrite E, String.eqb_refl in W. exact W.
Qed.

(* inside the side condition there is exactly one best route *)
Lemma is_best_unique : forall r T m segs t1 t2, Inv r T -> cleanp segs ->
  one_var_name_per_position T = true ->
  is_best T m segs t1 -> is_best T m segs t2 -> t1 = t2.
Proof.
  intros r T m segs t1 t2 I C W [I1 [E1 [M1 B1]]] [I2 [E2 [M2 B2]]].
  assert (P : tpat t1 = tpat t2).
  { eapply best_unique; try eassumption.
    - apply (wf_compat T); try assumption. congruence.
    - apply B1; assumption.
    - apply B2; assumption. }
  assert (H1 : has (tree_of r m) (tpat t1) (th t1)).
  { apply (inv_has _ _ I m); [apply (inv_clean _ _ I); exact I1|]. subst m. rewrite <- route_eta. exact I1. }
  assert (H2 : has (tree_of r m) (tpat t2) (th t2)).
  { apply (inv_has _ _ I m); [apply (inv_clean _ _ I); exact I2|]. rewrite <- E2. rewrite <- route_eta. exact I2. }
  unfold has in H1, H2. rewrite P in H1. rewrite H1 in H2. inversion H2.
  rewrite (route_eta t1), (route_eta t2). congruence.
Qed.

Lemma nodup_map_filter : forall A (f : string * A -> bool) l,
  NoDup (map fst l) -> NoDup (map fst (filter f l)).
Proof.
  induction l as [|x l IH]; cbn; intro ND; [constructor|].
  apply NoDup_cons_iff in ND. destruct ND as [NI ND]. destruct (f x); cbn.
  - constructor; [|apply IH; exact ND]. intro H. apply NI.
    apply in_map_iff in H. destruct H as [y [E H]]. apply filter_In in H.
    apply in_map_iff. exists y. split; [exact E | apply H].
  - apply IH. exact ND.
Qed.

Lemma search_some_iff : forall t segs,
  (match search t segs with Some _ => true | None => false end) = true <-> outcomes t segs <> [].
Proof.
  intros t segs. unfold search. destruct (outcomes t segs); cbn; split; congruence.
Qed.

(* methodsAllowed: exactly the other methods that have a matching route, each once *)
Lemma methods_allowed_spec : forall r T m segs, Inv r T -> cleanp segs ->
  NoDup (methods_allowed r m segs) /\
  forall m', In m' (methods_allowed r m segs) <->
             (m' <> m /\ exists t, In t T /\ tm t = m' /\ matches (tpat t) segs).
Proof.
  intros r T m segs I C. unfold methods_allowed. split.
  - apply nodup_map_filter. apply (inv_nodup _ _ I).
  - intro m'. rewrite in_map_iff. split.
    + intros [[m0 t0] [E H]]. cbn in E. subst m0. apply filter_In in H. destruct H as [H P].
      cbn [fst snd] in P. apply andb_true_iff in P. destruct P as [P1 P2].
      apply negb_true_iff in P1. apply eqb_false_neq in P1. split; [exact P1|].
      apply search_some_iff in P2.
      assert (TO : tree_of r m' = t0).
      { unfold tree_of. rewrite (in_assoc _ _ _ (inv_nodup _ _ I) H). reflexivity. }
      rewrite <- TO in P2. destruct (outcomes (tree_of r m') segs) as [|[h ps] l] eqn:O; [congruence|].
      destruct (dispatch_sound r T m' segs h ps I C) as [t [[It [Et [Mt _]]] _]].
      { rewrite O. left. reflexivity. }
      exists t. auto.
    + intros [N [t [It [Et Mt]]]].
      pose proof (dispatch_complete r T m' segs t I C It Et Mt) as O.
      unfold tree_of in O. destruct (assoc m' (trees r)) as [t0|] eqn:A.
      * exists (m', t0). split; [reflexivity|]. apply filter_In. split; [apply assoc_in; exact A|].
        cbn [fst snd]. apply andb_true_iff. split.
        { apply negb_true_iff. apply neq_eqb_false. exact N. }
        { apply search_some_iff. exact O. }
      * rewrite outcomes_empty_node in O. congruence.
Qed.

Lemma allowed_cases : forall r T m p segs resp, Inv r T -> clean_path p = Some segs ->
  In resp (serve_allowed r m p) -> resp_ok T (custom_nf r) (custom_na r) m segs resp.
Proof.
  intros r T m p segs resp I CP H. pose proof (clean_path_cleanp _ _ CP) as C.
  unfold serve_allowed in H. rewrite CP, own_outcomes_eq in H.
  destruct (outcomes (tree_of r m) segs) as [|x l] eqn:O.
  - destruct H as [H|[]]. subst resp.
    assert (NO : no_own T m segs).
    { intros t It Et Mt. apply (dispatch_complete r T m segs t I C It Et Mt). exact O. }
    destruct (methods_allowed_spec r T m segs I C) as [ND AL].
    unfold fallback. destruct (methods_allowed r m segs) as [|a al] eqn:MA.
    + assert (NM : forall t, In t T -> ~ matches (tpat t) segs).
      { intros t It Mt. destruct (String.eqb_spec (tm t) m) as [E|N].
        - exact (NO t It E Mt).
        - apply (proj2 (AL (tm t))). split; [exact N|]. exists t. auto. }
      unfold not_found. destruct (custom_nf r); cbn; auto.
    + destruct (custom_na r) eqn:NA; cbn.
      * split; [reflexivity|]. split; [exact NO|].
        destruct (proj1 (AL a) (or_introl eq_refl)) as [N [t [It [Et Mt]]]].
        exists t. split; [exact It|]. split; [congruence | exact Mt].
      * split; [reflexivity|]. split; [exact NO|]. split; [discriminate|]. split; [exact ND | exact AL].
  - rewrite <- O in H. apply in_map_iff in H. destruct H as [[h ps] [E H]]. subst resp. cbn.
    eapply dispatch_sound; eassumption.
Qed.

Lemma serve_in_allowed : forall r m p, In (serve r m p) (serve_allowed r m p).
Proof.
  intros r m p. unfold serve, serve_allowed. destruct (clean_path p) as [segs|]; [|left; reflexivity].
  rewrite own_outcomes_eq, own_search_eq. unfold search.
  destruct (outcomes (tree_of r m) segs) as [|[h ps] l]; cbn; left; reflexivity.
Qed.

(* inside the side condition the response does not depend on Go's map iteration order *)
Lemma order_irrelevant : forall r T m p resp, Inv r T ->
  one_var_name_per_position T = true ->
  In resp (serve_allowed r m p) -> resp = serve r m p.
Proof.
  intros r T m p resp I W H.
  destruct (clean_path p) as [segs|] eqn:CP.
  - pose proof (clean_path_cleanp _ _ CP) as C.
    pose proof (allowed_cases r T m p segs resp I CP H) as R1.
    pose proof (allowed_cases r T m p segs _ I CP (serve_in_allowed r m p)) as R2.
    unfold serve_allowed in H. unfold serve in *. rewrite CP in *.
    rewrite own_outcomes_eq in H. rewrite own_search_eq in *. unfold search in *.
    destruct (outcomes (tree_of r m) segs) as [|[h0 ps0] l] eqn:O.
    + destruct H as [H|[]]. subst resp. reflexivity.
    + cbn [hd_error] in *. apply in_map_iff in H. destruct H as [[h ps] [E _]]. subst resp.
      cbn in R1, R2. destruct R1 as [t1 [B1 [E1 P1]]]. destruct R2 as [t2 [B2 [E2 P2]]].
      assert (t1 = t2) by (eapply is_best_unique; eassumption). subst t2. cbn. congruence.
  - unfold serve_allowed in H. unfold serve. rewrite CP in *. destruct H as [H|[]]. congruence.
Qed.

(* variables: with pairwise distinct names in the pattern, the delivered map is the plain
   list of (name, segment) pairs *)
Lemma set_param_fresh : forall k v ps, ~ In k (map fst ps) -> set_param k v ps = (k, v) :: ps.
Proof.
  intros k v ps N. unfold set_param. f_equal.
  induction ps as [|[k' v'] ps IH]; cbn; [reflexivity|].
  cbn in N. destruct (k' =? k) eqn:E.
  - apply String.eqb_eq in E. exfalso. apply N. left. exact E.
  - cbn. f_equal. apply IH. intro H. apply N. right. exact H.
Qed.

Lemma raw_binds_keys : forall pat segs, matches pat segs -> map fst (raw_binds pat segs) = var_names pat.
Proof.
  induction pat as [|p pat IH]; intros segs M.
  - reflexivity.
  - destruct segs as [|s segs]; [inversion M|]. apply matches_cons in M. destruct M as [_ M].
    unfold var_names. cbn. destruct (is_var p); cbn; [f_equal|]; apply IH; exact M.
Qed.

Lemma binds_raw : forall pat segs, matches pat segs -> NoDup (var_names pat) ->
  binds pat segs = raw_binds pat segs.
Proof.
  induction pat as [|p pat IH]; intros segs M ND.
  - reflexivity.
  - destruct segs as [|s segs]; [inversion M|]. apply matches_cons in M. destruct M as [_ M].
    unfold var_names in ND. cbn in *. destruct (is_var p) eqn:V; cbn in ND.
    + apply NoDup_cons_iff in ND. destruct ND as [NI ND]. rewrite (IH _ M ND).
      apply set_param_fresh. rewrite raw_binds_keys by exact M. exact NI.
    + apply IH; assumption.
Qed.

(* ------------------------------------------ statements used by Props.v *)

Lemma router_inv : forall nf na regs, Inv (router_of nf na regs) (table_of regs).
Proof. intros. apply (build_spec regs _ _ (inv_init nf na)). Qed.

Lemma router_flags : forall nf na regs,
  custom_nf (router_of nf na regs) = nf /\ custom_na (router_of nf na regs) = na.
Proof. intros. destruct (build_spec regs _ _ (inv_init nf na)) as [_ [_ [A B]]]. split; assumption. Qed.

Lemma build_app : forall regs r g, build r (regs ++ [g]) = fst (handle_reg (build r regs) g).
Proof. induction regs as [|g0 regs IH]; intros r g; cbn; [reflexivity | apply IH]. Qed.

Lemma L_trie_represents_routes : forall nf na regs m q h, cleanp q ->
  (has (tree_of (router_of nf na regs) m) q h <-> In (mkRoute m q h) (table_of regs)).
Proof. intros. apply (inv_has _ _ (router_inv nf na regs)). assumption. Qed.

Lemma L_registration_rejects : forall nf na regs m p h,
  let r := router_of nf na regs in
  let T := table_of regs in
  snd (handle r m p h) = reg_spec T m p /\
  (snd (handle r m p h) <> RegOk -> fst (handle r m p h) = r) /\
  fst (handle r m p h) = router_of nf na (regs ++ [mkReg m p h]) /\
  table_of (regs ++ [mkReg m p h]) = table_step T (mkReg m p h).
Proof.
  intros nf na regs m p h r T.
  destruct (handle_spec r T m p h (router_inv nf na regs)) as [R [_ [_ [_ U]]]].
  split; [exact R|]. split; [exact U|]. split.
  - unfold router_of. rewrite build_app. reflexivity.
  - unfold table_of. rewrite fold_left_app. reflexivity.
Qed.

Lemma L_registration_history : forall nf na regs,
  build_results (new_router nf na) regs = reg_results [] regs.
Proof. intros. apply (build_spec regs _ _ (inv_init nf na)). Qed.

Lemma L_reg_spec_cases : forall T m p,
  (reg_spec T m p = RegInvalidMethod <-> valid_method m = false) /\
  (reg_spec T m p = RegInvalidPath <->
     valid_method m = true /\ (p = "" \/ exists c t, p = String c t /\ c <> slash)) /\
  (reg_spec T m p = RegDuplicate <->
     valid_method m = true /\ exists pat h0, clean_path p = Some pat /\ In (mkRoute m pat h0) T) /\
  (reg_spec T m p = RegOk <->
     valid_method m = true /\ exists pat, clean_path p = Some pat /\ forall h0, ~ In (mkRoute m pat h0) T) /\
  reg_spec T m p <> RegOther.
Proof.
  intros T m p. unfold reg_spec. pose proof (clean_path_none p) as CN.
  destruct (valid_method m); cbn [negb].
  2: { split; [tauto|].
       split; [split; [discriminate | intros [H _]; discriminate]|].
       split; [split; [discriminate | intros [H _]; discriminate]|].
       split; [split; [discriminate | intros [H _]; discriminate] | discriminate]. }
  destruct (clean_path p) as [pat|] eqn:CP.
  - pose proof (dup_iff T m pat) as D. destruct (existsb (same_route m pat) T).
    + destruct (proj1 D eq_refl) as [h0 I0].
      split; [split; discriminate|].
      split; [split; [discriminate | intros [_ H]; apply CN in H; discriminate]|].
      split; [split; [intros _; split; [reflexivity | exists pat, h0; auto] | reflexivity]|].
      split; [|discriminate].
      split; [discriminate|]. intros [_ [pat' [E N]]]. inversion E; subst. exfalso. exact (N h0 I0).
    + assert (ND : forall h0, ~ In (mkRoute m pat h0) T).
      { intros h0 I0. assert (false = true) by (apply D; eauto). discriminate. }
      split; [split; discriminate|].
      split; [split; [discriminate | intros [_ H]; apply CN in H; discriminate]|].
      split; [split; [discriminate|]|].
      { intros [_ [pat' [h0 [E I0]]]]. inversion E; subst. exfalso. exact (ND h0 I0). }
      split; [|discriminate].
      split; [|reflexivity]. intros _. split; [reflexivity|]. exists pat. auto.
  - split; [split; discriminate|].
    split; [split; [intros _; split; [reflexivity | apply CN; reflexivity] | reflexivity]|].
    split; [split; [discriminate | intros [_ [pat [h0 [E _]]]]; discriminate]|].
    split; [split; [discriminate | intros [_ [pat [E _]]]; discriminate] | discriminate].
Qed.

Lemma L_allowed_cases : forall nf na regs m p segs resp,
  clean_path p = Some segs ->
  In resp (serve_allowed (router_of nf na regs) m p) ->
  resp_ok (table_of regs) nf na m segs resp.
Proof.
  intros nf na regs m p segs resp CP H.
  pose proof (allowed_cases _ _ m p segs resp (router_inv nf na regs) CP H) as R.
  destruct (router_flags nf na regs) as [A B]. rewrite A, B in R. exact R.
Qed.

Lemma L_serve_cases : forall nf na regs m p segs,
  clean_path p = Some segs ->
  resp_ok (table_of regs) nf na m segs (serve (router_of nf na regs) m p).
Proof. intros. eapply L_allowed_cases; [eassumption | apply serve_in_allowed]. Qed.

Lemma L_map_order_irrelevant : forall nf na regs m p resp,
  one_var_name_per_position (table_of regs) = true ->
  In resp (serve_allowed (router_of nf na regs) m p) -> resp = serve (router_of nf na regs) m p.
Proof. intros. eapply order_irrelevant; [apply router_inv | eassumption | assumption]. Qed.

Lemma L_dispatch_iff_match : forall nf na regs m p segs,
  clean_path p = Some segs ->
  let r := router_of nf na regs in
  let T := table_of regs in
  ((exists h ps, In (RHandler h ps) (serve_allowed r m p)) <->
   (exists t, In t T /\ tm t = m /\ matches (tpat t) segs)) /\
  ((exists h ps, serve r m p = RHandler h ps) <->
   (exists t, In t T /\ tm t = m /\ matches (tpat t) segs)).
Proof.
  intros nf na regs m p segs CP r T.
  assert (FWD : forall h ps, In (RHandler h ps) (serve_allowed r m p) ->
                exists t, In t T /\ tm t = m /\ matches (tpat t) segs).
  { intros h ps H. pose proof (L_allowed_cases nf na regs m p segs _ CP H) as R. cbn in R.
    destruct R as [t [[I [E [M _]]] _]]. exists t. auto. }
  assert (BWD : (exists t, In t T /\ tm t = m /\ matches (tpat t) segs) ->
                exists h ps, serve r m p = RHandler h ps).
  { intros [t [I [E M]]].
    pose proof (dispatch_complete r T m segs t (router_inv nf na regs) (clean_path_cleanp _ _ CP) I E M) as O.
    unfold serve. rewrite CP, own_search_eq. unfold search.
    destruct (outcomes (tree_of r m) segs) as [|[h ps] l]; [congruence|]. cbn. eauto. }
  split; split.
  - intros [h [ps H]]. eapply FWD; eassumption.
  - intro H. destruct (BWD H) as [h [ps E]]. exists h, ps. rewrite <- E. apply serve_in_allowed.
  - intros [h [ps E]]. apply (FWD h ps). rewrite <- E. apply serve_in_allowed.
  - exact BWD.
Qed.

Lemma L_chosen_is_best : forall nf na regs m p segs h ps,
  clean_path p = Some segs ->
  In (RHandler h ps) (serve_allowed (router_of nf na regs) m p) ->
  exists t, is_best (table_of regs) m segs t /\ th t = h.
Proof.
  intros nf na regs m p segs h ps CP H.
  pose proof (L_allowed_cases nf na regs m p segs _ CP H) as R. cbn in R.
  destruct R as [t [B [E _]]]. exists t. auto.
Qed.

Lemma L_best_is_unique : forall regs m p segs t1 t2,
  clean_path p = Some segs ->
  one_var_name_per_position (table_of regs) = true ->
  is_best (table_of regs) m segs t1 -> is_best (table_of regs) m segs t2 -> t1 = t2.
Proof.
  intros regs m p segs t1 t2 C W B1 B2.
  eapply is_best_unique; try eassumption; [apply (router_inv false false regs) | eapply clean_path_cleanp; eassumption].
Qed.

Lemma L_params_exact : forall nf na regs m p segs t h ps,
  clean_path p = Some segs ->
  one_var_name_per_position (table_of regs) = true ->
  is_best (table_of regs) m segs t ->
  In (RHandler h ps) (serve_allowed (router_of nf na regs) m p) ->
  h = th t /\ ps = binds (tpat t) segs.
Proof.
  intros nf na regs m p segs t h ps CP W B H.
  pose proof (L_allowed_cases nf na regs m p segs _ CP H) as R. cbn in R.
  destruct R as [t' [B' [E P]]].
  assert (t' = t).
  { eapply is_best_unique; try eassumption; [apply (router_inv nf na regs) | eapply clean_path_cleanp; eassumption]. }
  subst t'. auto.
Qed.

Lemma L_not_found_iff : forall nf na regs m p segs,
  clean_path p = Some segs ->
  (serve (router_of nf na regs) m p = (if nf then RNotFoundCustom else RNotFound) <->
   forall t, In t (table_of regs) -> ~ matches (tpat t) segs).
Proof.
  intros nf na regs m p segs CP. pose proof (L_serve_cases nf na regs m p segs CP) as R.
  destruct (serve (router_of nf na regs) m p) as [h ps|allow| | |] eqn:S; cbn in R.
  - split; [destruct nf; discriminate|]. intro N. exfalso.
    destruct R as [t [[I [_ [M _]]] _]]. exact (N t I M).
  - split; [destruct nf; discriminate|]. intro N. exfalso.
    destruct R as [_ [_ [NE [_ AL]]]]. destruct allow as [|a al]; [congruence|].
    destruct (proj1 (AL a) (or_introl eq_refl)) as [_ [t [I [_ M]]]]. exact (N t I M).
  - split; [destruct nf; discriminate|]. intro N. exfalso.
    destruct R as [_ [_ [t [I [_ M]]]]]. exact (N t I M).
  - destruct R as [E N]. subst nf. split; auto.
  - destruct R as [E N]. subst nf. split; auto.
Qed.

Lemma L_not_allowed_iff : forall nf na regs m p segs,
  clean_path p = Some segs ->
  let T := table_of regs in
  ((exists allow, serve (router_of nf na regs) m p = RNotAllowed allow) \/
   serve (router_of nf na regs) m p = RNotAllowedCustom) <->
  (no_own T m segs /\ exists t, In t T /\ tm t <> m /\ matches (tpat t) segs).
Proof.
  intros nf na regs m p segs CP T. pose proof (L_serve_cases nf na regs m p segs CP) as R.
  destruct (serve (router_of nf na regs) m p) as [h ps|allow| | |] eqn:S; cbn in R.
  - split; [intros [[a E]|E]; discriminate|]. intros [NO _]. exfalso.
    destruct R as [t [[I [E [M _]]] _]]. exact (NO t I E M).
  - split; [|eauto]. intros _. destruct R as [_ [NO [NE [_ AL]]]]. split; [exact NO|].
    destruct allow as [|a al]; [congruence|].
    destruct (proj1 (AL a) (or_introl eq_refl)) as [N [t [I [E M]]]].
    exists t. split; [exact I|]. split; [congruence | exact M].
  - split; [|auto]. intros _. destruct R as [_ [NO EX]]. auto.
  - split; [intros [[a E]|E]; discriminate|]. intros [_ [t [I [_ M]]]]. exfalso.
    destruct R as [_ N]. exact (N t I M).
  - split; [intros [[a E]|E]; discriminate|]. intros [_ [t [I [_ M]]]]. exfalso.
    destruct R as [_ N]. exact (N t I M).
Qed.

Lemma L_unrooted_not_found : forall nf na regs m p,
  clean_path p = None ->
  serve (router_of nf na regs) m p = (if nf then RNotFoundCustom else RNotFound).
Proof.
  intros nf na regs m p CP. unfold serve. rewrite CP. unfold not_found.
  destruct (router_flags nf na regs) as [A _]. rewrite A. reflexivity.
Qed.

(* without the distinct-names assumption: every delivered pair is a (name, segment) pair of
   a variable position, every variable name is delivered, no name twice *)
Lemma binds_in_raw : forall pat segs kv, In kv (binds pat segs) -> In kv (raw_binds pat segs).
Proof.
  induction pat as [|p pat IH]; intros segs kv H; [contradiction|].
  destruct segs as [|s segs]; [contradiction|]. cbn in *. destruct (is_var p).
  - unfold set_param in H. destruct H as [H|H]; [left; exact H|].
    apply filter_In in H. right. apply IH. apply H.
  - apply IH. exact H.
Qed.

Lemma set_param_keys : forall k v ps x, In x (map fst (set_param k v ps)) <-> x = k \/ In x (map fst ps).
Proof.
  intros k v ps x. unfold set_param. cbn. split.
  - intros [H|H]; [left; congruence|]. right. apply in_map_iff in H. destruct H as [y [E H]].
    apply filter_In in H. apply in_map_iff. exists y. split; [exact E | apply H].
  - intros [H|H]; [left; congruence|]. destruct (String.eqb_spec x k) as [E|N]; [left; congruence|].
    right. apply in_map_iff in H. destruct H as [y [E H]]. apply in_map_iff. exists y.
    split; [exact E|]. apply filter_In. split; [exact H|]. subst x.
    apply negb_true_iff. apply neq_eqb_false. exact N.
Qed.

Lemma var_names_cons : forall p pat,
  var_names (p :: pat) = if is_var p then var_name p :: var_names pat else var_names pat.
Proof. intros. unfold var_names. cbn. destruct (is_var p); reflexivity. Qed.

Lemma binds_keys : forall pat segs, matches pat segs ->
  forall k, In k (map fst (binds pat segs)) <-> In k (var_names pat).
Proof.
  induction pat as [|p pat IH]; intros segs M k.
  - reflexivity.
  - destruct segs as [|s segs]; [inversion M|]. apply matches_cons in M. destruct M as [_ M].
    rewrite var_names_cons.
    change (binds (p :: pat) (s :: segs))
      with (if is_var p then set_param (var_name p) s (binds pat segs) else binds pat segs).
    destruct (is_var p).
    + rewrite set_param_keys. rewrite (IH _ M). cbn [In]. split; intros [H|H]; auto.
    + apply IH. exact M.
Qed.

Lemma set_param_nodup : forall k v ps, NoDup (map fst ps) -> NoDup (map fst (set_param k v ps)).
Proof.
  intros k v ps ND. unfold set_param. cbn. constructor.
  - intro H. apply in_map_iff in H. destruct H as [y [E H]]. apply filter_In in H.
    destruct H as [_ H]. rewrite E, String.eqb_refl in H. discriminate.
  - induction ps as [|[k' v'] ps IH]; cbn; [constructor|].
    cbn in ND. apply NoDup_cons_iff in ND. destruct ND as [NI ND]. destruct (k' =? k); cbn.
    + apply IH. exact ND.
    + constructor; [|apply IH; exact ND]. intro H. apply NI.
      apply in_map_iff in H. destruct H as [y [E H]]. apply filter_In in H.
      apply in_map_iff. exists y. split; [exact E | apply H].
Qed.

Lemma binds_nodup : forall pat segs, NoDup (map fst (binds pat segs)).
Proof.
  induction pat as [|p pat IH]; intros segs; [constructor|].
  destruct segs as [|s segs]; [constructor|].
  change (binds (p :: pat) (s :: segs))
    with (if is_var p then set_param (var_name p) s (binds pat segs) else binds pat segs).
  destruct (is_var p); [apply set_param_nodup|]; apply IH.
Qed.

Lemma L_binds_general : forall pat segs, matches pat segs ->
  (forall kv, In kv (binds pat segs) -> In kv (raw_binds pat segs)) /\
  (forall k, In k (map fst (binds pat segs)) <-> In k (var_names pat)) /\
  NoDup (map fst (binds pat segs)).
Proof.
  intros pat segs M. split; [apply binds_in_raw|]. split; [apply binds_keys; exact M | apply binds_nodup].
Qed.
