(* C09 — request histories on one long-lived router: WHO owns the path variables of a request.
   A history is a schedule of events over numbered requests:
     HServe i   ServeHTTP searches the tree for request i and hands its handler the variables;
     HReturn i  ServeHTTP returns for request i (the handler chain returned: normally, or because
                rest's timeout middleware answered 503 while the handler goroutine goes on);
     HRead i    the handler of request i (or whoever kept its request / its vars map) reads the
                variables — possibly long after HReturn i and after other requests were served.
   Today's code ([hstep]): Search allocates a fresh map per request; nothing else ever touches it.
   No proofs in this file. *)
From Coq Require Import List String Ascii Bool ZArith.
From GZ Require Export C09.Model.
Import ListNotations.
Open Scope string_scope.

Inductive hev := HServe (i : nat) | HReturn (i : nat) | HRead (i : nat).

Definition hreq := (string * string)%type.        (* method, URL.Path *)

(* the variables ServeHTTP computes for one request: a function of the router and THAT request *)
Definition vars_of (r : router) (q : hreq) : params :=
  match serve r (fst q) (snd q) with RHandler _ ps => ps | _ => [] end.

Definition req_at (reqs : list hreq) (i : nat) : hreq := nth i reqs ("", "").

Fixpoint lookup_nat {A} (i : nat) (l : list (nat * A)) : option A :=
  match l with
  | [] => None
  | (j, a) :: l' => if Nat.eqb j i then Some a else lookup_nat i l'
  end.

Record hstate := mkH
  { hmaps : list (nat * params);     (* request -> the map Search allocated for it *)
    hreads : list (nat * params) }.  (* what every read returned, latest first *)

Definition hstep (r : router) (reqs : list hreq) (st : hstate) (e : hev) : hstate :=
  match e with
  | HServe i => mkH ((i, vars_of r (req_at reqs i)) :: hmaps st) (hreads st)
  | HReturn _ => st
  | HRead i =>
    match lookup_nat i (hmaps st) with
    | Some ps => mkH (hmaps st) ((i, ps) :: hreads st)
    | None => st                     (* not dispatched yet: nothing to read *)
    end
  end.

Definition hrun (r : router) (reqs : list hreq) (sched : list hev) : hstate :=
  fold_left (hstep r reqs) sched (mkH [] []).
