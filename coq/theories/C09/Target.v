(* C09 — the request target: how net/http + net/url turn the request line's target into
   URL.Path / URL.RawPath, for ORIGIN-FORM targets ("/path?query"), as an executable model of
     net/http  readRequest           -> url.ParseRequestURI(target)
     net/url   parse(viaRequest)     -> control bytes rejected, query cut at the first '?',
                                        no authority for a scheme-less "//x" when viaRequest
     net/url   URL.setPath           -> Path = unescape(p, encodePath);
                                        RawPath = "" if escape(Path, encodePath) == p, else p
     net/url   unescape / escape / shouldEscape (mode encodePath)
   No proofs in this file.  Compared with Go's Path / RawPath on every raw request of a case of
   kind "target" (Check.t_agrees).  Absolute-URI, authority-form and "*" targets are outside. *)
From Coq Require Import List String Ascii Bool ZArith NArith.
From GZ Require Export C09.Model.
Import ListNotations.
Open Scope string_scope.

Definition byte (c : ascii) : N := N_of_ascii c.

Definition between (lo hi : N) (c : ascii) : bool := (lo <=? byte c)%N && (byte c <=? hi)%N.

(* ishex / unhex *)
Definition is_hex (c : ascii) : bool := between 48 57 c || between 97 102 c || between 65 70 c.
Definition hex_val (c : ascii) : N :=
  if between 48 57 c then byte c - 48
  else if between 97 102 c then byte c - 97 + 10
  else byte c - 65 + 10.

(* "0123456789ABCDEF"[n] *)
Definition hex_digit (n : N) : ascii :=
  if (n <? 10)%N then ascii_of_N (48 + n) else ascii_of_N (65 + n - 10).

(* unescape(s, encodePath): %XX decoded, everything else kept ('+' too); a '%' not followed by two
   hex digits is an error *)
Fixpoint unescape (s : string) : option string :=
  match s with
  | EmptyString => Some EmptyString
  | String c rest =>
    if Ascii.eqb c "%"%char then
      match rest with
      | String h (String l rest') =>
        if is_hex h && is_hex l
        then option_map (String (ascii_of_N (16 * hex_val h + hex_val l))) (unescape rest')
        else None
      | _ => None
      end
    else option_map (String c) (unescape rest)
  end.

Definition mem_ascii (c : ascii) (s : string) : bool :=
  existsb (Ascii.eqb c) (list_ascii_of_string s).

(* shouldEscape(c, encodePath): unreserved characters and  $ & + , / : ; = @  stay *)
Definition should_escape (c : ascii) : bool :=
  negb (between 48 57 c || between 97 122 c || between 65 90 c || mem_ascii c "-_.~$&+,/:;=@").

(* escape(s, encodePath): upper-case hex *)
Fixpoint escape (s : string) : string :=
  match s with
  | EmptyString => EmptyString
  | String c rest =>
    if should_escape c
    then String "%"%char (String (hex_digit (byte c / 16)) (String (hex_digit (byte c mod 16)) (escape rest)))
    else String c (escape rest)
  end.

(* the part before the first '?' *)
Fixpoint before_query (s : string) : string :=
  match s with
  | EmptyString => EmptyString
  | String c rest => if Ascii.eqb c "?"%char then EmptyString else String c (before_query rest)
  end.

(* stringContainsCTLByte *)
Definition has_ctl (s : string) : bool :=
  existsb (fun c => (byte c <? 32)%N || (byte c =? 127)%N) (list_ascii_of_string s).

Definition origin_form (t : string) : bool :=
  match t with String c _ => Ascii.eqb c slash | EmptyString => false end.

(* (URL.Path, URL.RawPath) of an origin-form target; None = the request line is refused *)
Definition parse_target (t : string) : option (string * string) :=
  if has_ctl t || negb (origin_form t) then None
  else
    let p := before_query t in
    match unescape p with
    | Some path => Some (path, if escape path =? p then "" else p)
    | None => None
    end.

(* what ServeHTTP routes on: today URL.Path *)
Definition routed_path (pr : string * string) : string := fst pr.

(* ServeHTTP on a request line; None = 400 from net/http, the router never sees the request *)
Definition serve_target_with (choose : string * string -> string) (r : router) (m t : string) : option response :=
  option_map (fun pr => serve r m (choose pr)) (parse_target t).

Definition serve_target := serve_target_with routed_path.
