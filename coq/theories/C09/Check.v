(* C09 — correspondence / property evaluation on what was observed on the
   implementation (router.NewRouter() + httptest).  Executable only. *)
From Coq Require Import List String Ascii Bool ZArith.
From GZ Require Export C09.Model C09.Spec C09.ServerModel C09.Target.
Import ListNotations.
Open Scope string_scope.

(* one request and what the implementation did with it *)
Record req := mkReq
  { qm : string; qp : string;
    qclean : string;      (* path.Clean(qp) as computed by Go *)
    qres : response;      (* Allow / Vars come sorted; compared as sets *)
    qlate : list params;
    qafter : nat }.       (* how many of the Handle calls had been made when the request was served *)
    (* every LATER read of the path variables of this request: by its handler after a gate (held past
       the route timeout while other requests were served; concurrent batch), and after all later
       requests of the case: the map the handler kept, pathvar.Vars(r) again, httpx.ParsePath *)

Record rcase := mkCase
  { cnf : bool; cna : bool;          (* custom not-found / not-allowed handler installed *)
    cregs : list reg;                (* Handle calls, handler = index of the call *)
    cregobs : list reg_result;       (* what each Handle returned *)
    cpclean : list string;           (* path.Clean of each pattern as computed by Go *)
    creqs : list req }.

(* ---- comparisons *)
Definition mem (x : string) (l : list string) : bool := existsb (String.eqb x) l.
Definition set_eqb (a b : list string) : bool :=
  forallb (fun x => mem x b) a && forallb (fun x => mem x a) b && (List.length a =? List.length b)%nat.

Definition pair_eqb (a b : string * string) : bool := (fst a =? fst b) && (snd a =? snd b).
Definition pmem (x : string * string) (l : params) : bool := existsb (pair_eqb x) l.
Definition params_eqb (a b : params) : bool :=
  forallb (fun x => pmem x b) a && forallb (fun x => pmem x a) b && (List.length a =? List.length b)%nat.

Definition response_eqb (a b : response) : bool :=
  match a, b with
  | RHandler h ps, RHandler h' ps' => Z.eqb h h' && params_eqb ps ps'
  | RNotAllowed x, RNotAllowed y => set_eqb x y
  | RNotAllowedCustom, RNotAllowedCustom => true
  | RNotFound, RNotFound => true
  | RNotFoundCustom, RNotFoundCustom => true
  | _, _ => false
  end.

Definition reg_result_eqb (a b : reg_result) : bool :=
  match a, b with
  | RegOk, RegOk | RegInvalidMethod, RegInvalidMethod | RegInvalidPath, RegInvalidPath
  | RegDuplicate, RegDuplicate | RegOther, RegOther => true
  | _, _ => false
  end.

Fixpoint list_eqb {A} (eqb : A -> A -> bool) (l1 l2 : list A) : bool :=
  match l1, l2 with
  | [], [] => true
  | x :: l1', y :: l2' => eqb x y && list_eqb eqb l1' l2'
  | _, _ => false
  end.

(* path.Clean, for rooted paths (for the others the model only says "not rooted") *)
Definition clean_agrees (p observed : string) : bool :=
  match clean_string p with
  | Some s => s =? observed
  | None => match observed with
            | String c _ => negb (Ascii.eqb c slash)
            | EmptyString => false
            end
  end.

Fixpoint forallb2 {A B} (f : A -> B -> bool) (a : list A) (b : list B) : bool :=
  match a, b with
  | [], [] => true
  | x :: a', y :: b' => f x y && forallb2 f a' b'
  | _, _ => false
  end.

(* the model: the variables of a request are computed once, from the table and that request; every
   later read gives the same bindings, whatever was served in between *)
Definition lates_agree (r : response) (l : list params) : bool :=
  match r with
  | RHandler _ ps => forallb (params_eqb ps) l
  | _ => match l with [] => true | _ => false end
  end.

(* ---- the trie model reproduces what the implementation did (a response is
   reproduced when it is one of those Go's map iteration order allows) *)
Definition r_agrees (c : rcase) : bool :=
  let r0 := new_router (cnf c) (cna c) in
  list_eqb reg_result_eqb (build_results r0 (cregs c)) (cregobs c)
  && forallb2 (fun g o => clean_agrees (rpath g) o) (cregs c) (cpclean c)
  && forallb (fun q => clean_agrees (qp q) (qclean q)
                       && existsb (response_eqb (qres q))
                                  (serve_allowed (build r0 (firstn (qafter q) (cregs c))) (qm q) (qp q))
                       && lates_agree (qres q) (qlate q))
             (creqs c).

(* ---- the property on the implementation's own observations, evaluated from the
   plain list of accepted routes (no trie) *)

(* delivered variables = the segments bound by the route.  For a pattern that
   uses one name twice a map can hold only one of the two segments; any of them is
   accepted here (the model, and [agrees], pin the leftmost). *)
Definition params_ok (ps : params) (pat segs : list string) : bool :=
  let rb := raw_binds pat segs in
  forallb (fun kv => pmem kv rb) ps
  && forallb (fun k => mem k (map fst ps)) (var_names pat)
  && (List.length (dedup (map fst ps)) =? List.length ps)%nat.

Definition response_ok (T : table) (nf na : bool) (q : req) : bool :=
  match clean_path (qp q) with
  | None => response_eqb (qres q) (if nf then RNotFoundCustom else RNotFound)
  | Some segs =>
    let cs := candidates T (qm q) segs in
    let allow := allow_spec T (qm q) segs in
    match qres q with
    | RHandler h ps =>
      existsb (fun t => Z.eqb (th t) h
                        && forallb (fun t' => not_worse (tpat t) (tpat t')) cs
                        && params_ok ps (tpat t) segs) cs
    | RNotAllowed a =>
      match cs, allow with [], _ :: _ => negb na && set_eqb a allow | _, _ => false end
    | RNotAllowedCustom =>
      match cs, allow with [], _ :: _ => na | _, _ => false end
    | RNotFound =>
      match cs, allow with [], [] => negb nf | _, _ => false end
    | RNotFoundCustom =>
      match cs, allow with [], [] => nf | _, _ => false end
    end
  end.

(* "is rejected at registration": the property does not say with which error — accepted /
   rejected is judged here, the error class is compared with the model by [agrees] *)
Definition accepted (e : reg_result) : bool := match e with RegOk => true | _ => false end.
Definition same_verdict (a b : reg_result) : bool := Bool.eqb (accepted a) (accepted b).

(* every later read of the variables is judged like the first one: against the bindings of the best
   route for THAT request *)
Definition lates_ok (T : table) (nf na : bool) (m p : string) (r : response) (l : list params) : bool :=
  match r with
  | RHandler h _ => forallb (fun ps => response_ok T nf na (mkReq m p "" (RHandler h ps) [] 0)) l
  | _ => match l with [] => true | _ => false end
  end.

(* does the accepted table satisfy the property's side condition? *)
Definition in_scope (c : rcase) : bool := one_var_name_per_position (table_of (cregs c)).

(* The property's quantifier is "route tables that use one variable name per position":
   tables outside it are compared with the model ([agrees]) but are not property failures. *)
(* a request served between two Handle calls is judged against the routes registered SO FAR *)
Definition table_at_req (c : rcase) (q : req) : table := table_of (firstn (qafter q) (cregs c)).

Definition r_req_ok (c : rcase) (q : req) : bool :=
  let T := table_at_req c q in
  if one_var_name_per_position T then
    response_ok T (cnf c) (cna c) q && lates_ok T (cnf c) (cna c) (qm q) (qp q) (qres q) (qlate q)
  else true.

Definition r_prop_ok (c : rcase) : bool :=
  (if in_scope c then list_eqb same_verdict (reg_results [] (cregs c)) (cregobs c) else true)
  && forallb (r_req_ok c) (creqs c).

Definition r_model_obs (c : rcase) :=
  let r0 := new_router (cnf c) (cna c) in
  (build_results r0 (cregs c),
   map (fun q => (clean_string (qp q), serve_allowed (build r0 (firstn (qafter q) (cregs c))) (qm q) (qp q))) (creqs c)).

(* ================================================================ server level
   The user's route tables (slices with their own backing arrays) are mounted by a sequence of
   events on one or several rest.Server instances (the same slice value or sub-slices of it any
   number of times, AddRoutes or AddRoute, options in a given order) and bound by Start. *)

Record sreq := mkSReq
  { sqs : nat;               (* the server the request is sent to *)
    sqm : string; sqp : string;
    sqres : sresponse;
    sqmws : list Z;          (* middleware tags the handler saw, outermost first *)
    sqlate : list params }.  (* later reads of this request's variables (see [qlate]) *)

Inductive start_obs := ObsStarted | ObsFailed (e : reg_result) | ObsNever.

Record scase := mkSCase
  { stables : store;                          (* what the user wrote *)
    scfgs : list scfg;
    sevents : list event;
    sstarts : list start_obs;                 (* per server: how Start ended *)
    sroutes : list (list (string * string));  (* per server: Server.Routes() after the last event *)
    sprinted : list (list string);            (* per server: the lines of Server.PrintRoutes() *)
    safter : list (list (string * string));   (* the user's tables after the last event *)
    sreqs : list sreq;
    (* per server: the Handle calls Start made on the user's own router (rest.WithRouter: a recording wrapper of
       router.NewRouter()), in order, with what each returned; None = the server runs on its default router *)
    sbound : list (option (list (string * string * reg_result))) }.

Definition sresponse_eqb (a b : sresponse) : bool :=
  match a, b with
  | SResp x, SResp y => response_eqb x y
  | SCors204, SCors204 => true
  | _, _ => false
  end.

(* Routes() lists the prefixed paths (compared exactly when rooted) *)
Definition route_agrees (g : reg) (o : string * string) : bool :=
  (rmethod g =? fst o) &&
  match clean_path (rpath g) with
  | Some _ => rpath g =? snd o
  | None => match snd o with String c _ => negb (Ascii.eqb c slash) | EmptyString => true end
  end.

(* PrintRoutes: one "METHOD path" line per route, sorted: compared as a bag (when every route
   of the server is rooted; an unrooted joined path is only known to be unrooted) *)
Definition route_line (g : reg) : string := rmethod g ++ " " ++ rpath g.
Definition count_of (x : string) (l : list string) : nat := List.length (filter (String.eqb x) l).
Definition bag_eqb (a b : list string) : bool :=
  (List.length a =? List.length b)%nat && forallb (fun x => (count_of x a =? count_of x b)%nat) a.
Definition printed_agrees (regs : list reg) (o : list string) : bool :=
  if forallb (fun g => match clean_path (rpath g) with Some _ => true | None => false end) regs
  then bag_eqb (map route_line regs) o else true.

Definition written_agrees (g : reg) (o : string * string) : bool :=
  (rmethod g =? fst o) && (rpath g =? snd o).

Definition slates_agree (q : sreq) : bool :=
  match sqres q with
  | SResp r => lates_agree r (sqlate q)
  | SCors204 => match sqlate q with [] => true | _ => false end
  end.

Definition mws_ok (c : scfg) (q : sreq) : bool :=
  match sqres q with
  | SResp (RHandler h _) => list_eqb Z.eqb (sqmws q) (mw_expected c h)
  | _ => match sqmws q with [] => true | _ => false end
  end.

Definition start_agrees (m : option start_result) (o : start_obs) : bool :=
  match m, o with
  | Some (StartFailed e), ObsFailed e' => reg_result_eqb e e'
  | Some (Started _), ObsStarted => true
  | None, ObsNever => true
  | _, _ => false
  end.

Fixpoint seq_from (i n : nat) : list nat :=
  match n with O => [] | S n' => i :: seq_from (S i) n' end.

(* engine.bindRoutes as a sequence of router.Handle calls: every route in order, up to and including the first one
   the router rejects *)
Fixpoint bind_calls (r : router) (regs : list reg) : list (reg * reg_result) :=
  match regs with
  | [] => []
  | g :: rest =>
    match handle_reg r g with
    | (r', RegOk) => (g, RegOk) :: bind_calls r' rest
    | (_, e) => [(g, e)]
    end
  end.

(* the same from the plain route list (no trie) *)
Fixpoint spec_calls (T : table) (regs : list reg) : list (reg * reg_result) :=
  match regs with
  | [] => []
  | g :: rest =>
    match reg_spec T (rmethod g) (rpath g) with
    | RegOk => (g, RegOk) :: spec_calls (table_step T g) rest
    | e => [(g, e)]
    end
  end.

(* what the engine of server i holds at the moment of its Start, in the heap model *)
Definition bound_regs (tables : store) (cfgs : list scfg) (evs : list event) (i : nat) : list reg :=
  let w0 := run opt_real cfgs tables (before_start i evs) in
  engine_regs (wstore w0) (wgroups w0) i.

Definition call_agrees (x : reg * reg_result) (o : string * string * reg_result) : bool :=
  route_agrees (fst x) (fst o) && reg_result_eqb (snd x) (snd o).

Definition bound_agrees (tables : store) (cfgs : list scfg) (evs : list event) (i : nat)
                        (o : option (list (string * string * reg_result))) : bool :=
  match o with
  | None => true
  | Some calls =>
    if has_start i evs then
      let c := nth i cfgs default_cfg in
      forallb2 call_agrees (bind_calls (new_router (sc_nf c) (sc_na c || sc_cors c)) (bound_regs tables cfgs evs i)) calls
    else match calls with [] => true | _ => false end
  end.

(* the heap model replays the registration sequence and reproduces what was observed *)
Definition s_agrees (s : scase) : bool :=
  let w := run opt_real (scfgs s) (stables s) (sevents s) in
  let ids := seq_from 0 (List.length (scfgs s)) in
  forallb2 (fun i o => start_agrees (start_of (wstarts w) i) o) ids (sstarts s)
  && forallb2 (fun i o => forallb2 route_agrees (engine_regs (wstore w) (wgroups w) i) o) ids (sroutes s)
  && forallb2 (fun i o => printed_agrees (engine_regs (wstore w) (wgroups w) i) o) ids (sprinted s)
  && forallb2 (fun t o => forallb2 written_agrees t o) (wstore w) (safter s)
  && forallb (fun q =>
       match start_of (wstarts w) (sqs q) with
       | Some (Started r) =>
         let c := nth (sqs q) (scfgs s) default_cfg in
         existsb (sresponse_eqb (sqres q)) (sserve_allowed (sc_cors c) r (sqm q) (sqp q)) && mws_ok c q
         && slates_agree q
       | _ => false
       end) (sreqs s)
  && forallb2 (bound_agrees (stables s) (scfgs s) (sevents s)) ids (sbound s).

(* the property, from what the user wrote only: for every server the route list is the union of
   the prefix-extended tables mounted on it ([spec_regs]; no store, no aliasing).  Registration at
   server level: Start dies with the first error the list prescribes, and only then.  With
   rest.WithCors() the 405/Allow clause and dispatch of OPTIONS routes are replaced by what the
   option documents (204 for every OPTIONS request, 404 for a would-be 405): those answers are
   accepted only in exactly those situations. *)
Definition first_error (l : list reg_result) : option reg_result :=
  find (fun e => negb (reg_result_eqb e RegOk)) l.

Definition sresponse_ok (T : table) (nf na cors : bool) (q : sreq) : bool :=
  if cors then
    if sqm q =? "OPTIONS" then sresponse_eqb (sqres q) SCors204
    else match sqres q with
         | SResp (RHandler h ps) => response_ok T nf true (mkReq (sqm q) (sqp q) "" (RHandler h ps) [] 0)
         | SResp RNotFound =>
           (* a real 404 (default handler), or the CORS answer to a would-be 405 *)
           response_ok T nf true (mkReq (sqm q) (sqp q) "" RNotFound [] 0)
           || response_ok T nf true (mkReq (sqm q) (sqp q) "" RNotAllowedCustom [] 0)
         | SResp RNotFoundCustom => response_ok T nf true (mkReq (sqm q) (sqp q) "" RNotFoundCustom [] 0)
         | _ => false
         end
  else match sqres q with
       | SResp r => response_ok T nf na (mkReq (sqm q) (sqp q) "" r [] 0)
       | SCors204 => false
       end.

Definition slates_ok (T : table) (nf na cors : bool) (q : sreq) : bool :=
  match sqres q with
  | SResp r => lates_ok T nf (if cors then true else na) (sqm q) (sqp q) r (sqlate q)
  | SCors204 => match sqlate q with [] => true | _ => false end
  end.

(* the route list of server i as the user wrote it *)
Definition user_regs (s : scase) (i : nat) : list reg :=
  spec_regs (stables s) (before_start i (sevents s)) i.

(* judged: servers whose table is inside the side condition and that got all their routes before
   Start (for the others the heap model is still compared by [agrees]) *)
Definition server_in_scope (s : scase) (i : nat) : bool :=
  one_var_name_per_position (table_of (user_regs s i))
  && negb (mounts_after_start i false (sevents s)).

Definition start_ok (s : scase) (i : nat) (o : start_obs) : bool :=
  if negb (server_in_scope s i) then true
  else if negb (has_start i (sevents s)) then match o with ObsNever => true | _ => false end
  else match first_error (reg_results [] (user_regs s i)), o with
       | Some _, ObsFailed _ => true      (* rejected, whatever the error says *)
       | None, ObsStarted => true
       | _, _ => false
       end.

Definition sreq_ok (s : scase) (q : sreq) : bool :=
  let i := sqs q in
  if negb (server_in_scope s i) then true
  else
    let c := nth i (scfgs s) default_cfg in
    let regs := user_regs s i in
    match first_error (reg_results [] regs) with
    | Some _ => false          (* the server cannot have answered *)
    | None => sresponse_ok (table_of regs) (sc_nf c) (sc_na c) (sc_cors c) q
              && slates_ok (table_of regs) (sc_nf c) (sc_na c) (sc_cors c) q
    end.       (* Server.Use / WithChain tags are not the property's business: compared by [agrees] *)

(* route binding, from what the user wrote.  The property does not say in which ORDER Start registers the routes (the
   order is compared with the model by [agrees]); it says which routes are registered and that a duplicate / bad method /
   unrooted pattern is rejected.  Judged on the Handle calls observed on the user's own router: every call is for a route
   of the union of the prefix-extended tables; when that list prescribes no rejection every call was accepted and every
   route of the list was handed over; when it prescribes one, some call was rejected. *)
Definition regs_have (regs : list reg) (o : string * string * reg_result) : bool :=
  existsb (fun g => route_agrees g (fst o)) regs.
Definition calls_have (calls : list (string * string * reg_result)) (g : reg) : bool :=
  existsb (fun o => route_agrees g (fst o)) calls.

Definition calls_ok (regs : list reg) (calls : list (string * string * reg_result)) : bool :=
  forallb (regs_have regs) calls &&
  match first_error (reg_results [] regs) with
  | None => forallb (fun o => accepted (snd o)) calls && forallb (calls_have calls) regs
  | Some _ => existsb (fun o => negb (accepted (snd o))) calls
  end.

Definition bound_ok (s : scase) (i : nat) (o : option (list (string * string * reg_result))) : bool :=
  match o with
  | None => true
  | Some calls =>
    if negb (server_in_scope s i) then true
    else if has_start i (sevents s) then calls_ok (user_regs s i) calls
    else match calls with [] => true | _ => false end
  end.

Definition s_prop_ok (s : scase) : bool :=
  forallb2 (start_ok s) (seq_from 0 (List.length (scfgs s))) (sstarts s)
  && forallb (sreq_ok s) (sreqs s)
  && forallb2 (bound_ok s) (seq_from 0 (List.length (scfgs s))) (sbound s).

Definition s_model_obs (s : scase) :=
  let w := run opt_real (scfgs s) (stables s) (sevents s) in
  (map (fun i => (map (fun g => (rmethod g, rpath g)) (engine_regs (wstore w) (wgroups w) i),
                  match start_of (wstarts w) i with
                  | Some (StartFailed e) => Some e
                  | _ => None
                  end)) (seq_from 0 (List.length (scfgs s))),
   map (fun q => match start_of (wstarts w) (sqs q) with
                 | Some (Started r) =>
                   sserve_allowed (sc_cors (nth (sqs q) (scfgs s) default_cfg)) r (sqm q) (sqp q)
                 | _ => []
                 end) (sreqs s)).

(* ================================================================ request targets
   Requests sent as raw request lines (parsed by net/http like a real server does).  The model
   derives URL.Path / URL.RawPath from the TARGET itself (Target.parse_target); [agrees] compares
   them with net/url's, [prop_ok] judges the response against the route table and the path the
   MODEL decoded — it does not rely on what Go reports as URL.Path. *)
Record treq := mkTReq
  { tqm : string; tqt : string;           (* method, request target as sent *)
    tqgo : option (string * string);      (* Go's (URL.Path, URL.RawPath); None = net/http refused the request line *)
    tqres : response }.

Record tcase := mkTCase { tnf : bool; tna : bool; tregs : list reg; tregobs : list reg_result; treqs : list treq }.

Definition t_agrees (c : tcase) : bool :=
  let r := build (new_router (tnf c) (tna c)) (tregs c) in
  list_eqb reg_result_eqb (build_results (new_router (tnf c) (tna c)) (tregs c)) (tregobs c)
  && forallb (fun q =>
       match parse_target (tqt q), tqgo q with
       | Some (p, raw), Some (gp, graw) =>
         (p =? gp) && (raw =? graw) && existsb (response_eqb (tqres q)) (serve_allowed r (tqm q) p)
       | None, None => true
       | _, _ => false
       end) (treqs c).

Definition t_req_ok (c : tcase) (q : treq) : bool :=
  match parse_target (tqt q), tqgo q with
  | Some (p, _), Some _ => response_ok (table_of (tregs c)) (tnf c) (tna c) (mkReq (tqm q) p "" (tqres q) [] 0)
  | _, _ => true       (* whether a request line is refused is net/http's business: compared by [agrees] *)
  end.

Definition t_prop_ok (c : tcase) : bool :=
  if one_var_name_per_position (table_of (tregs c)) then forallb (t_req_ok c) (treqs c) else true.

Definition t_model_obs (c : tcase) :=
  map (fun q => (parse_target (tqt q),
                 match parse_target (tqt q) with
                 | Some (p, _) => serve_allowed (build (new_router (tnf c) (tna c)) (tregs c)) (tqm q) p
                 | None => []
                 end)) (treqs c).

(* ================================================================ all kinds *)
Inductive case := CRouter (c : rcase) | CServer (s : scase) | CTarget (t : tcase).

Definition agrees (c : case) : bool :=
  match c with CRouter c => r_agrees c | CServer s => s_agrees s | CTarget t => t_agrees t end.
Definition prop_ok (c : case) : bool :=
  match c with CRouter c => r_prop_ok c | CServer s => s_prop_ok s | CTarget t => t_prop_ok t end.
Definition model_obs (c : case) :=
  match c with
  | CRouter c => (Some (r_model_obs c), None, None)
  | CServer s => (None, Some (s_model_obs s), None)
  | CTarget t => (None, None, Some (t_model_obs t))
  end.
