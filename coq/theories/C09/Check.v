(* C09 — correspondence / property evaluation on what was observed on the
   implementation (router.NewRouter() + httptest).  Executable only. *)
From Coq Require Import List String Ascii Bool ZArith.
From GZ Require Export C09.Model C09.Spec C09.ServerModel.
Import ListNotations.
Open Scope string_scope.

(* one request and what the implementation did with it *)
Record req := mkReq
  { qm : string; qp : string;
    qclean : string;      (* path.Clean(qp) as computed by Go *)
    qres : response }.    (* Allow / Vars come sorted; compared as sets *)

Record rcase := mkCase
  { cnf : bool; cna : bool;          (* custom not-found / not-allowed handler installed *)
    cregs : list reg;                (* Handle calls, handler = index of the call *)
    cregobs : list reg_result;       (* what each Handle returned *)
    cpclean : list string;           (* path.Clean of each pattern as computed by Go *)
    creqs : list req }.

(* ---- comparisons *)
Definition mem (x : string) (l : list string) : bool := existsb (String.eqb x) l.
Definition set_eqb (a b : list string) : bool :=
  forallb (fun x => mem x b) a && forallb (fun x => mem x a) b && (List.length a =? List.length b)%nat.

Definition pair_eqb (a b : string * string) : bool := (fst a =? fst b) && (snd a =? snd b).
Definition pmem (x : string * string) (l : params) : bool := existsb (pair_eqb x) l.
Definition params_eqb (a b : params) : bool :=
  forallb (fun x => pmem x b) a && forallb (fun x => pmem x a) b && (List.length a =? List.length b)%nat.

Definition response_eqb (a b : response) : bool :=
  match a, b with
  | RHandler h ps, RHandler h' ps' => Z.eqb h h' && params_eqb ps ps'
  | RNotAllowed x, RNotAllowed y => set_eqb x y
  | RNotAllowedCustom, RNotAllowedCustom => true
  | RNotFound, RNotFound => true
  | RNotFoundCustom, RNotFoundCustom => true
  | _, _ => false
  end.

Definition reg_result_eqb (a b : reg_result) : bool :=
  match a, b with
  | RegOk, RegOk | RegInvalidMethod, RegInvalidMethod | RegInvalidPath, RegInvalidPath
  | RegDuplicate, RegDuplicate | RegOther, RegOther => true
  | _, _ => false
  end.

Fixpoint list_eqb {A} (eqb : A -> A -> bool) (l1 l2 : list A) : bool :=
  match l1, l2 with
  | [], [] => true
  | x :: l1', y :: l2' => eqb x y && list_eqb eqb l1' l2'
  | _, _ => false
  end.

(* path.Clean, for rooted paths (for the others the model only says "not rooted") *)
Definition clean_agrees (p observed : string) : bool :=
  match clean_string p with
  | Some s => s =? observed
  | None => match observed with
            | String c _ => negb (Ascii.eqb c slash)
            | EmptyString => false
            end
  end.

Fixpoint forallb2 {A B} (f : A -> B -> bool) (a : list A) (b : list B) : bool :=
  match a, b with
  | [], [] => true
  | x :: a', y :: b' => f x y && forallb2 f a' b'
  | _, _ => false
  end.

(* ---- the trie model reproduces what the implementation did (a response is
   reproduced when it is one of those Go's map iteration order allows) *)
Definition r_agrees (c : rcase) : bool :=
  let r0 := new_router (cnf c) (cna c) in
  let r := build r0 (cregs c) in
  list_eqb reg_result_eqb (build_results r0 (cregs c)) (cregobs c)
  && forallb2 (fun g o => clean_agrees (rpath g) o) (cregs c) (cpclean c)
  && forallb (fun q => clean_agrees (qp q) (qclean q)
                       && existsb (response_eqb (qres q)) (serve_allowed r (qm q) (qp q)))
             (creqs c).

(* ---- the property on the implementation's own observations, evaluated from the
   plain list of accepted routes (no trie) *)

(* delivered variables = the segments bound by the route.  For a pattern that
   uses one name twice a map can hold only one of the two segments; any of them is
   accepted here (the model, and [agrees], pin the leftmost). *)
Definition params_ok (ps : params) (pat segs : list string) : bool :=
  let rb := raw_binds pat segs in
  forallb (fun kv => pmem kv rb) ps
  && forallb (fun k => mem k (map fst ps)) (var_names pat)
  && (List.length (dedup (map fst ps)) =? List.length ps)%nat.

Definition response_ok (T : table) (nf na : bool) (q : req) : bool :=
  match clean_path (qp q) with
  | None => response_eqb (qres q) (if nf then RNotFoundCustom else RNotFound)
  | Some segs =>
    let cs := candidates T (qm q) segs in
    let allow := allow_spec T (qm q) segs in
    match qres q with
    | RHandler h ps =>
      existsb (fun t => Z.eqb (th t) h
                        && forallb (fun t' => not_worse (tpat t) (tpat t')) cs
                        && params_ok ps (tpat t) segs) cs
    | RNotAllowed a =>
      match cs, allow with [], _ :: _ => negb na && set_eqb a allow | _, _ => false end
    | RNotAllowedCustom =>
      match cs, allow with [], _ :: _ => na | _, _ => false end
    | RNotFound =>
      match cs, allow with [], [] => negb nf | _, _ => false end
    | RNotFoundCustom =>
      match cs, allow with [], [] => nf | _, _ => false end
    end
  end.

(* does the accepted table satisfy the property's side condition? *)
Definition in_scope (c : rcase) : bool := one_var_name_per_position (table_of (cregs c)).

(* The property's quantifier is "route tables that use one variable name per position":
   tables outside it are compared with the model ([agrees]) but are not property failures. *)
Definition r_prop_ok (c : rcase) : bool :=
  let T := table_of (cregs c) in
  if in_scope c then
    list_eqb reg_result_eqb (reg_results [] (cregs c)) (cregobs c)
    && forallb (response_ok T (cnf c) (cna c)) (creqs c)
  else true.

Definition r_model_obs (c : rcase) :=
  let r0 := new_router (cnf c) (cna c) in
  let r := build r0 (cregs c) in
  (build_results r0 (cregs c),
   map (fun q => (clean_string (qp q), serve_allowed r (qm q) (qp q))) (creqs c)).

(* ================================================================ server level
   the same route tables registered through rest.Server (AddRoutes with prefixes,
   groups, middlewares, custom 404/405 handlers, CORS) and bound by Start *)

Record sreq := mkSReq
  { sqm : string; sqp : string;
    sqres : sresponse;
    sqmws : list Z }.        (* middleware tags the handler saw, outermost first *)

Inductive start_obs := ObsStarted | ObsFailed (e : reg_result).

Record scase := mkSCase
  { snf : bool; sna : bool; scors : bool; suse : bool;
    sgroups : list group;
    sstart : start_obs;                       (* how Start ended *)
    sroutes : list (string * string);         (* Server.Routes() *)
    sreqs : list sreq }.

Definition sresponse_eqb (a b : sresponse) : bool :=
  match a, b with
  | SResp x, SResp y => response_eqb x y
  | SCors204, SCors204 => true
  | _, _ => false
  end.

(* Routes() lists the prefixed paths (compared exactly when rooted) *)
Definition route_agrees (g : reg) (o : string * string) : bool :=
  (rmethod g =? fst o) &&
  match clean_path (rpath g) with
  | Some _ => rpath g =? snd o
  | None => match snd o with String c _ => negb (Ascii.eqb c slash) | EmptyString => true end
  end.

Definition mws_ok (use : bool) (gs : list group) (q : sreq) : bool :=
  match sqres q with
  | SResp (RHandler h _) => list_eqb Z.eqb (sqmws q) (mw_expected use gs h)
  | _ => match sqmws q with [] => true | _ => false end
  end.

Definition s_agrees (s : scase) : bool :=
  forallb2 route_agrees (server_routes (sgroups s)) (sroutes s)
  && match server_start (snf s) (sna s) (scors s) (sgroups s), sstart s with
     | StartFailed e, ObsFailed e' => reg_result_eqb e e'
     | Started r, ObsStarted =>
       forallb (fun q => existsb (sresponse_eqb (sqres q)) (sserve_allowed (scors s) r (sqm q) (sqp q))
                         && mws_ok (suse s) (sgroups s) q) (sreqs s)
     | _, _ => false
     end.

(* the property, from the LIST of prefixed routes.  Registration at server level: Start dies
   with the first error the list prescribes, and only then.  With rest.WithCors() the 405/Allow
   clause and dispatch of OPTIONS routes are replaced by what the option documents (204 for
   every OPTIONS request, 404 for a would-be 405): those answers are accepted only in exactly
   those situations. *)
Definition first_error (l : list reg_result) : option reg_result :=
  find (fun e => negb (reg_result_eqb e RegOk)) l.

Definition sresponse_ok (T : table) (nf na cors : bool) (q : sreq) : bool :=
  let rq := mkReq (sqm q) (sqp q) "" RNotFound in
  if cors then
    if sqm q =? "OPTIONS" then sresponse_eqb (sqres q) SCors204
    else match sqres q with
         | SResp (RHandler h ps) => response_ok T nf true (mkReq (sqm q) (sqp q) "" (RHandler h ps))
         | SResp RNotFound =>
           (* a real 404 (default handler), or the CORS answer to a would-be 405 *)
           response_ok T nf true (mkReq (sqm q) (sqp q) "" RNotFound)
           || response_ok T nf true (mkReq (sqm q) (sqp q) "" RNotAllowedCustom)
         | SResp RNotFoundCustom => response_ok T nf true (mkReq (sqm q) (sqp q) "" RNotFoundCustom)
         | _ => false
         end
  else match sqres q with
       | SResp r => response_ok T nf na (mkReq (sqm q) (sqp q) "" r)
       | SCors204 => false
       end.

Definition s_prop_ok (s : scase) : bool :=
  let regs := server_routes (sgroups s) in
  let T := table_of regs in
  if one_var_name_per_position T then
    match first_error (reg_results [] regs), sstart s with
    | Some e, ObsFailed e' => reg_result_eqb e e'
    | None, ObsStarted =>
      forallb (fun q => sresponse_ok T (snf s) (sna s) (scors s) q && mws_ok (suse s) (sgroups s) q) (sreqs s)
    | _, _ => false
    end
  else true.

Definition s_model_obs (s : scase) :=
  (server_routes (sgroups s),
   match server_start (snf s) (sna s) (scors s) (sgroups s) with
   | StartFailed e => (Some e, [])
   | Started r => (None, map (fun q => sserve_allowed (scors s) r (sqm q) (sqp q)) (sreqs s))
   end).

(* ================================================================ both kinds *)
Inductive case := CRouter (c : rcase) | CServer (s : scase).

Definition agrees (c : case) : bool :=
  match c with CRouter c => r_agrees c | CServer s => s_agrees s end.
Definition prop_ok (c : case) : bool :=
  match c with CRouter c => r_prop_ok c | CServer s => s_prop_ok s end.
Definition model_obs (c : case) :=
  match c with
  | CRouter c => (Some (r_model_obs c), None)
  | CServer s => (None, Some (s_model_obs s))
  end.
