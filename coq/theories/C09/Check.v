(* C09 — correspondence / property evaluation on what was observed on the
   implementation (router.NewRouter() + httptest).  Executable only. *)
From Coq Require Import List String Ascii Bool ZArith.
From GZ Require Export C09.Model C09.Spec.
Import ListNotations.
Open Scope string_scope.

(* one request and what the implementation did with it *)
Record req := mkReq
  { qm : string; qp : string;
    qclean : string;      (* path.Clean(qp) as computed by Go *)
    qres : response }.    (* Allow / Vars come sorted; compared as sets *)

Record case := mkCase
  { cnf : bool; cna : bool;          (* custom not-found / not-allowed handler installed *)
    cregs : list reg;                (* Handle calls, handler = index of the call *)
    cregobs : list reg_result;       (* what each Handle returned *)
    cpclean : list string;           (* path.Clean of each pattern as computed by Go *)
    creqs : list req }.

(* ---- comparisons *)
Definition mem (x : string) (l : list string) : bool := existsb (String.eqb x) l.
Definition set_eqb (a b : list string) : bool :=
  forallb (fun x => mem x b) a && forallb (fun x => mem x a) b && (List.length a =? List.length b)%nat.

Definition pair_eqb (a b : string * string) : bool := (fst a =? fst b) && (snd a =? snd b).
Definition pmem (x : string * string) (l : params) : bool := existsb (pair_eqb x) l.
Definition params_eqb (a b : params) : bool :=
  forallb (fun x => pmem x b) a && forallb (fun x => pmem x a) b && (List.length a =? List.length b)%nat.

Definition response_eqb (a b : response) : bool :=
  match a, b with
  | RHandler h ps, RHandler h' ps' => Z.eqb h h' && params_eqb ps ps'
  | RNotAllowed x, RNotAllowed y => set_eqb x y
  | RNotAllowedCustom, RNotAllowedCustom => true
  | RNotFound, RNotFound => true
  | RNotFoundCustom, RNotFoundCustom => true
  | _, _ => false
  end.

Definition reg_result_eqb (a b : reg_result) : bool :=
  match a, b with
  | RegOk, RegOk | RegInvalidMethod, RegInvalidMethod | RegInvalidPath, RegInvalidPath
  | RegDuplicate, RegDuplicate | RegOther, RegOther => true
  | _, _ => false
  end.

Fixpoint list_eqb {A} (eqb : A -> A -> bool) (l1 l2 : list A) : bool :=
  match l1, l2 with
  | [], [] => true
  | x :: l1', y :: l2' => eqb x y && list_eqb eqb l1' l2'
  | _, _ => false
  end.

(* path.Clean, for rooted paths (for the others the model only says "not rooted") *)
Definition clean_agrees (p observed : string) : bool :=
  match clean_string p with
  | Some s => s =? observed
  | None => match observed with
            | String c _ => negb (Ascii.eqb c slash)
            | EmptyString => false
            end
  end.

Fixpoint forallb2 {A B} (f : A -> B -> bool) (a : list A) (b : list B) : bool :=
  match a, b with
  | [], [] => true
  | x :: a', y :: b' => f x y && forallb2 f a' b'
  | _, _ => false
  end.

(* ---- the trie model reproduces what the implementation did (a response is
   reproduced when it is one of those Go's map iteration order allows) *)
Definition agrees (c : case) : bool :=
  let r0 := new_router (cnf c) (cna c) in
  let r := build r0 (cregs c) in
  list_eqb reg_result_eqb (build_results r0 (cregs c)) (cregobs c)
  && forallb2 (fun g o => clean_agrees (rpath g) o) (cregs c) (cpclean c)
  && forallb (fun q => clean_agrees (qp q) (qclean q)
                       && existsb (response_eqb (qres q)) (serve_allowed r (qm q) (qp q)))
             (creqs c).

(* ---- the property on the implementation's own observations, evaluated from the
   plain list of accepted routes (no trie) *)

(* delivered variables = the segments bound by the route.  For a pattern that
   uses one name twice a map can hold only one of the two segments; any of them is
   accepted here (the model, and [agrees], pin the leftmost). *)
Definition params_ok (ps : params) (pat segs : list string) : bool :=
  let rb := raw_binds pat segs in
  forallb (fun kv => pmem kv rb) ps
  && forallb (fun k => mem k (map fst ps)) (var_names pat)
  && (List.length (dedup (map fst ps)) =? List.length ps)%nat.

Definition response_ok (T : table) (nf na : bool) (q : req) : bool :=
  match clean_path (qp q) with
  | None => response_eqb (qres q) (if nf then RNotFoundCustom else RNotFound)
  | Some segs =>
    let cs := candidates T (qm q) segs in
    let allow := allow_spec T (qm q) segs in
    match qres q with
    | RHandler h ps =>
      existsb (fun t => Z.eqb (th t) h
                        && forallb (fun t' => not_worse (tpat t) (tpat t')) cs
                        && params_ok ps (tpat t) segs) cs
    | RNotAllowed a =>
      match cs, allow with [], _ :: _ => negb na && set_eqb a allow | _, _ => false end
    | RNotAllowedCustom =>
      match cs, allow with [], _ :: _ => na | _, _ => false end
    | RNotFound =>
      match cs, allow with [], [] => negb nf | _, _ => false end
    | RNotFoundCustom =>
      match cs, allow with [], [] => nf | _, _ => false end
    end
  end.

(* does the accepted table satisfy the property's side condition? *)
Definition in_scope (c : case) : bool := one_var_name_per_position (table_of (cregs c)).

(* The property's quantifier is "route tables that use one variable name per position":
   tables outside it are compared with the model ([agrees]) but are not property failures. *)
Definition prop_ok (c : case) : bool :=
  let T := table_of (cregs c) in
  if in_scope c then
    list_eqb reg_result_eqb (reg_results [] (cregs c)) (cregobs c)
    && forallb (response_ok T (cnf c) (cna c)) (creqs c)
  else true.

Definition model_obs (c : case) :=
  let r0 := new_router (cnf c) (cna c) in
  let r := build r0 (cregs c) in
  (build_results r0 (cregs c),
   map (fun q => (clean_string (qp q), serve_allowed r (qm q) (qp q))) (creqs c)).
