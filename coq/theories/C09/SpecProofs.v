(* C09 — the executable specifications are the declarative ones.
   (1) [spec_serve] (Spec.v: best_of / binds / allow_spec over the plain route list) is what the
       trie router answers, inside the side condition;
   (2) the boolean judgement [response_ok] that [prop_ok] applies to the responses observed on
       the Go code is EQUIVALENT to the Prop-level case table [obs_ok] (= [resp_ok] with the
       variables clause in the form a map can be observed in), every response the verified
       model can give passes it, and [r_prop_ok] is the conjunction of these judgements. *)
From Coq Require Import List String Ascii Bool ZArith Lia Permutation.
From GZ Require Import C09.Model C09.Spec C09.Proofs C09.Check.
Import ListNotations.
Open Scope string_scope.

(* ---------------------------------------------------------------- small lists *)

Lemma mem_iff : forall x l, mem x l = true <-> In x l.
Proof.
  intros x l. unfold mem. rewrite existsb_exists. split.
  - intros [y [I E]]. apply String.eqb_eq in E. subst. exact I.
  - intro I. exists x. split; [exact I | apply String.eqb_refl].
Qed.

Lemma dedup_in : forall l x, In x (dedup l) <-> In x l.
Proof.
  induction l as [|y l IH]; intro x; cbn; [reflexivity|].
  destruct (existsb (String.eqb y) l) eqn:E.
  - rewrite IH. split; [auto|]. intros [H|H]; [|exact H]. subst y. apply mem_iff. exact E.
  - cbn. rewrite IH. reflexivity.
Qed.

Lemma dedup_nodup : forall l, NoDup (dedup l).
Proof.
  induction l as [|y l IH]; cbn; [constructor|].
  destruct (existsb (String.eqb y) l) eqn:E; [exact IH|].
  constructor; [|exact IH]. rewrite dedup_in. intro I. apply mem_iff in I. unfold mem in I. congruence.
Qed.

Lemma dedup_length_le : forall l, (List.length (dedup l) <= List.length l)%nat.
Proof.
  induction l as [|y l IH]; cbn; [lia|]. destruct (existsb (String.eqb y) l); cbn; lia.
Qed.

Lemma dedup_length_nodup : forall l, List.length (dedup l) = List.length l <-> NoDup l.
Proof.
  induction l as [|y l IH]; cbn.
  - split; [constructor | reflexivity].
  - destruct (existsb (String.eqb y) l) eqn:E.
    + split.
      * intro H. pose proof (dedup_length_le l). lia.
      * intro ND. inversion ND as [|? ? NI _]; subst. exfalso. apply NI. apply mem_iff. exact E.
    + cbn. split.
      * intro H. constructor; [|apply IH; lia]. intro I. apply mem_iff in I. unfold mem in I. congruence.
      * intro ND. inversion ND; subst. f_equal. apply IH. assumption.
Qed.

Lemma set_eqb_spec : forall a b, NoDup b ->
  (set_eqb a b = true <-> (NoDup a /\ forall x, In x a <-> In x b)).
Proof.
  intros a b NB. unfold set_eqb. rewrite !andb_true_iff, !forallb_forall, Nat.eqb_eq. split.
  - intros [[AB BA] L].
    assert (IA : incl a b) by (intros x I; apply mem_iff; apply AB; exact I).
    assert (IB : incl b a) by (intros x I; apply mem_iff; apply BA; exact I).
    split; [|intro x; split; [apply IA | apply IB]].
    apply (@NoDup_incl_NoDup _ b a NB); [lia | exact IB].
  - intros [NA EQ]. split; [split|].
    + intros x I. apply mem_iff. apply EQ. exact I.
    + intros x I. apply mem_iff. apply EQ. exact I.
    + apply Nat.le_antisymm; apply NoDup_incl_length; try assumption; intros x I; apply EQ; exact I.
Qed.

Lemma pmem_iff : forall kv l, pmem kv l = true <-> In kv l.
Proof.
  intros [k v] l. unfold pmem. rewrite existsb_exists. split.
  - intros [[k' v'] [I E]]. unfold pair_eqb in E. cbn in E. apply andb_true_iff in E.
    destruct E as [E1 E2]. apply String.eqb_eq in E1, E2. subst. exact I.
  - intro I. exists (k, v). split; [exact I|]. unfold pair_eqb. cbn. rewrite !String.eqb_refl. reflexivity.
Qed.

Lemma list_eqb_reg_eq : forall a b, list_eqb reg_result_eqb a b = true <-> a = b.
Proof.
  induction a as [|x a IH]; destruct b as [|y b]; cbn; split; intro H; try congruence; try discriminate.
  - apply andb_true_iff in H. destruct H as [H1 H2]. apply IH in H2. subst.
    destruct x, y; try discriminate; reflexivity.
  - inversion H; subst. apply andb_true_iff. split; [destruct y; reflexivity | apply IH; reflexivity].
Qed.

Lemma list_eqb_verdict : forall a b,
  list_eqb same_verdict a b = true <-> map accepted a = map accepted b.
Proof.
  induction a as [|x a IH]; destruct b as [|y b]; cbn; split; intro H; try congruence; try discriminate.
  - apply andb_true_iff in H. destruct H as [H1 H2]. apply IH in H2. unfold same_verdict in H1.
    apply Bool.eqb_prop in H1. congruence.
  - inversion H as [[H1 H2]]. apply andb_true_iff. split.
    + unfold same_verdict. rewrite H1. apply Bool.eqb_reflx.
    + apply IH. exact H2.
Qed.

(* ------------------------------------------- candidates, best route, Allow set *)

Lemma candidates_in : forall T m segs t,
  In t (candidates T m segs) <-> (In t T /\ tm t = m /\ matches (tpat t) segs).
Proof.
  intros. unfold candidates, candidate. rewrite filter_In, andb_true_iff, String.eqb_eq, matchesb_iff. tauto.
Qed.

Lemma bestb_iff : forall T m segs t, In t (candidates T m segs) ->
  (forallb (fun q => not_worse (tpat t) (tpat q)) (candidates T m segs) = true <-> is_best T m segs t).
Proof.
  intros T m segs t I. rewrite forallb_forall. apply candidates_in in I. destruct I as [I [E M]]. split.
  - intro H. split; [exact I|]. split; [exact E|]. split; [exact M|].
    intros q Iq Eq Mq. apply H. apply candidates_in. auto.
  - intros [_ [_ [_ B]]] q Iq. apply candidates_in in Iq. destruct Iq as [Iq [Eq Mq]]. apply B; assumption.
Qed.

Lemma best_of_sound : forall T m segs t, best_of T m segs = Some t -> is_best T m segs t.
Proof.
  intros T m segs t H. unfold best_of in H. apply find_some in H. destruct H as [I B].
  apply (bestb_iff T m segs t I). exact B.
Qed.

Lemma best_of_complete : forall T m segs t, is_best T m segs t -> exists t', best_of T m segs = Some t'.
Proof.
  intros T m segs t B. unfold best_of.
  destruct (find _ (candidates T m segs)) as [t'|] eqn:F; [eauto|]. exfalso.
  assert (I : In t (candidates T m segs)).
  { apply candidates_in. destruct B as [I [E [M _]]]. auto. }
  pose proof (find_none _ _ F t I) as N. cbn beta in N.
  rewrite (proj2 (bestb_iff T m segs t I) B) in N. discriminate.
Qed.

Lemma allow_spec_spec : forall T m segs,
  NoDup (allow_spec T m segs) /\
  forall m', In m' (allow_spec T m segs) <->
             (m' <> m /\ exists t, In t T /\ tm t = m' /\ matches (tpat t) segs).
Proof.
  intros T m segs. unfold allow_spec. split; [apply dedup_nodup|]. intro m'.
  rewrite dedup_in, in_map_iff. split.
  - intros [t [E I]]. apply filter_In in I. destruct I as [I P]. apply andb_true_iff in P.
    destruct P as [P1 P2]. apply negb_true_iff in P1. apply eqb_false_neq in P1.
    apply matchesb_iff in P2. subst m'. split; [exact P1|]. exists t. auto.
  - intros [N [t [I [E M]]]]. exists t. split; [exact E|]. apply filter_In. split; [exact I|].
    apply andb_true_iff. split.
    + apply negb_true_iff. apply neq_eqb_false. congruence.
    + apply matchesb_iff. exact M.
Qed.

Lemma no_members_nil : forall (l : list string), (forall x, ~ In x l) -> l = [].
Proof. intros [|x l] H; [reflexivity|]. exfalso. apply (H x). left. reflexivity. Qed.

(* ---------------------------------- (1) the trie router answers what spec_serve says *)

(* equality up to the order of the Allow list (Go iterates a map) *)
Definition resp_equiv (a b : response) : Prop :=
  match a, b with
  | RHandler h ps, RHandler h' ps' => h = h' /\ ps = ps'
  | RNotAllowed x, RNotAllowed y => Permutation x y
  | RNotAllowedCustom, RNotAllowedCustom => True
  | RNotFound, RNotFound => True
  | RNotFoundCustom, RNotFoundCustom => True
  | _, _ => False
  end.

Lemma L_serve_is_spec : forall nf na regs m p,
  one_var_name_per_position (table_of regs) = true ->
  resp_equiv (serve (router_of nf na regs) m p) (spec_serve (table_of regs) nf na m p).
Proof.
  intros nf na regs m p W. unfold spec_serve.
  destruct (clean_path p) as [segs|] eqn:CP.
  2: { rewrite (L_unrooted_not_found nf na regs m p CP). destruct nf; exact I. }
  pose proof (L_serve_cases nf na regs m p segs CP) as R.
  set (T := table_of regs) in *.
  destruct (allow_spec_spec T m segs) as [AN AM].
  assert (NOBEST : no_own T m segs -> best_of T m segs = None).
  { intro NO. destruct (best_of T m segs) as [t|] eqn:B; [|reflexivity]. exfalso.
    apply best_of_sound in B. destruct B as [I [E [M _]]]. exact (NO t I E M). }
  destruct (serve (router_of nf na regs) m p) as [h ps|allow| | |]; cbn in R.
  - destruct R as [t [B [E P]]]. destruct (best_of_complete T m segs t B) as [t' F]. rewrite F.
    pose proof (best_of_sound _ _ _ _ F) as B'.
    assert (t' = t) by (eapply L_best_is_unique; eassumption). subst t'. cbn. auto.
  - destruct R as [NA [NO [NE [ND AL]]]]. rewrite (NOBEST NO). subst na.
    assert (P : Permutation allow (allow_spec T m segs)).
    { apply NoDup_Permutation; try assumption. intro x. rewrite AL, AM. reflexivity. }
    destruct (allow_spec T m segs) as [|a l] eqn:AS.
    + exfalso. apply Permutation_sym, Permutation_nil in P. congruence.
    + exact P.
  - destruct R as [NA [NO [t [I [N M]]]]]. rewrite (NOBEST NO). subst na.
    destruct (allow_spec T m segs) as [|a l] eqn:AS; [|exact Logic.I].
    exfalso. assert (In (tm t) []) as X; [|exact X]. apply AM. split; [exact N|]. exists t. auto.
  - destruct R as [NF N]. subst nf.
    rewrite NOBEST by (intros t I _ M; exact (N t I M)).
    rewrite (no_members_nil (allow_spec T m segs)); [exact I|].
    intros x X. apply AM in X. destruct X as [_ [t [I [_ M]]]]. exact (N t I M).
  - destruct R as [NF N]. subst nf.
    rewrite NOBEST by (intros t I _ M; exact (N t I M)).
    rewrite (no_members_nil (allow_spec T m segs)); [exact I|].
    intros x X. apply AM in X. destruct X as [_ [t [I [_ M]]]]. exact (N t I M).
Qed.

(* ------------------------------ (2) the judgement applied to observed responses *)

(* the variables clause in observable form: a map of (name, segment) pairs of variable
   positions, every name of the pattern present, no name twice.  For patterns with pairwise
   distinct names this is "exactly the bound segments" (params_spec_distinct). *)
Definition params_spec (ps : params) (pat segs : list string) : Prop :=
  (forall kv, In kv ps -> In kv (raw_binds pat segs)) /\
  (forall k, In k (var_names pat) -> In k (map fst ps)) /\
  NoDup (map fst ps).

Definition obs_ok (T : table) (nf na : bool) (m : string) (segs : list string) (resp : response) : Prop :=
  match resp with
  | RHandler h ps => exists t, is_best T m segs t /\ th t = h /\ params_spec ps (tpat t) segs
  | RNotAllowed allow =>
    na = false /\ no_own T m segs /\ allow <> [] /\ NoDup allow /\
    forall m', In m' allow <-> (m' <> m /\ exists t, In t T /\ tm t = m' /\ matches (tpat t) segs)
  | RNotAllowedCustom =>
    na = true /\ no_own T m segs /\ exists t, In t T /\ tm t <> m /\ matches (tpat t) segs
  | RNotFound => nf = false /\ forall t, In t T -> ~ matches (tpat t) segs
  | RNotFoundCustom => nf = true /\ forall t, In t T -> ~ matches (tpat t) segs
  end.

Lemma params_ok_iff : forall ps pat segs, params_ok ps pat segs = true <-> params_spec ps pat segs.
Proof.
  intros ps pat segs. unfold params_ok, params_spec.
  rewrite !andb_true_iff, !forallb_forall, Nat.eqb_eq.
  replace (List.length ps) with (List.length (map fst ps)) by apply map_length.
  rewrite dedup_length_nodup. split.
  - intros [[A B] C]. split; [|split; [|exact C]].
    + intros kv I. apply pmem_iff. apply A. exact I.
    + intros k I. apply mem_iff. apply B. exact I.
  - intros [A [B C]]. split; [split|exact C].
    + intros kv I. apply pmem_iff. apply A. exact I.
    + intros k I. apply mem_iff. apply B. exact I.
Qed.

(* with pairwise distinct variable names the observable form is an exact statement: the
   delivered map, as a set of pairs, is the set of (name, segment) pairs of the variable positions *)
Lemma params_spec_distinct : forall ps pat segs, matches pat segs -> NoDup (var_names pat) ->
  params_spec ps pat segs -> forall kv, In kv ps <-> In kv (raw_binds pat segs).
Proof.
  intros ps pat segs M ND [A [B C]] [k v]. split; [apply A|]. intro I.
  assert (K : In k (map fst ps)).
  { apply B. rewrite <- (raw_binds_keys pat segs M). change k with (fst (k, v)). apply in_map. exact I. }
  apply in_map_iff in K. destruct K as [[k' v'] [E I']]. cbn in E. subst k'.
  pose proof (A _ I') as I2.
  (* keys of raw_binds are distinct: both pairs are the same *)
  assert (U : forall l : params, NoDup (map fst l) -> forall a b b', In (a, b) l -> In (a, b') l -> b = b').
  { induction l as [|[x y] l IH]; intros NDl a b b' H1 H2; [contradiction|].
    cbn in NDl. apply NoDup_cons_iff in NDl. destruct NDl as [NI NDl].
    destruct H1 as [H1|H1], H2 as [H2|H2]; try congruence.
    - inversion H1; subst. exfalso. apply NI. change a with (fst (a, b')). apply in_map. exact H2.
    - inversion H2; subst. exfalso. apply NI. change a with (fst (a, b)). apply in_map. exact H1.
    - eapply IH; eassumption. }
  assert (v' = v).
  { eapply (U (raw_binds pat segs)); [rewrite raw_binds_keys by exact M; exact ND | exact I2 | exact I]. }
  subst v'. exact I'.
Qed.

Lemma response_eqb_nf : forall r, response_eqb r RNotFound = true <-> r = RNotFound.
Proof. intros [h ps|a| | |]; cbn; split; congruence. Qed.
Lemma response_eqb_nfc : forall r, response_eqb r RNotFoundCustom = true <-> r = RNotFoundCustom.
Proof. intros [h ps|a| | |]; cbn; split; congruence. Qed.

Lemma candidates_nil : forall T m segs, candidates T m segs = [] <-> no_own T m segs.
Proof.
  intros T m segs. split.
  - intros E t I Et M. assert (In t (candidates T m segs)) as X by (apply candidates_in; auto).
    rewrite E in X. exact X.
  - intro NO. destruct (candidates T m segs) as [|t l] eqn:E; [reflexivity|]. exfalso.
    assert (In t (candidates T m segs)) as X by (rewrite E; left; reflexivity).
    apply candidates_in in X. destruct X as [I [Et M]]. exact (NO t I Et M).
Qed.

Lemma allow_nil : forall T m segs, no_own T m segs ->
  (allow_spec T m segs = [] <-> forall t, In t T -> ~ matches (tpat t) segs).
Proof.
  intros T m segs NO. destruct (allow_spec_spec T m segs) as [_ AM]. split.
  - intros E t I M. destruct (String.eqb_spec (tm t) m) as [Et|N]; [exact (NO t I Et M)|].
    assert (In (tm t) (allow_spec T m segs)) as X by (apply AM; split; [exact N | exists t; auto]).
    rewrite E in X. exact X.
  - intro N. apply no_members_nil. intros x X. apply AM in X. destruct X as [_ [t [I [_ M]]]]. exact (N t I M).
Qed.

(* THE equivalence: the boolean judgement of an observed response is the case table *)
Lemma L_response_ok_iff : forall T nf na q segs, clean_path (qp q) = Some segs ->
  (response_ok T nf na q = true <-> obs_ok T nf na (qm q) segs (qres q)).
Proof.
  intros T nf na q segs CP. unfold response_ok. rewrite CP.
  set (m := qm q). set (cs := candidates T m segs). set (al := allow_spec T m segs).
  destruct (allow_spec_spec T m segs) as [AN AM]. fold al in AN, AM.
  pose proof (candidates_nil T m segs) as CN. fold cs in CN.
  destruct (qres q) as [h ps|a| | |]; cbn [obs_ok].
  - rewrite existsb_exists. split.
    + intros [t [I H]]. rewrite !andb_true_iff in H. destruct H as [[H1 H2] H3].
      exists t. split; [apply (bestb_iff T m segs t I); exact H2|].
      split; [apply Z.eqb_eq; exact H1 | apply params_ok_iff; exact H3].
    + intros [t [B [E P]]]. exists t.
      assert (I : In t cs) by (apply candidates_in; destruct B as [I [Et [M _]]]; auto).
      split; [exact I|]. rewrite !andb_true_iff. split; [split|].
      * apply Z.eqb_eq. exact E.
      * apply (bestb_iff T m segs t I). exact B.
      * apply params_ok_iff. exact P.
  - destruct cs as [|c0 cs'] eqn:ECS.
    2: { split; [discriminate|]. intros [_ [NO _]]. apply CN in NO. discriminate. }
    pose proof (proj1 CN eq_refl) as NO.
    destruct al as [|a0 al'] eqn:EAL.
    + split; [discriminate|]. intros [_ [_ [NE [_ AL]]]]. exfalso.
      destruct a as [|x a']; [congruence|].
      assert (In x []) as X; [|exact X]. apply AM. apply AL. left. reflexivity.
    + rewrite andb_true_iff, negb_true_iff, (set_eqb_spec a (a0 :: al') AN). split.
      * intros [NA [ND EQ]]. split; [exact NA|]. split; [exact NO|]. split.
        { intro E. subst a. assert (In a0 []) as X; [|exact X]. apply EQ. left. reflexivity. }
        split; [exact ND|]. intro m'. rewrite EQ. apply AM.
      * intros [NA [_ [_ [ND AL]]]]. split; [exact NA|]. split; [exact ND|].
        intro x. rewrite AL. symmetry. apply AM.
  - destruct cs as [|c0 cs'] eqn:ECS.
    2: { split; [discriminate|]. intros [_ [NO _]]. apply CN in NO. discriminate. }
    pose proof (proj1 CN eq_refl) as NO.
    destruct al as [|a0 al'] eqn:EAL.
    + split; [discriminate|]. intros [_ [_ [t [I [N M]]]]]. exfalso.
      assert (In (tm t) []) as X; [|exact X]. apply AM. split; [exact N|]. exists t. auto.
    + split.
      * intro NA. split; [exact NA|]. split; [exact NO|].
        destruct (proj1 (AM a0) (or_introl eq_refl)) as [N [t [I [E M]]]]. exists t.
        split; [exact I|]. split; [congruence | exact M].
      * intros [NA _]. exact NA.
  - destruct cs as [|c0 cs'] eqn:ECS.
    2: { split; [discriminate|]. intros [_ N]. exfalso.
         assert (In c0 (candidates T m segs)) as X by (fold cs; rewrite ECS; left; reflexivity).
         apply candidates_in in X. destruct X as [I [_ M]]. exact (N c0 I M). }
    pose proof (proj1 CN eq_refl) as NO. pose proof (allow_nil T m segs NO) as ANIL. fold al in ANIL.
    destruct al as [|a0 al'] eqn:EAL.
    + rewrite negb_true_iff. split; [intro NF; split; [exact NF | apply ANIL; reflexivity] | intros [NF _]; exact NF].
    + split; [discriminate|]. intros [_ N]. apply ANIL in N. discriminate.
  - destruct cs as [|c0 cs'] eqn:ECS.
    2: { split; [discriminate|]. intros [_ N]. exfalso.
         assert (In c0 (candidates T m segs)) as X by (fold cs; rewrite ECS; left; reflexivity).
         apply candidates_in in X. destruct X as [I [_ M]]. exact (N c0 I M). }
    pose proof (proj1 CN eq_refl) as NO. pose proof (allow_nil T m segs NO) as ANIL. fold al in ANIL.
    destruct al as [|a0 al'] eqn:EAL.
    + split; [intro NF; split; [exact NF | apply ANIL; reflexivity] | intros [NF _]; exact NF].
    + split; [discriminate|]. intros [_ N]. apply ANIL in N. discriminate.
Qed.

Lemma L_response_ok_unrooted : forall T nf na q, clean_path (qp q) = None ->
  (response_ok T nf na q = true <-> qres q = (if nf then RNotFoundCustom else RNotFound)).
Proof.
  intros T nf na q CP. unfold response_ok. rewrite CP.
  destruct nf; [apply response_eqb_nfc | apply response_eqb_nf].
Qed.

(* the full-strength case table implies its observable form *)
Lemma L_resp_ok_obs_ok : forall T nf na m segs resp, resp_ok T nf na m segs resp -> obs_ok T nf na m segs resp.
Proof.
  intros T nf na m segs [h ps|a| | |] R; cbn in *; try exact R.
  destruct R as [t [B [E P]]]. exists t. split; [exact B|]. split; [exact E|]. subst ps.
  destruct B as [_ [_ [M _]]]. destruct (L_binds_general _ _ M) as [A [K ND]].
  split; [exact A|]. split; [intros k I; apply K; exact I | exact ND].
Qed.

(* no false alarm: whatever the verified model can answer passes the judgement *)
Lemma L_model_passes_judgement : forall nf na regs q,
  In (qres q) (serve_allowed (router_of nf na regs) (qm q) (qp q)) ->
  response_ok (table_of regs) nf na q = true.
Proof.
  intros nf na regs q I. destruct (clean_path (qp q)) as [segs|] eqn:CP.
  - apply (L_response_ok_iff _ nf na q segs CP). apply L_resp_ok_obs_ok.
    eapply L_allowed_cases; eassumption.
  - apply (L_response_ok_unrooted _ nf na q CP).
    unfold serve_allowed in I. rewrite CP in I. destruct I as [I|[]]. rewrite <- I. unfold not_found.
    destruct (router_flags nf na regs) as [A _]. rewrite A. reflexivity.
Qed.

(* what prop_ok says of a router case, unfolded *)
Definition judged_one (T : table) (nf na : bool) (m p : string) (r : response) : Prop :=
  match clean_path p with
  | Some segs => obs_ok T nf na m segs r
  | None => r = (if nf then RNotFoundCustom else RNotFound)
  end.

Lemma response_ok_judged : forall T nf na m p r,
  response_ok T nf na (mkReq m p "" r [] 0) = true <-> judged_one T nf na m p r.
Proof.
  intros T nf na m p r. unfold judged_one. destruct (clean_path p) as [segs|] eqn:CP.
  - apply (L_response_ok_iff T nf na (mkReq m p "" r [] 0) segs). exact CP.
  - apply (L_response_ok_unrooted T nf na (mkReq m p "" r [] 0)). exact CP.
Qed.

Lemma response_ok_fields : forall T nf na q,
  response_ok T nf na q = response_ok T nf na (mkReq (qm q) (qp q) "" (qres q) [] 0).
Proof. intros T nf na [m p c r l k]. reflexivity. Qed.

(* the first read and every later read of the variables of a dispatched request *)
Definition lates_judged (T : table) (nf na : bool) (m p : string) (r : response) (l : list params) : Prop :=
  match r with
  | RHandler h _ => Forall (fun ps => judged_one T nf na m p (RHandler h ps)) l
  | _ => l = []
  end.

Lemma lates_ok_iff : forall T nf na m p r l,
  lates_ok T nf na m p r l = true <-> lates_judged T nf na m p r l.
Proof.
  intros T nf na m p r l. unfold lates_ok, lates_judged.
  destruct r as [h ps|a| | |]; try (destruct l; split; congruence).
  rewrite forallb_forall, Forall_forall. split; intros H x I; apply response_ok_judged; apply H; exact I.
Qed.

Definition req_judged (T : table) (nf na : bool) (q : req) : Prop :=
  judged_one T nf na (qm q) (qp q) (qres q) /\ lates_judged T nf na (qm q) (qp q) (qres q) (qlate q).

Lemma L_r_prop_ok_iff : forall c,
  r_prop_ok c = true <->
  ((one_var_name_per_position (table_of (cregs c)) = true ->
    map accepted (cregobs c) = map accepted (reg_results [] (cregs c))) /\
   Forall (fun q => one_var_name_per_position (table_at_req c q) = true ->
                    req_judged (table_at_req c q) (cnf c) (cna c) q) (creqs c)).
Proof.
  intro c. unfold r_prop_ok, in_scope. rewrite andb_true_iff, forallb_forall, Forall_forall.
  assert (J : forall q, r_req_ok c q = true <->
                        (one_var_name_per_position (table_at_req c q) = true ->
                         req_judged (table_at_req c q) (cnf c) (cna c) q)).
  { intro q. unfold r_req_ok, req_judged. destruct (one_var_name_per_position (table_at_req c q)).
    - rewrite andb_true_iff, response_ok_fields, response_ok_judged, lates_ok_iff. tauto.
    - split; [intros _ H; discriminate | reflexivity]. }
  assert (V : (if one_var_name_per_position (table_of (cregs c))
               then list_eqb same_verdict (reg_results [] (cregs c)) (cregobs c) else true) = true <->
              (one_var_name_per_position (table_of (cregs c)) = true ->
               map accepted (cregobs c) = map accepted (reg_results [] (cregs c)))).
  { destruct (one_var_name_per_position (table_of (cregs c))).
    - rewrite list_eqb_verdict. split; [intros E _; symmetry; exact E | intro H; symmetry; apply H; reflexivity].
    - split; [intros _ H; discriminate | reflexivity]. }
  rewrite V. split; intros [A B]; (split; [exact A|]); intros q I; apply J; apply B; exact I.
Qed.

(* the verified model hands the SAME bindings to every read: they pass as the first read does *)
Lemma lates_ok_same : forall T nf na m p r l,
  response_ok T nf na (mkReq m p "" r [] 0) = true ->
  match r with RHandler _ ps => Forall (eq ps) l | _ => l = [] end ->
  lates_ok T nf na m p r l = true.
Proof.
  intros T nf na m p r l H S. unfold lates_ok. destruct r as [h ps|a| | |]; try (subst l; reflexivity).
  apply forallb_forall. intros x I. rewrite Forall_forall in S. rewrite <- (S x I). exact H.
Qed.

(* ------------------------------------------------- the same at server level *)
From GZ Require Import C09.ServerModel C09.ServerProofs.

Lemma first_error_none : forall l, all_ok l -> first_error l = None.
Proof.
  induction l as [|e l IH]; intro A; [reflexivity|]. inversion A; subst. cbn. apply IH. assumption.
Qed.

(* no false alarm at server level: whatever a server started by the verified registration model
   can answer passes the judgement computed from the tables the user wrote *)
Lemma L_server_model_passes : forall s q r,
  start_of (wstarts (run opt_real (scfgs s) (stables s) (sevents s))) (sqs q) = Some (Started r) ->
  let c := nth (sqs q) (scfgs s) default_cfg in
  In (sqres q) (sserve_allowed (sc_cors c) r (sqm q) (sqp q)) ->
  match sqres q with
  | SResp (RHandler _ ps) => Forall (eq ps) (sqlate q)      (* every later read = the first one *)
  | _ => sqlate q = []
  end ->
  sreq_ok s q = true.
Proof.
  intros s q r ST c I LT. unfold sreq_ok. destruct (negb (server_in_scope s (sqs q))); [reflexivity|].
  fold c. unfold user_regs.
  destruct (L_server_dispatch _ _ _ _ _ ST) as [E [A [_ _]]]. fold c in E.
  set (regs := spec_regs (stables s) (before_start (sqs q) (sevents s)) (sqs q)) in *.
  rewrite (first_error_none _ A).
  apply andb_true_iff. unfold sresponse_ok, slates_ok, sserve_allowed in *. destruct (sc_cors c) eqn:CORS.
  - cbn [andb] in I. destruct (sqm q =? "OPTIONS").
    + destruct I as [I|[]]. rewrite <- I in *. rewrite LT. split; reflexivity.
    + apply in_map_iff in I. destruct I as [x [EQ I]]. rewrite <- EQ in *. subst r. rewrite orb_true_r in I.
      pose proof (L_model_passes_judgement (sc_nf c) true regs (mkReq (sqm q) (sqp q) "" x [] 0) I) as J.
      destruct x as [h ps|a| | |]; cbn [cors_view] in *.
      * split; [exact J | apply lates_ok_same; assumption].
      * exfalso. unfold response_ok in J. cbn [qp qm qres] in J.
        destruct (clean_path (sqp q)); [|destruct (sc_nf c); discriminate].
        destruct (candidates _ _ _); [|discriminate]. destruct (allow_spec _ _ _); discriminate.
      * rewrite J, LT. split; [apply orb_true_r | reflexivity].
      * rewrite J, LT. split; reflexivity.
      * rewrite LT. split; [exact J | reflexivity].
  - cbn [andb] in I. apply in_map_iff in I. destruct I as [x [EQ I]]. rewrite <- EQ in *. subst r.
    rewrite orb_false_r in I.
    pose proof (L_model_passes_judgement (sc_nf c) (sc_na c) regs (mkReq (sqm q) (sqp q) "" x [] 0) I) as J.
    split; [exact J|]. apply lates_ok_same; [exact J|].
    destruct x; exact LT.
Qed.

(* and what a passing judgement means for a server without CORS: the full case table over the
   user's tables *)
Lemma L_server_judgement_means : forall s q segs resp,
  server_in_scope s (sqs q) = true ->
  let c := nth (sqs q) (scfgs s) default_cfg in
  sc_cors c = false -> sqres q = SResp resp -> clean_path (sqp q) = Some segs ->
  sreq_ok s q = true ->
  all_ok (reg_results [] (user_regs s (sqs q))) /\
  obs_ok (table_of (user_regs s (sqs q))) (sc_nf c) (sc_na c) (sqm q) segs resp.
Proof.
  intros s q segs resp SC c NC ER CP H. unfold sreq_ok in H. rewrite SC in H. cbn [negb] in H. fold c in H.
  destruct (first_error (reg_results [] (user_regs s (sqs q)))) eqn:FE; [discriminate|].
  split.
  - unfold first_error in FE. unfold all_ok. apply Forall_forall. intros e I.
    pose proof (find_none _ _ FE e I) as N. cbn beta in N. apply negb_false_iff in N.
    destruct e; try discriminate. reflexivity.
  - apply andb_true_iff in H. destruct H as [H _]. unfold sresponse_ok in H. rewrite NC, ER in H.
    apply (L_response_ok_iff _ _ _ (mkReq (sqm q) (sqp q) "" resp [] 0) segs CP). exact H.
Qed.

(* ... and every later read of the variables of a dispatched request was judged like the first *)
Lemma L_server_lates_judged : forall s q resp,
  server_in_scope s (sqs q) = true ->
  let c := nth (sqs q) (scfgs s) default_cfg in
  sc_cors c = false -> sqres q = SResp resp ->
  sreq_ok s q = true ->
  lates_judged (table_of (user_regs s (sqs q))) (sc_nf c) (sc_na c) (sqm q) (sqp q) resp (sqlate q).
Proof.
  intros s q resp SC c NC ER H. unfold sreq_ok in H. rewrite SC in H. cbn [negb] in H. fold c in H.
  destruct (first_error (reg_results [] (user_regs s (sqs q)))); [discriminate|].
  apply andb_true_iff in H. destruct H as [_ H]. unfold slates_ok in H. rewrite NC, ER in H.
  apply lates_ok_iff. exact H.
Qed.

(* ------------------------------ the case table determines the response; order of registration *)

Lemma allow_lists_perm : forall (a b : list string) (P : string -> Prop),
  NoDup a -> NoDup b -> (forall x, In x a <-> P x) -> (forall x, In x b <-> P x) -> Permutation a b.
Proof.
  intros a b P Na Nb Ha Hb. apply NoDup_Permutation; try assumption. intro x. rewrite Ha, Hb. reflexivity.
Qed.

Definition own_match (T : table) (m : string) (segs : list string) : Prop :=
  exists t, In t T /\ tm t = m /\ matches (tpat t) segs.
Definition any_match (T : table) (segs : list string) : Prop :=
  exists t, In t T /\ matches (tpat t) segs.

(* which of the three situations a response obeying the case table stands for *)
Lemma resp_ok_class : forall T nf na m segs r, resp_ok T nf na m segs r ->
  match r with
  | RHandler _ _ => own_match T m segs
  | RNotAllowed _ | RNotAllowedCustom => ~ own_match T m segs /\ any_match T segs
  | RNotFound | RNotFoundCustom => ~ any_match T segs
  end.
Proof.
  intros T nf na m segs [h ps|a| | |] R; cbn in R.
  - destruct R as [t [[I [E [M _]]] _]]. exists t. auto.
  - destruct R as [_ [NO [NE [_ AL]]]]. split.
    + intros [t [I [E M]]]. exact (NO t I E M).
    + destruct a as [|x a]; [congruence|]. destruct (proj1 (AL x) (or_introl eq_refl)) as [_ [t [I [_ M]]]].
      exists t. auto.
  - destruct R as [_ [NO [t [I [_ M]]]]]. split.
    + intros [t' [I' [E' M']]]. exact (NO t' I' E' M').
    + exists t. auto.
  - destruct R as [_ N]. intros [t [I M]]. exact (N t I M).
  - destruct R as [_ N]. intros [t [I M]]. exact (N t I M).
Qed.

(* inside the side condition two responses that both obey the case table are the same response
   (the Allow list up to order): the property statement leaves no freedom *)
Lemma L_case_table_functional : forall regs nf na m p segs r1 r2,
  clean_path p = Some segs ->
  one_var_name_per_position (table_of regs) = true ->
  resp_ok (table_of regs) nf na m segs r1 -> resp_ok (table_of regs) nf na m segs r2 ->
  resp_equiv r1 r2.
Proof.
  intros regs nf na m p segs r1 r2 CP W R1 R2. set (T := table_of regs) in *.
  pose proof (resp_ok_class _ _ _ _ _ _ R1) as C1. pose proof (resp_ok_class _ _ _ _ _ _ R2) as C2.
  assert (OA : own_match T m segs -> any_match T segs).
  { intros [t [I [_ M]]]. exists t. auto. }
  destruct r1 as [h1 ps1|a1| | |], r2 as [h2 ps2|a2| | |]; cbn [resp_equiv]; try exact I;
    try (exfalso; tauto).
  - destruct R1 as [t1 [B1 [E1 P1]]]. destruct R2 as [t2 [B2 [E2 P2]]].
    assert (t1 = t2) by (eapply L_best_is_unique; eassumption). subst t2. split; congruence.
  - destruct R1 as [_ [_ [_ [N1 A1]]]]. destruct R2 as [_ [_ [_ [N2 A2]]]].
    apply (allow_lists_perm a1 a2 (fun m' => m' <> m /\ exists t, In t T /\ tm t = m' /\ matches (tpat t) segs)); assumption.
  - cbn in R1, R2. destruct R1 as [E1 _], R2 as [E2 _]. congruence.
  - cbn in R1, R2. destruct R1 as [E1 _], R2 as [E2 _]. congruence.
  - cbn in R1, R2. destruct R1 as [E1 _], R2 as [E2 _]. congruence.
  - cbn in R1, R2. destruct R1 as [E1 _], R2 as [E2 _]. congruence.
Qed.

(* the case table only looks at WHICH routes are in the table *)
Lemma resp_ok_same_routes : forall T T' nf na m segs r,
  (forall t, In t T <-> In t T') -> resp_ok T nf na m segs r -> resp_ok T' nf na m segs r.
Proof.
  intros T T' nf na m segs r EQ R.
  assert (NO : no_own T m segs -> no_own T' m segs).
  { intros NO t I. apply NO. apply EQ. exact I. }
  assert (NN : (forall t, In t T -> ~ matches (tpat t) segs) -> forall t, In t T' -> ~ matches (tpat t) segs).
  { intros N t I. apply N. apply EQ. exact I. }
  destruct r as [h ps|a| | |]; cbn in *.
  - destruct R as [t [[I [E [M B]]] HP]]. exists t. split; [|exact HP].
    split; [apply EQ; exact I|]. split; [exact E|]. split; [exact M|].
    intros q Iq. apply B. apply EQ. exact Iq.
  - destruct R as [A [N [NE [ND AL]]]]. split; [exact A|]. split; [apply NO; exact N|].
    split; [exact NE|]. split; [exact ND|].
    intro m'. rewrite AL.
    split; intros [N' [t [I [E M]]]]; (split; [exact N'|]); exists t; (split; [apply EQ; exact I | auto]).
  - destruct R as [A [N [t [I [E M]]]]]. split; [exact A|]. split; [apply NO; exact N|].
    exists t. split; [apply EQ; exact I | auto].
  - destruct R as [A N]. split; [exact A | apply NN; exact N].
  - destruct R as [A N]. split; [exact A | apply NN; exact N].
Qed.

(* two registration histories that leave the same SET of routes answer every request alike:
   the order of the Handle calls (and of the groups / mounts at server level) is irrelevant *)
Lemma L_registration_order_irrelevant : forall nf na regs regs' m p,
  (forall t, In t (table_of regs) <-> In t (table_of regs')) ->
  one_var_name_per_position (table_of regs) = true ->
  resp_equiv (serve (router_of nf na regs) m p) (serve (router_of nf na regs') m p).
Proof.
  intros nf na regs regs' m p EQ W. destruct (clean_path p) as [segs|] eqn:CP.
  - eapply L_case_table_functional; try eassumption.
    + eapply L_serve_cases. exact CP.
    + apply (resp_ok_same_routes (table_of regs')); [intro t; symmetry; apply EQ|].
      eapply L_serve_cases. exact CP.
  - rewrite !L_unrooted_not_found by exact CP. destruct nf; exact I.
Qed.

(* ------------------------------------------------ request histories: the variables of request i
   are a function of (table, request i) only *)
From GZ Require Import C09.History.

Lemma lookup_nat_in : forall A i (a : A) l, lookup_nat i l = Some a -> In (i, a) l.
Proof.
  induction l as [|[j b] l IH]; cbn; intro H; [discriminate|].
  destruct (Nat.eqb j i) eqn:E; [apply Nat.eqb_eq in E; left; congruence | right; apply IH; exact H].
Qed.

(* every read of every schedule returns the bindings of the reading request itself, whatever else
   was served, returned or read before, in between or concurrently *)
Lemma L_reads_are_own_bindings : forall r reqs sched i ps,
  In (i, ps) (hreads (hrun r reqs sched)) -> ps = vars_of r (req_at reqs i).
Proof.
  intros r reqs sched. unfold hrun.
  assert (G : forall st,
            (forall i ps, In (i, ps) (hmaps st) -> ps = vars_of r (req_at reqs i)) ->
            (forall i ps, In (i, ps) (hreads st) -> ps = vars_of r (req_at reqs i)) ->
            forall i ps, In (i, ps) (hreads (fold_left (hstep r reqs) sched st)) ->
                         ps = vars_of r (req_at reqs i)).
  { induction sched as [|e sched IH]; intros st HM HR; [exact HR|]. cbn [fold_left]. apply IH.
    - destruct e as [j|j|j]; cbn [hstep].
      + cbn [hmaps]. intros i ps [E|I]; [inversion E; reflexivity | apply HM; exact I].
      + exact HM.
      + destruct (lookup_nat j (hmaps st)); exact HM.
    - destruct e as [j|j|j]; cbn [hstep].
      + exact HR.
      + exact HR.
      + destruct (lookup_nat j (hmaps st)) as [ps0|] eqn:L; [|exact HR].
        cbn [hreads]. intros i ps [E|I]; [|apply HR; exact I].
        inversion E; subst. apply HM. apply lookup_nat_in. exact L. }
  apply G; intros i ps [].
Qed.

(* ... hence independent of every OTHER request of the history: replace them all *)
Lemma L_reads_independent_of_other_requests : forall r reqs reqs' sched sched' i ps ps',
  req_at reqs i = req_at reqs' i ->
  In (i, ps) (hreads (hrun r reqs sched)) -> In (i, ps') (hreads (hrun r reqs' sched')) -> ps = ps'.
Proof.
  intros r reqs reqs' sched sched' i ps ps' E H H'.
  rewrite (L_reads_are_own_bindings _ _ _ _ _ H), (L_reads_are_own_bindings _ _ _ _ _ H'), E. reflexivity.
Qed.

(* and they are the bindings of the best route (inside the side condition) *)
Lemma L_reads_are_best_route_bindings : forall nf na regs reqs sched i ps segs t,
  In (i, ps) (hreads (hrun (router_of nf na regs) reqs sched)) ->
  clean_path (snd (req_at reqs i)) = Some segs ->
  one_var_name_per_position (table_of regs) = true ->
  is_best (table_of regs) (fst (req_at reqs i)) segs t ->
  ps = binds (tpat t) segs.
Proof.
  intros nf na regs reqs sched i ps segs t H CP W B.
  rewrite (L_reads_are_own_bindings _ _ _ _ _ H). unfold vars_of.
  pose proof (L_serve_cases nf na regs (fst (req_at reqs i)) (snd (req_at reqs i)) segs CP) as R.
  destruct (serve (router_of nf na regs) (fst (req_at reqs i)) (snd (req_at reqs i))) as [h ps0|a| | |] eqn:S;
    cbn in R.
  - destruct R as [t' [B' [_ P]]]. assert (t' = t) by (eapply L_best_is_unique; eassumption). subst. reflexivity.
  - exfalso. destruct R as [_ [NO _]]. destruct B as [I [E [M _]]]. exact (NO t I E M).
  - exfalso. destruct R as [_ [NO _]]. destruct B as [I [E [M _]]]. exact (NO t I E M).
  - exfalso. destruct R as [_ N]. destruct B as [I [_ [M _]]]. exact (N t I M).
  - exfalso. destruct R as [_ N]. destruct B as [I [_ [M _]]]. exact (N t I M).
Qed.

(* ------------------------------------------------ agreement with the model implies the property:
   the whole property judgement of a router case is a CONSEQUENCE of [r_agrees] *)

Lemma nodup_keys_functional : forall (l : params), NoDup (map fst l) ->
  forall a b b', In (a, b) l -> In (a, b') l -> b = b'.
Proof.
  induction l as [|[x y] l IH]; intros NDl a b b' H1 H2; [contradiction|].
  cbn in NDl. apply NoDup_cons_iff in NDl. destruct NDl as [NI NDl].
  destruct H1 as [H1|H1], H2 as [H2|H2]; try congruence.
  - inversion H1; subst. exfalso. apply NI. change a with (fst (a, b')). apply in_map. exact H2.
  - inversion H2; subst. exfalso. apply NI. change a with (fst (a, b)). apply in_map. exact H1.
  - eapply IH; eassumption.
Qed.

Lemma nodup_keys_sub : forall (l l' : params), NoDup l -> incl l l' -> NoDup (map fst l') -> NoDup (map fst l).
Proof.
  induction l as [|[k v] l IH]; intros l' ND IN NK; cbn; [constructor|].
  inversion ND as [|? ? NI ND']; subst. constructor.
  - intro I. apply in_map_iff in I. destruct I as [[k' v'] [E I]]. cbn in E. subst k'.
    assert (v' = v).
    { eapply (nodup_keys_functional l' NK k); apply IN; [right; exact I | left; reflexivity]. }
    subst v'. contradiction.
  - apply (IH l'); [exact ND' | intros x I; apply IN; right; exact I | exact NK].
Qed.

Lemma nodup_of_keys : forall (l : params), NoDup (map fst l) -> NoDup l.
Proof.
  induction l as [|x l IH]; cbn; intro H; [constructor|]. inversion H; subst.
  constructor; [intro I; apply H2; apply in_map; exact I | apply IH; assumption].
Qed.

Lemma params_eqb_spec : forall a b, params_eqb a b = true ->
  incl a b /\ incl b a /\ List.length a = List.length b.
Proof.
  intros a b H. unfold params_eqb in H. rewrite !andb_true_iff, !forallb_forall, Nat.eqb_eq in H.
  destruct H as [[A B] L]. split; [|split; [|exact L]]; intros x I; apply pmem_iff; auto.
Qed.

Lemma params_eqb_sym : forall a b, params_eqb a b = true -> params_eqb b a = true.
Proof.
  intros a b H. unfold params_eqb in *. rewrite !andb_true_iff in *. destruct H as [[A B] L].
  split; [split; assumption|]. apply Nat.eqb_eq in L. apply Nat.eqb_eq. congruence.
Qed.

(* the variables clause does not depend on the order in which a map is listed *)
Lemma params_spec_eqb : forall a b pat segs, params_eqb a b = true ->
  params_spec b pat segs -> params_spec a pat segs.
Proof.
  intros a b pat segs E [P1 [P2 P3]]. destruct (params_eqb_spec _ _ E) as [AB [BA L]].
  split; [intros kv I; apply P1; apply AB; exact I|]. split.
  - intros k I. apply P2 in I. apply in_map_iff in I. destruct I as [[k' v] [EK I]]. cbn in EK. subst k'.
    change k with (fst (k, v)). apply in_map. apply BA. exact I.
  - apply (nodup_keys_sub a b); [|exact AB | exact P3].
    apply (@NoDup_incl_NoDup _ b a (nodup_of_keys _ P3)); [lia | exact BA].
Qed.

(* the case table does not distinguish responses that [response_eqb] identifies *)
Lemma obs_ok_eqb : forall T nf na m segs a b, response_eqb a b = true ->
  obs_ok T nf na m segs b -> obs_ok T nf na m segs a.
Proof.
  intros T nf na m segs a b E O.
  destruct a as [h ps|x| | |], b as [h' ps'|y| | |]; cbn in E; try discriminate; try exact O.
  - apply andb_true_iff in E. destruct E as [EH EP]. apply Z.eqb_eq in EH. subst h'.
    destruct O as [t [B [ET P]]]. exists t. split; [exact B|]. split; [exact ET|].
    eapply params_spec_eqb; eassumption.
  - destruct O as [NA [NO [NE [ND AL]]]].
    destruct (proj1 (set_eqb_spec x y ND) E) as [NDx EQ].
    split; [exact NA|]. split; [exact NO|]. split.
    + intro X. subst x. destruct y as [|y0 y]; [congruence|]. apply (proj2 (EQ y0)). left. reflexivity.
    + split; [exact NDx|]. intro m'. rewrite EQ. apply AL.
Qed.

Lemma judged_one_eqb : forall T nf na m p a b, response_eqb a b = true ->
  judged_one T nf na m p b -> judged_one T nf na m p a.
Proof.
  intros T nf na m p a b E J. unfold judged_one in *. destruct (clean_path p).
  - eapply obs_ok_eqb; eassumption.
  - subst b. destruct nf; [apply response_eqb_nfc | apply response_eqb_nf]; exact E.
Qed.

Lemma build_is_router_of : forall nf na regs, build (new_router nf na) regs = router_of nf na regs.
Proof. reflexivity. Qed.

Lemma L_agrees_implies_prop_ok_router : forall c, r_agrees c = true -> r_prop_ok c = true.
Proof.
  intros c A. unfold r_agrees in A. rewrite !andb_true_iff in A. destruct A as [[REG _] REQ].
  apply L_r_prop_ok_iff. split.
  - intros _. apply list_eqb_reg_eq in REG. rewrite <- REG. rewrite L_registration_history. reflexivity.
  - rewrite forallb_forall in REQ. apply Forall_forall. intros q I W.
    specialize (REQ q I). rewrite !andb_true_iff in REQ. destruct REQ as [[_ EX] LT].
    apply existsb_exists in EX. destruct EX as [x [IX EQ]].
    rewrite build_is_router_of in IX. unfold table_at_req in *.
    set (regs := firstn (qafter q) (cregs c)) in *.
    pose proof (L_model_passes_judgement (cnf c) (cna c) regs (mkReq (qm q) (qp q) "" x [] 0) IX) as J.
    apply response_ok_judged in J.
    assert (J1 : judged_one (table_of regs) (cnf c) (cna c) (qm q) (qp q) (qres q)).
    { eapply judged_one_eqb; eassumption. }
    split; [exact J1|]. unfold lates_judged. unfold lates_agree in LT.
    destruct (qres q) as [h ps|a| | |]; try (destruct (qlate q); [reflexivity | discriminate]).
    rewrite forallb_forall in LT. apply Forall_forall. intros l IL.
    apply (judged_one_eqb _ _ _ _ _ (RHandler h l) (RHandler h ps)); [|exact J1].
    cbn. rewrite Z.eqb_refl. cbn. apply params_eqb_sym. apply LT. exact IL.
Qed.

(* ---- the same for server cases *)

Lemma response_ok_eqb : forall T nf na m p a b, response_eqb a b = true ->
  response_ok T nf na (mkReq m p "" b [] 0) = true -> response_ok T nf na (mkReq m p "" a [] 0) = true.
Proof.
  intros T nf na m p a b E H. apply response_ok_judged. apply response_ok_judged in H.
  eapply judged_one_eqb; eassumption.
Qed.

Lemma lates_ok_from_agree : forall T nf na m p a L,
  response_ok T nf na (mkReq m p "" a [] 0) = true -> lates_agree a L = true ->
  lates_ok T nf na m p a L = true.
Proof.
  intros T nf na m p a L H A. unfold lates_ok, lates_agree in *. destruct a as [h ps|x| | |]; try exact A.
  rewrite forallb_forall in *. intros l I.
  apply (response_ok_eqb _ _ _ _ _ (RHandler h l) (RHandler h ps)); [|exact H].
  cbn. rewrite Z.eqb_refl. cbn. apply params_eqb_sym. apply A. exact I.
Qed.

Lemma forallb2_impl : forall A B (f g : A -> B -> bool) a b,
  (forall x y, f x y = true -> g x y = true) -> forallb2 f a b = true -> forallb2 g a b = true.
Proof.
  intros A B f g. induction a as [|x a IH]; destruct b as [|y b]; cbn; intros H F; try congruence.
  apply andb_true_iff in F. destruct F as [F1 F2]. apply andb_true_iff. split; [apply H; exact F1 | apply IH; assumption].
Qed.

Lemma first_error_some : forall l e, In e l -> e <> RegOk -> exists e', first_error l = Some e'.
Proof.
  induction l as [|x l IH]; intros e I N; [contradiction|]. unfold first_error. cbn.
  destruct (negb (reg_result_eqb x RegOk)) eqn:X; [eauto|].
  destruct I as [I|I]; [subst x; destruct e; cbn in X; congruence|]. exact (IH e I N).
Qed.

Lemma response_eqb_shape_nf : forall a, response_eqb a RNotFound = true -> a = RNotFound.
Proof. intros a H. apply response_eqb_nf. exact H. Qed.

(* engine.bindRoutes as Handle calls = what the plain route list prescribes, call by call *)
Lemma bind_calls_spec : forall nf na regs pre,
  bind_calls (router_of nf na pre) regs = spec_calls (table_of pre) regs.
Proof.
  intros nf na. induction regs as [|g regs IH]; intro pre; [reflexivity|].
  destruct g as [m p h]. cbn [bind_calls spec_calls rmethod rpath].
  destruct (L_registration_rejects nf na pre m p h) as [R [_ [F T]]]. cbn zeta in R, F, T.
  unfold handle_reg. cbn [rmethod rpath rhandler].
  destruct (handle (router_of nf na pre) m p h) as [r' e] eqn:H. cbn [fst snd] in R, F.
  rewrite <- R. destruct e; try reflexivity.
  rewrite F, <- T. f_equal. apply IH.
Qed.

Lemma L_bind_calls_are_spec : forall nf na regs,
  bind_calls (new_router nf na) regs = spec_calls [] regs.
Proof. intros. apply (bind_calls_spec nf na regs []). Qed.

(* [spec_calls]: a prefix of the list; all of it, all accepted, when nothing is to be rejected; ending with a rejected
   call otherwise *)
Lemma spec_calls_incl : forall regs T x, In x (spec_calls T regs) -> In (fst x) regs.
Proof.
  induction regs as [|g regs IH]; intros T x I; [contradiction|]. cbn [spec_calls] in I.
  destruct (reg_spec T (rmethod g) (rpath g));
    try (destruct I as [I|[]]; subst x; left; reflexivity).
  destruct I as [I|I]; [subst x; left; reflexivity | right; exact (IH _ _ I)].
Qed.

Lemma spec_calls_none : forall regs T, first_error (reg_results T regs) = None ->
  spec_calls T regs = map (fun g => (g, RegOk)) regs.
Proof.
  induction regs as [|g regs IH]; intros T F; [reflexivity|]. cbn [spec_calls reg_results map] in *.
  unfold first_error in F. cbn [find] in F.
  destruct (reg_spec T (rmethod g) (rpath g)) eqn:E; cbn in F; try discriminate.
  f_equal. apply IH. exact F.
Qed.

Lemma spec_calls_some : forall regs T e, first_error (reg_results T regs) = Some e ->
  exists x, In x (spec_calls T regs) /\ accepted (snd x) = false.
Proof.
  induction regs as [|g regs IH]; intros T e F; [discriminate|]. cbn [spec_calls reg_results] in *.
  unfold first_error in F. cbn [find] in F.
  destruct (reg_spec T (rmethod g) (rpath g)) eqn:E; cbn in F;
    try (eexists; split; [left; reflexivity | reflexivity]).
  destruct (IH _ _ F) as [x [I A]]. exists x. split; [right; exact I | exact A].
Qed.

Lemma forallb2_right : forall A B (f : A -> B -> bool) a b, forallb2 f a b = true ->
  forall y, In y b -> exists x, In x a /\ f x y = true.
Proof.
  intros A B f. induction a as [|x a IH]; destruct b as [|y b]; cbn; intros F z I; try contradiction; try discriminate.
  apply andb_true_iff in F. destruct F as [F1 F2]. destruct I as [I|I].
  - subst z. exists x. split; [left; reflexivity | exact F1].
  - destruct (IH _ F2 _ I) as [x' [I' H]]. exists x'. split; [right; exact I' | exact H].
Qed.

Lemma forallb2_left : forall A B (f : A -> B -> bool) a b, forallb2 f a b = true ->
  forall x, In x a -> exists y, In y b /\ f x y = true.
Proof.
  intros A B f. induction a as [|x a IH]; destruct b as [|y b]; cbn; intros F z I; try contradiction; try discriminate.
  apply andb_true_iff in F. destruct F as [F1 F2]. destruct I as [I|I].
  - subst z. exists y. split; [left; reflexivity | exact F1].
  - destruct (IH _ F2 _ I) as [y' [I' H]]. exists y'. split; [right; exact I' | exact H].
Qed.

Lemma accepted_eqb : forall a b, reg_result_eqb a b = true -> accepted a = accepted b.
Proof. intros a b H. destruct a, b; cbn in H; try discriminate; reflexivity. Qed.

(* the order-insensitive judgement follows from the call-by-call comparison with the model *)
Lemma calls_ok_from_pointwise : forall regs calls,
  forallb2 call_agrees (spec_calls [] regs) calls = true -> calls_ok regs calls = true.
Proof.
  intros regs calls F. unfold calls_ok. apply andb_true_iff. split.
  - apply forallb_forall. intros o I. destruct (forallb2_right _ _ _ _ _ F o I) as [x [IX C]].
    unfold call_agrees in C. apply andb_true_iff in C. destruct C as [C _].
    unfold regs_have. apply existsb_exists. exists (fst x). split; [exact (spec_calls_incl _ _ _ IX) | exact C].
  - destruct (first_error (reg_results [] regs)) as [e|] eqn:FE.
    + destruct (spec_calls_some _ _ _ FE) as [x [IX A]].
      destruct (forallb2_left _ _ _ _ _ F x IX) as [o [IO C]].
      apply existsb_exists. exists o. split; [exact IO|].
      unfold call_agrees in C. apply andb_true_iff in C. destruct C as [_ C].
      rewrite <- (accepted_eqb _ _ C), A. reflexivity.
    + rewrite (spec_calls_none _ _ FE) in F. apply andb_true_iff. split.
      * apply forallb_forall. intros o I. destruct (forallb2_right _ _ _ _ _ F o I) as [x [IX C]].
        apply in_map_iff in IX. destruct IX as [g [EG _]]. subst x.
        unfold call_agrees in C. apply andb_true_iff in C. destruct C as [_ C]. cbn [snd] in C.
        rewrite <- (accepted_eqb _ _ C). reflexivity.
      * apply forallb_forall. intros g I.
        destruct (forallb2_left _ _ _ _ _ F (g, RegOk)) as [o [IO C]]; [apply in_map_iff; exists g; auto|].
        unfold call_agrees in C. apply andb_true_iff in C. destruct C as [C _].
        unfold calls_have. apply existsb_exists. exists o. split; [exact IO | exact C].
Qed.

Lemma L_agrees_implies_prop_ok_server : forall s, s_agrees s = true -> s_prop_ok s = true.
Proof.
  intros s A. unfold s_agrees in A. rewrite !andb_true_iff in A. destruct A as [[[[[ST _] _] _] REQ] BND].
  unfold s_prop_ok. rewrite !andb_true_iff. split; [split|].
  3: { (* the Handle calls Start made *)
    revert BND. apply forallb2_impl. intros i o BA. unfold bound_ok, bound_agrees in *.
    destruct o as [calls|]; [|reflexivity].
    destruct (negb (server_in_scope s i)); [reflexivity|].
    destruct (has_start i (sevents s)); [|exact BA].
    unfold bound_regs in BA. rewrite L_routes_are_spec in BA. fold (user_regs s i) in BA.
    rewrite L_bind_calls_are_spec in BA. apply calls_ok_from_pointwise. exact BA. }
  - (* how every Start ended *)
    revert ST. apply forallb2_impl. intros i o SA. unfold start_ok.
    destruct (negb (server_in_scope s i)); [reflexivity|].
    rewrite L_start_is_spec in SA. destruct (has_start i (sevents s)); cbn [negb].
    + unfold spec_start, start_server in SA. fold (user_regs s i) in SA.
      set (c := nth i (scfgs s) default_cfg) in *.
      pose proof (L_bind_regs (sc_nf c) (sc_na c || sc_cors c) (user_regs s i)) as B.
      destruct (bind_routes (new_router (sc_nf c) (sc_na c || sc_cors c)) (user_regs s i)) as [r|e].
      * destruct B as [_ [AO _]]. rewrite (first_error_none _ AO). destruct o; cbn in SA; congruence.
      * destruct B as [N [pre [g [post [E [_ R]]]]]].
        assert (IN : In e (reg_results [] (user_regs s i))).
        { rewrite E, reg_results_app. apply in_or_app. right. cbn. left. exact R. }
        destruct (first_error_some _ _ IN N) as [e' FE]. rewrite FE. destruct o; cbn in SA; congruence.
    + destruct o; cbn in SA; congruence.
  - (* every request *)
    rewrite forallb_forall in *. intros q I. specialize (REQ q I).
    destruct (start_of (wstarts (run opt_real (scfgs s) (stables s) (sevents s))) (sqs q)) as [[r|e]|] eqn:SO;
      try discriminate.
    rewrite !andb_true_iff in REQ. destruct REQ as [[EX _] LT].
    apply existsb_exists in EX. destruct EX as [x [IX EQ]].
    unfold sreq_ok. destruct (negb (server_in_scope s (sqs q))); [reflexivity|].
    set (c := nth (sqs q) (scfgs s) default_cfg) in *. unfold user_regs.
    destruct (L_server_dispatch _ _ _ _ _ SO) as [E [AO [_ _]]]. fold c in E.
    set (regs := spec_regs (stables s) (before_start (sqs q) (sevents s)) (sqs q)) in *.
    rewrite (first_error_none _ AO). apply andb_true_iff.
    unfold sresponse_ok, slates_ok, slates_agree, sserve_allowed in *. destruct (sc_cors c) eqn:CORS.
    + cbn [andb] in IX. destruct (sqm q =? "OPTIONS").
      * destruct IX as [IX|[]]. subst x. destruct (sqres q) as [a|]; cbn in EQ; [discriminate|].
        split; [reflexivity | exact LT].
      * apply in_map_iff in IX. destruct IX as [y [EY IY]]. subst x r. rewrite orb_true_r in IY.
        pose proof (L_model_passes_judgement (sc_nf c) true regs (mkReq (sqm q) (sqp q) "" y [] 0) IY) as J.
        destruct (sqres q) as [a|]; cbn [sresponse_eqb] in EQ; [|discriminate].
        destruct y as [h ps|al| | |]; cbn [cors_view] in EQ.
        -- destruct a as [h' ps'|?| | |]; try discriminate EQ.
           assert (RA : response_ok (table_of regs) (sc_nf c) true (mkReq (sqm q) (sqp q) "" (RHandler h' ps') [] 0) = true)
             by (eapply response_ok_eqb; eassumption).
           split; [exact RA | apply lates_ok_from_agree; assumption].
        -- exfalso. unfold response_ok in J. cbn [qp qm qres] in J.
           destruct (clean_path (sqp q)); [|destruct (sc_nf c); discriminate].
           destruct (candidates _ _ _); [|discriminate]. destruct (allow_spec _ _ _); discriminate.
        -- apply response_eqb_nf in EQ. subst a. rewrite J. split; [apply orb_true_r | exact LT].
        -- apply response_eqb_nf in EQ. subst a. rewrite J. split; [reflexivity | exact LT].
        -- apply response_eqb_nfc in EQ. subst a. split; [exact J | exact LT].
    + cbn [andb] in IX. apply in_map_iff in IX. destruct IX as [y [EY IY]]. subst x r. rewrite orb_false_r in IY.
      pose proof (L_model_passes_judgement (sc_nf c) (sc_na c) regs (mkReq (sqm q) (sqp q) "" y [] 0) IY) as J.
      destruct (sqres q) as [a|]; cbn [sresponse_eqb] in EQ; [|discriminate].
      assert (RA : response_ok (table_of regs) (sc_nf c) (sc_na c) (mkReq (sqm q) (sqp q) "" a [] 0) = true)
        by (eapply response_ok_eqb; eassumption).
      split; [exact RA | apply lates_ok_from_agree; assumption].
Qed.

Lemma L_agrees_implies_prop_ok_target : forall t, t_agrees t = true -> t_prop_ok t = true.
Proof.
  intros t A. unfold t_agrees in A. apply andb_true_iff in A. destruct A as [_ A].
  unfold t_prop_ok. destruct (one_var_name_per_position (table_of (tregs t))); [|reflexivity].
  rewrite forallb_forall in *. intros q I. specialize (A q I). unfold t_req_ok.
  destruct (parse_target (tqt q)) as [[p raw]|]; [|reflexivity].
  destruct (tqgo q) as [[gp graw]|]; [|reflexivity].
  rewrite !andb_true_iff in A. destruct A as [_ EX]. apply existsb_exists in EX. destruct EX as [y [IY EQ]].
  rewrite build_is_router_of in IY.
  eapply response_ok_eqb; [exact EQ|].
  apply (L_model_passes_judgement (tnf t) (tna t) (tregs t) (mkReq (tqm q) p "" y [] 0)). exact IY.
Qed.

Lemma L_agrees_implies_prop_ok : forall c, agrees c = true -> prop_ok c = true.
Proof.
  intros [c|s|t]; cbn; [apply L_agrees_implies_prop_ok_router | apply L_agrees_implies_prop_ok_server
                       | apply L_agrees_implies_prop_ok_target].
Qed.

(* what the engine of server i holds when it starts = the union of the prefix-extended tables mounted on it before,
   as the user wrote them *)
Lemma L_bound_regs_spec : forall tables cfgs evs i,
  bound_regs tables cfgs evs i = spec_regs tables (before_start i evs) i.
Proof. intros. unfold bound_regs. apply L_routes_are_spec. Qed.
