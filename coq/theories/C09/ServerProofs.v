(* C09 — server level: what Start binds is the list of prefixed routes, so every theorem
   about [router_of nf na regs] applies with regs := server_routes groups. *)
From Coq Require Import List String Ascii Bool ZArith.
From GZ Require Import C09.Model C09.Spec C09.ServerModel C09.Proofs.
Import ListNotations.
Open Scope string_scope.

Definition all_ok (l : list reg_result) : Prop := Forall (fun e => e = RegOk) l.

(* bindRoutes either binds everything (then the router is the one built by the whole list and
   every Handle call was accepted) or stops at the first rejected call *)
Lemma bind_routes_spec : forall regs r,
  match bind_routes r regs with
  | Started r' => r' = build r regs /\ all_ok (build_results r regs)
  | StartFailed e =>
    e <> RegOk /\
    exists pre g post, regs = (pre ++ g :: post)%list /\ all_ok (build_results r pre) /\
                       snd (handle_reg (build r pre) g) = e
  end.
Proof.
  induction regs as [|g regs IH]; intro r.
  - cbn. split; [reflexivity | constructor].
  - cbn [bind_routes build build_results]. destruct (handle_reg r g) as [r' e] eqn:H. cbn [fst snd].
    assert (F : forall e0, e0 <> RegOk -> e = e0 ->
                e0 <> RegOk /\ exists pre g0 post, g :: regs = (pre ++ g0 :: post)%list /\
                  all_ok (build_results r pre) /\ snd (handle_reg (build r pre) g0) = e0).
    { intros e0 N E. split; [exact N|]. exists [], g, regs. split; [reflexivity|]. split; [constructor|].
      cbn. rewrite H. exact E. }
    destruct e; try (apply F; [discriminate | reflexivity]).
    specialize (IH r'). destruct (bind_routes r' regs) as [r''|e'].
    + destruct IH as [E A]. split; [exact E|]. constructor; [reflexivity | exact A].
    + destruct IH as [N [pre [g0 [post [E [A S]]]]]]. split; [exact N|].
      exists (g :: pre), g0, post. split; [cbn; congruence|]. split.
      * cbn. rewrite H. cbn. constructor; [reflexivity | exact A].
      * cbn. rewrite H. exact S.
Qed.

Lemma build_results_app : forall pre post r,
  build_results r (pre ++ post) = (build_results r pre ++ build_results (build r pre) post)%list.
Proof.
  induction pre as [|g pre IH]; intros post r; cbn; [reflexivity|]. rewrite IH. reflexivity.
Qed.

Lemma reg_results_app : forall pre post T,
  reg_results T (pre ++ post) = (reg_results T pre ++ reg_results (fold_left table_step pre T) post)%list.
Proof.
  induction pre as [|g pre IH]; intros post T; cbn; [reflexivity|]. rewrite IH. reflexivity.
Qed.

(* when every call is accepted the table is just the list of routes, each cleaned *)
Definition to_route (g : reg) : route :=
  mkRoute (rmethod g) (match clean_path (rpath g) with Some pat => pat | None => [] end) (rhandler g).

Lemma all_ok_table : forall regs T, all_ok (reg_results T regs) ->
  fold_left table_step regs T = (T ++ map to_route regs)%list.
Proof.
  induction regs as [|g regs IH]; intros T A; cbn.
  - rewrite app_nil_r. reflexivity.
  - cbn in A. inversion A as [|? ? E A']; subst.
    assert (S : table_step T g = (T ++ [to_route g])%list).
    { unfold table_step, to_route. rewrite E. destruct (clean_path (rpath g)) eqn:C; [reflexivity|].
      exfalso. unfold reg_spec in E. rewrite C in E. destruct (negb (valid_method (rmethod g))); discriminate. }
    rewrite S in *. rewrite IH by exact A'. rewrite <- app_assoc. reflexivity.
Qed.

Lemma L_server_routes_are_prefixed_routes : forall nf na cors gs,
  let regs := server_routes gs in
  match server_start nf na cors gs with
  | Started r =>
    r = router_of nf (na || cors) regs /\
    all_ok (reg_results [] regs) /\
    table_of regs = map to_route regs
  | StartFailed e =>
    e <> RegOk /\
    exists pre g post, regs = (pre ++ g :: post)%list /\
      all_ok (reg_results [] pre) /\
      reg_spec (table_of pre) (rmethod g) (rpath g) = e
  end.
Proof.
  intros nf na cors gs regs. unfold server_start. fold regs.
  pose proof (bind_routes_spec regs (new_router nf (na || cors))) as B.
  destruct (bind_routes (new_router nf (na || cors)) regs) as [r|e].
  - destruct B as [E A]. split; [exact E|].
    rewrite (L_registration_history nf (na || cors) regs) in A. split; [exact A|].
    unfold table_of. rewrite (all_ok_table regs [] A). reflexivity.
  - destruct B as [N [pre [g [post [E [A S]]]]]]. split; [exact N|]. exists pre, g, post.
    split; [exact E|]. rewrite (L_registration_history nf (na || cors) pre) in A. split; [exact A|].
    destruct g as [m p h].
    pose proof (L_registration_rejects nf (na || cors) pre m p h) as R. cbn in R.
    destruct R as [R _]. unfold handle_reg in S. cbn [rmethod rpath rhandler] in *.
    unfold router_of in R. congruence.
Qed.

(* Start succeeds iff the route list prescribes no rejection *)
Lemma L_start_iff_all_ok : forall nf na cors gs,
  (exists r, server_start nf na cors gs = Started r) <-> all_ok (reg_results [] (server_routes gs)).
Proof.
  intros nf na cors gs. pose proof (L_server_routes_are_prefixed_routes nf na cors gs) as S. cbn zeta in S.
  destruct (server_start nf na cors gs) as [r|e].
  - split; [intros _; apply S | intros _; eauto].
  - split; [intros [r E]; discriminate|]. intro A. exfalso.
    destruct S as [N [pre [g [post [E [_ R]]]]]]. rewrite E in A.
    rewrite reg_results_app in A. apply Forall_app in A. destruct A as [_ A]. cbn in A.
    inversion A as [|? ? H _]. apply N. rewrite <- R. exact H.
Qed.

(* ---- prefixing at segment level: the pattern the router sees for a route of a group with
   a rooted prefix is the cleaning of (segments of the prefix ++ segments of the path) *)
Lemma split_app : forall a b, split (a ++ String slash b) = (split a ++ split b)%list.
Proof.
  induction a as [|c a IH]; intro b.
  - cbn. reflexivity.
  - cbn [append split]. destruct (Ascii.eqb c slash).
    + rewrite IH. reflexivity.
    + rewrite IH. destruct (split a) as [|x r] eqn:E; [|reflexivity].
      exfalso. destruct a; cbn in E; [discriminate|]. destruct (Ascii.eqb a slash); [discriminate|].
      destruct (split a0); discriminate.
Qed.

Lemma L_prefixed_segments : forall gt p, p <> "" ->
  clean_path (prefix_path (String slash gt) p) = Some (clean_segs (split gt ++ split p)).
Proof.
  intros gt p NE. unfold prefix_path.
  change (String slash gt =? "") with false. cbv iota.
  destruct (p =? "") eqn:E; [apply String.eqb_eq in E; contradiction|].
  change (String slash gt ++ String slash p) with (String slash (gt ++ String slash p)).
  unfold clean_path. rewrite Ascii.eqb_refl. rewrite split_app. reflexivity.
Qed.

(* the full response case table, transferred to a started server: the table is the list of
   prefixed routes *)
Lemma L_server_allowed_cases : forall nf na cors gs r m p segs resp,
  server_start nf na cors gs = Started r ->
  clean_path p = Some segs ->
  In resp (serve_allowed r m p) ->
  resp_ok (map to_route (server_routes gs)) nf (na || cors) m segs resp.
Proof.
  intros nf na cors gs r m p segs resp S CP H.
  pose proof (L_server_routes_are_prefixed_routes nf na cors gs) as P. cbn zeta in P.
  rewrite S in P. destruct P as [E [_ T]]. subst r. rewrite <- T.
  eapply L_allowed_cases; eassumption.
Qed.

(* rest.WithCors(): every OPTIONS request is answered 204 without consulting the router, and
   where the router alone would answer 405 + Allow the server answers 404 *)
Lemma L_cors_behaviour : forall nf na gs r m p segs,
  server_start nf na true gs = Started r ->
  clean_path p = Some segs ->
  let T := map to_route (server_routes gs) in
  sserve true r "OPTIONS" p = SCors204 /\
  (m <> "OPTIONS" -> no_own T m segs ->
   (exists t, In t T /\ tm t <> m /\ matches (tpat t) segs) ->
   sserve true r m p = SResp RNotFound).
Proof.
  intros nf na gs r m p segs S CP T. split; [reflexivity|].
  intros NM NO EX. unfold sserve. rewrite (neq_eqb_false _ _ NM). cbn [andb].
  pose proof (L_server_routes_are_prefixed_routes nf na true gs) as P. cbn zeta in P.
  rewrite S in P. destruct P as [E [_ TT]]. subst r.
  pose proof (L_not_allowed_iff nf (na || true) (server_routes gs) m p segs CP) as NA. cbn zeta in NA.
  rewrite TT in NA. destruct (proj2 NA (conj NO EX)) as [[allow A]|A].
  - exfalso. pose proof (L_serve_cases nf (na || true) (server_routes gs) m p segs CP) as R.
    rewrite A in R. cbn in R. destruct R as [F _]. rewrite orb_true_r in F. discriminate.
  - rewrite A. reflexivity.
Qed.
