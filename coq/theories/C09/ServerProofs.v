(* C09 — server level.  Whatever sequence of AddRoutes / AddRoute / Start events is played on
   whatever number of servers, with the user's tables (slices) re-used and sub-sliced at will:
   the user's tables are never written, and what Start of server s binds is exactly the union of
   the prefix-extended tables mounted on s before, as the user WROTE them ([spec_regs]).  So
   every theorem about [router_of nf na regs] applies with regs := spec_regs ... *)
From Coq Require Import List String Ascii Bool ZArith Lia.
From GZ Require Import C09.Model C09.Spec C09.ServerModel C09.Proofs.
Import ListNotations.
Open Scope string_scope.

Definition all_ok (l : list reg_result) : Prop := Forall (fun e => e = RegOk) l.

(* bindRoutes either binds everything (then the router is the one built by the whole list and
   every Handle call was accepted) or stops at the first rejected call *)
Lemma bind_routes_spec : forall regs r,
  match bind_routes r regs with
  | Started r' => r' = build r regs /\ all_ok (build_results r regs)
  | StartFailed e =>
    e <> RegOk /\
    exists pre g post, regs = (pre ++ g :: post)%list /\ all_ok (build_results r pre) /\
                       snd (handle_reg (build r pre) g) = e
  end.
Proof.
  induction regs as [|g regs IH]; intro r.
  - cbn. split; [reflexivity | constructor].
  - cbn [bind_routes build build_results]. destruct (handle_reg r g) as [r' e] eqn:H. cbn [fst snd].
    assert (F : forall e0, e0 <> RegOk -> e = e0 ->
                e0 <> RegOk /\ exists pre g0 post, g :: regs = (pre ++ g0 :: post)%list /\
                  all_ok (build_results r pre) /\ snd (handle_reg (build r pre) g0) = e0).
    { intros e0 N E. split; [exact N|]. exists [], g, regs. split; [reflexivity|]. split; [constructor|].
      cbn. rewrite H. exact E. }
    destruct e; try (apply F; [discriminate | reflexivity]).
    specialize (IH r'). destruct (bind_routes r' regs) as [r''|e'].
    + destruct IH as [E A]. split; [exact E|]. constructor; [reflexivity | exact A].
    + destruct IH as [N [pre [g0 [post [E [A S]]]]]]. split; [exact N|].
      exists (g :: pre), g0, post. split; [cbn; congruence|]. split.
      * cbn. rewrite H. cbn. constructor; [reflexivity | exact A].
      * cbn. rewrite H. exact S.
Qed.

Lemma build_results_app : forall pre post r,
  build_results r (pre ++ post) = (build_results r pre ++ build_results (build r pre) post)%list.
Proof.
  induction pre as [|g pre IH]; intros post r; cbn; [reflexivity|]. rewrite IH. reflexivity.
Qed.

Lemma reg_results_app : forall pre post T,
  reg_results T (pre ++ post) = (reg_results T pre ++ reg_results (fold_left table_step pre T) post)%list.
Proof.
  induction pre as [|g pre IH]; intros post T; cbn; [reflexivity|]. rewrite IH. reflexivity.
Qed.

(* when every call is accepted the table is just the list of routes, each cleaned *)
Definition to_route (g : reg) : route :=
  mkRoute (rmethod g) (match clean_path (rpath g) with Some pat => pat | None => [] end) (rhandler g).

Lemma all_ok_table : forall regs T, all_ok (reg_results T regs) ->
  fold_left table_step regs T = (T ++ map to_route regs)%list.
Proof.
  induction regs as [|g regs IH]; intros T A; cbn.
  - rewrite app_nil_r. reflexivity.
  - cbn in A. inversion A as [|? ? E A']; subst.
    assert (S : table_step T g = (T ++ [to_route g])%list).
    { unfold table_step, to_route. rewrite E. destruct (clean_path (rpath g)) eqn:C; [reflexivity|].
      exfalso. unfold reg_spec in E. rewrite C in E. destruct (negb (valid_method (rmethod g))); discriminate. }
    rewrite S in *. rewrite IH by exact A'. rewrite <- app_assoc. reflexivity.
Qed.

(* binding a list of routes on a new router *)
Lemma L_bind_regs : forall nf na regs,
  match bind_routes (new_router nf na) regs with
  | Started r =>
    r = router_of nf na regs /\ all_ok (reg_results [] regs) /\ table_of regs = map to_route regs
  | StartFailed e =>
    e <> RegOk /\
    exists pre g post, regs = (pre ++ g :: post)%list /\
      all_ok (reg_results [] pre) /\
      reg_spec (table_of pre) (rmethod g) (rpath g) = e
  end.
Proof.
  intros nf na regs.
  pose proof (bind_routes_spec regs (new_router nf na)) as B.
  destruct (bind_routes (new_router nf na) regs) as [r|e].
  - destruct B as [E A]. split; [exact E|].
    rewrite (L_registration_history nf na regs) in A. split; [exact A|].
    unfold table_of. rewrite (all_ok_table regs [] A). reflexivity.
  - destruct B as [N [pre [g [post [E [A S]]]]]]. split; [exact N|]. exists pre, g, post.
    split; [exact E|]. rewrite (L_registration_history nf na pre) in A. split; [exact A|].
    destruct g as [m p h].
    pose proof (L_registration_rejects nf na pre m p h) as R. cbn in R.
    destruct R as [R _]. unfold handle_reg in S. cbn [rmethod rpath rhandler] in *.
    unfold router_of in R. congruence.
Qed.

(* Start succeeds iff the route list prescribes no rejection *)
Lemma L_bind_iff_all_ok : forall nf na regs,
  (exists r, bind_routes (new_router nf na) regs = Started r) <-> all_ok (reg_results [] regs).
Proof.
  intros nf na regs. pose proof (L_bind_regs nf na regs) as S.
  destruct (bind_routes (new_router nf na) regs) as [r|e].
  - split; [intros _; apply S | intros _; eauto].
  - split; [intros [r E]; discriminate|]. intro A. exfalso.
    destruct S as [N [pre [g [post [E [_ R]]]]]]. rewrite E in A.
    rewrite reg_results_app in A. apply Forall_app in A. destruct A as [_ A]. cbn in A.
    inversion A as [|? ? H _]. apply N. rewrite <- R. exact H.
Qed.

(* ---- prefixing at segment level: the pattern the router sees for a route of a group with
   a rooted prefix is the cleaning of (segments of the prefix ++ segments of the path) *)
Lemma split_app : forall a b, split (a ++ String slash b) = (split a ++ split b)%list.
Proof.
  induction a as [|c a IH]; intro b.
  - cbn. reflexivity.
  - cbn [append split]. destruct (Ascii.eqb c slash).
    + rewrite IH. reflexivity.
    + rewrite IH. destruct (split a) as [|x r] eqn:E; [|reflexivity].
      exfalso. destruct a; cbn in E; [discriminate|]. destruct (Ascii.eqb a slash); [discriminate|].
      destruct (split a0); discriminate.
Qed.

Lemma L_prefixed_segments : forall gt p, p <> "" ->
  clean_path (prefix_path (String slash gt) p) = Some (clean_segs (split gt ++ split p)).
Proof.
  intros gt p NE. unfold prefix_path.
  change (String slash gt =? "") with false. cbv iota.
  destruct (p =? "") eqn:E; [apply String.eqb_eq in E; contradiction|].
  change (String slash gt ++ String slash p) with (String slash (gt ++ String slash p)).
  unfold clean_path. rewrite Ascii.eqb_refl. rewrite split_app. reflexivity.
Qed.

(* ================================================= the registration sequence, today's code *)

Lemma apply_prefixes_cons : forall o os r,
  apply_prefixes (o :: os) r =
  apply_prefixes os (match o with OPrefix g => prefix_reg g r | OOther => r end).
Proof. reflexivity. Qed.

(* the options of one AddRoutes call: the store is not written, and the group finally holds the
   routes it was given with every prefix applied in order *)
Lemma apply_opts_real : forall os st r,
  fst (apply_opts opt_real st r os) = st /\
  deref st (snd (apply_opts opt_real st r os)) = map (apply_prefixes os) (deref st r).
Proof.
  unfold apply_opts. induction os as [|o os IH]; intros st r.
  - cbn. split; [reflexivity|]. rewrite map_id. reflexivity.
  - cbn [fold_left fst snd]. destruct o as [g|]; cbn [opt_real fst snd].
    + destruct (IH st (RFresh (map (prefix_reg g) (deref st r)))) as [A B]. split; [exact A|].
      rewrite B. cbn [deref]. rewrite map_map. apply map_ext. intro x. reflexivity.
    + destruct (IH st r) as [A B]. split; [exact A|]. rewrite B. apply map_ext. intro x. reflexivity.
Qed.

Lemma deref_mount_arg : forall st m, deref st (mount_arg st m) = written st m.
Proof. intros st m. unfold mount_arg, written. destruct (mmw m); reflexivity. Qed.

Lemma single_fold_real : forall os st (f : store * list rref -> reg -> store * list rref),
  (forall acc x, f acc x = (fst (apply_opts opt_real (fst acc) (RFresh [x]) os),
                            (snd acc ++ [snd (apply_opts opt_real (fst acc) (RFresh [x]) os)])%list)) ->
  forall l gs0,
  fst (fold_left f l (st, gs0)) = st /\
  exists gs', snd (fold_left f l (st, gs0)) = (gs0 ++ gs')%list /\
              flat_map (deref st) gs' = map (apply_prefixes os) l.
Proof.
  intros os st f Hf. induction l as [|x l IH]; intro gs0.
  - cbn. split; [reflexivity|]. exists []. rewrite app_nil_r. split; reflexivity.
  - cbn [fold_left]. rewrite Hf. cbn [fst snd].
    destruct (apply_opts_real os st (RFresh [x])) as [A B]. rewrite A.
    destruct (IH (gs0 ++ [snd (apply_opts opt_real st (RFresh [x]) os)])%list) as [S [gs' [E F]]].
    split; [exact S|]. exists (snd (apply_opts opt_real st (RFresh [x]) os) :: gs').
    split; [rewrite E, <- app_assoc; reflexivity|].
    cbn [flat_map map]. rewrite B, F. reflexivity.
Qed.

(* one AddRoutes call / one series of AddRoute calls *)
Lemma do_mount_real : forall st m,
  fst (do_mount opt_real st m) = st /\
  flat_map (deref st) (snd (do_mount opt_real st m)) = mount_regs st m.
Proof.
  intros st m. unfold do_mount, mount_regs. destruct (msingle m).
  - destruct (single_fold_real (mopts m) st _ (fun acc x => eq_refl) (deref st (mount_arg st m)) []) as [S [gs' [E F]]].
    split; [exact S|]. rewrite E. cbn [app]. rewrite F, deref_mount_arg. reflexivity.
  - cbn [fst snd]. destruct (apply_opts_real (mopts m) st (mount_arg st m)) as [A B].
    split; [exact A|]. cbn [flat_map]. rewrite app_nil_r, B, deref_mount_arg. reflexivity.
Qed.

Lemma mounts_of_app : forall s a b, mounts_of s (a ++ b) = (mounts_of s a ++ mounts_of s b)%list.
Proof.
  induction a as [|e a IH]; intro b; [reflexivity|]. destruct e as [m|s']; cbn.
  - destruct (Nat.eqb (msrv m) s); cbn; rewrite IH; reflexivity.
  - apply IH.
Qed.

Lemma spec_regs_app : forall tables s a b,
  spec_regs tables (a ++ b) s = (spec_regs tables a s ++ spec_regs tables b s)%list.
Proof. intros. unfold spec_regs. rewrite mounts_of_app, flat_map_app. reflexivity. Qed.

Lemma engine_regs_app : forall st gs s k new,
  engine_regs st (gs ++ map (fun g => (k, g)) new) s =
  (engine_regs st gs s ++ (if Nat.eqb k s then flat_map (deref st) new else []))%list.
Proof.
  intros st gs s k new. unfold engine_regs. rewrite filter_app, flat_map_app. f_equal.
  induction new as [|g new IH]; cbn.
  - destruct (Nat.eqb k s); reflexivity.
  - destruct (Nat.eqb k s) eqn:E; cbn; [rewrite IH; reflexivity | exact IH].
Qed.

(* how every Start ends, from what the user wrote *)
Fixpoint starts_from (cfgs : list scfg) (tables : store) (pre evs : list event) : list (nat * start_result) :=
  match evs with
  | [] => []
  | e :: evs' =>
    (match e with
     | EStart s => [(s, start_server cfgs s (spec_regs tables pre s))]
     | EMount _ => []
     end ++ starts_from cfgs tables (pre ++ [e]) evs')%list
  end.

Lemma starts_from_snoc : forall cfgs tables evs pre e,
  starts_from cfgs tables pre (evs ++ [e]) =
  (starts_from cfgs tables pre evs ++
   match e with
   | EStart s => [(s, start_server cfgs s (spec_regs tables (pre ++ evs) s))]
   | EMount _ => []
   end)%list.
Proof.
  induction evs as [|e0 evs IH]; intros pre e.
  - cbn. rewrite !app_nil_r. reflexivity.
  - cbn [app starts_from]. rewrite IH, <- !app_assoc. reflexivity.
Qed.

Lemma run_snoc : forall sem cfgs tables evs e,
  run sem cfgs tables (evs ++ [e]) = step sem cfgs (run sem cfgs tables evs) e.
Proof. intros. unfold run. rewrite fold_left_app. reflexivity. Qed.

(* THE registration theorem: for every sequence of events *)
Lemma L_run_real : forall cfgs tables evs,
  let w := run opt_real cfgs tables evs in
  wstore w = tables /\
  (forall s, engine_regs tables (wgroups w) s = spec_regs tables evs s) /\
  wstarts w = starts_from cfgs tables [] evs.
Proof.
  intros cfgs tables evs. induction evs as [|e evs IH] using rev_ind; cbn zeta.
  - cbn. repeat split.
  - rewrite run_snoc. cbn zeta in IH. destruct IH as [S [G W]].
    set (w := run opt_real cfgs tables evs) in *. destruct e as [m|s0]; cbn [step].
    + destruct (do_mount_real (wstore w) m) as [A B]. rewrite S in A, B.
      cbn [wstore wgroups wstarts]. rewrite S. split; [exact A|]. split.
      * intro s. rewrite engine_regs_app, G, spec_regs_app. f_equal.
        unfold spec_regs at 1. cbn [mounts_of]. destruct (Nat.eqb (msrv m) s); cbn [flat_map].
        -- rewrite app_nil_r. exact B.
        -- reflexivity.
      * rewrite starts_from_snoc, app_nil_r. exact W.
    + cbn [wstore wgroups wstarts]. split; [exact S|]. split.
      * intro s. rewrite spec_regs_app. unfold spec_regs at 2. cbn. rewrite app_nil_r. apply G.
      * rewrite starts_from_snoc, W, S, G. reflexivity.
Qed.

(* the first Start of server s binds the mounts made on s before it *)
Lemma start_of_starts_from : forall cfgs tables s evs pre,
  start_of (starts_from cfgs tables pre evs) s =
  if has_start s evs
  then Some (start_server cfgs s (spec_regs tables (pre ++ before_start s evs) s))
  else None.
Proof.
  intros cfgs tables s. induction evs as [|e evs IH]; intro pre; [reflexivity|].
  destruct e as [m|s']; cbn [starts_from has_start before_start app].
  - rewrite IH, <- app_assoc. reflexivity.
  - cbn [start_of]. destruct (Nat.eqb s' s) eqn:E; cbn [orb].
    + rewrite app_nil_r. apply Nat.eqb_eq in E. subst s'. reflexivity.
    + rewrite IH, <- app_assoc. reflexivity.
Qed.

Lemma L_start_is_spec : forall cfgs tables evs s,
  start_of (wstarts (run opt_real cfgs tables evs)) s =
  if has_start s evs then Some (spec_start cfgs tables evs s) else None.
Proof.
  intros cfgs tables evs s. destruct (L_run_real cfgs tables evs) as [_ [_ W]]. rewrite W.
  rewrite start_of_starts_from. reflexivity.
Qed.

(* nobody ever writes into the route tables the user holds *)
Lemma L_tables_untouched : forall cfgs tables evs,
  wstore (run opt_real cfgs tables evs) = tables.
Proof. intros. apply (L_run_real cfgs tables evs). Qed.

(* Server.Routes() at any moment = the union of the prefix-extended tables mounted so far *)
Lemma L_routes_are_spec : forall cfgs tables evs s,
  let w := run opt_real cfgs tables evs in
  engine_regs (wstore w) (wgroups w) s = spec_regs tables evs s.
Proof. intros cfgs tables evs s w. destruct (L_run_real cfgs tables evs) as [S [G _]]. unfold w. rewrite S. apply G. Qed.

(* what is mounted on the other servers, and when they start, is irrelevant for server s *)
Definition concerns (s : nat) (e : event) : bool :=
  match e with EMount m => Nat.eqb (msrv m) s | EStart s' => Nat.eqb s' s end.

Lemma L_other_servers_irrelevant : forall tables evs s,
  spec_regs tables evs s = spec_regs tables (filter (concerns s) evs) s.
Proof.
  intros tables evs s. unfold spec_regs. f_equal.
  induction evs as [|e evs IH]; [reflexivity|]. destruct e as [m|s']; cbn.
  - destruct (Nat.eqb (msrv m) s) eqn:E; cbn; [rewrite E, IH; reflexivity | exact IH].
  - destruct (Nat.eqb s' s); cbn; exact IH.
Qed.

(* ------------------------------------------ a started server answers as the user's tables say *)

Lemma L_server_dispatch : forall cfgs tables evs s r,
  start_of (wstarts (run opt_real cfgs tables evs)) s = Some (Started r) ->
  let c := nth s cfgs default_cfg in
  let regs := spec_regs tables (before_start s evs) s in
  r = router_of (sc_nf c) (sc_na c || sc_cors c) regs /\
  all_ok (reg_results [] regs) /\
  table_of regs = map to_route regs /\
  forall m p segs resp, clean_path p = Some segs -> In resp (serve_allowed r m p) ->
    resp_ok (map to_route regs) (sc_nf c) (sc_na c || sc_cors c) m segs resp.
Proof.
  intros cfgs tables evs s r H c regs. rewrite L_start_is_spec in H.
  destruct (has_start s evs); [|discriminate]. inversion H as [H1]. clear H.
  unfold spec_start, start_server in H1. fold c regs in H1.
  pose proof (L_bind_regs (sc_nf c) (sc_na c || sc_cors c) regs) as B. rewrite H1 in B.
  destruct B as [E [A T]]. split; [exact E|]. split; [exact A|]. split; [exact T|].
  intros m p segs resp CP I. rewrite <- T. subst r. eapply L_allowed_cases; eassumption.
Qed.

Lemma L_server_start_fails : forall cfgs tables evs s e,
  start_of (wstarts (run opt_real cfgs tables evs)) s = Some (StartFailed e) ->
  let regs := spec_regs tables (before_start s evs) s in
  e <> RegOk /\
  exists pre g post, regs = (pre ++ g :: post)%list /\ all_ok (reg_results [] pre) /\
                     reg_spec (table_of pre) (rmethod g) (rpath g) = e.
Proof.
  intros cfgs tables evs s e H regs. rewrite L_start_is_spec in H.
  destruct (has_start s evs); [|discriminate]. inversion H as [H1]. clear H.
  unfold spec_start, start_server in H1. fold regs in H1.
  set (c := nth s cfgs default_cfg) in *.
  pose proof (L_bind_regs (sc_nf c) (sc_na c || sc_cors c) regs) as B. rewrite H1 in B. exact B.
Qed.

Lemma L_server_starts_iff : forall cfgs tables evs s, has_start s evs = true ->
  ((exists r, start_of (wstarts (run opt_real cfgs tables evs)) s = Some (Started r)) <->
   all_ok (reg_results [] (spec_regs tables (before_start s evs) s))).
Proof.
  intros cfgs tables evs s HS. rewrite L_start_is_spec, HS. unfold spec_start, start_server.
  set (c := nth s cfgs default_cfg). rewrite <- (L_bind_iff_all_ok (sc_nf c) (sc_na c || sc_cors c)).
  split; intros [r E]; exists r; congruence.
Qed.

(* rest.WithCors(): every OPTIONS request is answered 204 without consulting the router, and
   where the router alone would answer 405 + Allow the server answers 404 *)
Lemma L_cors_behaviour : forall nf na regs r m p segs,
  bind_routes (new_router nf (na || true)) regs = Started r ->
  clean_path p = Some segs ->
  let T := map to_route regs in
  sserve true r "OPTIONS" p = SCors204 /\
  (m <> "OPTIONS" -> no_own T m segs ->
   (exists t, In t T /\ tm t <> m /\ matches (tpat t) segs) ->
   sserve true r m p = SResp RNotFound).
Proof.
  intros nf na regs r m p segs S CP T. split; [reflexivity|].
  intros NM NO EX. unfold sserve. rewrite (neq_eqb_false _ _ NM). cbn [andb].
  pose proof (L_bind_regs nf (na || true) regs) as P. rewrite S in P. destruct P as [E [_ TT]]. subst r.
  pose proof (L_not_allowed_iff nf (na || true) regs m p segs CP) as NA. cbn zeta in NA.
  rewrite TT in NA. destruct (proj2 NA (conj NO EX)) as [[allow A]|A].
  - exfalso. pose proof (L_serve_cases nf (na || true) regs m p segs CP) as R.
    rewrite A in R. cbn in R. destruct R as [F _]. rewrite orb_true_r in F. discriminate.
  - rewrite A. reflexivity.
Qed.
