(* C09 — what path.Clean does to request paths and patterns before the search trees see them
   (trailing slash, empty segments, "." and ".." segments), and what the custom not-found /
   not-allowed handlers change (nothing but the label of the answer).  Round 4. *)
From Coq Require Import List String Ascii Bool ZArith Lia.
From GZ Require Import C09.Model C09.Spec C09.Proofs C09.ServerProofs.
Import ListNotations.
Open Scope string_scope.

(* a segment path.Clean keeps *)
Definition real (s : string) : bool := negb ((s =? "") || (s =? ".") || (s =? "..")).

Lemma clean_step_real : forall st s, real s = true -> clean_step st s = s :: st.
Proof.
  intros st s R. unfold real in R. apply negb_true_iff in R. unfold clean_step.
  destruct (s =? "") eqn:E1; [discriminate|]. destruct (s =? ".") eqn:E2; [discriminate|].
  cbn in R. rewrite R. reflexivity.
Qed.

Lemma clean_step_keeps_real : forall st s, forallb real st = true -> forallb real (clean_step st s) = true.
Proof.
  intros st s F. unfold clean_step.
  destruct ((s =? "") || (s =? ".")) eqn:E; [exact F|].
  destruct (s =? "..") eqn:E3.
  - destruct st as [|x st']; [reflexivity|]. cbn in F. apply andb_true_iff in F. apply F.
  - cbn. rewrite F. unfold real. rewrite E3. apply orb_false_iff in E. destruct E as [E1 E2].
    rewrite E1, E2. reflexivity.
Qed.

Lemma fold_keeps_real : forall l st, forallb real st = true -> forallb real (fold_left clean_step l st) = true.
Proof.
  induction l as [|s l IH]; intros st F; [exact F|]. cbn. apply IH. apply clean_step_keeps_real. exact F.
Qed.

Lemma fold_real : forall l st, forallb real l = true -> fold_left clean_step l st = (rev l ++ st)%list.
Proof.
  induction l as [|s l IH]; intros st F; [reflexivity|].
  cbn in F. apply andb_true_iff in F. destruct F as [R F]. cbn [fold_left rev].
  rewrite (clean_step_real st s R). rewrite (IH _ F). rewrite <- app_assoc. reflexivity.
Qed.

Lemma forallb_rev : forall (f : string -> bool) l, forallb f l = true -> forallb f (rev l) = true.
Proof.
  intros f l F. rewrite forallb_forall in *. intros x I. apply F. apply in_rev. exact I.
Qed.

(* the segments the router searches with: the root, or only segments Clean keeps *)
Lemma L_clean_segs_canonical : forall l, clean_segs l = [""] \/ (clean_segs l <> [] /\ forallb real (clean_segs l) = true).
Proof.
  intro l. unfold clean_segs. pose proof (fold_keeps_real l [] eq_refl) as F.
  destruct (fold_left clean_step l []) as [|x st] eqn:E; [left; reflexivity|]. right. split.
  - intro H. apply (f_equal (@List.length string)) in H. rewrite rev_length in H. discriminate.
  - apply forallb_rev. exact F.
Qed.

(* path.Clean is idempotent *)
Lemma L_clean_segs_idem : forall l, clean_segs (clean_segs l) = clean_segs l.
Proof.
  intro l. unfold clean_segs at 2 3. pose proof (fold_keeps_real l [] eq_refl) as F.
  destruct (fold_left clean_step l []) as [|x st] eqn:E; [reflexivity|].
  unfold clean_segs. rewrite (fold_real (rev (x :: st)) [] (forallb_rev _ _ F)).
  rewrite rev_involutive, app_nil_r. reflexivity.
Qed.

Lemma clean_segs_app : forall a b, clean_segs (a ++ b) =
  match fold_left clean_step b (fold_left clean_step a []) with [] => [""] | st => rev st end.
Proof. intros. unfold clean_segs. rewrite fold_left_app. reflexivity. Qed.

(* an empty segment ("//", a trailing "/") or a "." segment anywhere changes nothing *)
Lemma L_clean_skip_empty : forall a b, clean_segs (a ++ "" :: b) = clean_segs (a ++ b).
Proof. intros. rewrite !clean_segs_app. reflexivity. Qed.

Lemma L_clean_skip_dot : forall a b, clean_segs (a ++ "." :: b) = clean_segs (a ++ b).
Proof. intros. rewrite !clean_segs_app. reflexivity. Qed.

(* "x/.." cancels, for every segment x that Clean keeps *)
Lemma L_clean_dotdot : forall a s b, real s = true -> clean_segs (a ++ s :: ".." :: b) = clean_segs (a ++ b).
Proof.
  intros a s b R. rewrite !clean_segs_app. cbn [fold_left].
  rewrite (clean_step_real _ s R). reflexivity.
Qed.

(* ".." directly below the root stays at the root *)
Lemma L_clean_dotdot_root : forall b, clean_segs (".." :: b) = clean_segs b.
Proof. intro b. reflexivity. Qed.

(* ---- the same on path strings *)
Lemma clean_path_rooted : forall p, clean_path p <> None -> exists t, p = String slash t.
Proof.
  intros [|c t] H; [exfalso; apply H; reflexivity|]. cbn in H.
  destruct (Ascii.eqb c slash) eqn:E; [|exfalso; apply H; reflexivity].
  apply Ascii.eqb_eq in E. subst c. exists t. reflexivity.
Qed.

Lemma clean_path_slash : forall t, clean_path (String slash t) = Some (clean_segs (split t)).
Proof. intro t. reflexivity. Qed.

Lemma L_clean_trailing_slash : forall p, clean_path p <> None -> clean_path (p ++ "/") = clean_path p.
Proof.
  intros p H. destruct (clean_path_rooted p H) as [t E]. subst p.
  change (String slash t ++ "/") with (String slash (t ++ String slash "")).
  rewrite !clean_path_slash, split_app. cbn [split]. rewrite L_clean_skip_empty, app_nil_r. reflexivity.
Qed.

Lemma L_clean_double_slash : forall a b, clean_path a <> None ->
  clean_path (a ++ "//" ++ b) = clean_path (a ++ "/" ++ b).
Proof.
  intros a b H. destruct (clean_path_rooted a H) as [t E]. subst a.
  change (String slash t ++ "//" ++ b) with (String slash (t ++ String slash (String slash b))).
  change (String slash t ++ "/" ++ b) with (String slash (t ++ String slash b)).
  rewrite !clean_path_slash, !split_app.
  change (split (String slash b)) with ("" :: split b). rewrite L_clean_skip_empty. reflexivity.
Qed.

Lemma L_clean_dot_segment : forall a b, clean_path a <> None ->
  clean_path (a ++ "/./" ++ b) = clean_path (a ++ "/" ++ b).
Proof.
  intros a b H. destruct (clean_path_rooted a H) as [t E]. subst a.
  change (String slash t ++ "/./" ++ b) with (String slash (t ++ String slash ("." ++ String slash b))).
  change (String slash t ++ "/" ++ b) with (String slash (t ++ String slash b)).
  rewrite !clean_path_slash, !split_app.
  change (split ".") with ["."]. cbn [app]. rewrite L_clean_skip_dot. reflexivity.
Qed.

(* ---- the router sees a request path, and Handle a pattern, only through path.Clean *)
Lemma L_serve_through_clean : forall r m p q, clean_path p = clean_path q ->
  serve r m p = serve r m q /\ serve_allowed r m p = serve_allowed r m q.
Proof. intros r m p q E. unfold serve, serve_allowed. rewrite E. split; reflexivity. Qed.

Lemma L_handle_through_clean : forall r m p q h, clean_path p = clean_path q ->
  handle r m p h = handle r m q h.
Proof. intros r m p q h E. unfold handle. rewrite E. reflexivity. Qed.

Lemma L_trailing_slash_irrelevant : forall r m p h, clean_path p <> None ->
  serve r m (p ++ "/") = serve r m p /\ handle r m (p ++ "/") h = handle r m p h.
Proof.
  intros r m p h H. pose proof (L_clean_trailing_slash p H) as E. split.
  - apply (L_serve_through_clean r m _ _ E).
  - apply L_handle_through_clean. exact E.
Qed.

(* ---- custom not-found / not-allowed handlers: they replace the default 404 / 405 answers and
   nothing else (which routes exist, which handler runs, with which variables) *)
Definition relabel (nf na : bool) (resp : response) : response :=
  match resp with
  | RNotFound => if nf then RNotFoundCustom else RNotFound
  | RNotAllowed a => if na then RNotAllowedCustom else RNotAllowed a
  | x => x
  end.

Lemma handle_flags : forall r r' m p h, trees r = trees r' ->
  trees (fst (handle r m p h)) = trees (fst (handle r' m p h)) /\
  snd (handle r m p h) = snd (handle r' m p h) /\
  custom_nf (fst (handle r m p h)) = custom_nf r /\ custom_na (fst (handle r m p h)) = custom_na r.
Proof.
  intros r r' m p h E. unfold handle. rewrite E.
  destruct (negb (valid_method m)); [cbn; auto|].
  destruct (clean_path p) as [segs|]; [|cbn; auto].
  destruct (add _ segs h) as [t'|[|]]; cbn; auto.
Qed.

Lemma build_flags : forall regs r r', trees r = trees r' ->
  trees (build r regs) = trees (build r' regs) /\
  custom_nf (build r regs) = custom_nf r /\ custom_na (build r regs) = custom_na r.
Proof.
  induction regs as [|g regs IH]; intros r r' E; [cbn; auto|].
  cbn [build]. unfold handle_reg.
  destruct (handle_flags r r' (rmethod g) (rpath g) (rhandler g) E) as [T [_ [NF NA]]].
  destruct (IH _ _ T) as [T' [NF' NA']]. rewrite T', NF', NA', NF, NA. auto.
Qed.

Lemma L_custom_handlers_only_relabel : forall nf na regs m p,
  serve (router_of nf na regs) m p = relabel nf na (serve (router_of false false regs) m p).
Proof.
  intros nf na regs m p. unfold router_of.
  destruct (build_flags regs (new_router nf na) (new_router false false) eq_refl) as [T [NF NA]].
  destruct (build_flags regs (new_router false false) (new_router false false) eq_refl) as [_ [NF0 NA0]].
  cbn in NF, NA, NF0, NA0.
  unfold serve, fallback, methods_allowed, not_found. rewrite T, NF, NA, NF0, NA0.
  destruct (clean_path p) as [segs|]; [|destruct nf; reflexivity].
  destruct (match assoc m (trees (build (new_router false false) regs)) with
            | Some t => search t segs | None => None end) as [[h ps]|]; [reflexivity|].
  destruct (map fst (filter _ (trees (build (new_router false false) regs)))) as [|x l].
  - destruct nf; reflexivity.
  - destruct na; reflexivity.
Qed.

(* in particular a dispatched request is dispatched alike whatever handlers are installed *)
Lemma L_custom_handlers_dispatch_same : forall nf na regs m p h ps,
  serve (router_of nf na regs) m p = RHandler h ps <-> serve (router_of false false regs) m p = RHandler h ps.
Proof.
  intros. rewrite L_custom_handlers_only_relabel.
  destruct (serve (router_of false false regs) m p) as [h' ps'|a| | |]; cbn;
    try (destruct nf); try (destruct na); split; intro H; try discriminate; exact H.
Qed.
