(* C04 — correspondence / property evaluation on runs observed on the
   implementation.  Executable only. *)
From Coq Require Import List ZArith Bool.
From GZ Require Export Lib.CheckLib C04.Model C04.Recover.
Import ListNotations.
Open Scope Z_scope.

(* ------------------------------------------------------------------ *)
(* equality tests                                                       *)

Definition hdr_eqb (a b : Z * list Z) : bool := (fst a =? fst b) && zs_eqb (snd a) (snd b).
Definition hdrs_eqb : hdrs -> hdrs -> bool := list_eqb hdr_eqb.

Definition res_eqb (a b : option (Z * hdrs)) : bool :=
  opt_eqb (fun x y => (fst x =? fst y) && hdrs_eqb (snd x) (snd y)) a b.

Definition infos_eqb : list (Z * hdrs) -> list (Z * hdrs) -> bool :=
  list_eqb (fun x y => (fst x =? fst y) && hdrs_eqb (snd x) (snd y)).

Definition rw_eqb (a b : rwriter) : bool :=
  Bool.eqb (rfl a) (rfl b) && hdrs_eqb (rlive a) (rlive b) && res_eqb (rres a) (rres b) &&
  zs_eqb (rbody a) (rbody b) && infos_eqb (rinfo a) (rinfo b) && (rcode a =? rcode b).

(* what the client sees: 1xx responses, status line + frozen headers, body *)
Definition view_eqb (a b : view) : bool :=
  infos_eqb (fst (fst a)) (fst (fst b)) && res_eqb (snd (fst a)) (snd (fst b)) && zs_eqb (snd a) (snd b).

Definition pval_eqb (a b : pval) : bool :=
  match a, b with
  | PUser x, PUser y => x =? y
  | PBadCode x, PBadCode y => x =? y
  | _, _ => false
  end.

Definition ares_eqb (a b : ares) : bool :=
  match a, b with
  | RNone, RNone => true
  | RWriteOk x, RWriteOk y => x =? y
  | RWriteTimeout, RWriteTimeout => true
  | RPanic p, RPanic q => pval_eqb p q
  | RCtx x, RCtx y => Bool.eqb x y
  | _, _ => false
  end.

Definition kind_eqb (a b : kind) : bool :=
  match a, b with KDeadline, KDeadline | KCancel, KCancel => true | _, _ => false end.

(* ------------------------------------------------------------------ *)
(* REST cases                                                           *)

(* how ServeHTTP ended, as seen by its caller; a panic value the executor cannot
   classify is [SoPanic None] *)
Inductive sres := SoWait | SoRet | SoPanic (p : option pval).

Record rest_case := mkRest
  { (* input *)
    rc_rec : bool;               (* a RecoverHandler sits between the timeout middleware and the work *)
    rc_recout : bool;            (* a RecoverHandler sits IN FRONT of the timeout middleware (observed chain order) *)
    rc_fl : bool;                (* the real writer is an http.Flusher *)
    rc_h0 : hdrs; rc_script : list act; rc_dur : Z; rc_rq : reqkind;
    rc_parent : option Z;        (* caller's deadline (ns from the start), if any *)
    rc_dmode : option kind;      (* the Done event the controller produced, if any *)
    (* observed *)
    rc_wrapped : bool;           (* the handler ran on another goroutine than ServeHTTP's caller *)
    rc_sched : list ev;          (* the linearisation the executor settled on *)
    rc_alts : list (list ev);    (* the other linearisations it could not tell apart (see below) *)
    rc_hobs : list ares; rc_sout : sres;
    rc_status : Z;               (* 0 = header never written *)
    rc_snap : hdrs; rc_live : hdrs; rc_body : list Z;
    rc_infos : list (Z * hdrs);  (* 1xx responses the real writer sent *)
    rc_flushes : Z;              (* Flush calls the real writer received *)
    rc_code : Z;                 (* the outer record: argument of the last WriteHeader call the real writer got (200 if none) *)
    rc_extra : Z;                (* header names outside the script's namespace *)
    rc_late : Z;                 (* real-writer calls after ServeHTTP returned *)
    rc_foreign : Z;              (* real-writer calls from another goroutine than ServeHTTP's *)
    rc_dl : option Z;            (* ctx.Deadline() seen by the handler *)
    rc_t0 : Z;                   (* right before ServeHTTP was called *)
    rc_t1 : Z;                   (* when the handler started; WithTimeout ran in [t0, t1] *)
    rc_retatd : Z }.             (* D forced while the handler was parked: did ServeHTTP return? -1 n/a *)

Definition obs_rw (c : rest_case) : rwriter :=
  mkRW (rc_fl c) (rc_live c)
       (if rc_status c =? 0 then None else Some (rc_status c, rc_snap c))
       (rc_body c) (rc_infos c) (rc_code c).

Definition dl_agrees (lo hi seen : option Z) : bool :=
  match lo, hi, seen with
  | Some l, Some h, Some d => (l <=? d) && (d <=? h)
  | None, None, None => true
  | _, _, _ => false
  end.

Definition sout_of_sst (s : sstat) : sres :=
  match s with
  | SWait => SoWait
  | SDoneRet | STimeoutRet _ => SoRet
  | SPanicRet p => SoPanic (Some p)
  end.

Definition sout_of_hst (s : hstat) : sres :=
  match s with
  | HRun => SoWait
  | HDone => SoRet
  | HPanicked p => SoPanic (Some p)
  end.

Definition sres_eqb (a b : sres) : bool :=
  match a, b with
  | SoWait, SoWait | SoRet, SoRet => true
  | SoPanic p, SoPanic q => opt_eqb pval_eqb p q
  | _, _ => false
  end.

(* The executor orders H and D events itself; the select (S) runs free and is seen
   only when ServeHTTP returns, a real timer's expiry is not seen at all.  Where the
   place of S (or of a timer D) among the neighbouring H events has no effect that
   the executor can see at that moment, it reports the latest place as [rc_sched]
   and the earlier ones as [rc_alts]; the model has to reproduce all observations
   under one of them. *)
Definition rest_agrees_sched (c : rest_case) (sched : list ev) : bool :=
  if rc_wrapped c then
    match rrun_strict recover_reply (rc_rec c) (init (rc_fl c) (rc_h0 c) (rc_script c)) sched with
    | Some (s, obs) =>
      list_eqb ares_eqb obs (rc_hobs c) && rw_eqb (rw s) (obs_rw c) &&
      sres_eqb (sout_of_sst (sst s)) (rc_sout c)
    | None => false
    end
  else
    match rxrun_strict recover_reply (rc_rec c) (xinit (rc_fl c) (rc_h0 c) (rc_script c)) sched with
    | Some (s, obs) =>
      list_eqb ares_eqb obs (rc_hobs c) && rw_eqb (xrw s) (obs_rw c) &&
      sres_eqb (sout_of_hst (xhst s)) (rc_sout c)
    | None => false
    end.

(* the real writer is called from the serving goroutine only — except by the
   handler's own Flush (three calls each: Header, Write, Flush; the first one also
   WriteHeader when the recorded status is not 200) *)
Definition foreign_ok (c : rest_case) : bool :=
  if rc_wrapped c then
    (3 * rc_flushes c <=? rc_foreign c) &&
    (rc_foreign c <=? 3 * rc_flushes c + (if 0 <? rc_flushes c then 1 else 0))
  else rc_foreign c =? 0.

Definition rest_agrees (c : rest_case) : bool :=
  Bool.eqb (wrapped (rc_dur c) (rc_rq c)) (rc_wrapped c) &&
  dl_agrees (rest_deadline (rc_dur c) (rc_rq c) (rc_parent c) (rc_t0 c))
            (rest_deadline (rc_dur c) (rc_rq c) (rc_parent c) (rc_t1 c)) (rc_dl c) &&
  (rc_extra c =? 0) && (rc_late c =? 0) && foreign_ok c &&
  existsb (rest_agrees_sched c) (rc_sched c :: rc_alts c).

(* --- the property on the observed response ------------------------- *)

(* the runs the handler itself can choose to make: the whole script, or — once the
   Done event exists — the script up to one of its context checks *)
Fixpoint check_prefixes (pre rest : list act) : list (list act) :=
  match rest with
  | [] => []
  | ACheckCtx :: r => (pre ++ [ACheckCtx]) :: check_prefixes (pre ++ [ACheckCtx]) r
  | a :: r => check_prefixes (pre ++ [a]) r
  end.

Definition candidates (c : rest_case) : list (list act) :=
  rc_script c ::
  match rc_dmode c with Some _ => check_prefixes [] (rc_script c) | None => [] end.

(* the work as the timeout middleware sees it: with a RecoverHandler in between, the
   script up to its first panic, then WriteHeader(500) (Recover.rec_cut) *)
Definition work_of (c : rest_case) (acts : list act) : list act :=
  if rc_rec c then rec_cut recover_reply (rc_fl c) false acts else acts.

(* ... and for a request that is not wrapped (the recovery answers on the real writer) *)
Definition xwork_of (c : rest_case) (acts : list act) : list act :=
  if rc_rec c then xrec_cut recover_reply (rw_fresh (rc_fl c) (rc_h0 c)) acts else acts.

Definition obs_view (c : rest_case) : view := rw_view (obs_rw c).

(* "the work's complete result": the independent description [spec_view] of one of
   the runs the handler can choose *)
Definition is_complete (c : rest_case) : bool :=
  existsb (fun acts =>
             match spec_panic (rc_fl c) false acts with
             | None => view_eqb (obs_view c) (spec_view (rc_fl c) (rc_h0 c) acts)
             | Some _ => false
             end) (map (work_of c) (candidates c)).

Fixpoint prefixes {A} (l : list A) : list (list A) :=
  match l with
  | [] => [[]]
  | x :: r => [] :: map (cons x) (prefixes r)
  end.

Definition is_timeout (c : rest_case) : bool :=
  match rc_dmode c with
  | Some k =>
    if rc_fl c && has_flush (rc_script c) then
      existsb (fun pre =>
                 match spec_panic (rc_fl c) false pre with
                 | None => negb (info_first (rc_fl c) pre) &&
                           view_eqb (obs_view c) (timeout_view (rc_fl c) (rc_h0 c) k pre)
                 | Some _ => false
                 end) (prefixes (work_of c (rc_script c)))
    else view_eqb (obs_view c) ([], Some (timeout_code k, rc_h0 c), reason)
  | None => false
  end.

(* Recover in front of the timeout middleware: the re-raised panic of the work ([spec_panic]) is
   answered by the RecoverHandler's reply on top of what the handler had flushed itself before the
   panic (nothing, without Flush): still all-or-nothing — the panic outcome, recovered outside *)
Definition recovered_outside (c : rest_case) : bool :=
  rc_recout c &&
  existsb (fun acts =>
             match spec_panic (rc_fl c) false acts with
             | Some _ =>
               view_eqb (obs_view c)
                        (rw_view (apply_reply recover_reply
                                    (committed (rc_fl c) (rc_h0 c) (rec_cut [] (rc_fl c) false acts))))
             | None => false
             end) (candidates c).

Definition untouched (c : rest_case) : bool :=
  if rc_fl c && has_flush (rc_script c) then true     (* the flushed prefix is out: see is_timeout *)
  else (rc_status c =? 0) && zs_eqb (rc_body c) [] && infos_eqb (rc_infos c) [].

Definition all_or_nothing_ok (c : rest_case) : bool :=
  match rc_sout c with
  | SoWait => false                          (* ServeHTTP must return once the handler has *)
  | SoRet => is_complete c || is_timeout c || recovered_outside c
  | SoPanic (Some p) =>
    (* behind a RecoverHandler no panic of the work reaches the serving goroutine *)
    negb (rc_rec c) &&
    untouched c && opt_eqb pval_eqb (spec_panic (rc_fl c) false (rc_script c)) (Some p)
  | SoPanic None => false
  end.

(* position of the timeout branch in the observed schedule: every Write the handler
   issued after it must have been refused *)
Fixpoint late_writes_refused (timed_out : bool) (sched : list ev) (obs : list ares) : bool :=
  match sched with
  | [] => true
  | ES BTimeout :: r => late_writes_refused true r obs
  | EH :: r =>
    match obs with
    | o :: obs' =>
      (if timed_out then match o with RWriteOk _ => false | _ => true end else true) &&
      late_writes_refused timed_out r obs'
    | [] => true
    end
  | _ :: r => late_writes_refused timed_out r obs
  end.

Definition nothing_after_timeout_ok (c : rest_case) : bool :=
  (rc_late c =? 0) && late_writes_refused false (rc_sched c) (rc_hobs c).

Definition deadline_ok (dur : Z) (parent seen : option Z) (t1 : Z) : bool :=
  match seen with
  | Some d =>
    (d <=? t1 + dur) && match parent with Some p => d <=? p | None => true end
  | None => false
  end.

(* an exempt request is not cut: when its handler has returned, everything it wrote
   (directly, to the real writer) is the response *)
Definition exempt_not_cut (c : rest_case) : bool :=
  match rc_sout c with
  | SoRet =>
    existsb (fun acts => view_eqb (obs_view c) (rw_view (direct (rc_fl c) (rc_h0 c) acts)))
            (map (xwork_of c) (candidates c))
  | _ => true
  end.

(* the outer middlewares' record (breaker, log, metrics in front of the timeout handler): the
   timeout status iff ServeHTTP answered through the timeout branch — also when the handler had
   flushed its own status before; otherwise the status the client got *)
Definition outer_view_ok (c : rest_case) : bool :=
  match rc_sout c, rc_dmode c with
  | SoRet, Some k =>
    if existsb (fun e => match e with ES BTimeout => true | _ => false end) (rc_sched c)
    then rc_code c =? timeout_code k
    else rc_code c =? rc_status c
  | SoRet, None =>
    (* Recover in front: the record is the reply's status even when the handler's own went out by a Flush *)
    (rc_code c =? rc_status c) || (recovered_outside c && negb (is_complete c))
  | _, _ => true
  end.

Definition rest_prop_ok (c : rest_case) : bool :=
  if wrapped (rc_dur c) (rc_rq c) then
    all_or_nothing_ok c && nothing_after_timeout_ok c && outer_view_ok c &&
    deadline_ok (rc_dur c) (rc_parent c) (rc_dl c) (rc_t1 c) &&
    negb (rc_retatd c =? 0)
  else
    (* exempt: the handler runs unwrapped, under the caller's own context *)
    match rc_rq c with
    | RqPlain => true      (* TimeoutHandler(d <= 0) / no timeout middleware: no timeout configured *)
    | _ => negb (rc_wrapped c) && opt_eqb Z.eqb (rc_dl c) (rc_parent c) && exempt_not_cut c
    end.

(* ------------------------------------------------------------------ *)
(* result-slot cases: zRPC server interceptor (fam 0), fx.DoWithTimeout (fam 1) *)

Record slot_case := mkSlot
  { sc_fam : Z;
    sc_script : wscript;
    sc_dmode : option kind;
    sc_confs : list (Z * Z); sc_method : Z; sc_default : Z;   (* fx: [] 0 timeout *)
    sc_parent : option Z;
    (* observed *)
    sc_sched : list ev; sc_hobs : list ares;
    sc_ret : bool;               (* the wrapper returned / re-panicked *)
    sc_panic : option Z;         (* re-raised panic value, if any *)
    sc_stack : bool;             (* the re-raised value carries a stack trace *)
    sc_r : Z; sc_e : Z;          (* returned (resp, err); err -1 = DeadlineExceeded, -2 = Canceled *)
    sc_dl : option Z; sc_t1 : Z; sc_retatd : Z }.

Definition sc_dur (c : slot_case) : Z := method_timeout (sc_confs c) (sc_method c) (sc_default c).

Definition timeout_err (k : kind) : Z := match k with KDeadline => -1 | KCancel => -2 end.

Definition wout_eqb (m : wout) (c : slot_case) : bool :=
  match m with
  | OWait => negb (sc_ret c)
  | ORet r e => sc_ret c && opt_eqb Z.eqb (sc_panic c) None && (sc_r c =? r) && (sc_e c =? e)
  | OTimeout k => sc_ret c && opt_eqb Z.eqb (sc_panic c) None && (sc_r c =? 0) && (sc_e c =? timeout_err k)
  | OPanic p => sc_ret c && opt_eqb Z.eqb (sc_panic c) (Some p)
  end.

Definition slot_agrees (c : slot_case) : bool :=
  (* fx hands no context to fn: the deadline is not observable there *)
  (if sc_fam c =? 0
   then dl_agrees (Some (with_timeout (sc_parent c) 0 (sc_dur c)))
                  (Some (with_timeout (sc_parent c) (sc_t1 c) (sc_dur c))) (sc_dl c)
   else true) &&
  match wrun_strict (winit (sc_script c)) (sc_sched c) with
  | Some (s, obs) => list_eqb ares_eqb obs (sc_hobs c) && wout_eqb (wsst s) c
  | None => false
  end.

Definition slot_outcome_ok (c : slot_case) : bool :=
  sc_ret c &&
  match sc_panic c with
  | Some p =>
    match wend (sc_script c) with WPanic q => (p =? q) && sc_stack c | _ => false end
  | None =>
    existsb (fun re => (fst re =? sc_r c) && (snd re =? sc_e c))
            (match sc_dmode c with
             | Some k => (0, timeout_err k) :: wresults (sc_script c)
             | None => match wend (sc_script c) with WRet r e => [(r, e)] | _ => [] end
             end)
  end.

Definition slot_prop_ok (c : slot_case) : bool :=
  slot_outcome_ok c &&
  (if sc_fam c =? 0 then deadline_ok (sc_dur c) (sc_parent c) (sc_dl c) (sc_t1 c) else true) &&
  negb (sc_retatd c =? 0).

(* ------------------------------------------------------------------ *)
(* zRPC client interceptor: only derives the context                    *)

Record client_case := mkClient
  { cc_opts : list Z; cc_default : Z; cc_parent : option Z;
    cc_inv_err : Z;            (* what the invoker returns *)
    cc_dl : option Z; cc_t1 : Z;
    cc_err : Z }.              (* what the interceptor returned *)

Definition client_agrees (c : client_case) : bool :=
  dl_agrees (client_deadline (cc_opts c) (cc_default c) (cc_parent c) 0)
            (client_deadline (cc_opts c) (cc_default c) (cc_parent c) (cc_t1 c)) (cc_dl c) &&
  (cc_err c =? cc_inv_err c).

Definition client_prop_ok (c : client_case) : bool :=
  let t := call_timeout (cc_opts c) (cc_default c) in
  (if 0 <? t then deadline_ok t (cc_parent c) (cc_dl c) (cc_t1 c)
   else opt_eqb Z.eqb (cc_dl c) (cc_parent c)) &&
  (cc_err c =? cc_inv_err c).

(* ------------------------------------------------------------------ *)
(* sequences: several requests through ONE TimeoutHandler instance, or through ONE
   rest.Server with several routes; a handler abandoned at its timeout goes on acting
   while later requests are served *)

Record seq_req := mkSR
  { sr_fl : bool; sr_h0 : hdrs; sr_script : list act; sr_dmode : option kind;
    sr_hdrs : list (bstr * bstr);      (* request headers *)
    sr_amb : bool;                     (* a websocket / event-stream request by a reasonable reading, but not
                                          by the literal test of the code ("Upgrade: Websocket",
                                          "Accept: text/event-stream, text/html"): exempting it or not are both fine *)
    sr_parent : option Z;
    sr_group : nat;                    (* server cases: the route group *)
    (* observed, per request *)
    sr_sout : sres; sr_status : Z; sr_snap : hdrs; sr_live : hdrs; sr_body : list Z;
    sr_infos : list (Z * hdrs); sr_flushes : Z; sr_code : Z;
    sr_extra : Z; sr_late : Z; sr_foreign : Z;
    sr_wrapped : bool; sr_dl : option Z; sr_t0 : Z; sr_t1 : Z }.

Definition iares_eqb (a b : nat * ares) : bool := Nat.eqb (fst a) (fst b) && ares_eqb (snd a) (snd b).

Fixpoint zip_all {A B} (f : A -> B -> bool) (l1 : list A) (l2 : list B) : bool :=
  match l1, l2 with
  | [], [] => true
  | x :: r1, y :: r2 => f x y && zip_all f r1 r2
  | _, _ => false
  end.

Fixpoint forall_idx {A} (f : nat -> A -> bool) (i : nat) (l : list A) : bool :=
  match l with
  | [] => true
  | x :: r => f i x && forall_idx f (S i) r
  end.

(* request i seen as a single-request case: its own script, its own events, its own
   observations — everything the other requests did is simply absent.  [dur] and
   [script] are what the configuration gives this request. *)
Definition seq_as_rest (rec outside : bool) (dur : Z) (script : list act) (sched : list (nat * ev)) (hobs : list (nat * ares))
           (i : nat) (r : seq_req) : rest_case :=
  mkRest (rec && negb (outside && sr_wrapped r)) (rec && outside && sr_wrapped r) (sr_fl r) (sr_h0 r) script dur (classify (sr_hdrs r)) (sr_parent r) (sr_dmode r)
         (sr_wrapped r) (proj i sched) []
         (map snd (filter (fun o => Nat.eqb (fst o) i) hobs))
         (sr_sout r) (sr_status r) (sr_snap r) (sr_live r) (sr_body r) (sr_infos r) (sr_flushes r) (sr_code r)
         (sr_extra r) (sr_late r) (sr_foreign r) (sr_dl r) (sr_t0 r) (sr_t1 r) (-1).

Definition comp_sout (c : comp) : sres :=
  match c with CW s => sout_of_sst (sst s) | CX s => sout_of_hst (xhst s) end.

(* [conf r] = (timeout handed to TimeoutHandler for r's route, the route's handler script) *)
(* what the client and the caller of the chain see of a component in the end *)
Definition comp_final (outside : bool) (c : comp) : rwriter * sres :=
  match c with
  | CW s =>
    match sst s with
    | SPanicRet _ => if outside then (apply_reply recover_reply (rw s), SoRet) else (rw s, sout_of_sst (sst s))
    | _ => (rw s, sout_of_sst (sst s))
    end
  | CX s => (xrw s, sout_of_hst (xhst s))
  end.

Definition gseq_agrees (rec outside : bool) (conf : seq_req -> Z * list act) (reqs : list seq_req)
           (sched : list (nat * ev)) (hobs : list (nat * ares)) : bool :=
  let wrap r := wrapped (fst (conf r)) (classify (sr_hdrs r)) in
  let comps := map (fun r => cinit (wrap r) (mkReq (sr_fl r) (sr_h0 r) (snd (conf r)))) reqs in
  match rcmrun_strict recover_reply (rec && negb outside) rec comps sched with
  | Some (cs, obs) =>
    list_eqb iares_eqb obs hobs &&
    forall_idx (fun i cr =>
                  let c := fst cr in let r := snd cr in
                  let rc := seq_as_rest rec outside (fst (conf r)) (snd (conf r)) sched hobs i r in
                  let fin := comp_final (rec && outside) c in
                  rw_eqb (fst fin) (obs_rw rc) && sres_eqb (snd fin) (sr_sout r) &&
                  Bool.eqb (wrap r) (sr_wrapped r) &&
                  dl_agrees (rest_deadline (rc_dur rc) (rc_rq rc) (rc_parent rc) (rc_t0 rc))
                            (rest_deadline (rc_dur rc) (rc_rq rc) (rc_parent rc) (rc_t1 rc)) (rc_dl rc) &&
                  (sr_extra r =? 0) && (sr_late r =? 0) && foreign_ok rc)
               O (combine cs reqs) &&
    Nat.eqb (length cs) (length reqs)
  | None => false
  end.

(* every request, seen through its own events only, is judged like a single request;
   an ambiguous request (see sr_amb) is judged as what the implementation took it for *)
Definition judged_as (r : seq_req) (c : rest_case) : rest_case :=
  if sr_amb r then
    mkRest (rc_rec c) (rc_recout c) (rc_fl c) (rc_h0 c) (rc_script c) (rc_dur c) (if sr_wrapped r then RqPlain else RqWebsocket)
           (rc_parent c) (rc_dmode c) (rc_wrapped c) (rc_sched c) (rc_alts c) (rc_hobs c) (rc_sout c)
           (rc_status c) (rc_snap c) (rc_live c) (rc_body c) (rc_infos c) (rc_flushes c) (rc_code c) (rc_extra c)
           (rc_late c) (rc_foreign c) (rc_dl c) (rc_t0 c) (rc_t1 c) (rc_retatd c)
  else c.

Definition gseq_prop_ok (rec outside : bool) (conf : seq_req -> Z * list act) (reqs : list seq_req)
           (sched : list (nat * ev)) (hobs : list (nat * ares)) : bool :=
  forall_idx (fun i r => rest_prop_ok (judged_as r (seq_as_rest rec outside (fst (conf r)) (snd (conf r)) sched hobs i r))) O reqs.

Record seq_case := mkSeq
  { sq_rec : bool;                     (* Timeout -> Recover -> work *)
    sq_dur : Z;
    sq_reqs : list seq_req;
    sq_sched : list (nat * ev);        (* the executor forces it completely *)
    sq_hobs : list (nat * ares);       (* what each handler action reported, in schedule order *)
    sq_retatd : Z }.

Definition seq_conf (c : seq_case) (r : seq_req) : Z * list act := (sq_dur c, sr_script r).

Definition seq_agrees (c : seq_case) : bool :=
  gseq_agrees (sq_rec c) false (seq_conf c) (sq_reqs c) (sq_sched c) (sq_hobs c).

Definition seq_prop_ok (c : seq_case) : bool :=
  gseq_prop_ok (sq_rec c) false (seq_conf c) (sq_reqs c) (sq_sched c) (sq_hobs c) && negb (sq_retatd c =? 0).

(* ------------------------------------------------------------------ *)
(* a real rest.Server: route groups with options, several requests to its routes *)

Record srv_case := mkSrv
  { sv_rec : bool;                     (* conf.Middlewares.Recover *)
    sv_recout : bool;                  (* OBSERVED on the tree: the engine puts the RecoverHandler in front of the
                                          timeout middleware instead of behind it *)
    sv_conf_ms : Z; sv_mw : bool;
    sv_groups : list (list ropt);
    sv_reqs : list seq_req;
    sv_sched : list (nat * ev);
    sv_hobs : list (nat * ares);
    sv_retatd : Z;
    (* observed: http.Server.ReadTimeout / WriteTimeout after withTimeout(), ng.timeout *)
    sv_read : Z; sv_write : Z; sv_eng : Z }.

Definition sv_fr (c : srv_case) (r : seq_req) : froutes :=
  route_conf (nth (sr_group r) (sv_groups c) []).

Definition srv_conf (c : srv_case) (r : seq_req) : Z * list act :=
  (eng_route_dur (sv_mw c) (sv_conf_ms c) (sv_fr c r), route_script (sv_fr c r) (sr_script r)).

Definition srv_agrees (c : srv_case) : bool :=
  let t := eng_timeout (sv_conf_ms c) (map route_conf (sv_groups c)) in
  (sv_eng c =? t) && (sv_read c =? srv_read_timeout t) && (sv_write c =? srv_write_timeout t) &&
  forallb (fun r => Nat.ltb (sr_group r) (length (sv_groups c))) (sv_reqs c) &&
  gseq_agrees (sv_rec c) (sv_recout c) (srv_conf c) (sv_reqs c) (sv_sched c) (sv_hobs c).

(* per route: deadline = min(caller's, now + chosen timeout), all-or-nothing, nothing
   after the timeout; header-exempt requests are not wrapped, keep the caller's
   deadline and are not cut; no timeout configured: nothing demanded *)
Definition srv_prop_ok (c : srv_case) : bool :=
  gseq_prop_ok (sv_rec c) (sv_recout c) (srv_conf c) (sv_reqs c) (sv_sched c) (sv_hobs c) && negb (sv_retatd c =? 0).

(* ------------------------------------------------------------------ *)
(* sequences of calls through ONE interceptor instance (fam 0) / fx (fam 1) *)

Record sseq_call := mkSC
  { cl_script : wscript; cl_dmode : option kind; cl_parent : option Z;
    (* observed *)
    cl_ret : bool; cl_panic : option Z; cl_stack : bool; cl_r : Z; cl_e : Z;
    cl_dl : option Z; cl_t1 : Z }.

Record sseq_case := mkSSeq
  { ss_fam : Z; ss_dur : Z;
    ss_calls : list sseq_call;
    ss_sched : list (nat * ev);
    ss_hobs : list (nat * ares);
    ss_retatd : Z }.

Definition call_as_slot (c : sseq_case) (i : nat) (cl : sseq_call) : slot_case :=
  mkSlot (ss_fam c) (cl_script cl) (cl_dmode cl) [] 0 (ss_dur c) (cl_parent cl)
         (proj i (ss_sched c))
         (map snd (filter (fun o => Nat.eqb (fst o) i) (ss_hobs c)))
         (cl_ret cl) (cl_panic cl) (cl_stack cl) (cl_r cl) (cl_e cl)
         (cl_dl cl) (cl_t1 cl) (-1).

Definition sseq_agrees (c : sseq_case) : bool :=
  match wmrun_strict (wminit (map cl_script (ss_calls c))) (ss_sched c) with
  | Some (ss, obs) =>
    list_eqb iares_eqb obs (ss_hobs c) &&
    forall_idx (fun i pr => wout_eqb (wsst (fst pr)) (call_as_slot c i (snd pr))) O
               (combine ss (ss_calls c)) &&
    Nat.eqb (length ss) (length (ss_calls c))
  | None => false
  end.

(* every call, seen through its own events only: its own result, its own timeout
   error or its own panic; deadline no later than its caller's and now+timeout;
   it returned (no hang) *)
Definition sseq_prop_ok (c : sseq_case) : bool :=
  forall_idx (fun i cl => slot_prop_ok (call_as_slot c i cl)) O (ss_calls c) &&
  negb (ss_retatd c =? 0).

(* ------------------------------------------------------------------ *)

Inductive case :=
| CRest (c : rest_case)
| CSlot (c : slot_case)
| CClient (c : client_case)
| CSeq (c : seq_case)
| CSrv (c : srv_case)
| CSSeq (c : sseq_case).

Definition agrees (c : case) : bool :=
  match c with
  | CRest c => rest_agrees c
  | CSlot c => slot_agrees c
  | CClient c => client_agrees c
  | CSeq c => seq_agrees c
  | CSrv c => srv_agrees c
  | CSSeq c => sseq_agrees c
  end.

Definition prop_ok (c : case) : bool :=
  match c with
  | CRest c => rest_prop_ok c
  | CSlot c => slot_prop_ok c
  | CClient c => client_prop_ok c
  | CSeq c => seq_prop_ok c
  | CSrv c => srv_prop_ok c
  | CSSeq c => sseq_prop_ok c
  end.

(* diagnostics for replay files *)
Definition model_obs (c : case) :=
  match c with
  | CRest c =>
    if rc_wrapped c then
      match rrun_strict recover_reply (rc_rec c) (init (rc_fl c) (rc_h0 c) (rc_script c)) (rc_sched c) with
      | Some (s, obs) => Some (rw s, obs)
      | None => None
      end
    else
      match rxrun_strict recover_reply (rc_rec c) (xinit (rc_fl c) (rc_h0 c) (rc_script c)) (rc_sched c) with
      | Some (s, obs) => Some (xrw s, obs)
      | None => None
      end
  | _ => None
  end.
