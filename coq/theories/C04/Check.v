(* C04 — correspondence / property evaluation on runs observed on the
   implementation.  Executable only. *)
From Coq Require Import List ZArith Bool.
From GZ Require Export Lib.CheckLib C04.Model.
Import ListNotations.
Open Scope Z_scope.

(* ------------------------------------------------------------------ *)
(* equality tests                                                       *)

Definition hdr_eqb (a b : Z * list Z) : bool := (fst a =? fst b) && zs_eqb (snd a) (snd b).
Definition hdrs_eqb : hdrs -> hdrs -> bool := list_eqb hdr_eqb.

Definition res_eqb (a b : option (Z * hdrs)) : bool :=
  opt_eqb (fun x y => (fst x =? fst y) && hdrs_eqb (snd x) (snd y)) a b.

Definition rw_eqb (a b : rwriter) : bool :=
  hdrs_eqb (rlive a) (rlive b) && res_eqb (rres a) (rres b) && zs_eqb (rbody a) (rbody b).

(* what the client sees: status line + frozen headers + body *)
Definition view_eqb (a b : rwriter) : bool :=
  res_eqb (rres a) (rres b) && zs_eqb (rbody a) (rbody b).

Definition pval_eqb (a b : pval) : bool :=
  match a, b with
  | PUser x, PUser y => x =? y
  | PBadCode x, PBadCode y => x =? y
  | _, _ => false
  end.

Definition ares_eqb (a b : ares) : bool :=
  match a, b with
  | RNone, RNone => true
  | RWriteOk x, RWriteOk y => x =? y
  | RWriteTimeout, RWriteTimeout => true
  | RPanic p, RPanic q => pval_eqb p q
  | RCtx x, RCtx y => Bool.eqb x y
  | _, _ => false
  end.

Definition kind_eqb (a b : kind) : bool :=
  match a, b with KDeadline, KDeadline | KCancel, KCancel => true | _, _ => false end.

(* ------------------------------------------------------------------ *)
(* REST cases                                                           *)

(* how ServeHTTP ended, as seen by its caller; a panic value the executor cannot
   classify is [SoPanic None] *)
Inductive sres := SoWait | SoRet | SoPanic (p : option pval).

Record rest_case := mkRest
  { (* input *)
    rc_h0 : hdrs; rc_script : list act; rc_dur : Z; rc_rq : reqkind;
    rc_parent : option Z;        (* caller's deadline (ns from the start), if any *)
    rc_dmode : option kind;      (* the Done event the controller produced, if any *)
    (* observed *)
    rc_wrapped : bool;           (* the handler ran on another goroutine than ServeHTTP's caller *)
    rc_sched : list ev;          (* the linearisation the executor settled on *)
    rc_alts : list (list ev);    (* the other linearisations it could not tell apart (see below) *)
    rc_hobs : list ares; rc_sout : sres;
    rc_status : Z;               (* 0 = header never written *)
    rc_snap : hdrs; rc_live : hdrs; rc_body : list Z;
    rc_extra : Z;                (* header names outside the script's namespace *)
    rc_late : Z;                 (* real-writer calls after ServeHTTP returned *)
    rc_foreign : Z;              (* real-writer calls from another goroutine than ServeHTTP's *)
    rc_dl : option Z;            (* ctx.Deadline() seen by the handler *)
    rc_t1 : Z;                   (* when the handler started; WithTimeout ran in [0, t1] *)
    rc_retatd : Z }.             (* D forced while the handler was parked: did ServeHTTP return? -1 n/a *)

Definition obs_rw (c : rest_case) : rwriter :=
  mkRW (rc_live c)
       (if rc_status c =? 0 then None else Some (rc_status c, rc_snap c))
       (rc_body c).

Definition dl_agrees (lo hi seen : option Z) : bool :=
  match lo, hi, seen with
  | Some l, Some h, Some d => (l <=? d) && (d <=? h)
  | None, None, None => true
  | _, _, _ => false
  end.

Definition sout_of_sst (s : sstat) : sres :=
  match s with
  | SWait => SoWait
  | SDoneRet | STimeoutRet _ => SoRet
  | SPanicRet p => SoPanic (Some p)
  end.

Definition sout_of_hst (s : hstat) : sres :=
  match s with
  | HRun => SoWait
  | HDone => SoRet
  | HPanicked p => SoPanic (Some p)
  end.

Definition sres_eqb (a b : sres) : bool :=
  match a, b with
  | SoWait, SoWait | SoRet, SoRet => true
  | SoPanic p, SoPanic q => opt_eqb pval_eqb p q
  | _, _ => false
  end.

(* The executor orders H and D events itself; the select (S) runs free and is seen
   only when ServeHTTP returns, a real timer's expiry is not seen at all.  Where the
   place of S (or of a timer D) among the neighbouring H events has no effect that
   the executor can see at that moment, it reports the latest place as [rc_sched]
   and the earlier ones as [rc_alts]; the model has to reproduce all observations
   under one of them. *)
Definition rest_agrees_sched (c : rest_case) (sched : list ev) : bool :=
  if rc_wrapped c then
    match run_strict (init (rc_h0 c) (rc_script c)) sched with
    | Some (s, obs) =>
      list_eqb ares_eqb obs (rc_hobs c) && rw_eqb (rw s) (obs_rw c) &&
      sres_eqb (sout_of_sst (sst s)) (rc_sout c)
    | None => false
    end
  else
    match xrun_strict (xinit (rc_h0 c) (rc_script c)) sched with
    | Some (s, obs) =>
      list_eqb ares_eqb obs (rc_hobs c) && rw_eqb (xrw s) (obs_rw c) &&
      sres_eqb (sout_of_hst (xhst s)) (rc_sout c)
    | None => false
    end.

Definition rest_agrees (c : rest_case) : bool :=
  Bool.eqb (wrapped (rc_dur c) (rc_rq c)) (rc_wrapped c) &&
  dl_agrees (rest_deadline (rc_dur c) (rc_rq c) (rc_parent c) 0)
            (rest_deadline (rc_dur c) (rc_rq c) (rc_parent c) (rc_t1 c)) (rc_dl c) &&
  (rc_extra c =? 0) && (rc_late c =? 0) && (rc_foreign c =? 0) &&
  existsb (rest_agrees_sched c) (rc_sched c :: rc_alts c).

(* --- the property on the observed response ------------------------- *)

(* the runs the handler itself can choose to make: the whole script, or — once the
   Done event exists — the script up to one of its context checks *)
Fixpoint check_prefixes (pre rest : list act) : list (list act) :=
  match rest with
  | [] => []
  | ACheckCtx :: r => (pre ++ [ACheckCtx]) :: check_prefixes (pre ++ [ACheckCtx]) r
  | a :: r => check_prefixes (pre ++ [a]) r
  end.

Definition candidates (c : rest_case) : list (list act) :=
  rc_script c ::
  match rc_dmode c with Some _ => check_prefixes [] (rc_script c) | None => [] end.

Definition is_complete (c : rest_case) : bool :=
  existsb (fun acts =>
             match spec_panic false acts with
             | None => view_eqb (obs_rw c) (spec_complete (rc_h0 c) acts)
             | Some _ => false
             end) (candidates c).

(* handler bytes are >= 128 in generated scripts, so "no handler byte" is decidable *)
Definition is_timeout (c : rest_case) : bool :=
  match rc_dmode c with
  | Some k =>
    (rc_status c =? timeout_code k) && hdrs_eqb (rc_snap c) (rc_h0 c) &&
    forallb (fun b => b <? 128) (rc_body c)
  | None => false
  end.

Definition untouched (c : rest_case) : bool :=
  (rc_status c =? 0) && zs_eqb (rc_body c) [].

Definition all_or_nothing_ok (c : rest_case) : bool :=
  match rc_sout c with
  | SoWait => false                          (* ServeHTTP must return once the handler has *)
  | SoRet => is_complete c || is_timeout c
  | SoPanic (Some p) =>
    untouched c && opt_eqb pval_eqb (spec_panic false (rc_script c)) (Some p)
  | SoPanic None => false
  end.

(* position of the timeout branch in the observed schedule: every Write the handler
   issued after it must have been refused *)
Fixpoint late_writes_refused (timed_out : bool) (sched : list ev) (obs : list ares) : bool :=
  match sched with
  | [] => true
  | ES BTimeout :: r => late_writes_refused true r obs
  | EH :: r =>
    match obs with
    | o :: obs' =>
      (if timed_out then match o with RWriteOk _ => false | _ => true end else true) &&
      late_writes_refused timed_out r obs'
    | [] => true
    end
  | _ :: r => late_writes_refused timed_out r obs
  end.

Definition nothing_after_timeout_ok (c : rest_case) : bool :=
  (rc_late c =? 0) && late_writes_refused false (rc_sched c) (rc_hobs c).

Definition deadline_ok (dur : Z) (parent seen : option Z) (t1 : Z) : bool :=
  match seen with
  | Some d =>
    (d <=? t1 + dur) && match parent with Some p => d <=? p | None => true end
  | None => false
  end.

Definition rest_prop_ok (c : rest_case) : bool :=
  if wrapped (rc_dur c) (rc_rq c) then
    all_or_nothing_ok c && nothing_after_timeout_ok c &&
    deadline_ok (rc_dur c) (rc_parent c) (rc_dl c) (rc_t1 c) &&
    negb (rc_retatd c =? 0)
  else
    (* exempt: the handler runs unwrapped, under the caller's own context *)
    match rc_rq c with
    | RqPlain => true      (* TimeoutHandler(d <= 0): no timeout configured *)
    | _ => negb (rc_wrapped c) && opt_eqb Z.eqb (rc_dl c) (rc_parent c)
    end.

(* ------------------------------------------------------------------ *)
(* result-slot cases: zRPC server interceptor (fam 0), fx.DoWithTimeout (fam 1) *)

Record slot_case := mkSlot
  { sc_fam : Z;
    sc_script : wscript;
    sc_dmode : option kind;
    sc_confs : list (Z * Z); sc_method : Z; sc_default : Z;   (* fx: [] 0 timeout *)
    sc_parent : option Z;
    (* observed *)
    sc_sched : list ev; sc_hobs : list ares;
    sc_ret : bool;               (* the wrapper returned / re-panicked *)
    sc_panic : option Z;         (* re-raised panic value, if any *)
    sc_stack : bool;             (* the re-raised value carries a stack trace *)
    sc_r : Z; sc_e : Z;          (* returned (resp, err); err -1 = DeadlineExceeded, -2 = Canceled *)
    sc_dl : option Z; sc_t1 : Z; sc_retatd : Z }.

Definition sc_dur (c : slot_case) : Z := method_timeout (sc_confs c) (sc_method c) (sc_default c).

Definition timeout_err (k : kind) : Z := match k with KDeadline => -1 | KCancel => -2 end.

Definition wout_eqb (m : wout) (c : slot_case) : bool :=
  match m with
  | OWait => negb (sc_ret c)
  | ORet r e => sc_ret c && opt_eqb Z.eqb (sc_panic c) None && (sc_r c =? r) && (sc_e c =? e)
  | OTimeout k => sc_ret c && opt_eqb Z.eqb (sc_panic c) None && (sc_r c =? 0) && (sc_e c =? timeout_err k)
  | OPanic p => sc_ret c && opt_eqb Z.eqb (sc_panic c) (Some p)
  end.

Definition slot_agrees (c : slot_case) : bool :=
  (* fx hands no context to fn: the deadline is not observable there *)
  (if sc_fam c =? 0
   then dl_agrees (Some (with_timeout (sc_parent c) 0 (sc_dur c)))
                  (Some (with_timeout (sc_parent c) (sc_t1 c) (sc_dur c))) (sc_dl c)
   else true) &&
  match wrun_strict (winit (sc_script c)) (sc_sched c) with
  | Some (s, obs) => list_eqb ares_eqb obs (sc_hobs c) && wout_eqb (wsst s) c
  | None => false
  end.

Definition slot_outcome_ok (c : slot_case) : bool :=
  sc_ret c &&
  match sc_panic c with
  | Some p =>
    match wend (sc_script c) with WPanic q => (p =? q) && sc_stack c | _ => false end
  | None =>
    existsb (fun re => (fst re =? sc_r c) && (snd re =? sc_e c))
            (match sc_dmode c with
             | Some k => (0, timeout_err k) :: wresults (sc_script c)
             | None => match wend (sc_script c) with WRet r e => [(r, e)] | _ => [] end
             end)
  end.

Definition slot_prop_ok (c : slot_case) : bool :=
  slot_outcome_ok c &&
  (if sc_fam c =? 0 then deadline_ok (sc_dur c) (sc_parent c) (sc_dl c) (sc_t1 c) else true) &&
  negb (sc_retatd c =? 0).

(* ------------------------------------------------------------------ *)
(* zRPC client interceptor: only derives the context                    *)

Record client_case := mkClient
  { cc_opts : list Z; cc_default : Z; cc_parent : option Z;
    cc_inv_err : Z;            (* what the invoker returns *)
    cc_dl : option Z; cc_t1 : Z;
    cc_err : Z }.              (* what the interceptor returned *)

Definition client_agrees (c : client_case) : bool :=
  dl_agrees (client_deadline (cc_opts c) (cc_default c) (cc_parent c) 0)
            (client_deadline (cc_opts c) (cc_default c) (cc_parent c) (cc_t1 c)) (cc_dl c) &&
  (cc_err c =? cc_inv_err c).

Definition client_prop_ok (c : client_case) : bool :=
  let t := call_timeout (cc_opts c) (cc_default c) in
  (if 0 <? t then deadline_ok t (cc_parent c) (cc_dl c) (cc_t1 c)
   else opt_eqb Z.eqb (cc_dl c) (cc_parent c)) &&
  (cc_err c =? cc_inv_err c).

(* ------------------------------------------------------------------ *)
(* rest engine: which timeout a route gets                              *)

Record engine_case := mkEngine
  { ec_route_ns : Z; ec_conf_ms : Z; ec_parent : option Z;
    ec_dl : option Z; ec_t1 : Z }.

Definition engine_agrees (c : engine_case) : bool :=
  let d := checked_timeout (ec_route_ns c) (ec_conf_ms c) in
  dl_agrees (rest_deadline d RqPlain (ec_parent c) 0)
            (rest_deadline d RqPlain (ec_parent c) (ec_t1 c)) (ec_dl c).

Definition engine_prop_ok (c : engine_case) : bool :=
  let d := checked_timeout (ec_route_ns c) (ec_conf_ms c) in
  if 0 <? d then deadline_ok d (ec_parent c) (ec_dl c) (ec_t1 c) else true.

(* ------------------------------------------------------------------ *)
(* sequences: several requests through ONE TimeoutHandler instance; a handler
   abandoned at its timeout goes on acting while later requests are served *)

Record seq_req := mkSR
  { sr_h0 : hdrs; sr_script : list act; sr_dmode : option kind;
    (* observed, per request *)
    sr_sout : sres; sr_status : Z; sr_snap : hdrs; sr_live : hdrs; sr_body : list Z;
    sr_extra : Z; sr_late : Z; sr_foreign : Z }.

Record seq_case := mkSeq
  { sq_dur : Z;
    sq_reqs : list seq_req;
    sq_sched : list (nat * ev);        (* the executor forces it completely *)
    sq_hobs : list (nat * ares);       (* what each handler action reported, in schedule order *)
    sq_retatd : Z }.

Definition sr_rw (r : seq_req) : rwriter :=
  mkRW (sr_live r) (if sr_status r =? 0 then None else Some (sr_status r, sr_snap r)) (sr_body r).

Definition iares_eqb (a b : nat * ares) : bool := Nat.eqb (fst a) (fst b) && ares_eqb (snd a) (snd b).

Fixpoint zip_all {A B} (f : A -> B -> bool) (l1 : list A) (l2 : list B) : bool :=
  match l1, l2 with
  | [], [] => true
  | x :: r1, y :: r2 => f x y && zip_all f r1 r2
  | _, _ => false
  end.

Definition seq_agrees (c : seq_case) : bool :=
  match mrun_strict (minit (map (fun r => (sr_h0 r, sr_script r)) (sq_reqs c))) (sq_sched c) with
  | Some (ss, obs) =>
    list_eqb iares_eqb obs (sq_hobs c) &&
    zip_all (fun s r => rw_eqb (rw s) (sr_rw r) && sres_eqb (sout_of_sst (sst s)) (sr_sout r) &&
                        (sr_extra r =? 0) && (sr_late r =? 0) && (sr_foreign r =? 0))
            ss (sq_reqs c)
  | None => false
  end.

(* request i seen as a single-request case: its own script, its own events, its own
   observations — everything the other requests did is simply absent *)
Definition seq_as_rest (c : seq_case) (i : nat) (r : seq_req) : rest_case :=
  mkRest (sr_h0 r) (sr_script r) (sq_dur c) RqPlain None (sr_dmode r)
         true (proj i (sq_sched c)) []
         (map snd (filter (fun o => Nat.eqb (fst o) i) (sq_hobs c)))
         (sr_sout r) (sr_status r) (sr_snap r) (sr_live r) (sr_body r)
         (sr_extra r) (sr_late r) (sr_foreign r) None 0 (-1).

Fixpoint forall_idx {A} (f : nat -> A -> bool) (i : nat) (l : list A) : bool :=
  match l with
  | [] => true
  | x :: r => f i x && forall_idx f (S i) r
  end.

Definition seq_prop_ok (c : seq_case) : bool :=
  forall_idx (fun i r =>
                let rc := seq_as_rest c i r in
                all_or_nothing_ok rc && nothing_after_timeout_ok rc)
             O (sq_reqs c) &&
  negb (sq_retatd c =? 0).

(* ------------------------------------------------------------------ *)
(* sequences of calls through ONE interceptor instance (fam 0) / fx (fam 1) *)

Record sseq_call := mkSC
  { cl_script : wscript; cl_dmode : option kind; cl_parent : option Z;
    (* observed *)
    cl_ret : bool; cl_panic : option Z; cl_stack : bool; cl_r : Z; cl_e : Z;
    cl_dl : option Z; cl_t1 : Z }.

Record sseq_case := mkSSeq
  { ss_fam : Z; ss_dur : Z;
    ss_calls : list sseq_call;
    ss_sched : list (nat * ev);
    ss_hobs : list (nat * ares);
    ss_retatd : Z }.

Definition call_as_slot (c : sseq_case) (i : nat) (cl : sseq_call) : slot_case :=
  mkSlot (ss_fam c) (cl_script cl) (cl_dmode cl) [] 0 (ss_dur c) (cl_parent cl)
         (proj i (ss_sched c))
         (map snd (filter (fun o => Nat.eqb (fst o) i) (ss_hobs c)))
         (cl_ret cl) (cl_panic cl) (cl_stack cl) (cl_r cl) (cl_e cl)
         (cl_dl cl) (cl_t1 cl) (-1).

Definition sseq_agrees (c : sseq_case) : bool :=
  match wmrun_strict (wminit (map cl_script (ss_calls c))) (ss_sched c) with
  | Some (ss, obs) =>
    list_eqb iares_eqb obs (ss_hobs c) &&
    forall_idx (fun i pr => wout_eqb (wsst (fst pr)) (call_as_slot c i (snd pr))) O
               (combine ss (ss_calls c)) &&
    Nat.eqb (length ss) (length (ss_calls c))
  | None => false
  end.

(* every call, seen through its own events only: its own result, its own timeout
   error or its own panic; deadline no later than its caller's and now+timeout;
   it returned (no hang) *)
Definition sseq_prop_ok (c : sseq_case) : bool :=
  forall_idx (fun i cl => slot_prop_ok (call_as_slot c i cl)) O (ss_calls c) &&
  negb (ss_retatd c =? 0).

(* ------------------------------------------------------------------ *)

Inductive case :=
| CRest (c : rest_case)
| CSlot (c : slot_case)
| CClient (c : client_case)
| CEngine (c : engine_case)
| CSeq (c : seq_case)
| CSSeq (c : sseq_case).

Definition agrees (c : case) : bool :=
  match c with
  | CRest c => rest_agrees c
  | CSlot c => slot_agrees c
  | CClient c => client_agrees c
  | CEngine c => engine_agrees c
  | CSeq c => seq_agrees c
  | CSSeq c => sseq_agrees c
  end.

Definition prop_ok (c : case) : bool :=
  match c with
  | CRest c => rest_prop_ok c
  | CSlot c => slot_prop_ok c
  | CClient c => client_prop_ok c
  | CEngine c => engine_prop_ok c
  | CSeq c => seq_prop_ok c
  | CSSeq c => sseq_prop_ok c
  end.

(* diagnostics for replay files *)
Definition model_obs (c : case) :=
  match c with
  | CRest c =>
    if rc_wrapped c then
      match run_strict (init (rc_h0 c) (rc_script c)) (rc_sched c) with
      | Some (s, obs) => Some (rw s, obs)
      | None => None
      end
    else
      match xrun_strict (xinit (rc_h0 c) (rc_script c)) (rc_sched c) with
      | Some (s, obs) => Some (xrw s, obs)
      | None => None
      end
  | _ => None
  end.
