(* C04 — property theorems only.  Every theorem is closed by [exact] of a lemma
   proved in Proofs.v and followed by [Print Assumptions]. *)
From Coq Require Import List ZArith Bool.
From GZ Require Import C04.Model C04.Proofs C04.Recover C04.RecoverProofs.
Import ListNotations.
Open Scope Z_scope.

(* ================================================================== *)
(* REST: handler.TimeoutHandler                                         *)

(* all_or_nothing.  [fl] says whether the real writer implements http.Flusher.  For
   every pre-set header map of the real writer, every handler script that cannot
   flush through (the writer is no Flusher, or the script never calls Flush) and
   EVERY schedule of handler actions (H), Done events (D: deadline or cancellation,
   possibly never) and select branches (S), the state reached is one of
   ([outcome_strict], Proofs.v):
   - ServeHTTP has not returned and the real writer is untouched;
   - it returned through `done`: the handler has returned after running [ex] — the
     whole script, or the script up to a context check that saw Done — without
     panic, and the real writer holds exactly that run's response ([complete]); if no
     1xx code is the first status written ([info_first], see the known finding in
     notes/C04.md) this is [spec_complete]: status of its first final
     WriteHeader/Write, its final header map laid over the writer's own headers, all
     its body chunks, no 1xx response — nothing of the timeout reply;
   - it returned through `ctx.Done()`: the real writer holds exactly 503 (deadline)
     or 499 (cancellation), the writer's own headers and the fixed body — no status,
     header, informational response or byte of the handler;
   - it re-raised the panic the script ends in, and the real writer is untouched. *)
Theorem all_or_nothing : forall fl h0 script sched,
  fl = false \/ has_flush script = false ->
  outcome_strict fl h0 script (run (init fl h0 script) sched).
Proof. exact all_or_nothing_lemma. Qed.
Print Assumptions all_or_nothing.

(* all_or_nothing_flush.  The same for EVERY script, Flush included ([outcome]): a
   handler that calls Flush on a Flusher-capable writer hands the buffered prefix to
   the client itself ([committed fl h0 ex] = what its own Flush calls passed on while
   running [ex]); everything else stays all-or-nothing around that: pending = only
   that prefix; done = the complete response; timeout = that prefix (as it was when
   the timeout branch ran: [pre] is a prefix of the script) followed by the timeout
   reply and nothing later; panic = that prefix. *)
Theorem all_or_nothing_flush : forall fl h0 script sched,
  outcome fl h0 script (run (init fl h0 script) sched).
Proof. exact all_or_nothing_flush_lemma. Qed.
Print Assumptions all_or_nothing_flush.

(* what the handler has not flushed itself never reaches the client before the outcome *)
Theorem unflushed_stays_private : forall fl h0 acts,
  fl = false \/ has_flush acts = false -> committed fl h0 acts = rw_fresh fl h0.
Proof. exact committed_untouched. Qed.
Print Assumptions unflushed_stays_private.

(* a handler that ignores the context: the `done` outcome is the response of the whole script *)
Theorem all_or_nothing_ignoring_ctx : forall fl h0 script sched,
  fl = false \/ has_flush script = false ->
  ignores_ctx script -> info_first fl script = false ->
  sst (run (init fl h0 script) sched) = SDoneRet ->
  rw (run (init fl h0 script) sched) = spec_complete fl h0 script /\
  spec_panic fl false script = None.
Proof. exact ignoring_ctx_lemma. Qed.
Print Assumptions all_or_nothing_ignoring_ctx.

(* no Done event: never the timeout reply; `done` gives the whole script's response *)
Theorem no_deadline_complete : forall fl h0 script sched,
  fl = false \/ has_flush script = false ->
  no_d sched ->
  (forall k, sst (run (init fl h0 script) sched) <> STimeoutRet k) /\
  (sst (run (init fl h0 script) sched) = SDoneRet -> info_first fl script = false ->
   rw (run (init fl h0 script) sched) = spec_complete fl h0 script).
Proof. exact no_deadline_lemma. Qed.
Print Assumptions no_deadline_complete.

(* the same for scripts that flush: what the client has seen in the end (1xx responses,
   status, frozen headers, body) is the independent description [spec_view]: status of
   the first final WriteHeader / Write / Flush, the header map of the first Flush, all chunks *)
Theorem no_deadline_complete_flush : forall fl h0 script sched,
  no_d sched ->
  (forall k, sst (run (init fl h0 script) sched) <> STimeoutRet k) /\
  (sst (run (init fl h0 script) sched) = SDoneRet -> info_first fl script = false ->
   rw_view (rw (run (init fl h0 script) sched)) = spec_view fl h0 script).
Proof. exact no_deadline_flush_lemma. Qed.
Print Assumptions no_deadline_complete_flush.

(* [complete] (the reference run copied to the real writer) is the independent
   description used by the checker: for the client's view always, for the whole
   writer when nothing is flushed through.  The hypothesis [info_first = false]
   excludes the known finding (a 1xx code written first is recorded as the status). *)
Theorem complete_is_spec_view : forall fl h0 acts,
  spec_panic fl false acts = None -> info_first fl acts = false ->
  rw_view (complete fl h0 acts) = spec_view fl h0 acts.
Proof. exact complete_view_spec. Qed.
Print Assumptions complete_is_spec_view.

Theorem complete_is_spec : forall fl h0 acts,
  fl = false \/ has_flush acts = false ->
  spec_panic fl false acts = None -> info_first fl acts = false ->
  complete fl h0 acts = spec_complete fl h0 acts.
Proof. exact complete_spec. Qed.
Print Assumptions complete_is_spec.

(* what the handler's own Flush calls have passed to the client after it executed [pre]
   is the independent description [spec_committed]: nothing, unless it flushed through a
   Flusher-capable writer; then status and headers of its first Flush and the chunks written
   before its last Flush — never an unflushed byte *)
Theorem committed_is_spec : forall fl h0 pre,
  spec_panic fl false pre = None -> info_first fl pre = false ->
  rw_view (committed fl h0 pre) = spec_committed fl h0 pre.
Proof. exact committed_view_spec. Qed.
Print Assumptions committed_is_spec.

(* timeout_result.  Whenever ServeHTTP returned through the timeout branch, for every
   script (Flush included) and schedule, the client's view is [timeout_view] of a prefix of
   the script: what the handler had flushed itself by then, followed by the 503 / 499
   reply with the writer's own headers (if nothing was flushed) and the fixed body —
   this is the "timeout result" test of the checker (Check.is_timeout) *)
Theorem timeout_result : forall fl h0 script sched k,
  let s := run (init fl h0 script) sched in
  sst s = STimeoutRet k ->
  exists pre, (exists post, script = pre ++ post) /\
              rw s = timeout_write k (committed fl h0 pre) /\
              (spec_panic fl false pre = None -> info_first fl pre = false ->
               rw_view (rw s) = timeout_view fl h0 k pre).
Proof. exact timeout_result_lemma. Qed.
Print Assumptions timeout_result.

(* 499_or_503.  The status of the timeout reply is decided by the FIRST Done event of the
   schedule (ctx.Err() is sticky): 499 for a cancellation, 503 for a deadline — whatever
   Done events follow, and whatever the handler wrote, in whatever order (WriteHeader after
   Write, several WriteHeader, 1xx codes, invalid codes) *)
Theorem timeout_status_by_first_done : forall fl h0 script sched k,
  sst (run (init fl h0 script) sched) = STimeoutRet k ->
  first_done sched = Some k /\
  rres (rw (run (init fl h0 script) sched)) <> None /\
  (fl = false \/ has_flush script = false ->
   rres (rw (run (init fl h0 script) sched)) = Some (timeout_code k, h0)).
Proof. exact timeout_kind_lemma. Qed.
Print Assumptions timeout_status_by_first_done.

(* outer_view.  What the middlewares in FRONT of the timeout handler record (the Code of their
   response.WithCodeResponseWriter: breaker, log, metrics, trace) is the argument of the last
   WriteHeader that reached their writer.  For every script and schedule: after the timeout
   branch it is the timeout status — even when the handler's own status is already on the wire
   because it flushed; after the done branch (no flush-through, no 1xx first) it is exactly the
   status the client got; while ServeHTTP is pending it is still the initial 200 and nothing is
   on the wire. *)
Theorem outer_view : forall fl h0 script sched,
  let s := run (init fl h0 script) sched in
  (forall k, sst s = STimeoutRet k -> rcode (rw s) = timeout_code k) /\
  (sst s = SDoneRet -> fl = false \/ has_flush script = false -> info_first fl (hexec s) = false ->
   rres (rw s) = Some (rcode (rw s), rlive (rw s)) /\ rcode (rw s) = spec_status false (hexec s)) /\
  (sst s = SWait -> fl = false \/ has_flush script = false -> rcode (rw s) = 200 /\ rres (rw s) = None).
Proof. exact outer_view_lemma. Qed.
Print Assumptions outer_view.

(* the panic a script ends in does not depend on flushing or timing *)
Theorem script_panic_is_spec : forall fl h0 acts,
  snd (href (start fl h0) acts) = spec_panic fl false acts.
Proof. exact script_panic_spec. Qed.
Print Assumptions script_panic_is_spec.

(* nothing_after_timeout.  Once ServeHTTP returned through the timeout branch, no
   continuation of the schedule — the handler going on writing, flushing, setting
   headers or a status, panicking, further Done events — changes the real writer; and
   without flush-through it is exactly the timeout reply. *)
Theorem nothing_after_timeout : forall fl h0 script sched1 sched2 k,
  sst (run (init fl h0 script) sched1) = STimeoutRet k ->
  rw (run (init fl h0 script) (sched1 ++ sched2)) = rw (run (init fl h0 script) sched1) /\
  sst (run (init fl h0 script) (sched1 ++ sched2)) = STimeoutRet k /\
  (fl = false \/ has_flush script = false ->
   rw (run (init fl h0 script) (sched1 ++ sched2)) = timeout_resp fl h0 k).
Proof. exact nothing_after_timeout_lemma. Qed.
Print Assumptions nothing_after_timeout.

(* the same for every way ServeHTTP returned: the response is final *)
Theorem response_final : forall fl h0 script sched1 sched2,
  sst (run (init fl h0 script) sched1) <> SWait ->
  rw (run (init fl h0 script) (sched1 ++ sched2)) = rw (run (init fl h0 script) sched1) /\
  sst (run (init fl h0 script) (sched1 ++ sched2)) = sst (run (init fl h0 script) sched1).
Proof. exact response_final_lemma. Qed.
Print Assumptions response_final.

(* only the select's branches and the handler's own Flush (before the timeout, on a
   Flusher-capable writer) write to the real writer: no other H or D event does, ever *)
Theorem handler_never_touches_writer : forall s e,
  (forall b, e <> ES b) ->
  tto s = true \/ rfl (rw s) = false \/ (forall r', hrest s <> AFlush :: r') ->
  rw (stepT s e) = rw s.
Proof. exact only_S_and_flush_write. Qed.
Print Assumptions handler_never_touches_writer.

(* a Write issued after the timeout is refused with ErrHandlerTimeout and buffers nothing *)
Theorem late_write_gets_handler_timeout : forall fl h0 script sched k bs r,
  let s := run (init fl h0 script) sched in
  sst s = STimeoutRet k -> hst s = HRun -> hrest s = AWrite bs :: r ->
  exists s', step s EH = Some (s', RWriteTimeout) /\ rw s' = rw s /\ tb s' = tb s.
Proof. exact late_write_refused. Qed.
Print Assumptions late_write_gets_handler_timeout.

(* a Flush issued after the timeout passes nothing on (repaired by 696f32f) *)
Theorem late_flush_does_nothing : forall fl h0 script sched k r,
  let s := run (init fl h0 script) sched in
  sst s = STimeoutRet k -> hst s = HRun -> hrest s = AFlush :: r ->
  exists s', step s EH = Some (s', RNone) /\ rw s' = rw s /\ tb s' = tb s.
Proof. exact late_flush_ignored. Qed.
Print Assumptions late_flush_does_nothing.

(* returns_at_deadline.  In every reachable state where Done has happened and
   ServeHTTP is still selecting, the timeout branch is enabled and completes the
   request with the timeout reply in that one step, consuming no handler action —
   whatever the handler is doing or has left to do. *)
Theorem returns_at_deadline : forall fl h0 script sched k,
  let s := run (init fl h0 script) sched in
  dk s = Some k -> sst s = SWait ->
  exists s', step s (ES BTimeout) = Some (s', RNone) /\
             sst s' = STimeoutRet k /\ rw s' = timeout_write k (committed fl h0 (hexec s)) /\
             (fl = false \/ has_flush script = false -> rw s' = timeout_resp fl h0 k) /\
             hst s' = hst s /\ hrest s' = hrest s /\ hexec s' = hexec s.
Proof. exact returns_at_deadline_lemma. Qed.
Print Assumptions returns_at_deadline.

(* deadline_shrinks (REST): a wrapped request runs under a deadline that is no later
   than now+timeout and no later than the caller's *)
Theorem deadline_shrinks_rest : forall dur rq parent now,
  wrapped dur rq = true ->
  exists d, rest_deadline dur rq parent now = Some d /\ d <= now + dur /\
            (forall p, parent = Some p -> d <= p).
Proof. exact rest_deadline_shrinks. Qed.
Print Assumptions deadline_shrinks_rest.

(* rest/engine.go: the timeout a route gets *)
Theorem route_timeout : forall route conf,
  (0 < route -> checked_timeout route conf = route) /\
  (route <= 0 -> checked_timeout route conf = conf * 1000000).
Proof. exact checked_timeout_spec. Qed.
Print Assumptions route_timeout.

(* exempt_passthrough: websocket-upgrade and event-stream requests are not wrapped,
   keep the caller's deadline, and for every script and schedule the real writer
   holds exactly what the handler's executed actions wrote to it directly *)
Theorem exempt_passthrough : forall dur rq parent now fl h0 script sched,
  rq <> RqPlain ->
  wrapped dur rq = false /\ rest_deadline dur rq parent now = parent /\
  xrw (xrun (xinit fl h0 script) sched) = direct fl h0 (xexec (xrun (xinit fl h0 script) sched)) /\
  (xhst (xrun (xinit fl h0 script) sched) = HDone ->
   cut script (xexec (xrun (xinit fl h0 script) sched)) (xdk (xrun (xinit fl h0 script) sched))).
Proof. exact exempt_lemma. Qed.
Print Assumptions exempt_passthrough.

(* ================================================================== *)
(* the rest engine: which timeout a route runs under                    *)

(* route options are applied in order: the last WithTimeout / WithSSE decides; WithSSE
   resets the route timeout to 0, which (like no option at all) means the server's *)
Theorem route_options_last_wins : forall opts t,
  route_conf [] = mkFR 0 false /\
  fr_timeout (route_conf (opts ++ [OptTimeout t])) = t /\
  route_conf (opts ++ [OptSSE]) = mkFR 0 true.
Proof.
  exact (fun opts t => conj route_conf_none (conj (route_conf_last_timeout opts t) (route_conf_last_sse opts))).
Qed.
Print Assumptions route_options_last_wins.

(* the duration given to TimeoutHandler: none when the middleware is off, the route's
   own timeout when positive, otherwise conf.Timeout milliseconds *)
Theorem engine_route_timeout : forall mw conf_ms f,
  (mw = false -> eng_route_dur mw conf_ms f = 0) /\
  (mw = true -> 0 < fr_timeout f -> eng_route_dur mw conf_ms f = fr_timeout f) /\
  (mw = true -> fr_timeout f <= 0 -> eng_route_dur mw conf_ms f = conf_ms * 1000000).
Proof. exact eng_route_dur_spec. Qed.
Print Assumptions engine_route_timeout.

(* deadline_shrinks (engine): for every server configuration, route group and caller
   deadline, a plain request to a route with a positive chosen timeout runs under
   min(caller's, now + chosen) *)
Theorem deadline_shrinks_engine : forall mw conf_ms f parent now,
  0 < eng_route_dur mw conf_ms f ->
  exists d, eng_deadline mw conf_ms f RqPlain parent now = Some d /\
            d <= now + eng_route_dur mw conf_ms f /\
            (forall p, parent = Some p -> d <= p).
Proof. exact eng_deadline_shrinks. Qed.
Print Assumptions deadline_shrinks_engine.

(* exempt requests (by request header), routes without timeout (0 = no timeout) and
   servers without the timeout middleware: not wrapped, caller's deadline kept *)
Theorem engine_exempt : forall mw conf_ms f rq parent now,
  rq <> RqPlain \/ eng_route_dur mw conf_ms f <= 0 ->
  wrapped (eng_route_dur mw conf_ms f) rq = false /\
  eng_deadline mw conf_ms f rq parent now = parent.
Proof. exact eng_exempt. Qed.
Print Assumptions engine_exempt.

(* http.Server.WriteTimeout (1.1 x the largest timeout of the server) is never shorter
   than the timeout of any route, so the 503 reply can still be written at the route's
   deadline; ReadTimeout (0.8 x) never exceeds it *)
Theorem server_write_timeout_covers_routes : forall mw conf_ms groups g,
  In g groups -> 0 <= conf_ms ->
  eng_route_dur mw conf_ms g <= srv_write_timeout (eng_timeout conf_ms groups) /\
  srv_read_timeout (eng_timeout conf_ms groups) <= eng_timeout conf_ms groups.
Proof. exact write_timeout_covers. Qed.
Print Assumptions server_write_timeout_covers_routes.

(* ================================================================== *)
(* several requests through one TimeoutHandler instance / one server    *)

(* requests_isolated.  For every list of requests (own writer, own pre-set headers, own
   handler script) served by one middleware instance and EVERY schedule interleaving the
   H, D and S threads of all of them — in particular a handler abandoned at its timeout
   that goes on writing and flushing while later requests are being served — the
   component of each request is exactly the single-request run under that request's own
   events, hence its response is all-or-nothing w.r.t. its OWN script: nothing of any
   other request can appear in it. *)
Theorem requests_isolated : forall reqs sched i q,
  nth_error reqs i = Some q ->
  exists s, nth_error (mrun (minit reqs) sched) i = Some s /\
            s = run (init (q_fl q) (q_h0 q) (q_script q)) (proj i sched) /\
            outcome (q_fl q) (q_h0 q) (q_script q) s /\
            (q_fl q = false \/ has_flush (q_script q) = false ->
             outcome_strict (q_fl q) (q_h0 q) (q_script q) s).
Proof. exact requests_isolated_lemma. Qed.
Print Assumptions requests_isolated.

(* frame lemma behind it: a step of request i does not touch request j's state *)
Theorem request_step_frame : forall ss i e j,
  i <> j -> nth_error (mstepT ss (i, e)) j = nth_error ss j.
Proof. exact mstep_frame. Qed.
Print Assumptions request_step_frame.

(* a request's timeout reply survives everything every request's threads do later *)
Theorem timeout_reply_final_among_requests : forall reqs sched1 sched2 i q k s1,
  nth_error reqs i = Some q ->
  nth_error (mrun (minit reqs) sched1) i = Some s1 -> sst s1 = STimeoutRet k ->
  exists s2, nth_error (mrun (minit reqs) (sched1 ++ sched2)) i = Some s2 /\
             rw s2 = rw s1 /\ sst s2 = STimeoutRet k /\
             (q_fl q = false \/ has_flush (q_script q) = false ->
              rw s2 = timeout_resp (q_fl q) (q_h0 q) k).
Proof. exact isolated_timeout_final. Qed.
Print Assumptions timeout_reply_final_among_requests.

(* one server, many routes: wrapped and unwrapped (exempt / no timeout) requests side by
   side; each component is the single-request run of its own kind under its own events *)
Theorem server_requests_isolated : forall wraps reqs sched i wrap q,
  nth_error wraps i = Some wrap -> nth_error reqs i = Some q ->
  nth_error (cmrun (map (fun wq => cinit (fst wq) (snd wq)) (combine wraps reqs)) sched) i =
  Some (if wrap then CW (run (init (q_fl q) (q_h0 q) (q_script q)) (proj i sched))
        else CX (xrun (xinit (q_fl q) (q_h0 q) (q_script q)) (proj i sched))).
Proof. exact server_requests_isolated_lemma. Qed.
Print Assumptions server_requests_isolated.

(* request A is abandoned after its first write, request B is served while A's
   handler goes on writing: B gets exactly B's response, A keeps the 499 *)
Example ex_two_requests :
  let reqs := [mkReq false [] [AWrite [130]; AWrite [131]];
               mkReq false [(1, [5])] [ASet 2 8; AWriteHeader 201; AWrite [200]]] in
  let sched := [(0, EH); (0, ED KCancel); (0, ES BTimeout); (1, EH); (0, EH); (1, EH); (0, EH);
                (1, EH); (1, EH); (1, ES BDone)]%nat in
  map rw (mrun (minit reqs) sched) =
  [mkRW false [] (Some (499, [])) reason [] 499;
   mkRW false [(1, [5]); (2, [8])] (Some (201, [(1, [5]); (2, [8])])) [200] [] 201].
Proof. vm_compute. reflexivity. Qed.

(* ================================================================== *)
(* zRPC server interceptor and fx.DoWithTimeout (result slot)           *)

(* all-or-nothing: what the wrapper returns is the work's own final result, or —
   only if Done happened and the work checks the context — the work's own bail-out
   result; or the timeout error of the Done event that happened; or the work's
   panic.  Never a combination. *)
Theorem slot_all_or_nothing : forall w sched,
  let s := wrun (winit w) sched in
  match wsst s with
  | OWait => True
  | ORet r e => wend w = WRet r e \/ (wdk s <> None /\ has_check w /\ (r, e) = wbail w)
  | OTimeout k => wdk s = Some k
  | OPanic p => wend w = WPanic p
  end.
Proof. exact slot_all_or_nothing_lemma. Qed.
Print Assumptions slot_all_or_nothing.

Theorem slot_returns_at_deadline : forall (s : wstate) k,
  wdk s = Some k -> wsst s = OWait ->
  exists s', wstep s (ES BTimeout) = Some (s', RNone) /\ wsst s' = OTimeout k /\
             wst s' = wst s /\ wrest s' = wrest s /\ wn s' = wn s.
Proof. exact slot_returns_at_deadline_lemma. Qed.
Print Assumptions slot_returns_at_deadline.

(* the result handed to the caller never changes afterwards (late completion of the
   work is not observed) *)
Theorem slot_result_final : forall sched s,
  wsst s <> OWait -> wsst (wrun s sched) = wsst s.
Proof. exact slot_sticky. Qed.
Print Assumptions slot_result_final.

Theorem deadline_shrinks_server : forall confs m default parent now,
  exists d, server_deadline confs m default parent now = Some d /\
            d <= now + method_timeout confs m default /\
            (forall p, parent = Some p -> d <= p).
Proof. exact server_deadline_shrinks. Qed.
Print Assumptions deadline_shrinks_server.

(* per-method configuration: the last entry for a (non-empty) method name wins,
   otherwise the default applies *)
Theorem method_timeout_configured : forall pre m t post d,
  m <> 0 -> (forall t', ~ In (m, t') post) ->
  method_timeout (pre ++ (m, t) :: post) m d = t.
Proof. exact method_timeout_last. Qed.
Print Assumptions method_timeout_configured.

Theorem method_timeout_default : forall confs m d,
  (forall t, ~ In (m, t) confs) -> method_timeout confs m d = d.
Proof. exact method_timeout_nomatch. Qed.
Print Assumptions method_timeout_default.

Theorem deadline_shrinks_fx : forall t parent now,
  exists d, fx_deadline t parent now = Some d /\ d <= now + t /\
            (forall p, parent = Some p -> d <= p).
Proof. exact fx_deadline_shrinks. Qed.
Print Assumptions deadline_shrinks_fx.

(* zRPC client interceptor: with a positive (per-call or default) timeout the invoker
   runs under min(caller's, now+t); otherwise under the caller's context unchanged *)
Theorem deadline_shrinks_client : forall opts default parent now,
  let t := call_timeout opts default in
  (0 < t -> exists d, client_deadline opts default parent now = Some d /\ d <= now + t /\
                      (forall p, parent = Some p -> d <= p)) /\
  (t <= 0 -> client_deadline opts default parent now = parent).
Proof. exact client_deadline_shrinks. Qed.
Print Assumptions deadline_shrinks_client.

(* calls_isolated.  For every list of calls (own work script each) going through one
   interceptor instance (or through fx.DoWithTimeout) and EVERY schedule interleaving
   the work, Done and select threads of all of them — in particular the work of a
   timed-out call returning or panicking while later calls are in flight — the
   component of each call is exactly the single-call run under that call's own events:
   what it returns is its OWN result, its OWN timeout error or its OWN panic. *)
Theorem calls_isolated : forall ws sched i w,
  nth_error ws i = Some w ->
  exists s, nth_error (wmrun (wminit ws) sched) i = Some s /\
            s = wrun (winit w) (proj i sched) /\
            match wsst s with
            | OWait => True
            | ORet r e => wend w = WRet r e \/ (wdk s <> None /\ has_check w /\ (r, e) = wbail w)
            | OTimeout k => wdk s = Some k
            | OPanic p => wend w = WPanic p
            end.
Proof. exact calls_isolated_lemma. Qed.
Print Assumptions calls_isolated.

Theorem call_step_frame : forall ss i e j,
  i <> j -> nth_error (wmstepT ss (i, e)) j = nth_error ss j.
Proof. exact wmstep_frame. Qed.
Print Assumptions call_step_frame.

Theorem call_result_final_among_calls : forall ws sched1 sched2 i w s1,
  nth_error ws i = Some w ->
  nth_error (wmrun (wminit ws) sched1) i = Some s1 -> wsst s1 <> OWait ->
  exists s2, nth_error (wmrun (wminit ws) (sched1 ++ sched2)) i = Some s2 /\ wsst s2 = wsst s1.
Proof. exact isolated_result_final. Qed.
Print Assumptions call_result_final_among_calls.

(* call A times out with its work parked; call B is in flight when A's work panics:
   B still returns B's own result, A keeps DeadlineExceeded *)
Example ex_two_calls :
  let ws := [mkW [WWork] (0, 0) (WPanic 15); mkW [WWork] (0, 0) (WRet 21 0)] in
  let sched := [(0, EH); (0, ED KDeadline); (0, ES BTimeout); (1, EH); (0, EH); (1, EH); (1, ES BDone)]%nat in
  map wsst (wmrun (wminit ws) sched) = [OTimeout KDeadline; ORet 21 0] /\
  map wst (wmrun (wminit ws) sched) = [WPanicked 15; WDone 21 0].
Proof. vm_compute. split; reflexivity. Qed.

(* ================================================================== *)
(* non-vacuity: concrete runs reaching each outcome                     *)

Definition ex_h0 : hdrs := [(1, [5])].
Definition ex_script : list act :=
  [ASet 1 7; AWriteHeader 201; AWrite [200; 201]; ASet 2 9; AWrite [202]].

(* the deadline fires between the two writes; the handler goes on; the client gets 503 only *)
Definition ex_sched_timeout : list ev :=
  [EH; EH; EH; ED KDeadline; ES BTimeout; EH; EH; EH].
Example ex_timeout :
  let s := run (init true ex_h0 ex_script) ex_sched_timeout in
  sst s = STimeoutRet KDeadline /\ hst s = HDone /\
  rw s = mkRW true [(1, [5])] (Some (503, [(1, [5])])) reason [] 503.
Proof. vm_compute. repeat split. Qed.

Example ex_late_write :
  let s := run (init true ex_h0 ex_script) [EH; EH; EH; ED KCancel; ES BTimeout; EH] in
  sst s = STimeoutRet KCancel /\ hst s = HRun /\ hrest s = [AWrite [202]] /\
  step s EH = Some (run s [EH], RWriteTimeout).
Proof. vm_compute. repeat split. Qed.

(* both `done` and `ctx.Done()` ready: either branch, each all-or-nothing *)
Example ex_both_ready :
  let pre := [EH; EH; EH; EH; EH; EH; ED KCancel] in
  rw (run (init false ex_h0 ex_script) (pre ++ [ES BDone])) =
    mkRW false [(1, [7]); (2, [9])] (Some (201, [(1, [7]); (2, [9])])) [200; 201; 202] [] 201 /\
  rw (run (init false ex_h0 ex_script) (pre ++ [ES BTimeout])) =
    mkRW false [(1, [5])] (Some (499, [(1, [5])])) reason [] 499.
Proof. vm_compute. split; reflexivity. Qed.

Example ex_ignores : ignores_ctx ex_script /\ spec_panic true false ex_script = None /\
                     info_first true ex_script = false /\ has_flush ex_script = false.
Proof.
  split; [|repeat split].
  intros H. repeat (destruct H as [H|H]; [discriminate|]). exact H.
Qed.

Example ex_panic :
  let s := run (init true ex_h0 [AWrite [200]; APanic 4]) [EH; EH; ED KCancel; ES BPanic] in
  sst s = SPanicRet (PUser 4) /\ rw s = rw_fresh true ex_h0.
Proof. vm_compute. split; reflexivity. Qed.

(* a context check that sees Done cuts the run; `done` then delivers that run completely *)
Example ex_cut :
  let s := run (init true [] [AWrite [200]; ACheckCtx; AWrite [201]]) [EH; ED KCancel; EH; EH; ES BDone] in
  sst s = SDoneRet /\ hexec s = [AWrite [200]; ACheckCtx] /\
  rw s = mkRW true [] (Some (200, [])) [200] [] 200.
Proof. vm_compute. repeat split. Qed.

(* Flush: the status the handler set goes out with the first Flush, later chunks follow;
   a timeout after the Flush appends its reply to what was flushed and nothing later;
   a Flush after the timeout passes nothing on *)
Definition ex_flush_script : list act :=
  [ASet 1 7; AWriteHeader 404; AWrite [200]; AFlush; ASet 2 9; AWrite [201]; AFlush; AWrite [202]].
Example ex_flush_complete :
  let s := run (init true ex_h0 ex_flush_script) [EH; EH; EH; EH; EH; EH; EH; EH; EH; ES BDone] in
  sst s = SDoneRet /\
  rw_view (rw s) = ([], Some (404, [(1, [7])]), [200; 201; 202]) /\
  rw_view (rw s) = spec_view true ex_h0 ex_flush_script.
Proof. vm_compute. repeat split. Qed.

Example ex_flush_then_timeout :
  let s := run (init true ex_h0 ex_flush_script) [EH; EH; EH; EH; EH; EH; ED KDeadline; ES BTimeout; EH; EH; EH] in
  sst s = STimeoutRet KDeadline /\ hst s = HDone /\
  rw_view (rw s) = ([], Some (404, [(1, [7])]), [200] ++ reason) /\
  rcode (rw s) = 503.     (* the client got 404 + ..., the breaker / log / metrics in front record the 503 *)
Proof. vm_compute. repeat split. Qed.

Example ex_timeout_then_flush :
  let s := run (init true ex_h0 ex_flush_script) [EH; EH; EH; ED KCancel; ES BTimeout; EH; EH; EH; EH; EH; EH] in
  sst s = STimeoutRet KCancel /\ hst s = HDone /\
  rw s = mkRW true [(1, [5])] (Some (499, [(1, [5])])) reason [] 499.
Proof. vm_compute. repeat split. Qed.

(* the same script on a writer that is no Flusher: Flush is a no-op, strict all-or-nothing *)
Example ex_flush_noflusher :
  let s := run (init false ex_h0 ex_flush_script) [EH; EH; EH; EH; EH; EH; ED KDeadline; ES BTimeout; EH; EH; EH] in
  rw s = timeout_resp false ex_h0 KDeadline.
Proof. vm_compute. reflexivity. Qed.

(* cancellation first, deadline later: 499; the handler wrote 1xx, a status after its
   first Write and a second status — none of it reaches the client *)
Example ex_499_not_503 :
  let script := [AWriteHeader 201; AWriteHeader 103; AWrite [200]; AWriteHeader 404; AWriteHeader 700] in
  let s := run (init true ex_h0 script) [EH; EH; ED KCancel; EH; ED KDeadline; ES BTimeout; EH; EH] in
  sst s = STimeoutRet KCancel /\ rw s = timeout_resp true ex_h0 KCancel /\
  first_done [EH; EH; ED KCancel; EH; ED KDeadline; ES BTimeout; EH; EH] = Some KCancel.
Proof. vm_compute. repeat split. Qed.

Example ex_returns_at_deadline_hyps :
  let s := run (init true ex_h0 ex_script) [EH; EH; ED KDeadline] in
  dk s = Some KDeadline /\ sst s = SWait /\ hst s = HRun /\ length (hrest s) = 3%nat.
Proof. vm_compute. repeat split. Qed.

Example ex_deadlines :
  rest_deadline 3000 RqPlain (Some 2000) 100 = Some 2000 /\
  rest_deadline 3000 RqPlain (Some 9000) 100 = Some 3100 /\
  rest_deadline 3000 RqSSE (Some 9000) 100 = Some 9000 /\
  rest_deadline 3000 RqWebsocket None 100 = None /\
  wrapped 3000 RqPlain = true /\ wrapped 0 RqPlain = false /\
  method_timeout [(7, 10); (0, 99); (7, 20); (8, 30)] 7 5 = 20 /\
  method_timeout [(7, 10)] 0 5 = 5 /\
  client_deadline [0; 50] 40 (Some 1000) 100 = Some 1000 /\
  client_deadline [50] 40 (Some 1000) 100 = Some 150.
Proof. vm_compute. repeat split. Qed.

(* a server with conf.Timeout = 3 s and three route groups: no option, WithTimeout(10 s),
   WithSSE(): chosen timeouts, ng.timeout, Read/WriteTimeout; an SSE route is exempt by the
   request header only *)
Example ex_engine :
  let groups := [route_conf []; route_conf [OptTimeout 10000000000]; route_conf [OptTimeout 5; OptSSE]] in
  map (eng_route_dur true 3000) groups = [3000000000; 10000000000; 3000000000] /\
  map (eng_route_dur false 3000) groups = [0; 0; 0] /\
  eng_timeout 3000 groups = 10000000000 /\
  srv_write_timeout (eng_timeout 3000 groups) = 11000000000 /\
  srv_read_timeout (eng_timeout 3000 groups) = 8000000000 /\
  eng_deadline true 3000 (route_conf [OptSSE]) RqPlain (Some 1000000000) 50 = Some 1000000000 /\
  eng_deadline true 3000 (route_conf [OptSSE]) RqPlain None 50 = Some 3000000050 /\
  eng_deadline true 3000 (route_conf [OptSSE]) RqSSE None 50 = None /\
  eng_deadline true 0 (route_conf []) RqPlain (Some 7) 50 = Some 7.
Proof. vm_compute. repeat split. Qed.

Example ex_slot :
  let w := mkW [WWork; WCheck; WWork] (0, 77) (WRet 3 0) in
  wsst (wrun (winit w) [EH; EH; EH; EH; ES BDone]) = ORet 3 0 /\
  wsst (wrun (winit w) [EH; ED KDeadline; ES BTimeout; EH; EH]) = OTimeout KDeadline /\
  wsst (wrun (winit w) [EH; ED KCancel; EH; ES BDone]) = ORet 0 77 /\
  wsst (wrun (winit (mkW [WWork] (0, 0) (WPanic 4))) [EH; EH; ED KCancel; ES BPanic]) = OPanic 4.
Proof. vm_compute. repeat split. Qed.

(* ================================================================== *)
(* the RecoverHandler INSIDE the timeout middleware (rest/engine.go builds
   Timeout -> Recover -> ... -> route handler; Recover.v)                 *)

(* all_or_nothing_recover.  [rrun true] is the LTS in which every panic of the work
   (panic(p), or the timeout writer's own "invalid WriteHeader code") is recovered in
   the handler goroutine, answered by the RecoverHandler's reply [rs] on the timeout
   writer — ANY reply that is [safe_reply]: header operations, WriteHeader with a valid
   code, Writes, each one more locked method call (today's is [WriteHeader 500],
   regenerated from the tree: GenProofs.recover_reply_is_safe) — and followed by a
   normal return.  For every script and EVERY
   schedule — the Done event and the select may fall before the panic, between the
   panic and the recovery's WriteHeader, between that and the return, or after:
   - ServeHTTP never re-raises a panic;
   - the state is an [outcome] (all_or_nothing_flush) of a script the recovered work
     amounts to: the script itself, or what it had executed when it panicked followed
     by WriteHeader(500);
   - when ServeHTTP answered through `done`, the response is the complete response of
     a run [ex] of [rec_cut fl false script] — the independent description of the
     recovered work (the script up to its first panic as [spec_panic] sees it, then
     WriteHeader(500)); [ex] is all of it or a cut at a context check that saw Done. *)
Theorem all_or_nothing_recover : forall rs, safe_reply rs = true -> forall fl h0 script sched,
  let s := rrun rs true (init fl h0 script) sched in
  (forall p, sst s <> SPanicRet p) /\
  (exists script', rec_variant rs script script' /\ outcome fl h0 script' s) /\
  (sst s = SDoneRet ->
   exists ex, cut (rec_cut rs fl false script) ex (dk s) /\ spec_panic fl false ex = None /\
              rw s = complete fl h0 ex).
Proof. exact all_or_nothing_recover_lemma. Qed.
Print Assumptions all_or_nothing_recover.

(* returns_at_deadline_recover.  In every state the recovering LTS reaches with Done
   fired and ServeHTTP still selecting — in particular right after an invalid status
   code made WriteHeader panic, with the recovery's WriteHeader(500) still to come —
   the timeout branch is enabled and answers in that one step, consuming no handler
   action.  (The model takes every tw.mu-protected method as atomic: it holds for the
   code as long as every path of those methods, panics included, releases the mutex;
   the correspondence run observes a violation of that as a hang, see Pinned.v.) *)
Theorem returns_at_deadline_recover : forall rs, safe_reply rs = true -> forall fl h0 script sched k,
  let s := rrun rs true (init fl h0 script) sched in
  dk s = Some k -> sst s = SWait ->
  exists s', rstep rs true s (ES BTimeout) = Some (s', RNone) /\ sst s' = STimeoutRet k /\
             rw s' = timeout_write k (rw s) /\ hst s' = hst s /\ hrest s' = hrest s.
Proof. exact returns_at_deadline_recover_lemma. Qed.
Print Assumptions returns_at_deadline_recover.

(* the recovered work as the checker describes it never panics, and is the script itself
   when the script does not panic *)
Theorem recovered_work_is_safe : forall rs, safe_reply rs = true -> forall fl acts w,
  spec_panic fl w (rec_cut rs fl w acts) = None /\
  (spec_panic fl w acts = None -> rec_cut rs fl w acts = acts).
Proof. exact rec_cut_safe_and_neutral. Qed.
Print Assumptions recovered_work_is_safe.

(* without a RecoverHandler in the chain the recovering LTS is the plain one *)
Theorem recover_absent_is_plain : forall rs sched s, rrun rs false s sched = run s sched.
Proof. exact rrun_plain. Qed.
Print Assumptions recover_absent_is_plain.

(* an invalid code as the FIRST status: recovered, the client gets the 500 *)
Example ex_recover_bad_code :
  let s := rrun [AWriteHeader 500] true (init false [(1, [5])] [ASet 2 9; AWriteHeader 0; AWrite [200]]) [EH; EH; EH; EH; ES BDone] in
  sst s = SDoneRet /\ rres (rw s) = Some (500, [(1, [5]); (2, [9])]) /\ rbody (rw s) = [] /\
  rec_cut [AWriteHeader 500] false false [ASet 2 9; AWriteHeader 0; AWrite [200]] = [ASet 2 9; AWriteHeader 500].
Proof. vm_compute. repeat split. Qed.

(* the deadline between the panic and the recovery's WriteHeader: the timeout reply, and the late 500 changes nothing *)
Example ex_recover_deadline_between :
  let s := rrun [AWriteHeader 500] true (init false [] [AWriteHeader 999]) [EH; ED KDeadline; ES BTimeout; EH; EH] in
  sst s = STimeoutRet KDeadline /\ rw s = timeout_resp false [] KDeadline /\ hst s = HDone.
Proof. vm_compute. repeat split. Qed.

(* an invalid code AFTER the timeout (nothing was recorded before): panics, is recovered, changes nothing *)
Example ex_recover_after_timeout :
  let s := rrun [AWriteHeader 500] true (init false [] [AWrite [200]; AWriteHeader 600]) [ED KCancel; ES BTimeout; EH; EH; EH; EH] in
  sst s = STimeoutRet KCancel /\ rw s = timeout_resp false [] KCancel /\ hst s = HDone.
Proof. vm_compute. repeat split. Qed.

(* a RecoverHandler that also sends headers and a body (the shape of http.Error): the same theorems apply *)
Example ex_recover_with_body :
  let rs := [ASet 800 850; AWriteHeader 500; AWrite [105; 110; 116]] in
  let s := rrun rs true (init false [] [AWrite [200]; APanic 3]) [EH; EH; EH; EH; EH; EH; ES BDone] in
  safe_reply rs = true /\ sst s = SDoneRet /\ rres (rw s) = Some (200, [(800, [850])]) /\ rbody (rw s) = [200; 105; 110; 116].
Proof. vm_compute. repeat split. Qed.
