(* C04 — property theorems only.  Every theorem is closed by [exact] of a lemma
   proved in Proofs.v and followed by [Print Assumptions]. *)
From Coq Require Import List ZArith Bool.
From GZ Require Import C04.Model C04.Proofs.
Import ListNotations.
Open Scope Z_scope.

(* ================================================================== *)
(* REST: handler.TimeoutHandler                                         *)

(* all_or_nothing.  For every pre-set header map of the real writer, every handler
   script and EVERY schedule of handler actions (H), Done events (D: deadline or
   cancellation, possibly never) and select branches (S), the state reached is one
   of ([outcome], Proofs.v):
   - ServeHTTP has not returned and the real writer is untouched;
   - it returned through `done`: the handler has returned after running [ex] — the
     whole script, or the script up to a context check that saw Done — without
     panic, and the real writer holds exactly that run's response: status of its
     first WriteHeader/Write, its final header map laid over the writer's own
     headers, all its body chunks ([spec_complete]) — nothing of the timeout reply;
   - it returned through `ctx.Done()`: the real writer holds exactly 503 (deadline)
     or 499 (cancellation), the writer's own headers and the fixed body — no status,
     header or byte of the handler;
   - it re-raised the panic the script ends in, and the real writer is untouched. *)
Theorem all_or_nothing : forall h0 script sched,
  outcome h0 script (run (init h0 script) sched).
Proof. exact all_or_nothing_lemma. Qed.
Print Assumptions all_or_nothing.

(* a handler that ignores the context: the `done` outcome is the response of the whole script *)
Theorem all_or_nothing_ignoring_ctx : forall h0 script sched,
  ignores_ctx script ->
  sst (run (init h0 script) sched) = SDoneRet ->
  rw (run (init h0 script) sched) = spec_complete h0 script /\
  spec_panic false script = None.
Proof. exact ignoring_ctx_lemma. Qed.
Print Assumptions all_or_nothing_ignoring_ctx.

(* no Done event: never the timeout reply; `done` gives the whole script's response *)
Theorem no_deadline_complete : forall h0 script sched,
  no_d sched ->
  (forall k, sst (run (init h0 script) sched) <> STimeoutRet k) /\
  (sst (run (init h0 script) sched) = SDoneRet ->
   rw (run (init h0 script) sched) = spec_complete h0 script).
Proof. exact no_deadline_lemma. Qed.
Print Assumptions no_deadline_complete.

(* [complete] (the reference run flushed to a fresh writer) is the independent
   description used by the checker *)
Theorem complete_is_spec : forall h0 acts,
  spec_panic false acts = None -> complete h0 acts = spec_complete h0 acts.
Proof. exact complete_spec. Qed.
Print Assumptions complete_is_spec.

(* nothing_after_timeout.  Once ServeHTTP returned through the timeout branch, no
   continuation of the schedule — the handler going on writing, headers, status,
   panicking, further Done events — changes the real writer. *)
Theorem nothing_after_timeout : forall h0 script sched1 sched2 k,
  sst (run (init h0 script) sched1) = STimeoutRet k ->
  rw (run (init h0 script) (sched1 ++ sched2)) = timeout_resp h0 k /\
  sst (run (init h0 script) (sched1 ++ sched2)) = STimeoutRet k.
Proof. exact nothing_after_timeout_lemma. Qed.
Print Assumptions nothing_after_timeout.

(* the same for every way ServeHTTP returned: the response is final *)
Theorem response_final : forall h0 script sched1 sched2,
  sst (run (init h0 script) sched1) <> SWait ->
  rw (run (init h0 script) (sched1 ++ sched2)) = rw (run (init h0 script) sched1) /\
  sst (run (init h0 script) (sched1 ++ sched2)) = sst (run (init h0 script) sched1).
Proof. exact response_final_lemma. Qed.
Print Assumptions response_final.

(* only the select's branches write to the real writer: no H or D event does, ever *)
Theorem handler_never_touches_writer : forall s e,
  (forall b, e <> ES b) -> rw (stepT s e) = rw s.
Proof. exact only_S_writes. Qed.
Print Assumptions handler_never_touches_writer.

(* a Write issued after the timeout is refused with ErrHandlerTimeout and buffers nothing *)
Theorem late_write_gets_handler_timeout : forall h0 script sched k bs r,
  let s := run (init h0 script) sched in
  sst s = STimeoutRet k -> hst s = HRun -> hrest s = AWrite bs :: r ->
  exists s', step s EH = Some (s', RWriteTimeout) /\ rw s' = rw s /\ tb s' = tb s.
Proof. exact late_write_refused. Qed.
Print Assumptions late_write_gets_handler_timeout.

(* returns_at_deadline.  In every reachable state where Done has happened and
   ServeHTTP is still selecting, the timeout branch is enabled and completes the
   request with the timeout reply in that one step, consuming no handler action —
   whatever the handler is doing or has left to do. *)
Theorem returns_at_deadline : forall h0 script sched k,
  let s := run (init h0 script) sched in
  dk s = Some k -> sst s = SWait ->
  exists s', step s (ES BTimeout) = Some (s', RNone) /\
             sst s' = STimeoutRet k /\ rw s' = timeout_resp h0 k /\
             hst s' = hst s /\ hrest s' = hrest s /\ hexec s' = hexec s.
Proof. exact returns_at_deadline_lemma. Qed.
Print Assumptions returns_at_deadline.

(* deadline_shrinks (REST): a wrapped request runs under a deadline that is no later
   than now+timeout and no later than the caller's *)
Theorem deadline_shrinks_rest : forall dur rq parent now,
  wrapped dur rq = true ->
  exists d, rest_deadline dur rq parent now = Some d /\ d <= now + dur /\
            (forall p, parent = Some p -> d <= p).
Proof. exact rest_deadline_shrinks. Qed.
Print Assumptions deadline_shrinks_rest.

(* rest/engine.go: the timeout a route gets *)
Theorem route_timeout : forall route conf,
  (0 < route -> checked_timeout route conf = route) /\
  (route <= 0 -> checked_timeout route conf = conf * 1000000).
Proof. exact checked_timeout_spec. Qed.
Print Assumptions route_timeout.

(* exempt_passthrough: websocket-upgrade and event-stream requests are not wrapped,
   keep the caller's deadline, and for every script and schedule the real writer
   holds exactly what the handler's executed actions wrote to it directly *)
Theorem exempt_passthrough : forall dur rq parent now h0 script sched,
  rq <> RqPlain ->
  wrapped dur rq = false /\ rest_deadline dur rq parent now = parent /\
  xrw (xrun (xinit h0 script) sched) = direct h0 (xexec (xrun (xinit h0 script) sched)) /\
  (xhst (xrun (xinit h0 script) sched) = HDone ->
   cut script (xexec (xrun (xinit h0 script) sched)) (xdk (xrun (xinit h0 script) sched))).
Proof. exact exempt_lemma. Qed.
Print Assumptions exempt_passthrough.

(* ================================================================== *)
(* several requests through one TimeoutHandler instance                 *)

(* requests_isolated.  For every list of requests (own pre-set headers, own handler
   script) served by one middleware instance and EVERY schedule interleaving the H,
   D and S threads of all of them — in particular a handler abandoned at its timeout
   that goes on writing while later requests are being served — the component of
   each request is exactly the single-request run under that request's own events,
   hence its response is all-or-nothing w.r.t. its OWN script: nothing of any other
   request can appear in it. *)
Theorem requests_isolated : forall reqs sched i h0 script,
  nth_error reqs i = Some (h0, script) ->
  exists s, nth_error (mrun (minit reqs) sched) i = Some s /\
            s = run (init h0 script) (proj i sched) /\
            outcome h0 script s.
Proof. exact requests_isolated_lemma. Qed.
Print Assumptions requests_isolated.

(* frame lemma behind it: a step of request i does not touch request j's state *)
Theorem request_step_frame : forall ss i e j,
  i <> j -> nth_error (mstepT ss (i, e)) j = nth_error ss j.
Proof. exact mstep_frame. Qed.
Print Assumptions request_step_frame.

(* a request's timeout reply survives everything every request's threads do later *)
Theorem timeout_reply_final_among_requests : forall reqs sched1 sched2 i h0 script k s1,
  nth_error reqs i = Some (h0, script) ->
  nth_error (mrun (minit reqs) sched1) i = Some s1 -> sst s1 = STimeoutRet k ->
  exists s2, nth_error (mrun (minit reqs) (sched1 ++ sched2)) i = Some s2 /\
             rw s2 = timeout_resp h0 k /\ sst s2 = STimeoutRet k.
Proof. exact isolated_timeout_final. Qed.
Print Assumptions timeout_reply_final_among_requests.

(* request A is abandoned after its first write, request B is served while A's
   handler goes on writing: B gets exactly B's response, A keeps the 499 *)
Example ex_two_requests :
  let reqs := [([], [AWrite [130]; AWrite [131]]); ([(1, [5])], [ASet 2 8; AWriteHeader 201; AWrite [200]])] in
  let sched := [(0, EH); (0, ED KCancel); (0, ES BTimeout); (1, EH); (0, EH); (1, EH); (0, EH);
                (1, EH); (1, EH); (1, ES BDone)]%nat in
  map rw (mrun (minit reqs) sched) =
  [mkRW [] (Some (499, [])) reason;
   mkRW [(1, [5]); (2, [8])] (Some (201, [(1, [5]); (2, [8])])) [200]].
Proof. vm_compute. reflexivity. Qed.

(* ================================================================== *)
(* zRPC server interceptor and fx.DoWithTimeout (result slot)           *)

(* all-or-nothing: what the wrapper returns is the work's own final result, or —
   only if Done happened and the work checks the context — the work's own bail-out
   result; or the timeout error of the Done event that happened; or the work's
   panic.  Never a combination. *)
Theorem slot_all_or_nothing : forall w sched,
  let s := wrun (winit w) sched in
  match wsst s with
  | OWait => True
  | ORet r e => wend w = WRet r e \/ (wdk s <> None /\ has_check w /\ (r, e) = wbail w)
  | OTimeout k => wdk s = Some k
  | OPanic p => wend w = WPanic p
  end.
Proof. exact slot_all_or_nothing_lemma. Qed.
Print Assumptions slot_all_or_nothing.

Theorem slot_returns_at_deadline : forall (s : wstate) k,
  wdk s = Some k -> wsst s = OWait ->
  exists s', wstep s (ES BTimeout) = Some (s', RNone) /\ wsst s' = OTimeout k /\
             wst s' = wst s /\ wrest s' = wrest s /\ wn s' = wn s.
Proof. exact slot_returns_at_deadline_lemma. Qed.
Print Assumptions slot_returns_at_deadline.

(* the result handed to the caller never changes afterwards (late completion of the
   work is not observed) *)
Theorem slot_result_final : forall sched s,
  wsst s <> OWait -> wsst (wrun s sched) = wsst s.
Proof. exact slot_sticky. Qed.
Print Assumptions slot_result_final.

Theorem deadline_shrinks_server : forall confs m default parent now,
  exists d, server_deadline confs m default parent now = Some d /\
            d <= now + method_timeout confs m default /\
            (forall p, parent = Some p -> d <= p).
Proof. exact server_deadline_shrinks. Qed.
Print Assumptions deadline_shrinks_server.

(* per-method configuration: the last entry for a (non-empty) method name wins,
   otherwise the default applies *)
Theorem method_timeout_configured : forall pre m t post d,
  m <> 0 -> (forall t', ~ In (m, t') post) ->
  method_timeout (pre ++ (m, t) :: post) m d = t.
Proof. exact method_timeout_last. Qed.
Print Assumptions method_timeout_configured.

Theorem method_timeout_default : forall confs m d,
  (forall t, ~ In (m, t) confs) -> method_timeout confs m d = d.
Proof. exact method_timeout_nomatch. Qed.
Print Assumptions method_timeout_default.

Theorem deadline_shrinks_fx : forall t parent now,
  exists d, fx_deadline t parent now = Some d /\ d <= now + t /\
            (forall p, parent = Some p -> d <= p).
Proof. exact fx_deadline_shrinks. Qed.
Print Assumptions deadline_shrinks_fx.

(* zRPC client interceptor: with a positive (per-call or default) timeout the invoker
   runs under min(caller's, now+t); otherwise under the caller's context unchanged *)
Theorem deadline_shrinks_client : forall opts default parent now,
  let t := call_timeout opts default in
  (0 < t -> exists d, client_deadline opts default parent now = Some d /\ d <= now + t /\
                      (forall p, parent = Some p -> d <= p)) /\
  (t <= 0 -> client_deadline opts default parent now = parent).
Proof. exact client_deadline_shrinks. Qed.
Print Assumptions deadline_shrinks_client.

(* calls_isolated.  For every list of calls (own work script each) going through one
   interceptor instance (or through fx.DoWithTimeout) and EVERY schedule interleaving
   the work, Done and select threads of all of them — in particular the work of a
   timed-out call returning or panicking while later calls are in flight — the
   component of each call is exactly the single-call run under that call's own events:
   what it returns is its OWN result, its OWN timeout error or its OWN panic. *)
Theorem calls_isolated : forall ws sched i w,
  nth_error ws i = Some w ->
  exists s, nth_error (wmrun (wminit ws) sched) i = Some s /\
            s = wrun (winit w) (proj i sched) /\
            match wsst s with
            | OWait => True
            | ORet r e => wend w = WRet r e \/ (wdk s <> None /\ has_check w /\ (r, e) = wbail w)
            | OTimeout k => wdk s = Some k
            | OPanic p => wend w = WPanic p
            end.
Proof. exact calls_isolated_lemma. Qed.
Print Assumptions calls_isolated.

Theorem call_step_frame : forall ss i e j,
  i <> j -> nth_error (wmstepT ss (i, e)) j = nth_error ss j.
Proof. exact wmstep_frame. Qed.
Print Assumptions call_step_frame.

Theorem call_result_final_among_calls : forall ws sched1 sched2 i w s1,
  nth_error ws i = Some w ->
  nth_error (wmrun (wminit ws) sched1) i = Some s1 -> wsst s1 <> OWait ->
  exists s2, nth_error (wmrun (wminit ws) (sched1 ++ sched2)) i = Some s2 /\ wsst s2 = wsst s1.
Proof. exact isolated_result_final. Qed.
Print Assumptions call_result_final_among_calls.

(* call A times out with its work parked; call B is in flight when A's work panics:
   B still returns B's own result, A keeps DeadlineExceeded *)
Example ex_two_calls :
  let ws := [mkW [WWork] (0, 0) (WPanic 15); mkW [WWork] (0, 0) (WRet 21 0)] in
  let sched := [(0, EH); (0, ED KDeadline); (0, ES BTimeout); (1, EH); (0, EH); (1, EH); (1, ES BDone)]%nat in
  map wsst (wmrun (wminit ws) sched) = [OTimeout KDeadline; ORet 21 0] /\
  map wst (wmrun (wminit ws) sched) = [WPanicked 15; WDone 21 0].
Proof. vm_compute. split; reflexivity. Qed.

(* ================================================================== *)
(* non-vacuity: concrete runs reaching each outcome                     *)

Definition ex_h0 : hdrs := [(1, [5])].
Definition ex_script : list act :=
  [ASet 1 7; AWriteHeader 201; AWrite [200; 201]; ASet 2 9; AWrite [202]].

(* the deadline fires between the two writes; the handler goes on; the client gets 503 only *)
Definition ex_sched_timeout : list ev :=
  [EH; EH; EH; ED KDeadline; ES BTimeout; EH; EH; EH].
Example ex_timeout :
  let s := run (init ex_h0 ex_script) ex_sched_timeout in
  sst s = STimeoutRet KDeadline /\ hst s = HDone /\
  rw s = mkRW [(1, [5])] (Some (503, [(1, [5])])) reason.
Proof. vm_compute. repeat split. Qed.

Example ex_late_write :
  let s := run (init ex_h0 ex_script) [EH; EH; EH; ED KCancel; ES BTimeout; EH] in
  sst s = STimeoutRet KCancel /\ hst s = HRun /\ hrest s = [AWrite [202]] /\
  step s EH = Some (run s [EH], RWriteTimeout).
Proof. vm_compute. repeat split. Qed.

(* both `done` and `ctx.Done()` ready: either branch, each all-or-nothing *)
Example ex_both_ready :
  let pre := [EH; EH; EH; EH; EH; EH; ED KCancel] in
  rw (run (init ex_h0 ex_script) (pre ++ [ES BDone])) =
    mkRW [(1, [7]); (2, [9])] (Some (201, [(1, [7]); (2, [9])])) [200; 201; 202] /\
  rw (run (init ex_h0 ex_script) (pre ++ [ES BTimeout])) =
    mkRW [(1, [5])] (Some (499, [(1, [5])])) reason.
Proof. vm_compute. split; reflexivity. Qed.

Example ex_ignores : ignores_ctx ex_script /\ spec_panic false ex_script = None.
Proof. split; [|reflexivity]. intros H. repeat (destruct H as [H|H]; [discriminate|]). exact H. Qed.

Example ex_panic :
  let s := run (init ex_h0 [AWrite [200]; APanic 4]) [EH; EH; ED KCancel; ES BPanic] in
  sst s = SPanicRet (PUser 4) /\ rw s = rw_fresh ex_h0.
Proof. vm_compute. split; reflexivity. Qed.

(* a context check that sees Done cuts the run; `done` then delivers that run completely *)
Example ex_cut :
  let s := run (init [] [AWrite [200]; ACheckCtx; AWrite [201]]) [EH; ED KCancel; EH; EH; ES BDone] in
  sst s = SDoneRet /\ hexec s = [AWrite [200]; ACheckCtx] /\
  rw s = mkRW [] (Some (200, [])) [200].
Proof. vm_compute. repeat split. Qed.

Example ex_returns_at_deadline_hyps :
  let s := run (init ex_h0 ex_script) [EH; EH; ED KDeadline] in
  dk s = Some KDeadline /\ sst s = SWait /\ hst s = HRun /\ length (hrest s) = 3%nat.
Proof. vm_compute. repeat split. Qed.

Example ex_deadlines :
  rest_deadline 3000 RqPlain (Some 2000) 100 = Some 2000 /\
  rest_deadline 3000 RqPlain (Some 9000) 100 = Some 3100 /\
  rest_deadline 3000 RqSSE (Some 9000) 100 = Some 9000 /\
  rest_deadline 3000 RqWebsocket None 100 = None /\
  wrapped 3000 RqPlain = true /\ wrapped 0 RqPlain = false /\
  method_timeout [(7, 10); (0, 99); (7, 20); (8, 30)] 7 5 = 20 /\
  method_timeout [(7, 10)] 0 5 = 5 /\
  client_deadline [0; 50] 40 (Some 1000) 100 = Some 1000 /\
  client_deadline [50] 40 (Some 1000) 100 = Some 150.
Proof. vm_compute. repeat split. Qed.

Example ex_slot :
  let w := mkW [WWork; WCheck; WWork] (0, 77) (WRet 3 0) in
  wsst (wrun (winit w) [EH; EH; EH; EH; ES BDone]) = ORet 3 0 /\
  wsst (wrun (winit w) [EH; ED KDeadline; ES BTimeout; EH; EH]) = OTimeout KDeadline /\
  wsst (wrun (winit w) [EH; ED KCancel; EH; ES BDone]) = ORet 0 77 /\
  wsst (wrun (winit (mkW [WWork] (0, 0) (WPanic 4))) [EH; EH; ED KCancel; ES BPanic]) = OPanic 4.
Proof. vm_compute. repeat split. Qed.
