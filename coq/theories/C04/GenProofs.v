(* C04 — obligations that mention the constants and source shapes regenerated from the
   Go sources (coq/gen/C04Consts.v, tools/c04consts.py).  A change of the timeout status
   codes, the reason string, the bounds of checkWriteHeaderCode, the exemption headers,
   the unit of conf.Timeout, the ReadTimeout/WriteTimeout factors, the SSE route headers
   or the shape of timeoutWriter.Flush / Write in go-zero changes the definitions these
   proofs are re-checked against. *)
From Coq Require Import List ZArith Bool Lia.
From GZgen Require Import C04Consts.
From GZ Require Import C04.Model C04.Recover.
Import ListNotations.
Open Scope Z_scope.

(* the ctx.Done() branch of the model writes the statuses of the source, by error kind *)
Lemma timeout_codes_are_source : timeout_code KCancel = code_cancel /\ timeout_code KDeadline = code_deadline.
Proof. split; reflexivity. Qed.

(* side conditions of the theorems: the two replies can be told apart, each is a final
   (not informational) status, neither is the implicit status of a Write, and both pass
   checkWriteHeaderCode *)
Lemma timeout_codes_side_conditions :
  code_cancel <> code_deadline /\
  is_info code_cancel = false /\ is_info code_deadline = false /\
  code_cancel <> code_implicit /\ code_deadline <> code_implicit /\
  bad_code code_cancel = false /\ bad_code code_deadline = false.
Proof. repeat split; try reflexivity; discriminate. Qed.

Lemma reason_is_source : reason = reason_text.
Proof. reflexivity. Qed.

(* the checker tells handler bytes (>= 128) from the reply text *)
Lemma reason_is_ascii_nonempty : reason_text <> [] /\ forallb (fun b => (0 <=? b) && (b <? 128)) reason_text = true.
Proof. split; [discriminate|reflexivity]. Qed.

Lemma bad_code_is_source : forall c, bad_code c = (c <? code_min) || (code_max <? c).
Proof. reflexivity. Qed.

(* every 1xx code passes checkWriteHeaderCode (so it is recorded, never a panic) *)
Lemma informational_codes_pass_check : forall c, is_info c = true -> bad_code c = false.
Proof.
  intros c H. unfold is_info in H. apply andb_true_iff in H. destruct H as [H _].
  apply andb_true_iff in H. destruct H as [H1 H2]. apply Z.leb_le in H1, H2.
  unfold bad_code. apply orb_false_iff. split; [apply Z.ltb_ge|apply Z.ltb_ge]; lia.
Qed.

Lemma default_status_is_source : bcode buf0 = code_default /\ code_default = code_implicit /\ code_implicit = 200.
Proof. repeat split; reflexivity. Qed.

(* timeoutWriter.Flush and Write as modelled (tw_flush, tw_act): under tw.mu, nothing
   after timedOut, the recorded status is sent, the done branch does not send it twice *)
Lemma flush_shape_is_source :
  flush_locks = true /\ flush_checks_timedout = true /\ flush_sends_status = true /\
  done_skips_status_when_flushed = true /\ write_checks_timedout = true.
Proof. repeat split; reflexivity. Qed.

(* the exemption test: the literal header names / values of the source *)
Lemma exemption_headers_classified :
  length exempt_headers = 2%nat /\
  (forall n v, nth_error exempt_headers 0 = Some (n, v) -> classify [(n, v)] = RqWebsocket) /\
  (forall n v, nth_error exempt_headers 1 = Some (n, v) -> classify [(n, v)] = RqSSE) /\
  classify [] = RqPlain.
Proof.
  split; [reflexivity|]. split; [|split; [|reflexivity]].
  - intros n v H. inversion H. reflexivity.
  - intros n v H. inversion H. reflexivity.
Qed.

Lemma exemption_header_names_distinct :
  forall n1 v1 n2 v2, exempt_headers = [(n1, v1); (n2, v2)] -> bstr_eqb n1 n2 = false.
Proof. intros n1 v1 n2 v2 H. inversion H. reflexivity. Qed.

(* conf.Timeout is in milliseconds, in newEngine and in checkedTimeout alike *)
Lemma conf_unit_is_source :
  conf_unit_ns = 1000000 /\ conf_unit_ns_engine = conf_unit_ns /\
  (forall route conf, route <= 0 -> checked_timeout route conf = conf * conf_unit_ns) /\
  (forall conf, eng_timeout conf [] = conf * conf_unit_ns_engine).
Proof.
  repeat split.
  - intros route conf H. unfold checked_timeout. destruct (Z.ltb_spec 0 route); [lia|reflexivity].
Qed.

(* http.Server.ReadTimeout / WriteTimeout factors, and what the theorem
   server_write_timeout_covers_routes needs of them: write >= 1 >= read *)
Lemma server_timeout_factors_are_source :
  (forall t, 0 < t -> srv_read_timeout t = read_num * t / read_den) /\
  (forall t, 0 < t -> srv_write_timeout t = write_num * t / write_den) /\
  0 < read_den /\ 0 < write_den /\ read_num <= read_den /\ write_den <= write_num.
Proof.
  repeat split; try reflexivity; try lia; try discriminate.
  - intros t H. unfold srv_read_timeout. destruct (Z.ltb_spec 0 t); [reflexivity|lia].
  - intros t H. unfold srv_write_timeout. destruct (Z.ltb_spec 0 t); [reflexivity|lia].
Qed.

(* an SSE route sets as many headers as the model's prefix, under distinct names *)
Lemma sse_prefix_is_source :
  length sse_prefix = length sse_route_headers /\
  NoDup (map fst sse_route_headers) /\
  sse_prefix = [ASet 900 950; ASet 901 951; ASet 902 952].
Proof.
  split; [reflexivity|]. split; [|reflexivity].
  repeat (constructor; [cbn; intuition discriminate|]). constructor.
Qed.

(* the RecoverHandler's reply as regenerated from the tree (today: WriteHeader 500) is a reply the
   theorems of RecoverProofs.v / Props.v apply to: no panic, no context check, no invalid status;
   and it can be told from both timeout replies *)
Lemma recover_reply_is_safe :
  safe_reply recover_reply = true /\
  ~ In (AWriteHeader code_cancel) recover_reply /\ ~ In (AWriteHeader code_deadline) recover_reply.
Proof. vm_compute. repeat split; intuition discriminate. Qed.
