(* C04 — the RecoverHandler inside the timeout middleware: proofs.

   The recovering LTS (Recover.rstep rs true) is reduced to the plain one: a run in which
   the work panicked at action [a] after executing [pre] is, from the recovery on, a
   run of the script [pre ++ rs], [rs] being the RecoverHandler's reply (any safe reply) — the invariant [Inv] of Proofs.v holds
   of the repaired state for THAT script, and every later step preserves it
   (Proofs.inv_step).  All outcome theorems of the plain LTS therefore carry over. *)
From Coq Require Import List ZArith Bool Lia.
From GZ Require Import C04.Model C04.Proofs C04.Recover.
Import ListNotations.
Open Scope Z_scope.

(* ------------------------------------------------------------------ *)
(* a panicking call changes nothing                                     *)

Lemma hact_panic_id to bw a p : snd (hact to bw a) = RPanic p -> fst (hact to bw a) = bw.
Proof.
  destruct bw as [b w]. destruct a; cbn; try discriminate; try (intros _; reflexivity).
  - destruct (bwrote b); cbn; [discriminate|].
    destruct (bad_code c); cbn; [intros _; reflexivity|]. destruct to; cbn; discriminate.
  - destruct to; cbn; discriminate.
Qed.

(* the shape of an H step that ends in a panic *)
Lemma h_step_panicked s s' r p :
  h_step s = Some (s', r) -> hst s' = HPanicked p ->
  exists a rest, hst s = HRun /\ hrest s = a :: rest /\ r = RPanic p /\
    s' = mkSt (tb s) (tto s) (rw s) (HPanicked p) [] (hexec s ++ [a]) (dk s) (sst s) (sexec s).
Proof.
  unfold h_step. destruct (hst s) eqn:Eh; try discriminate.
  destruct (hrest s) as [|a rest] eqn:Er.
  - intros H. inversion H; subst. cbn. discriminate.
  - assert (G : forall (H : (let '(b', w', res) := hact (tto s) (tb s, rw s) a in
                 match res with
                 | RPanic p0 => Some (mkSt b' (tto s) w' (HPanicked p0) [] (hexec s ++ [a]) (dk s) (sst s) (sexec s), res)
                 | _ => Some (mkSt b' (tto s) w' HRun rest (hexec s ++ [a]) (dk s) (sst s) (sexec s), res)
                 end) = Some (s', r)), hst s' = HPanicked p ->
               exists a0 rest0, HRun = HRun /\ a :: rest = a0 :: rest0 /\ r = RPanic p /\
                 s' = mkSt (tb s) (tto s) (rw s) (HPanicked p) [] (hexec s ++ [a0]) (dk s) (sst s) (sexec s)).
    { pose proof (hact_panic_id (tto s) (tb s, rw s) a) as Hid.
      destruct (hact (tto s) (tb s, rw s) a) as [[b' w'] res]. cbn in Hid.
      destruct res; intros H Hp; inversion H; subst; cbn in Hp; try discriminate.
      inversion Hp; subst. specialize (Hid p eq_refl). inversion Hid; subst.
      exists a, rest. repeat split. }
    destruct a; try exact G.
    (* ACheckCtx *)
    destruct (dk s); intros H; inversion H; subst; cbn; discriminate.
Qed.

Lemma step_tto_mono s e s' r : step s e = Some (s', r) -> tto s' = false -> tto s = false.
Proof.
  destruct e as [|k|b]; cbn.
  - unfold h_step. destruct (hst s); try discriminate.
    destruct (hrest s) as [|a rest].
    + intros H; inversion H; subst; cbn; auto.
    + destruct a;
        try (destruct (hact (tto s) (tb s, rw s) _) as [[b' w'] res]; destruct res;
             intros H; inversion H; subst; cbn; auto).
      destruct (dk s); intros H; inversion H; subst; cbn; auto.
  - intros H; inversion H; subst. unfold d_step. destruct (dk s); cbn; auto.
  - unfold s_step. destruct (sst s); try discriminate.
    destruct b.
    + destruct (hst s); try discriminate. intros H; inversion H; subst; cbn; auto.
    + destruct (hst s); try discriminate. intros H; inversion H; subst; cbn; auto.
    + destruct (dk s); try discriminate. intros H; inversion H; subst; cbn. discriminate.
Qed.

(* only an H step changes the handler thread *)
Lemma step_nonH_handler s e s' r :
  e <> EH -> step s e = Some (s', r) -> hst s' = hst s /\ hrest s' = hrest s.
Proof.
  destruct e as [|k|b]; [congruence| |]; intros _; cbn.
  - intros H; inversion H; subst. unfold d_step. destruct (dk s); cbn; auto.
  - unfold s_step. destruct (sst s); try discriminate.
    destruct b.
    + destruct (hst s); try discriminate. intros H; inversion H; subst; cbn; auto.
    + destruct (hst s); try discriminate. intros H; inversion H; subst; cbn; auto.
    + destruct (dk s); try discriminate. intros H; inversion H; subst; cbn; auto.
Qed.

(* ------------------------------------------------------------------ *)
(* everything below: for EVERY reply [rs] of the RecoverHandler that is safe *)
Section Reply.
Variable rs : list act.
Hypothesis Hrs : safe_reply rs = true.

(* a safe action never panics, whatever the state of the writer *)
Lemma safe_act_no_panic to bw a p : safe_act a = true -> snd (hact to bw a) <> RPanic p.
Proof.
  destruct bw as [b w]. destruct a; cbn; try discriminate.
  - intros Hc. destruct (bwrote b); cbn; [discriminate|].
    destruct (bad_code c); [discriminate|]. destruct to; cbn; discriminate.
  - intros _. destruct to; cbn; discriminate.
Qed.

(* the recovery's own script cannot panic; it only gets shorter *)
Lemma h_step_recovering s s' r :
  h_step s = Some (s', r) -> safe_reply (hrest s) = true ->
  (forall p, hst s' <> HPanicked p) /\ safe_reply (hrest s') = true.
Proof.
  unfold h_step. destruct (hst s); try discriminate.
  destruct (hrest s) as [|a rest] eqn:Er.
  - intros H _. inversion H; subst; cbn. split; [discriminate|reflexivity].
  - cbn [safe_reply forallb]. intros H Hs. apply andb_true_iff in Hs. destruct Hs as [Ha Hrest].
    pose proof (safe_act_no_panic (tto s) (tb s, rw s) a) as Hnp.
    destruct a; try discriminate Ha;
      (destruct (hact (tto s) (tb s, rw s) _) as [[b' w'] res] eqn:Eact;
       destruct res; inversion H; subst; cbn;
       try (split; [discriminate|exact Hrest]);
       exfalso; eapply Hnp; [exact Ha|cbn; reflexivity]).
Qed.

Lemma safe_reply_spec_panic fl : forall acts w, safe_reply acts = true -> spec_panic fl w acts = None.
Proof.
  induction acts as [|a acts IH]; intros w H; [reflexivity|].
  cbn [safe_reply forallb] in H. apply andb_true_iff in H. destruct H as [Ha H].
  destruct a; cbn in *; try discriminate; try (apply IH; exact H).
  destruct w; [apply IH; exact H|]. destruct (bad_code c); [discriminate|apply IH; exact H].
Qed.

(* ------------------------------------------------------------------ *)
(* rec_cut: the independent description follows spec_panic              *)

Lemma spec_panic_app fl : forall pre w r,
  spec_panic fl w (pre ++ r) =
  match spec_panic fl w pre with
  | Some p => Some p
  | None => spec_panic fl (wrote_after fl w pre) r
  end.
Proof.
  induction pre as [|a pre IH]; intros w r; [reflexivity|].
  destruct a; cbn; try apply IH; try reflexivity.
  destruct w; [apply IH|]. destruct (bad_code c); [reflexivity|apply IH].
Qed.

Lemma rec_cut_app fl : forall pre w r,
  spec_panic fl w pre = None ->
  rec_cut rs fl w (pre ++ r) = pre ++ rec_cut rs fl (wrote_after fl w pre) r.
Proof.
  induction pre as [|a pre IH]; intros w r H; [reflexivity|].
  destruct a; cbn in *; try (f_equal; apply IH; exact H); try discriminate.
  destruct w; [f_equal; apply IH; exact H|].
  destruct (bad_code c); [discriminate|]. f_equal. apply IH. exact H.
Qed.

Lemma rec_cut_nopanic fl : forall acts w, spec_panic fl w acts = None -> rec_cut rs fl w acts = acts.
Proof.
  intros acts w H. rewrite <- (app_nil_r acts) at 1. rewrite rec_cut_app by exact H.
  cbn. apply app_nil_r.
Qed.

Lemma rec_cut_head_panic fl w a rest p :
  spec_panic fl w [a] = Some p -> rec_cut rs fl w (a :: rest) = rs.
Proof.
  destruct a; cbn; try discriminate; try reflexivity.
  destruct w; [discriminate|]. destruct (bad_code c); [reflexivity|discriminate].
Qed.

Lemma rec_cut_at_panic fl pre a rest p :
  spec_panic fl false pre = None -> spec_panic fl false (pre ++ [a]) = Some p ->
  rec_cut rs fl false (pre ++ a :: rest) = pre ++ rs.
Proof.
  intros H1 H2. rewrite rec_cut_app by exact H1. f_equal.
  rewrite spec_panic_app, H1 in H2. eapply rec_cut_head_panic, H2.
Qed.

(* what rec_cut produces never panics *)
Lemma rec_cut_safe fl : forall acts w, spec_panic fl w (rec_cut rs fl w acts) = None.
Proof.
  induction acts as [|a acts IH]; intros w; [reflexivity|].
  destruct a; cbn; try apply IH.
  - destruct w; cbn; [apply IH|].
    destruct (bad_code c) eqn:Eb; cbn; [apply safe_reply_spec_panic, Hrs|]. rewrite Eb. apply IH.
  - apply safe_reply_spec_panic, Hrs.
Qed.

Lemma cut_rec_cut fl script ex d :
  cut script ex d -> spec_panic fl false ex = None -> cut (rec_cut rs fl false script) ex d.
Proof.
  intros (rest & E & H) Hp. subst script. rewrite rec_cut_app by exact Hp.
  exists (rec_cut rs fl (wrote_after fl false ex) rest). split; [reflexivity|].
  destruct H as [H|H]; [left; subst rest; reflexivity|right; exact H].
Qed.

(* ------------------------------------------------------------------ *)
(* the invariant of the recovering LTS                                  *)

Section RInv.
Variables (fl : bool) (h0 : hdrs) (script : list act).

Definition RInv (s : state) : Prop :=
  (forall p, hst s <> HPanicked p) /\
  (Inv fl h0 script s \/
   exists pre a rest,
     script = pre ++ a :: rest /\
     Inv fl h0 (pre ++ rs) s /\
     safe_reply (hrest s) = true /\
     (tto s = false -> rec_cut rs fl false script = pre ++ rs)).

Lemma rinv_init : RInv (init fl h0 script).
Proof. split; [cbn; discriminate|left; apply inv_init]. Qed.

Lemma rec_fix_id s : (forall p, hst s <> HPanicked p) -> rec_fix rs s = s.
Proof. unfold rec_fix. destruct (hst s); auto. intros H. exfalso. eapply H; reflexivity. Qed.

Lemma stepT_of_step s e s' r : step s e = Some (s', r) -> stepT s e = s'.
Proof. unfold stepT. intros ->. reflexivity. Qed.

Lemma rinv_step s e : RInv s -> RInv (rstepT rs true s e).
Proof.
  intros [Hn HI]. unfold rstepT, rstep.
  destruct (step s e) as [[s' r]|] eqn:Es; [|split; assumption].
  pose proof (stepT_of_step _ _ _ _ Es) as ET.
  destruct (hst s') as [| |p] eqn:Eh'.
  - (* the handler goes on *)
    assert (Hn' : forall p, hst s' <> HPanicked p) by (rewrite Eh'; discriminate).
    rewrite (rec_fix_id _ Hn'). split; [exact Hn'|].
    destruct HI as [HI|(pre & a & rest & E & HI & Hr & Hc)].
    + left. rewrite <- ET. apply inv_step, HI.
    + right. exists pre, a, rest. split; [exact E|]. split; [rewrite <- ET; apply inv_step, HI|].
      split.
      * destruct e as [|k|b].
        -- eapply h_step_recovering; eauto.
        -- destruct (step_nonH_handler s (ED k) s' r) as [_ R]; [discriminate|exact Es|]. rewrite R. exact Hr.
        -- destruct (step_nonH_handler s (ES b) s' r) as [_ R]; [discriminate|exact Es|]. rewrite R. exact Hr.
      * intros T. apply Hc. eapply step_tto_mono; eauto.
  - (* the handler returned *)
    assert (Hn' : forall p, hst s' <> HPanicked p) by (rewrite Eh'; discriminate).
    rewrite (rec_fix_id _ Hn'). split; [exact Hn'|].
    destruct HI as [HI|(pre & a & rest & E & HI & Hr & Hc)].
    + left. rewrite <- ET. apply inv_step, HI.
    + right. exists pre, a, rest. split; [exact E|]. split; [rewrite <- ET; apply inv_step, HI|].
      split.
      * destruct e as [|k|b].
        -- eapply h_step_recovering; eauto.
        -- destruct (step_nonH_handler s (ED k) s' r) as [_ R]; [discriminate|exact Es|]. rewrite R. exact Hr.
        -- destruct (step_nonH_handler s (ES b) s' r) as [_ R]; [discriminate|exact Es|]. rewrite R. exact Hr.
      * intros T. apply Hc. eapply step_tto_mono; eauto.
  - (* the work has just panicked: only an H step does that *)
    assert (e = EH) as ->.
    { destruct e as [|k|b]; [reflexivity| |].
      - destruct (step_nonH_handler s (ED k) s' r) as [R _]; [discriminate|exact Es|].
        exfalso. apply (Hn p). rewrite <- R. exact Eh'.
      - destruct (step_nonH_handler s (ES b) s' r) as [R _]; [discriminate|exact Es|].
        exfalso. apply (Hn p). rewrite <- R. exact Eh'. }
    cbn in Es.
    destruct (h_step_panicked _ _ _ _ Es Eh') as (a & rest & Eh & Er & Err & Es').
    destruct HI as [HI|(pre & a0 & rest0 & E & HI & Hr & Hc)].
    2:{ (* after a recovery nothing panics any more *)
        exfalso. destruct (h_step_recovering _ _ _ Es Hr) as [Hnp _]. eapply Hnp, Eh'. }
    (* the repaired state is [s] with the recovery's script to run *)
    assert (EF : rec_fix rs s' =
                 mkSt (tb s) (tto s) (rw s) HRun rs (hexec s) (dk s) (sst s) (sexec s)).
    { unfold rec_fix. rewrite Eh'. rewrite Es'. cbn. rewrite removelast_last. reflexivity. }
    rewrite EF. split; [cbn; discriminate|].
    pose proof (inv_step fl h0 script s EH HI) as HI'. rewrite ET in HI'.
    destruct HI as (A & B & C). destruct HI' as (A' & _ & _).
    assert (Escr : script = hexec s ++ a :: rest).
    { unfold InvB in B. rewrite Eh in B. destruct B as [B|[B _]]; [rewrite B, Er; reflexivity|].
      rewrite Er in B. discriminate. }
    right. exists (hexec s), a, rest. split; [exact Escr|]. split; [|split].
    + split; [|split].
      * unfold InvA in *. cbn. intros T. specialize (A T). rewrite Eh in A. exact A.
      * unfold InvB. cbn. left. reflexivity.
      * unfold InvC in *. cbn. destruct (sst s); try exact C; destruct C as (_ & C & _); rewrite Eh in C; discriminate.
    + cbn. exact Hrs.
    + cbn. intros T. rewrite Escr.
      unfold InvA in A, A'. specialize (A T). rewrite Eh in A. destruct A as [_ A2]. cbn in A2.
      assert (T' : tto s' = false) by (rewrite Es'; exact T).
      specialize (A' T'). rewrite Eh' in A'. destruct A' as [_ A2']. cbn in A2'.
      rewrite Es' in A2'. cbn in A2'.
      rewrite (script_panic_spec fl h0) in A2, A2'.
      eapply rec_cut_at_panic; eauto.
Qed.

Lemma rinv_run sched : forall s, RInv s -> RInv (rrun rs true s sched).
Proof.
  induction sched as [|e sched IH]; intros s H; [exact H|].
  cbn. apply IH, rinv_step, H.
Qed.

Lemma rinv_reach sched : RInv (rrun rs true (init fl h0 script) sched).
Proof. apply rinv_run, rinv_init. Qed.

End RInv.

(* ------------------------------------------------------------------ *)
(* all-or-nothing behind a RecoverHandler                               *)

(* the scripts the recovered work can amount to: the script itself, or what it had
   executed when it panicked, then WriteHeader(500) *)
Definition rec_variant (script script' : list act) : Prop :=
  script' = script \/ exists pre a rest, script = pre ++ a :: rest /\ script' = pre ++ rs.

Lemma all_or_nothing_recover_lemma fl h0 script sched :
  let s := rrun rs true (init fl h0 script) sched in
  (forall p, sst s <> SPanicRet p) /\
  (exists script', rec_variant script script' /\ outcome fl h0 script' s) /\
  (sst s = SDoneRet ->
   exists ex, cut (rec_cut rs fl false script) ex (dk s) /\ spec_panic fl false ex = None /\
              rw s = complete fl h0 ex).
Proof.
  intros s. destruct (rinv_reach fl h0 script sched) as [Hn HI]. fold s in Hn, HI.
  assert (NP : forall script', Inv fl h0 script' s -> forall p, sst s <> SPanicRet p).
  { intros script' (_ & _ & C) p E. unfold InvC in C. rewrite E in C. destruct C as (_ & C & _).
    eapply Hn, C. }
  destruct HI as [HI|(pre & a & rest & E & HI & Hr & Hc)].
  - split; [eapply NP, HI|]. split.
    + exists script. split; [left; reflexivity|apply inv_outcome, HI].
    + intros Ed. destruct (inv_outcome _ _ _ _ HI) as [E1 _|ex E1 E2 E3 E4 E5 E6|k pre' E1|p E1];
        try (rewrite Ed in E1; discriminate).
      exists ex. split; [apply cut_rec_cut; assumption|]. split; assumption.
  - split; [eapply NP, HI|]. split.
    + exists (pre ++ rs). split; [right; exists pre, a, rest; split; [exact E|reflexivity]|].
      apply inv_outcome, HI.
    + intros Ed. pose proof HI as (_ & _ & C). unfold InvC in C. rewrite Ed in C. destruct C as (T & _).
      destruct (inv_outcome _ _ _ _ HI) as [E1 _|ex E1 E2 E3 E4 E5 E6|k pre' E1|p E1];
        try (rewrite Ed in E1; discriminate).
      exists ex. rewrite (Hc T). split; [exact E4|]. split; assumption.
Qed.

(* the timeout branch stays enabled from the Done event on, whatever the work and its
   recovery are doing, and consumes no handler action *)
Lemma returns_at_deadline_recover_lemma fl h0 script sched k :
  let s := rrun rs true (init fl h0 script) sched in
  dk s = Some k -> sst s = SWait ->
  exists s', rstep rs true s (ES BTimeout) = Some (s', RNone) /\ sst s' = STimeoutRet k /\
             rw s' = timeout_write k (rw s) /\ hst s' = hst s /\ hrest s' = hrest s.
Proof.
  intros s Hd Hs. destruct (rinv_reach fl h0 script sched) as [Hn _]. fold s in Hn.
  unfold rstep. cbn. unfold s_step. rewrite Hs, Hd.
  eexists. split; [reflexivity|]. rewrite rec_fix_id by (cbn; exact Hn). cbn. repeat split.
Qed.

(* without a RecoverHandler the recovering LTS is the plain one *)
Lemma rrun_plain sched : forall s, rrun rs false s sched = run s sched.
Proof.
  unfold rrun, run. induction sched as [|e sched IH]; intros s; [reflexivity|]. cbn.
  replace (rstepT rs false s e) with (stepT s e); [apply IH|].
  unfold rstepT, rstep, stepT. destruct (step s e) as [[s' r]|]; reflexivity.
Qed.

(* the executable description used by the checker agrees with the reference semantics *)
Lemma rec_cut_is_reference fl h0 acts :
  snd (href (start fl h0) (rec_cut rs fl false acts)) = None.
Proof. rewrite script_panic_spec. apply rec_cut_safe. Qed.

Lemma rec_cut_safe_and_neutral fl acts w :
  spec_panic fl w (rec_cut rs fl w acts) = None /\
  (spec_panic fl w acts = None -> rec_cut rs fl w acts = acts).
Proof. split; [apply rec_cut_safe|apply rec_cut_nopanic]. Qed.

End Reply.
