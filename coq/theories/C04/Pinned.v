(* C04 — two broken variants of the timeout handler, each refuted by a concrete
   schedule evaluated with vm_compute.  They are the model counterparts of the
   mutations used in the self-test (notes/C04.md): they document that the
   theorems of Props.v depend on the buffering and on the timedOut flag, and are
   not artefacts of the statement. *)
From Coq Require Import List ZArith Bool.
From GZ Require Import C04.Model.
Import ListNotations.
Open Scope Z_scope.

(* (1) write-through: Write hands the bytes to the real writer at once *)
Definition wt_step (s : state) (e : ev) : state :=
  match e, hst s, hrest s with
  | EH, HRun, AWrite bs :: r =>
    mkSt (tb s) (tto s) (rw_write bs (rw s)) HRun r (hexec s ++ [AWrite bs]) (dk s) (sst s)
  | _, _, _ => stepT s e
  end.

Definition wt_run (s : state) (sched : list ev) : state := fold_left wt_step sched s.

(* the timeout reply is glued onto the handler's first chunk, under the handler's
   implicit 200, and the second chunk follows it *)
Theorem write_through_refuted :
  exists script sched k,
    sst (wt_run (init [] script) sched) = STimeoutRet k /\
    rw (wt_run (init [] script) sched) <> timeout_resp [] k.
Proof.
  exists [AWrite [200]; AWrite [201]], [EH; ED KCancel; ES BTimeout; EH], KCancel.
  vm_compute. split; [reflexivity|discriminate].
Qed.

Example write_through_mixture :
  rw (wt_run (init [] [AWrite [200]; AWrite [201]]) [EH; ED KCancel; ES BTimeout; EH]) =
  mkRW [] (Some (200, [])) ([200] ++ reason ++ [201]).
Proof. vm_compute. reflexivity. Qed.

(* (2) the timeout branch flushes what is buffered before writing the reply
   ("503 after the partial body") *)
Definition pb_step (s : state) (e : ev) : state :=
  match e, sst s, dk s with
  | ES BTimeout, SWait, Some k =>
    mkSt (tb s) true (timeout_write k (rw_write (bbody (tb s)) (rw s)))
         (hst s) (hrest s) (hexec s) (dk s) (STimeoutRet k)
  | _, _, _ => stepT s e
  end.

Definition pb_run (s : state) (sched : list ev) : state := fold_left pb_step sched s.

Theorem partial_body_refuted :
  exists script sched k,
    sst (pb_run (init [] script) sched) = STimeoutRet k /\
    rw (pb_run (init [] script) sched) <> timeout_resp [] k.
Proof.
  exists [AWriteHeader 201; AWrite [200]; AWrite [201]], [EH; EH; ED KDeadline; ES BTimeout], KDeadline.
  vm_compute. split; [reflexivity|discriminate].
Qed.
