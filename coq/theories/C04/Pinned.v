(* C04 — broken variants of the timeout handler, each refuted by a concrete
   schedule evaluated with vm_compute.  They are the model counterparts of code
   changes seen in the self-tests and the seeded changes (notes/C04.md): they document
   that the theorems of Props.v depend on the buffering, on the timedOut flag, on the
   locked / guarded Flush and on 1xx codes not being forwarded, and are not artefacts
   of the statement. *)
From Coq Require Import List ZArith Bool.
From GZ Require Import C04.Model C04.Recover.
Import ListNotations.
Open Scope Z_scope.

(* (1) write-through: Write hands the bytes to the real writer at once *)
Definition wt_step (s : state) (e : ev) : state :=
  match e, hst s, hrest s with
  | EH, HRun, AWrite bs :: r =>
    mkSt (tb s) (tto s) (rw_write bs (rw s)) HRun r (hexec s ++ [AWrite bs]) (dk s) (sst s) (sexec s)
  | _, _, _ => stepT s e
  end.

Definition wt_run (s : state) (sched : list ev) : state := fold_left wt_step sched s.

(* the timeout reply is glued onto the handler's first chunk, under the handler's
   implicit 200, and the second chunk follows it *)
Theorem write_through_refuted :
  exists script sched k,
    has_flush script = false /\
    sst (wt_run (init true [] script) sched) = STimeoutRet k /\
    rw (wt_run (init true [] script) sched) <> timeout_resp true [] k.
Proof.
  exists [AWrite [200]; AWrite [201]], [EH; ED KCancel; ES BTimeout; EH], KCancel.
  vm_compute. split; [reflexivity|]. split; [reflexivity|discriminate].
Qed.

Example write_through_mixture :
  rw (wt_run (init true [] [AWrite [200]; AWrite [201]]) [EH; ED KCancel; ES BTimeout; EH]) =
  mkRW true [] (Some (200, [])) ([200] ++ reason ++ [201]) [] 499.
Proof. vm_compute. reflexivity. Qed.

(* (2) the timeout branch flushes what is buffered before writing the reply
   ("503 after the partial body") *)
Definition pb_step (s : state) (e : ev) : state :=
  match e, sst s, dk s with
  | ES BTimeout, SWait, Some k =>
    mkSt (tb s) true (timeout_write k (rw_write (bbody (tb s)) (rw s)))
         (hst s) (hrest s) (hexec s) (dk s) (STimeoutRet k) (hexec s)
  | _, _, _ => stepT s e
  end.

Definition pb_run (s : state) (sched : list ev) : state := fold_left pb_step sched s.

Theorem partial_body_refuted :
  exists script sched k,
    has_flush script = false /\
    sst (pb_run (init true [] script) sched) = STimeoutRet k /\
    rw (pb_run (init true [] script) sched) <> timeout_resp true [] k.
Proof.
  exists [AWriteHeader 201; AWrite [200]; AWrite [201]], [EH; EH; ED KDeadline; ES BTimeout], KDeadline.
  vm_compute. split; [reflexivity|]. split; [reflexivity|discriminate].
Qed.

(* (3) timeoutWriter.Flush as it was before 696f32f (finding F23): no lock, no look at
   timedOut, the recorded status never sent: headers copied, buffered bytes written *)
Definition old_flush (b : tbuf) (w : rwriter) : tbuf * rwriter :=
  if negb (rfl w) then (b, w)
  else (mkBuf (bh b) [] (bcode b) (bwrote b) (bfl b),
        rw_write (bbody b) (rw_hdr (fun d => overlay d (bh b)) w)).

Definition of_step (s : state) (e : ev) : state :=
  match e, hst s, hrest s with
  | EH, HRun, AFlush :: r =>
    let '(b', w') := old_flush (tb s) (rw s) in
    mkSt b' (tto s) w' HRun r (hexec s ++ [AFlush]) (dk s) (sst s) (sexec s)
  | _, _, _ => stepT s e
  end.

Definition of_run (s : state) (sched : list ev) : state := fold_left of_step sched s.

(* the response is final once ServeHTTP has returned through the timeout branch
   (Props.nothing_after_timeout) — not with the old Flush: the bytes buffered before the
   timeout and the handler's headers follow the 499 reply *)
Theorem unguarded_flush_refuted :
  exists script sched1 sched2 k,
    sst (of_run (init true [] script) sched1) = STimeoutRet k /\
    rw (of_run (init true [] script) (sched1 ++ sched2)) <> rw (of_run (init true [] script) sched1).
Proof.
  exists [ASet 1 7; AWrite [200]; AFlush], [EH; EH; ED KCancel; ES BTimeout], [EH], KCancel.
  vm_compute. split; [reflexivity|discriminate].
Qed.

Example unguarded_flush_mixture :
  rw (of_run (init true [] [ASet 1 7; AWrite [200]; AFlush]) [EH; EH; ED KCancel; ES BTimeout; EH]) =
  mkRW true [(1, [7])] (Some (499, [])) (reason ++ [200]) [] 499.
Proof. vm_compute. reflexivity. Qed.

(* ... and without any timeout the status the handler set is lost (200 instead of 404),
   against Props.no_deadline_complete_flush *)
Theorem old_flush_loses_status_refuted :
  exists script sched,
    spec_panic true false script = None /\ info_first true script = false /\
    sst (of_run (init true [] script) sched) = SDoneRet /\
    rw_view (rw (of_run (init true [] script) sched)) <> spec_view true [] script.
Proof.
  exists [AWriteHeader 404; AWrite [200]; AFlush], [EH; EH; EH; EH; ES BDone].
  vm_compute. repeat split; discriminate.
Qed.

(* (4) seeded change C04-3: WriteHeader(1xx) is forwarded to the real writer at once,
   after the handler's headers so far were copied into the real header map *)
Definition is_1xx (c : Z) : bool := (100 <=? c) && (c <? 200) && negb (c =? 101).

Definition if_step (s : state) (e : ev) : state :=
  match e, hst s, hrest s with
  | EH, HRun, AWriteHeader c :: r =>
    if is_1xx c then
      let w' := if tto s || bwrote (tb s) then rw s
                else rw_wh c (rw_hdr (fun d => overlay d (bh (tb s))) (rw s)) in
      mkSt (tb s) (tto s) w' HRun r (hexec s ++ [AWriteHeader c]) (dk s) (sst s) (sexec s)
    else stepT s e
  | _, _, _ => stepT s e
  end.

Definition if_run (s : state) (sched : list ev) : state := fold_left if_step sched s.

(* the 503 carries the handler's header, and a 103 went out for work whose outcome is
   "timeout": not the timeout reply of Props.all_or_nothing *)
Theorem informational_passthrough_refuted :
  exists script sched k,
    has_flush script = false /\
    sst (if_run (init true [] script) sched) = STimeoutRet k /\
    rw (if_run (init true [] script) sched) <> timeout_resp true [] k.
Proof.
  exists [ASet 1 7; AWriteHeader 103], [EH; EH; ED KDeadline; ES BTimeout], KDeadline.
  vm_compute. split; [reflexivity|]. split; [reflexivity|discriminate].
Qed.

Example informational_passthrough_mixture :
  rw (if_run (init true [] [ASet 1 7; AWriteHeader 103]) [EH; EH; ED KDeadline; ES BTimeout]) =
  mkRW true [(1, [7])] (Some (503, [(1, [7])])) reason [(103, [(1, [7])])] 503.
Proof. vm_compute. reflexivity. Qed.

(* (5) known finding C04-informational-status, in the model of TODAY's code: a 1xx code
   written first is recorded as the status; the client gets it at completion and then an
   implicit 200 instead of the handler's 404.  This is why Props.complete_is_spec and
   complete_is_spec_view carry the hypothesis info_first = false. *)
Theorem informational_status_refuted :
  exists fl h0 acts,
    spec_panic fl false acts = None /\ info_first fl acts = true /\
    rw_view (complete fl h0 acts) <> spec_view fl h0 acts.
Proof.
  exists false, [], [AWriteHeader 103; AWriteHeader 404; AWrite [200]].
  vm_compute. repeat split; discriminate.
Qed.

Example informational_status_today :
  rw_view (complete false [] [AWriteHeader 103; AWriteHeader 404; AWrite [200]]) =
    ([(103, [])], Some (200, []), [200]) /\
  spec_view false [] [AWriteHeader 103; AWriteHeader 404; AWrite [200]] =
    ([(103, [])], Some (404, []), [200]).
Proof. vm_compute. split; reflexivity. Qed.

(* (6) self-test mutation E1: WithTimeout keeps the larger of the timeouts given for a route
   group ("the most generous") instead of the last one *)
Definition apply_opt_max (f : froutes) (o : ropt) : froutes :=
  match o with
  | OptTimeout t => mkFR (if fr_timeout f <? t then t else fr_timeout f) (fr_sse f)
  | OptSSE => mkFR 0 true
  end.

Theorem keep_larger_route_timeout_refuted :
  exists opts t, fr_timeout (fold_left apply_opt_max (opts ++ [OptTimeout t]) (mkFR 0 false)) <> t.
Proof. exists [OptTimeout 3600], 1800. vm_compute. discriminate. Qed.

(* (7) self-test mutation E2: every route gets ng.timeout (the max over the server) instead
   of its own checked timeout: a route with a short own timeout runs under a later deadline
   than now + its timeout *)
Theorem engine_max_timeout_refuted :
  exists conf_ms groups g now,
    In g groups /\ 0 < eng_route_dur true conf_ms g /\
    now + eng_route_dur true conf_ms g < with_timeout None now (eng_timeout conf_ms groups).
Proof.
  exists 3000, [route_conf [OptTimeout 20000000]; route_conf []], (route_conf [OptTimeout 20000000]), 0.
  vm_compute. repeat split; auto.
Qed.

(* (8) seeded change C04-4: the zRPC client interceptor calls the invoker with the caller's
   context as it is when the caller's deadline is due within the client's DEFAULT timeout —
   instead of within the EFFECTIVE one (a per-call WithCallTimeout may be shorter) *)
Definition client_deadline_fastpath (opts : list Z) (default : Z) (parent : option Z) (now : Z) : option Z :=
  let t := call_timeout opts default in
  if t <=? 0 then parent
  else match parent with
       | Some p => if p - now <=? default then parent else Some (with_timeout parent now t)
       | None => Some (with_timeout parent now t)
       end.

(* Props.deadline_shrinks_client fails for it: default 1 h, caller has 30 min left, per-call
   timeout 20 min: the call runs under the caller's deadline, later than now + 20 min *)
Theorem client_fastpath_refuted :
  exists opts default parent now d,
    0 < call_timeout opts default /\
    client_deadline_fastpath opts default parent now = Some d /\
    now + call_timeout opts default < d.
Proof. exists [1200], 3600, (Some 1800), 0, 1800. vm_compute. repeat split. Qed.

(* ... and it is the same function whenever no per-call option is given *)
Theorem client_fastpath_same_without_option : forall default parent now,
  client_deadline_fastpath [] default parent now = client_deadline [] default parent now.
Proof.
  intros default parent now. unfold client_deadline_fastpath, client_deadline, call_timeout, with_timeout.
  destruct (Z.leb_spec default 0); [reflexivity|]. destruct parent as [p|]; [|reflexivity].
  destruct (Z.leb_spec (p - now) default); [|reflexivity]. f_equal. rewrite Z.min_l; [reflexivity|].
  apply Z.le_sub_le_add_l. assumption.
Qed.

(* (9) seeded change C04-5: fx.DoWithTimeout returns context.Cause(ctx) instead of ctx.Err()
   in its ctx.Done() branch.  Errors as in Check.v: -1 = context.DeadlineExceeded,
   -2 = context.Canceled, positive = somebody's own error value.  A caller-supplied context
   may carry a custom cancel cause (WithCancelCause / WithDeadlineCause); ctx.Err() never
   shows it, context.Cause does. *)
Definition timeout_error (k : kind) : Z := match k with KDeadline => -1 | KCancel => -2 end.

Definition cause_error (custom : option Z) (k : kind) : Z :=
  match custom with Some c => c | None => timeout_error k end.

(* what the caller gets when the timeout branch is taken: with a custom cause it is neither
   of the two timeout errors (nor, the work being still parked, a result of the work) *)
Theorem cause_instead_of_err_refuted :
  exists custom k, 0 < cause_error custom k /\ forall k', cause_error custom k <> timeout_error k'.
Proof. exists (Some 9), KCancel. split; [reflexivity|]. intros [|]; discriminate. Qed.

(* ... and it is indistinguishable for every context without a custom cause *)
Theorem cause_same_without_custom_cause : forall k, cause_error None k = timeout_error k.
Proof. reflexivity. Qed.

(* (10) seeded change C04-6: timeoutWriter implements io.ReaderFrom and keeps tw.mu from the
   first to the last chunk of an io.Copy(w, src).  In the model a copy is a run of AWrite
   actions; "the mutex is held" = the handler is between two chunks of such a run; the timeout
   branch, which needs the mutex, is then not enabled. *)
Definition mid_copy (s : state) : bool :=
  match rev (hexec s), hrest s with
  | AWrite _ :: _, AWrite _ :: _ => match hst s with HRun => true | _ => false end
  | _, _ => false
  end.

Definition rf_step (s : state) (e : ev) : option (state * ares) :=
  match e with
  | ES BTimeout => if mid_copy s then None else step s e
  | _ => step s e
  end.

Definition rf_stepT (s : state) (e : ev) : state :=
  match rf_step s e with Some (s', _) => s' | None => s end.

Definition rf_run (s : state) (sched : list ev) : state := fold_left rf_stepT sched s.

(* Props.returns_at_deadline fails: Done has happened, ServeHTTP is still selecting, and the
   timeout branch cannot run — for as long as the source of the copy stays silent *)
Theorem readfrom_holds_mutex_refuted :
  exists script sched k,
    let s := rf_run (init false [] script) sched in
    dk s = Some k /\ sst s = SWait /\ rf_step s (ES BTimeout) = None /\
    (forall n, sst (rf_run s (repeat (ES BTimeout) n)) = SWait).
Proof.
  exists [AWrite [200]; AWrite [201]], [EH; ED KDeadline], KDeadline.
  split; [reflexivity|]. split; [reflexivity|]. split; [reflexivity|].
  induction n as [|n IH]; [reflexivity|]. exact IH.
Qed.

(* (11) seeded change C04-9: the ctx.Done() branch first copies the handler's headers whose
   name starts with "Access-Control-" from tw.h onto the real writer ("keep the CORS headers
   on timeout responses").  Header names are integer keys in the model; [cors k] says that
   key k goes by such a name. *)
Definition cors_step (cors : Z -> bool) (s : state) (e : ev) : state :=
  match e, sst s, dk s with
  | ES BTimeout, SWait, Some k =>
    let kept := filter (fun kv => cors (fst kv)) (bh (tb s)) in
    mkSt (tb s) true (timeout_write k (rw_hdr (fun d => overlay d kept) (rw s)))
         (hst s) (hrest s) (hexec s) (dk s) (STimeoutRet k) (hexec s)
  | _, _, _ => stepT s e
  end.

Definition cors_run (cors : Z -> bool) (s : state) (sched : list ev) : state :=
  fold_left (cors_step cors) sched s.

(* the 503 carries a header of the unfinished work: not the timeout reply of Props.all_or_nothing *)
Theorem cors_headers_on_timeout_refuted :
  exists cors script sched k,
    has_flush script = false /\
    sst (cors_run cors (init true [] script) sched) = STimeoutRet k /\
    rw (cors_run cors (init true [] script) sched) <> timeout_resp true [] k.
Proof.
  exists (fun k => k =? 1), [ASet 1 7; ASet 2 9; AWrite [200]], [EH; EH; ED KDeadline; ES BTimeout], KDeadline.
  vm_compute. split; [reflexivity|]. split; [reflexivity|discriminate].
Qed.

Example cors_headers_mixture :
  rw (cors_run (fun k => k =? 1) (init true [] [ASet 1 7; ASet 2 9; AWrite [200]]) [EH; EH; ED KDeadline; ES BTimeout]) =
  mkRW true [(1, [7])] (Some (503, [(1, [7])])) reason [] 503.
Proof. vm_compute. reflexivity. Qed.

(* ... and it is the real thing whenever the handler set no such header *)
Theorem cors_same_without_cors_headers : forall s e,
  cors_step (fun _ => false) s e = stepT s e.
Proof.
  intros s e. unfold cors_step. destruct e as [|k|b]; try reflexivity. destruct b; try reflexivity.
  destruct (sst s) eqn:Es; try reflexivity. destruct (dk s) eqn:Ed; [|reflexivity].
  unfold stepT, step, s_step. rewrite Es, Ed.
  assert (H : filter (fun kv : Z * list Z => false) (bh (tb s)) = []).
  { induction (bh (tb s)); [reflexivity|exact IHh]. }
  rewrite H. destruct (rw s). reflexivity.
Qed.

(* ------------------------------------------------------------------ *)
(* seeded C04-10 (class: a lock held across a panic path): timeoutWriter.WriteHeader
   unlocks tw.mu explicitly AFTER writeHeaderLocked, whose first statement
   checkWriteHeaderCode panics for a code outside 100..599 — the mutex stays locked.
   Alone that is invisible (ServeHTTP re-panics without touching tw.mu).  Behind the
   RecoverHandler of the engine's chain the recovery's WriteHeader(500) blocks on the
   mutex, and so do the `done` and the ctx.Done() branch: nothing but the Done event
   can ever happen again. *)
Record lstate := mkL { l_s : state; l_locked : bool }.

(* which handler action comes next, and does it take tw.mu *)
Definition next_locks (s : state) : bool :=
  match hst s, hrest s with
  | HRun, (AWriteHeader _ | AWrite _ | AFlush) :: _ => true
  | _, _ => false
  end.

Definition leak_step (ls : lstate) (e : ev) : option lstate :=
  let s := l_s ls in
  match e with
  | ED k => match rstep [AWriteHeader 500] true s e with Some (s', _) => Some (mkL s' (l_locked ls)) | None => None end
  | EH =>
    if l_locked ls && next_locks s then None      (* blocked in tw.mu.Lock() *)
    else match rstep [AWriteHeader 500] true s EH with
         | Some (s', RPanic (PBadCode _)) => Some (mkL s' true)   (* the panic left WriteHeader with tw.mu held *)
         | Some (s', _) => Some (mkL s' (l_locked ls))
         | None => None
         end
  | ES BPanic => match rstep [AWriteHeader 500] true s e with Some (s', _) => Some (mkL s' (l_locked ls)) | None => None end
  | ES _ =>
    if l_locked ls then None                      (* both writing branches start with tw.mu.Lock() *)
    else match rstep [AWriteHeader 500] true s e with Some (s', _) => Some (mkL s' false) | None => None end
  end.

Definition leak_run (ls : lstate) (sched : list ev) : lstate :=
  fold_left (fun x e => match leak_step x e with Some y => y | None => x end) sched ls.

(* the deadline has passed, ServeHTTP is still in its select, and no event of the handler or of
   the select is enabled, now or ever (only further Done events are, and they change nothing):
   Props.returns_at_deadline_recover fails, the request hangs *)
Theorem lock_leak_on_bad_code_refuted :
  exists script sched k,
    let ls := leak_run (mkL (init false [] script) false) sched in
    dk (l_s ls) = Some k /\ sst (l_s ls) = SWait /\
    leak_step ls (ES BTimeout) = None /\ leak_step ls (ES BDone) = None /\
    leak_step ls (ES BPanic) = None /\ leak_step ls EH = None /\
    forall k', leak_step ls (ED k') = Some ls.
Proof.
  exists [AWriteHeader 0], [EH; ED KDeadline], KDeadline.
  vm_compute. repeat split.
Qed.

(* the same schedule on today's model: the timeout reply, at the deadline *)
Example lock_released_today :
  let s := rrun [AWriteHeader 500] true (init false [] [AWriteHeader 0]) [EH; ED KDeadline; ES BTimeout] in
  sst s = STimeoutRet KDeadline /\ rw s = timeout_resp false [] KDeadline.
Proof. vm_compute. split; reflexivity. Qed.

(* without an invalid code the leaking variant is the real thing *)
Theorem lock_leak_same_without_bad_code : forall s e s' r,
  rstep [AWriteHeader 500] true s e = Some (s', r) -> (forall c, r <> RPanic (PBadCode c)) ->
  leak_step (mkL s false) e = Some (mkL s' false).
Proof.
  intros s e s' r H Hr. destruct e as [|k|b]; cbn [leak_step l_s l_locked andb].
  - rewrite H. destruct r as [| | |p|]; try reflexivity. destruct p; [reflexivity|]. exfalso. eapply Hr; reflexivity.
  - rewrite H. reflexivity.
  - destruct b; rewrite H; reflexivity.
Qed.
