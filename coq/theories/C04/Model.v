(* C04 — timeout wrappers: executable interleaving model.  No proofs in this file.

   Anchors (go-zero):
     rest/handler/timeouthandler.go      timeoutHandler.ServeHTTP, timeoutWriter
     rest/engine.go                      checkedTimeout (per-route / global timeout)
     zrpc/internal/serverinterceptors/timeoutinterceptor.go   UnaryTimeoutInterceptor
     zrpc/internal/clientinterceptors/timeoutinterceptor.go   TimeoutInterceptor
     core/fx/timeout.go                  DoWithTimeout

   Three threads:
     H  the wrapped work, a script of atomic actions (each timeoutWriter method runs
        under tw.mu, so one method call = one action; tw.Header() hands out the
        private map tw.h, a map operation on it = one action);
     D  the context's Done event: deadline expiry or cancellation by the caller
        (first one wins, ctx.Err() is sticky); it may never happen;
     S  the wrapper's `select` on panicChan / done / ctx.Done() together with the
        response writing of the chosen branch (done under tw.mu, hence atomic
        w.r.t. H's methods).
   A schedule is a list of events; [step] performs the event or reports that it is
   not enabled.  Which ready branch the `select` takes is part of the event
   (Go chooses at random among the ready cases).

   Data abstraction: header keys/values, bytes, panic values, results and errors
   are integers; http.Header is an association list with unique, sorted keys. *)
From Coq Require Import List ZArith Bool.
Import ListNotations.
Open Scope Z_scope.

(* ------------------------------------------------------------------ *)
(* http.Header                                                          *)

Definition hdrs := list (Z * list Z).

Fixpoint hset (k : Z) (vs : list Z) (m : hdrs) : hdrs :=
  match m with
  | [] => [(k, vs)]
  | (k', vs') :: m' =>
    if k <? k' then (k, vs) :: m
    else if k =? k' then (k, vs) :: m'
    else (k', vs') :: hset k vs m'
  end.

Fixpoint hget (k : Z) (m : hdrs) : list Z :=
  match m with
  | [] => []
  | (k', vs) :: m' => if k =? k' then vs else hget k m'
  end.

Definition hdel (k : Z) (m : hdrs) : hdrs := filter (fun kv => negb (fst kv =? k)) m.

(* for k, vv := range src { dst[k] = vv } *)
Definition overlay (dst src : hdrs) : hdrs :=
  fold_left (fun d kv => hset (fst kv) (snd kv) d) src dst.

(* ------------------------------------------------------------------ *)
(* the work: scripts of handler actions                                 *)

Inductive kind := KDeadline | KCancel.     (* ctx.Err(): DeadlineExceeded | Canceled *)

Inductive act :=
| ASet (k v : Z)          (* w.Header().Set(k, v) *)
| AAdd (k v : Z)          (* w.Header().Add(k, v) *)
| ADel (k : Z)            (* w.Header().Del(k) *)
| AWriteHeader (c : Z)    (* w.WriteHeader(c) *)
| AWrite (bs : list Z)    (* w.Write(bs) *)
| ACheckCtx               (* select { case <-ctx.Done(): return; default: } ; a script
                             without it ignores the context altogether *)
| APanic (p : Z).         (* panic(p) *)

Inductive pval := PUser (p : Z) | PBadCode (c : Z).   (* "invalid WriteHeader code c" *)

(* what an action reports back to the handler / the harness *)
Inductive ares :=
| RNone
| RWriteOk (n : Z)        (* Write returned (n, nil) *)
| RWriteTimeout           (* Write returned (0, http.ErrHandlerTimeout) *)
| RPanic (p : pval)
| RCtx (fired : bool).    (* what ACheckCtx saw *)

(* ------------------------------------------------------------------ *)
(* the real http.ResponseWriter, as the client sees it                  *)

Record rwriter := mkRW
  { rlive : hdrs;                   (* w.Header(), the live map *)
    rres : option (Z * hdrs);       (* status line + headers frozen by the first WriteHeader/Write *)
    rbody : list Z }.

Definition rw_fresh (h0 : hdrs) : rwriter := mkRW h0 None [].

Definition rw_hdr (f : hdrs -> hdrs) (w : rwriter) : rwriter :=
  mkRW (f (rlive w)) (rres w) (rbody w).

Definition rw_wh (c : Z) (w : rwriter) : rwriter :=
  match rres w with
  | Some _ => w
  | None => mkRW (rlive w) (Some (c, rlive w)) (rbody w)
  end.

Definition rw_write (bs : list Z) (w : rwriter) : rwriter :=
  let w' := rw_wh 200 w in mkRW (rlive w') (rres w') (rbody w' ++ bs).

(* ------------------------------------------------------------------ *)
(* timeoutWriter{h, wbuf, code, wroteHeader} (timedOut kept separately)  *)

Record tbuf := mkBuf { bh : hdrs; bbody : list Z; bcode : Z; bwrote : bool }.

Definition buf0 : tbuf := mkBuf [] [] 200 false.

Definition bad_code (c : Z) : bool := (c <? 100) || (599 <? c).   (* checkWriteHeaderCode *)

Definition len (bs : list Z) : Z := Z.of_nat (length bs).

Definition buf_hdr (f : hdrs -> hdrs) (b : tbuf) : tbuf :=
  mkBuf (f (bh b)) (bbody b) (bcode b) (bwrote b).

(* one handler action against the timeoutWriter; [to] = tw.timedOut *)
Definition tw_act (to : bool) (b : tbuf) (a : act) : tbuf * ares :=
  match a with
  | ASet k v => (buf_hdr (hset k [v]) b, RNone)
  | AAdd k v => (buf_hdr (fun m => hset k (hget k m ++ [v]) m) b, RNone)
  | ADel k => (buf_hdr (hdel k) b, RNone)
  | AWriteHeader c =>
    if bwrote b then (b, RNone)
    else if bad_code c then (b, RPanic (PBadCode c))
    else if to then (b, RNone)
    else (mkBuf (bh b) (bbody b) c true, RNone)
  | AWrite bs =>
    if to then (b, RWriteTimeout)
    else
      let c := if bwrote b then bcode b else 200 in
      (mkBuf (bh b) (bbody b ++ bs) c true, RWriteOk (len bs))
  | ACheckCtx => (b, RNone)
  | APanic p => (b, RPanic (PUser p))
  end.

(* the `done` branch: copy the buffered response to the real writer *)
Definition flush (b : tbuf) (w : rwriter) : rwriter :=
  let w1 := rw_hdr (fun d => overlay d (bh b)) w in
  let w2 := if bcode b =? 200 then w1 else rw_wh (bcode b) w1 in
  rw_write (bbody b) w2.

(* the `ctx.Done()` branch *)
Definition timeout_code (k : kind) : Z :=
  match k with KCancel => 499 | KDeadline => 503 end.

(* "Request Timeout" *)
Definition reason : list Z := [82; 101; 113; 117; 101; 115; 116; 32; 84; 105; 109; 101; 111; 117; 116].

Definition timeout_write (k : kind) (w : rwriter) : rwriter :=
  rw_write reason (rw_wh (timeout_code k) w).

Definition timeout_resp (h0 : hdrs) (k : kind) : rwriter :=
  mkRW h0 (Some (timeout_code k, h0)) reason.

(* ------------------------------------------------------------------ *)
(* the LTS for timeoutHandler.ServeHTTP (non-exempt request)            *)

Inductive hstat := HRun | HDone | HPanicked (p : pval).
Inductive sstat := SWait | SDoneRet | STimeoutRet (k : kind) | SPanicRet (p : pval).
Inductive branch := BPanic | BDone | BTimeout.
Inductive ev := EH | ED (k : kind) | ES (b : branch).

Record state := mkSt
  { tb : tbuf;            (* tw.h, tw.wbuf, tw.code, tw.wroteHeader *)
    tto : bool;           (* tw.timedOut *)
    rw : rwriter;         (* the real writer *)
    hst : hstat;          (* handler goroutine: running / returned (done closed) / panicked (panicChan full) *)
    hrest : list act;     (* what the handler has still to do *)
    hexec : list act;     (* ghost: the actions it has executed, in order *)
    dk : option kind;     (* ctx.Err() *)
    sst : sstat }.        (* ServeHTTP: in the select / returned / re-panicked *)

Definition init (h0 : hdrs) (script : list act) : state :=
  mkSt buf0 false (rw_fresh h0) HRun script [] None SWait.

Definition h_step (s : state) : option (state * ares) :=
  match hst s with
  | HRun =>
    match hrest s with
    | [] =>       (* ServeHTTP of the handler returns; close(done) *)
      Some (mkSt (tb s) (tto s) (rw s) HDone [] (hexec s) (dk s) (sst s), RNone)
    | ACheckCtx :: r =>
      match dk s with
      | Some _ => Some (mkSt (tb s) (tto s) (rw s) HRun [] (hexec s ++ [ACheckCtx]) (dk s) (sst s), RCtx true)
      | None => Some (mkSt (tb s) (tto s) (rw s) HRun r (hexec s ++ [ACheckCtx]) (dk s) (sst s), RCtx false)
      end
    | a :: r =>
      let '(b', res) := tw_act (tto s) (tb s) a in
      match res with
      | RPanic p =>   (* recovered in the goroutine: panicChan <- p (buffered) *)
        Some (mkSt b' (tto s) (rw s) (HPanicked p) [] (hexec s ++ [a]) (dk s) (sst s), res)
      | _ => Some (mkSt b' (tto s) (rw s) HRun r (hexec s ++ [a]) (dk s) (sst s), res)
      end
    end
  | _ => None
  end.

Definition d_step (k : kind) (s : state) : state :=
  match dk s with
  | Some _ => s
  | None => mkSt (tb s) (tto s) (rw s) (hst s) (hrest s) (hexec s) (Some k) (sst s)
  end.

Definition s_step (b : branch) (s : state) : option state :=
  match sst s with
  | SWait =>
    match b with
    | BPanic =>
      match hst s with
      | HPanicked p => Some (mkSt (tb s) (tto s) (rw s) (hst s) (hrest s) (hexec s) (dk s) (SPanicRet p))
      | _ => None
      end
    | BDone =>
      match hst s with
      | HDone => Some (mkSt (tb s) (tto s) (flush (tb s) (rw s)) (hst s) (hrest s) (hexec s) (dk s) SDoneRet)
      | _ => None
      end
    | BTimeout =>
      match dk s with
      | Some k => Some (mkSt (tb s) true (timeout_write k (rw s)) (hst s) (hrest s) (hexec s) (dk s) (STimeoutRet k))
      | None => None
      end
    end
  | _ => None
  end.

Definition step (s : state) (e : ev) : option (state * ares) :=
  match e with
  | EH => h_step s
  | ED k => Some (d_step k s, RNone)
  | ES b => match s_step b s with Some s' => Some (s', RNone) | None => None end
  end.

(* total version: an event that is not enabled leaves the state alone *)
Definition stepT (s : state) (e : ev) : state :=
  match step s e with Some (s', _) => s' | None => s end.

Definition run (s : state) (sched : list ev) : state := fold_left stepT sched s.

(* strict version used by the correspondence check: every event must be enabled;
   returns what each H action reported *)
Fixpoint run_strict (s : state) (sched : list ev) : option (state * list ares) :=
  match sched with
  | [] => Some (s, [])
  | e :: sched' =>
    match step s e with
    | None => None
    | Some (s', r) =>
      match run_strict s' sched' with
      | None => None
      | Some (s'', rs) => Some (s'', match e with EH => r :: rs | _ => rs end)
      end
    end
  end.

(* Reference semantics of the handler alone: its actions executed one after the
   other against a timeoutWriter that never times out, up to the first panic.
   [complete] is the response the client gets when the `done` branch then copies
   that buffer to a fresh real writer. *)
Fixpoint href (b : tbuf) (acts : list act) : tbuf * option pval :=
  match acts with
  | [] => (b, None)
  | a :: r =>
    let '(b', res) := tw_act false b a in
    match res with
    | RPanic p => (b', Some p)
    | _ => href b' r
    end
  end.

Definition complete (h0 : hdrs) (acts : list act) : rwriter :=
  flush (fst (href buf0 acts)) (rw_fresh h0).

(* independent description of the same thing, used by the checker and related to
   [complete] by theorems: status of the first WriteHeader/Write, all body chunks,
   the final header map laid over the writer's own headers *)
Fixpoint spec_status (acts : list act) : Z :=
  match acts with
  | [] => 200
  | AWriteHeader c :: _ => c
  | AWrite _ :: _ => 200
  | _ :: r => spec_status r
  end.

Fixpoint spec_body (acts : list act) : list Z :=
  match acts with
  | [] => []
  | AWrite bs :: r => bs ++ spec_body r
  | _ :: r => spec_body r
  end.

Definition spec_hdr_act (m : hdrs) (a : act) : hdrs :=
  match a with
  | ASet k v => hset k [v] m
  | AAdd k v => hset k (hget k m ++ [v]) m
  | ADel k => hdel k m
  | _ => m
  end.

Definition spec_hdrs (acts : list act) : hdrs := fold_left spec_hdr_act acts [].

Definition spec_complete (h0 : hdrs) (acts : list act) : rwriter :=
  let h := overlay h0 (spec_hdrs acts) in
  mkRW h (Some (spec_status acts, h)) (spec_body acts).

(* does executing [acts] (deadline not hit) end in a panic, and which *)
Fixpoint spec_panic (wrote : bool) (acts : list act) : option pval :=
  match acts with
  | [] => None
  | APanic p :: _ => Some (PUser p)
  | AWriteHeader c :: r =>
    if wrote then spec_panic wrote r
    else if bad_code c then Some (PBadCode c) else spec_panic true r
  | AWrite _ :: r => spec_panic true r
  | _ :: r => spec_panic wrote r
  end.

(* ------------------------------------------------------------------ *)
(* several requests through ONE middleware instance                     *)
(* timeoutHandler{handler, dt} is immutable; ServeHTTP allocates the context, the
   channels and the timeoutWriter per call.  The system state is therefore a list of
   per-request components that share nothing; an event names the request whose
   thread (H, D or S) moves.  An abandoned handler of an earlier request (it ignored
   its context) is simply an H thread of its own component that is still running. *)

Fixpoint upd_nth {A : Type} (n : nat) (f : A -> A) (l : list A) : list A :=
  match l, n with
  | [], _ => []
  | x :: r, O => f x :: r
  | x :: r, S n' => x :: upd_nth n' f r
  end.

Definition mev := (nat * ev)%type.

Definition minit (reqs : list (hdrs * list act)) : list state :=
  map (fun r => init (fst r) (snd r)) reqs.

Definition mstepT (ss : list state) (e : mev) : list state :=
  upd_nth (fst e) (fun s => stepT s (snd e)) ss.

Definition mrun (ss : list state) (sched : list mev) : list state := fold_left mstepT sched ss.

(* the events of request [i], in order *)
Definition proj (i : nat) (sched : list mev) : list ev :=
  map snd (filter (fun e => Nat.eqb (fst e) i) sched).

Fixpoint mrun_strict (ss : list state) (sched : list mev)
  : option (list state * list (nat * ares)) :=
  match sched with
  | [] => Some (ss, [])
  | (i, e) :: r =>
    match nth_error ss i with
    | None => None
    | Some s =>
      match step s e with
      | None => None
      | Some (s', o) =>
        match mrun_strict (upd_nth i (fun _ => s') ss) r with
        | None => None
        | Some (ss', os) => Some (ss', match e with EH => (i, o) :: os | _ => os end)
        end
      end
    end
  end.

(* ------------------------------------------------------------------ *)
(* exempt requests (Upgrade: websocket, Accept: text/event-stream) and
   TimeoutHandler(d <= 0): the handler runs against the real writer, in the
   serving goroutine; no S thread, D only matters to ACheckCtx.            *)

Definition bad_code_rw (c : Z) : bool := (c <? 100) || (999 <? c).   (* net/http's own check *)

Definition rw_act (w : rwriter) (a : act) : rwriter * ares :=
  match a with
  | ASet k v => (rw_hdr (hset k [v]) w, RNone)
  | AAdd k v => (rw_hdr (fun m => hset k (hget k m ++ [v]) m) w, RNone)
  | ADel k => (rw_hdr (hdel k) w, RNone)
  | AWriteHeader c =>
    match rres w with
    | Some _ => (w, RNone)
    | None => if bad_code_rw c then (w, RPanic (PBadCode c)) else (rw_wh c w, RNone)
    end
  | AWrite bs => (rw_write bs w, RWriteOk (len bs))
  | ACheckCtx => (w, RNone)
  | APanic p => (w, RPanic (PUser p))
  end.

Record xstate := mkX
  { xrw : rwriter; xhst : hstat; xrest : list act; xexec : list act; xdk : option kind }.

Definition xinit (h0 : hdrs) (script : list act) : xstate :=
  mkX (rw_fresh h0) HRun script [] None.

Definition xstep (s : xstate) (e : ev) : option (xstate * ares) :=
  match e with
  | EH =>
    match xhst s with
    | HRun =>
      match xrest s with
      | [] => Some (mkX (xrw s) HDone [] (xexec s) (xdk s), RNone)
      | ACheckCtx :: r =>
        match xdk s with
        | Some _ => Some (mkX (xrw s) HRun [] (xexec s ++ [ACheckCtx]) (xdk s), RCtx true)
        | None => Some (mkX (xrw s) HRun r (xexec s ++ [ACheckCtx]) (xdk s), RCtx false)
        end
      | a :: r =>
        let '(w', res) := rw_act (xrw s) a in
        match res with
        | RPanic p => Some (mkX w' (HPanicked p) [] (xexec s ++ [a]) (xdk s), res)
        | _ => Some (mkX w' HRun r (xexec s ++ [a]) (xdk s), res)
        end
      end
    | _ => None
    end
  | ED k =>
    Some (match xdk s with
          | Some _ => s
          | None => mkX (xrw s) (xhst s) (xrest s) (xexec s) (Some k)
          end, RNone)
  | ES _ => None
  end.

Definition xstepT (s : xstate) (e : ev) : xstate :=
  match xstep s e with Some (s', _) => s' | None => s end.

Definition xrun (s : xstate) (sched : list ev) : xstate := fold_left xstepT sched s.

Fixpoint xrun_strict (s : xstate) (sched : list ev) : option (xstate * list ares) :=
  match sched with
  | [] => Some (s, [])
  | e :: sched' =>
    match xstep s e with
    | None => None
    | Some (s', r) =>
      match xrun_strict s' sched' with
      | None => None
      | Some (s'', rs) => Some (s'', match e with EH => r :: rs | _ => rs end)
      end
    end
  end.

Definition direct (h0 : hdrs) (acts : list act) : rwriter :=
  fold_left (fun w a => fst (rw_act w a)) acts (rw_fresh h0).

(* ------------------------------------------------------------------ *)
(* which requests are wrapped, and deadlines                            *)

Inductive reqkind := RqPlain | RqWebsocket | RqSSE.

(* TimeoutHandler(dur): dur <= 0 returns next itself *)
Definition wrapped (dur : Z) (rq : reqkind) : bool :=
  (0 <? dur) && match rq with RqPlain => true | _ => false end.

(* context.WithTimeout(parent, dur) at time [now]: deadline (absolute, ns) *)
Definition with_timeout (parent : option Z) (now dur : Z) : Z :=
  match parent with
  | Some p => Z.min p (now + dur)
  | None => now + dur
  end.

(* rest/engine.go checkedTimeout: per-route timeout if positive, else conf.Timeout ms *)
Definition checked_timeout (route_ns conf_ms : Z) : Z :=
  if 0 <? route_ns then route_ns else conf_ms * 1000000.

(* deadline of the context the REST handler runs under *)
Definition rest_deadline (dur : Z) (rq : reqkind) (parent : option Z) (now : Z) : option Z :=
  if wrapped dur rq then Some (with_timeout parent now dur) else parent.

(* zRPC server: per-method timeout (last entry with that non-empty name wins), else default;
   method names are integers, 0 = "" *)
Fixpoint method_timeout (confs : list (Z * Z)) (m : Z) (default : Z) : Z :=
  match confs with
  | [] => default
  | (m', t) :: r =>
    let d := if (m' =? m) && negb (m' =? 0) then t else default in
    method_timeout r m d
  end.

(* always context.WithTimeout(ctx, t), whatever the sign of t *)
Definition server_deadline (confs : list (Z * Z)) (m default : Z) (parent : option Z) (now : Z) : option Z :=
  Some (with_timeout parent now (method_timeout confs m default)).

(* zRPC client: first TimeoutCallOption wins, else default; t <= 0: ctx passed through *)
Definition call_timeout (opts : list Z) (default : Z) : Z :=
  match opts with
  | t :: _ => t
  | [] => default
  end.

Definition client_deadline (opts : list Z) (default : Z) (parent : option Z) (now : Z) : option Z :=
  let t := call_timeout opts default in
  if t <=? 0 then parent else Some (with_timeout parent now t).

(* fx.DoWithTimeout(fn, t, WithContext(parent)?) *)
Definition fx_deadline (t : Z) (parent : option Z) (now : Z) : option Z :=
  Some (with_timeout parent now t).

(* ------------------------------------------------------------------ *)
(* result-slot wrappers: UnaryTimeoutInterceptor and fx.DoWithTimeout    *)
(* The work publishes one result (under the mutex / through the buffered
   channel) or panics; S selects on panicChan / done / ctx.Done().          *)

Inductive wact := WWork | WCheck.   (* a step that ignores the context / a ctx check *)

Inductive wfin := WRet (r e : Z) | WPanic (p : Z).   (* (resp, err) ids; 0 = nil *)

Record wscript := mkW { wsteps : list wact; wbail : Z * Z; wend : wfin }.

Inductive wstat := WRun | WDone (r e : Z) | WPanicked (p : Z).
Inductive wout := OWait | ORet (r e : Z) | OTimeout (k : kind) | OPanic (p : Z).

Record wstate := mkWS
  { wrest : list wact; wfinal : wfin; wbl : Z * Z;
    wst : wstat; wdk : option kind; wsst : wout;
    wn : Z }.                   (* ghost: number of steps the work has executed *)

Definition winit (w : wscript) : wstate :=
  mkWS (wsteps w) (wend w) (wbail w) WRun None OWait 0.

Definition wstep (s : wstate) (e : ev) : option (wstate * ares) :=
  match e with
  | EH =>
    match wst s with
    | WRun =>
      match wrest s with
      | [] =>
        match wfinal s with
        | WRet r e' => Some (mkWS [] (wfinal s) (wbl s) (WDone r e') (wdk s) (wsst s) (wn s + 1), RNone)
        | WPanic p => Some (mkWS [] (wfinal s) (wbl s) (WPanicked p) (wdk s) (wsst s) (wn s + 1), RPanic (PUser p))
        end
      | WWork :: r => Some (mkWS r (wfinal s) (wbl s) WRun (wdk s) (wsst s) (wn s + 1), RNone)
      | WCheck :: r =>
        match wdk s with
        | Some _ =>   (* the work gives up: returns its bail-out result *)
          Some (mkWS [] (wfinal s) (wbl s) (WDone (fst (wbl s)) (snd (wbl s))) (wdk s) (wsst s) (wn s + 1), RCtx true)
        | None => Some (mkWS r (wfinal s) (wbl s) WRun (wdk s) (wsst s) (wn s + 1), RCtx false)
        end
      end
    | _ => None
    end
  | ED k =>
    Some (match wdk s with
          | Some _ => s
          | None => mkWS (wrest s) (wfinal s) (wbl s) (wst s) (Some k) (wsst s) (wn s)
          end, RNone)
  | ES b =>
    match wsst s with
    | OWait =>
      match b with
      | BPanic =>
        match wst s with
        | WPanicked p => Some (mkWS (wrest s) (wfinal s) (wbl s) (wst s) (wdk s) (OPanic p) (wn s), RNone)
        | _ => None
        end
      | BDone =>
        match wst s with
        | WDone r e' => Some (mkWS (wrest s) (wfinal s) (wbl s) (wst s) (wdk s) (ORet r e') (wn s), RNone)
        | _ => None
        end
      | BTimeout =>
        match wdk s with
        | Some k => Some (mkWS (wrest s) (wfinal s) (wbl s) (wst s) (wdk s) (OTimeout k) (wn s), RNone)
        | None => None
        end
      end
    | _ => None
    end
  end.

Definition wstepT (s : wstate) (e : ev) : wstate :=
  match wstep s e with Some (s', _) => s' | None => s end.

Definition wrun (s : wstate) (sched : list ev) : wstate := fold_left wstepT sched s.

Fixpoint wrun_strict (s : wstate) (sched : list ev) : option (wstate * list ares) :=
  match sched with
  | [] => Some (s, [])
  | e :: sched' =>
    match wstep s e with
    | None => None
    | Some (s', r) =>
      match wrun_strict s' sched' with
      | None => None
      | Some (s'', rs) => Some (s'', match e with EH => r :: rs | _ => rs end)
      end
    end
  end.

(* the results the work itself can produce: its final result, or its bail-out
   result if it checks the context *)
Definition wresults (w : wscript) : list (Z * Z) :=
  (match wend w with WRet r e => [(r, e)] | WPanic _ => [] end) ++
  (if existsb (fun a => match a with WCheck => true | _ => false end) (wsteps w)
   then [wbail w] else []).

(* ------------------------------------------------------------------ *)
(* several calls through ONE interceptor instance / one package          *)
(* UnaryTimeoutInterceptor's closure holds only the immutable per-method map and
   fx.DoWithTimeout has no instance: context, channels, mutex and result variables are
   locals of each call.  The system state is a list of per-call components sharing
   nothing; an event names the call whose thread moves.  The work of a call that
   timed out (it ignored its context) is an H thread of its own component that
   returns or panics later, while other calls are in flight. *)

Definition wminit (ws : list wscript) : list wstate := map winit ws.

Definition wmstepT (ss : list wstate) (e : mev) : list wstate :=
  upd_nth (fst e) (fun s => wstepT s (snd e)) ss.

Definition wmrun (ss : list wstate) (sched : list mev) : list wstate := fold_left wmstepT sched ss.

Fixpoint wmrun_strict (ss : list wstate) (sched : list mev)
  : option (list wstate * list (nat * ares)) :=
  match sched with
  | [] => Some (ss, [])
  | (i, e) :: r =>
    match nth_error ss i with
    | None => None
    | Some s =>
      match wstep s e with
      | None => None
      | Some (s', o) =>
        match wmrun_strict (upd_nth i (fun _ => s') ss) r with
        | None => None
        | Some (ss', os) => Some (ss', match e with EH => (i, o) :: os | _ => os end)
        end
      end
    end
  end.
