(* C04 — timeout wrappers: executable interleaving model.  No proofs in this file.

   Anchors (go-zero):
     rest/handler/timeouthandler.go      timeoutHandler.ServeHTTP, timeoutWriter (incl. Flush)
     rest/engine.go                      newEngine, addRoutes, buildSSERoutes, checkedTimeout,
                                         the timeout line of buildChainWithNativeMiddlewares, withTimeout
     rest/server.go                      WithTimeout, WithSSE (route options)
     zrpc/internal/serverinterceptors/timeoutinterceptor.go   UnaryTimeoutInterceptor
     zrpc/internal/clientinterceptors/timeoutinterceptor.go   TimeoutInterceptor
     core/fx/timeout.go                  DoWithTimeout

   Three threads:
     H  the wrapped work, a script of atomic actions (each timeoutWriter method runs
        under tw.mu, so one method call = one action; tw.Header() hands out the
        private map tw.h, a map operation on it = one action);
     D  the context's Done event: deadline expiry or cancellation by the caller
        (first one wins, ctx.Err() is sticky); it may never happen;
     S  the wrapper's `select` on panicChan / done / ctx.Done() together with the
        response writing of the chosen branch (done under tw.mu, hence atomic
        w.r.t. H's methods).
   A schedule is a list of events; [step] performs the event or reports that it is
   not enabled.  Which ready branch the `select` takes is part of the event
   (Go chooses at random among the ready cases).

   Data abstraction: header keys/values, bytes, panic values, results and errors
   are integers; http.Header is an association list with unique, sorted keys. *)
From Coq Require Import List ZArith Bool.
From GZgen Require Import C04Consts.
Import ListNotations.
Open Scope Z_scope.

(* ------------------------------------------------------------------ *)
(* http.Header                                                          *)

Definition hdrs := list (Z * list Z).

Fixpoint hset (k : Z) (vs : list Z) (m : hdrs) : hdrs :=
  match m with
  | [] => [(k, vs)]
  | (k', vs') :: m' =>
    if k <? k' then (k, vs) :: m
    else if k =? k' then (k, vs) :: m'
    else (k', vs') :: hset k vs m'
  end.

Fixpoint hget (k : Z) (m : hdrs) : list Z :=
  match m with
  | [] => []
  | (k', vs) :: m' => if k =? k' then vs else hget k m'
  end.

Definition hdel (k : Z) (m : hdrs) : hdrs := filter (fun kv => negb (fst kv =? k)) m.

(* for k, vv := range src { dst[k] = vv } *)
Definition overlay (dst src : hdrs) : hdrs :=
  fold_left (fun d kv => hset (fst kv) (snd kv) d) src dst.

(* ------------------------------------------------------------------ *)
(* the work: scripts of handler actions                                 *)

Inductive kind := KDeadline | KCancel.     (* ctx.Err(): DeadlineExceeded | Canceled *)

Inductive act :=
| ASet (k v : Z)          (* w.Header().Set(k, v) *)
| AAdd (k v : Z)          (* w.Header().Add(k, v) *)
| ADel (k : Z)            (* w.Header().Del(k) *)
| AWriteHeader (c : Z)    (* w.WriteHeader(c), any integer: invalid, 1xx informational, final *)
| AWrite (bs : list Z)    (* w.Write(bs) *)
| ACheckCtx               (* select { case <-ctx.Done(): return; default: } ; a script
                             without it ignores the context altogether *)
| APanic (p : Z)          (* panic(p) *)
| AFlush.                 (* if f, ok := w.(http.Flusher); ok { f.Flush() } *)

Inductive pval := PUser (p : Z) | PBadCode (c : Z).   (* "invalid WriteHeader code c" *)

(* what an action reports back to the handler / the harness *)
Inductive ares :=
| RNone
| RWriteOk (n : Z)        (* Write returned (n, nil) *)
| RWriteTimeout           (* Write returned (0, http.ErrHandlerTimeout) *)
| RPanic (p : pval)
| RCtx (fired : bool).    (* what ACheckCtx saw *)

(* ------------------------------------------------------------------ *)
(* the real http.ResponseWriter, as the client sees it (net/http server semantics) *)

Record rwriter := mkRW
  { rfl : bool;                     (* it implements http.Flusher *)
    rlive : hdrs;                   (* w.Header(), the live map *)
    rres : option (Z * hdrs);       (* status line + headers frozen by the first final WriteHeader / Write / Flush *)
    rbody : list Z;
    rinfo : list (Z * hdrs);        (* 1xx informational responses already sent, each with the headers of that moment *)
    rcode : Z }.                    (* what the OUTER middlewares record (response.WithCodeResponseWriter.Code of
                                       the breaker / log / metrics / trace handlers in front): the argument of the
                                       last WriteHeader call that reached this writer, 200 before any; a Write or
                                       Flush does not change it, a superfluous WriteHeader does *)

Definition rw_fresh (fl : bool) (h0 : hdrs) : rwriter := mkRW fl h0 None [] [] 200.

Definition rw_hdr (f : hdrs -> hdrs) (w : rwriter) : rwriter :=
  mkRW (rfl w) (f (rlive w)) (rres w) (rbody w) (rinfo w) (rcode w).

(* net/http: 100..199 except 101 are sent at once, do not end the header phase and do
   not clear the header map *)
Definition is_info (c : Z) : bool := (100 <=? c) && (c <=? 199) && negb (c =? 101).

(* what a status does to the wire: nothing once the header is out *)
Definition rw_commit (c : Z) (w : rwriter) : rwriter :=
  match rres w with
  | Some _ => w
  | None =>
    if is_info c then mkRW (rfl w) (rlive w) None (rbody w) (rinfo w ++ [(c, rlive w)]) (rcode w)
    else mkRW (rfl w) (rlive w) (Some (c, rlive w)) (rbody w) (rinfo w) (rcode w)
  end.

(* an explicit WriteHeader(c) call: the wire as above, and the outer record becomes c *)
Definition rw_wh (c : Z) (w : rwriter) : rwriter :=
  let w' := rw_commit c w in mkRW (rfl w') (rlive w') (rres w') (rbody w') (rinfo w') c.

Definition rw_write (bs : list Z) (w : rwriter) : rwriter :=
  let w' := rw_commit 200 w in mkRW (rfl w') (rlive w') (rres w') (rbody w' ++ bs) (rinfo w') (rcode w').

(* http.Flusher.Flush of the real writer: sends the header if it was not sent *)
Definition rw_flush (w : rwriter) : rwriter := if rfl w then rw_commit 200 w else w.

(* ------------------------------------------------------------------ *)
(* timeoutWriter{h, wbuf, code, wroteHeader, flushed} (timedOut kept separately)  *)

Record tbuf := mkBuf { bh : hdrs; bbody : list Z; bcode : Z; bwrote : bool; bfl : bool }.

Definition buf0 : tbuf := mkBuf [] [] 200 false false.

Definition bad_code (c : Z) : bool := (c <? 100) || (599 <? c).   (* checkWriteHeaderCode *)

Definition len (bs : list Z) : Z := Z.of_nat (length bs).

Definition buf_hdr (f : hdrs -> hdrs) (b : tbuf) : tbuf :=
  mkBuf (f (bh b)) (bbody b) (bcode b) (bwrote b) (bfl b).

(* one handler action (other than Flush) against the timeoutWriter; [to] = tw.timedOut.
   Note that a 1xx code is recorded like any other status (see notes: known finding). *)
Definition tw_act (to : bool) (b : tbuf) (a : act) : tbuf * ares :=
  match a with
  | ASet k v => (buf_hdr (hset k [v]) b, RNone)
  | AAdd k v => (buf_hdr (fun m => hset k (hget k m ++ [v]) m) b, RNone)
  | ADel k => (buf_hdr (hdel k) b, RNone)
  | AWriteHeader c =>
    if bwrote b then (b, RNone)
    else if bad_code c then (b, RPanic (PBadCode c))
    else if to then (b, RNone)
    else (mkBuf (bh b) (bbody b) c true (bfl b), RNone)
  | AWrite bs =>
    if to then (b, RWriteTimeout)
    else
      let c := if bwrote b then bcode b else 200 in
      (mkBuf (bh b) (bbody b ++ bs) c true (bfl b), RWriteOk (len bs))
  | ACheckCtx => (b, RNone)
  | APanic p => (b, RPanic (PUser p))
  | AFlush => (b, RNone)
  end.

(* timeoutWriter.Flush (as repaired by 696f32f): nothing unless the real writer is a
   Flusher; under tw.mu; nothing after the timeout; the handler's headers, the
   recorded status (once) and the buffered bytes go to the real writer *)
Definition tw_flush (to : bool) (b : tbuf) (w : rwriter) : tbuf * rwriter :=
  if negb (rfl w) then (b, w)
  else if to then (b, w)
  else
    let w1 := rw_hdr (fun d => overlay d (bh b)) w in
    let c := if bwrote b then bcode b else 200 in
    let w2 := if bfl b then w1 else if c =? 200 then w1 else rw_wh c w1 in
    (mkBuf (bh b) [] c true true, rw_write (bbody b) w2).

Definition hact (to : bool) (bw : tbuf * rwriter) (a : act) : (tbuf * rwriter) * ares :=
  match a with
  | AFlush => (tw_flush to (fst bw) (snd bw), RNone)
  | _ => let '(b', r) := tw_act to (fst bw) a in ((b', snd bw), r)
  end.

(* the `done` branch: copy the buffered response to the real writer *)
Definition flush (b : tbuf) (w : rwriter) : rwriter :=
  let w1 := rw_hdr (fun d => overlay d (bh b)) w in
  let w2 := if (bcode b =? 200) || bfl b then w1 else rw_wh (bcode b) w1 in
  rw_write (bbody b) w2.

(* the `ctx.Done()` branch *)
Definition timeout_code (k : kind) : Z :=
  match k with KCancel => 499 | KDeadline => 503 end.

(* "Request Timeout" *)
Definition reason : list Z := [82; 101; 113; 117; 101; 115; 116; 32; 84; 105; 109; 101; 111; 117; 116].

Definition timeout_write (k : kind) (w : rwriter) : rwriter :=
  rw_write reason (rw_wh (timeout_code k) w).

Definition timeout_resp (fl : bool) (h0 : hdrs) (k : kind) : rwriter :=
  mkRW fl h0 (Some (timeout_code k, h0)) reason [] (timeout_code k).

(* ------------------------------------------------------------------ *)
(* the LTS for timeoutHandler.ServeHTTP (non-exempt request)            *)

Inductive hstat := HRun | HDone | HPanicked (p : pval).
Inductive sstat := SWait | SDoneRet | STimeoutRet (k : kind) | SPanicRet (p : pval).
Inductive branch := BPanic | BDone | BTimeout.
Inductive ev := EH | ED (k : kind) | ES (b : branch).

Record state := mkSt
  { tb : tbuf;            (* tw.h, tw.wbuf, tw.code, tw.wroteHeader, tw.flushed *)
    tto : bool;           (* tw.timedOut *)
    rw : rwriter;         (* the real writer *)
    hst : hstat;          (* handler goroutine: running / returned (done closed) / panicked (panicChan full) *)
    hrest : list act;     (* what the handler has still to do *)
    hexec : list act;     (* ghost: the actions it has executed, in order *)
    dk : option kind;     (* ctx.Err() *)
    sst : sstat;          (* ServeHTTP: in the select / returned / re-panicked *)
    sexec : list act }.   (* ghost: what the handler had executed when the timeout branch ran *)

Definition init (fl : bool) (h0 : hdrs) (script : list act) : state :=
  mkSt buf0 false (rw_fresh fl h0) HRun script [] None SWait [].

Definition h_step (s : state) : option (state * ares) :=
  match hst s with
  | HRun =>
    match hrest s with
    | [] =>       (* ServeHTTP of the handler returns; close(done) *)
      Some (mkSt (tb s) (tto s) (rw s) HDone [] (hexec s) (dk s) (sst s) (sexec s), RNone)
    | ACheckCtx :: r =>
      match dk s with
      | Some _ => Some (mkSt (tb s) (tto s) (rw s) HRun [] (hexec s ++ [ACheckCtx]) (dk s) (sst s) (sexec s), RCtx true)
      | None => Some (mkSt (tb s) (tto s) (rw s) HRun r (hexec s ++ [ACheckCtx]) (dk s) (sst s) (sexec s), RCtx false)
      end
    | a :: r =>
      let '((b', w'), res) := hact (tto s) (tb s, rw s) a in
      match res with
      | RPanic p =>   (* recovered in the goroutine: panicChan <- p (buffered) *)
        Some (mkSt b' (tto s) w' (HPanicked p) [] (hexec s ++ [a]) (dk s) (sst s) (sexec s), res)
      | _ => Some (mkSt b' (tto s) w' HRun r (hexec s ++ [a]) (dk s) (sst s) (sexec s), res)
      end
    end
  | _ => None
  end.

Definition d_step (k : kind) (s : state) : state :=
  match dk s with
  | Some _ => s
  | None => mkSt (tb s) (tto s) (rw s) (hst s) (hrest s) (hexec s) (Some k) (sst s) (sexec s)
  end.

Definition s_step (b : branch) (s : state) : option state :=
  match sst s with
  | SWait =>
    match b with
    | BPanic =>
      match hst s with
      | HPanicked p => Some (mkSt (tb s) (tto s) (rw s) (hst s) (hrest s) (hexec s) (dk s) (SPanicRet p) (sexec s))
      | _ => None
      end
    | BDone =>
      match hst s with
      | HDone => Some (mkSt (tb s) (tto s) (flush (tb s) (rw s)) (hst s) (hrest s) (hexec s) (dk s) SDoneRet (sexec s))
      | _ => None
      end
    | BTimeout =>
      match dk s with
      | Some k => Some (mkSt (tb s) true (timeout_write k (rw s)) (hst s) (hrest s) (hexec s) (dk s) (STimeoutRet k) (hexec s))
      | None => None
      end
    end
  | _ => None
  end.

Definition step (s : state) (e : ev) : option (state * ares) :=
  match e with
  | EH => h_step s
  | ED k => Some (d_step k s, RNone)
  | ES b => match s_step b s with Some s' => Some (s', RNone) | None => None end
  end.

(* total version: an event that is not enabled leaves the state alone *)
Definition stepT (s : state) (e : ev) : state :=
  match step s e with Some (s', _) => s' | None => s end.

Definition run (s : state) (sched : list ev) : state := fold_left stepT sched s.

(* strict version used by the correspondence check: every event must be enabled;
   returns what each H action reported *)
Fixpoint run_strict (s : state) (sched : list ev) : option (state * list ares) :=
  match sched with
  | [] => Some (s, [])
  | e :: sched' =>
    match step s e with
    | None => None
    | Some (s', r) =>
      match run_strict s' sched' with
      | None => None
      | Some (s'', rs) => Some (s'', match e with EH => r :: rs | _ => rs end)
      end
    end
  end.

(* Reference semantics of the handler alone: its actions executed one after the
   other against a timeoutWriter that never times out (and, through Flush, against
   the real writer), up to the first panic.  [committed] is what has reached the
   real writer by then (nothing, unless the handler flushed); [complete] is the
   response the client gets when the `done` branch then copies the buffer. *)
Fixpoint href (bw : tbuf * rwriter) (acts : list act) : (tbuf * rwriter) * option pval :=
  match acts with
  | [] => (bw, None)
  | a :: r =>
    let '(bw', res) := hact false bw a in
    match res with
    | RPanic p => (bw', Some p)
    | _ => href bw' r
    end
  end.

Definition start (fl : bool) (h0 : hdrs) : tbuf * rwriter := (buf0, rw_fresh fl h0).

Definition committed (fl : bool) (h0 : hdrs) (acts : list act) : rwriter :=
  snd (fst (href (start fl h0) acts)).

Definition complete (fl : bool) (h0 : hdrs) (acts : list act) : rwriter :=
  let bw := fst (href (start fl h0) acts) in flush (fst bw) (snd bw).

Definition has_flush (acts : list act) : bool :=
  existsb (fun a => match a with AFlush => true | _ => false end) acts.

(* ------------------------------------------------------------------ *)
(* Independent description of "the work's complete result", used by the checker and
   related to [complete] by theorems.  It is what the handler's own calls mean on a
   plain net/http writer: 1xx codes are informational (sent at once, not the status),
   the status is that of the first final WriteHeader, or 200 at the first Write/Flush;
   all body chunks; the handler's final header map (the one of its first Flush, if it
   flushes) laid over the writer's own headers. *)

(* the actions before the first (effective) Flush *)
Fixpoint before_flush (acts : list act) : list act :=
  match acts with
  | [] => []
  | AFlush :: _ => []
  | a :: r => a :: before_flush r
  end.

Fixpoint spec_status (fl : bool) (acts : list act) : Z :=
  match acts with
  | [] => 200
  | AWriteHeader c :: r => if is_info c then spec_status fl r else c
  | AWrite _ :: _ => 200
  | AFlush :: r => if fl then 200 else spec_status fl r
  | _ :: r => spec_status fl r
  end.

Fixpoint spec_body (acts : list act) : list Z :=
  match acts with
  | [] => []
  | AWrite bs :: r => bs ++ spec_body r
  | _ :: r => spec_body r
  end.

Definition spec_hdr_act (m : hdrs) (a : act) : hdrs :=
  match a with
  | ASet k v => hset k [v] m
  | AAdd k v => hset k (hget k m ++ [v]) m
  | ADel k => hdel k m
  | _ => m
  end.

Definition spec_hdrs (acts : list act) : hdrs := fold_left spec_hdr_act acts [].

(* the 1xx responses a plain net/http writer would send: every informational
   WriteHeader before the first final one / Write / effective Flush *)
Fixpoint spec_infos (fl : bool) (h0 : hdrs) (m : hdrs) (acts : list act) : list (Z * hdrs) :=
  match acts with
  | [] => []
  | AWriteHeader c :: r => if is_info c then (c, overlay h0 m) :: spec_infos fl h0 m r else []
  | AWrite _ :: _ => []
  | AFlush :: r => if fl then [] else spec_infos fl h0 m r
  | a :: r => spec_infos fl h0 (spec_hdr_act m a) r
  end.

(* is there an informational WriteHeader before the first commit?  (then go-zero's
   timeoutWriter records it as the status: known finding) *)
Fixpoint info_first (fl : bool) (acts : list act) : bool :=
  match acts with
  | [] => false
  | AWriteHeader c :: r => is_info c
  | AWrite _ :: _ => false
  | AFlush :: r => if fl then false else info_first fl r
  | _ :: r => info_first fl r
  end.

Definition spec_frozen (fl : bool) (h0 : hdrs) (acts : list act) : hdrs :=
  overlay h0 (spec_hdrs (if fl then before_flush acts else acts)).

(* the client's view of a writer: 1xx responses, status + headers, body *)
Definition view := (list (Z * hdrs) * option (Z * hdrs) * list Z)%type.

Definition rw_view (w : rwriter) : view := (rinfo w, rres w, rbody w).

Definition spec_view (fl : bool) (h0 : hdrs) (acts : list act) : view :=
  (spec_infos fl h0 [] acts, Some (spec_status fl acts, spec_frozen fl h0 acts), spec_body acts).

(* without an effective Flush the whole writer is described (live map included) *)
Definition spec_complete (fl : bool) (h0 : hdrs) (acts : list act) : rwriter :=
  let h := overlay h0 (spec_hdrs acts) in
  mkRW fl h (Some (spec_status false acts, h)) (spec_body acts) [] (spec_status false acts).

(* does executing [acts] (deadline not hit) end in a panic, and which *)
Fixpoint spec_panic (fl : bool) (wrote : bool) (acts : list act) : option pval :=
  match acts with
  | [] => None
  | APanic p :: _ => Some (PUser p)
  | AWriteHeader c :: r =>
    if wrote then spec_panic fl wrote r
    else if bad_code c then Some (PBadCode c) else spec_panic fl true r
  | AWrite _ :: r => spec_panic fl true r
  | AFlush :: r => spec_panic fl (wrote || fl) r
  | _ :: r => spec_panic fl wrote r
  end.

(* what the handler's own Flush calls had passed to the client when it had executed
   [pre]: nothing, unless it flushed through a Flusher-capable writer; then status and
   headers of its first Flush and the chunks written before its last Flush *)
Fixpoint upto_last_flush (acts : list act) : list act :=
  match acts with
  | [] => []
  | a :: r => if has_flush (a :: r) then a :: upto_last_flush r else []
  end.

Definition spec_committed (fl : bool) (h0 : hdrs) (pre : list act) : view :=
  if fl && has_flush pre then
    let v := spec_view fl h0 pre in
    (fst (fst v), snd (fst v), spec_body (upto_last_flush pre))
  else ([], None, []).

(* "the timeout result": 503 / 499 by the kind of the Done event, the writer's own
   headers, the fixed body, no 1xx response, nothing after it — on top of what the
   handler had flushed itself before (nothing, for scripts without Flush) *)
Definition timeout_view (fl : bool) (h0 : hdrs) (k : kind) (pre : list act) : view :=
  match spec_committed fl h0 pre with
  | (infos, Some x, body) => (infos, Some x, body ++ reason)
  | (infos, None, body) => (infos, Some (timeout_code k, h0), body ++ reason)
  end.


(* ------------------------------------------------------------------ *)
(* exempt requests (Upgrade: websocket, Accept: text/event-stream),
   TimeoutHandler(d <= 0) and routes without the timeout middleware: the handler
   runs against the real writer, in the serving goroutine; no S thread, D only
   matters to ACheckCtx.                                                   *)

Definition bad_code_rw (c : Z) : bool := (c <? 100) || (999 <? c).   (* net/http's own check *)

Definition rw_act (w : rwriter) (a : act) : rwriter * ares :=
  match a with
  | ASet k v => (rw_hdr (hset k [v]) w, RNone)
  | AAdd k v => (rw_hdr (fun m => hset k (hget k m ++ [v]) m) w, RNone)
  | ADel k => (rw_hdr (hdel k) w, RNone)
  | AWriteHeader c =>
    match rres w with
    | Some _ => (rw_wh c w, RNone)     (* superfluous for the wire; the outer record still takes it *)
    | None => if bad_code_rw c then (w, RPanic (PBadCode c)) else (rw_wh c w, RNone)
    end
  | AWrite bs => (rw_write bs w, RWriteOk (len bs))
  | ACheckCtx => (w, RNone)
  | APanic p => (w, RPanic (PUser p))
  | AFlush => (rw_flush w, RNone)
  end.

Record xstate := mkX
  { xrw : rwriter; xhst : hstat; xrest : list act; xexec : list act; xdk : option kind }.

Definition xinit (fl : bool) (h0 : hdrs) (script : list act) : xstate :=
  mkX (rw_fresh fl h0) HRun script [] None.

Definition xstep (s : xstate) (e : ev) : option (xstate * ares) :=
  match e with
  | EH =>
    match xhst s with
    | HRun =>
      match xrest s with
      | [] => Some (mkX (xrw s) HDone [] (xexec s) (xdk s), RNone)
      | ACheckCtx :: r =>
        match xdk s with
        | Some _ => Some (mkX (xrw s) HRun [] (xexec s ++ [ACheckCtx]) (xdk s), RCtx true)
        | None => Some (mkX (xrw s) HRun r (xexec s ++ [ACheckCtx]) (xdk s), RCtx false)
        end
      | a :: r =>
        let '(w', res) := rw_act (xrw s) a in
        match res with
        | RPanic p => Some (mkX w' (HPanicked p) [] (xexec s ++ [a]) (xdk s), res)
        | _ => Some (mkX w' HRun r (xexec s ++ [a]) (xdk s), res)
        end
      end
    | _ => None
    end
  | ED k =>
    Some (match xdk s with
          | Some _ => s
          | None => mkX (xrw s) (xhst s) (xrest s) (xexec s) (Some k)
          end, RNone)
  | ES _ => None
  end.

Definition xstepT (s : xstate) (e : ev) : xstate :=
  match xstep s e with Some (s', _) => s' | None => s end.

Definition xrun (s : xstate) (sched : list ev) : xstate := fold_left xstepT sched s.

Fixpoint xrun_strict (s : xstate) (sched : list ev) : option (xstate * list ares) :=
  match sched with
  | [] => Some (s, [])
  | e :: sched' =>
    match xstep s e with
    | None => None
    | Some (s', r) =>
      match xrun_strict s' sched' with
      | None => None
      | Some (s'', rs) => Some (s'', match e with EH => r :: rs | _ => rs end)
      end
    end
  end.

Definition direct (fl : bool) (h0 : hdrs) (acts : list act) : rwriter :=
  fold_left (fun w a => fst (rw_act w a)) acts (rw_fresh fl h0).

(* ------------------------------------------------------------------ *)
(* several requests through ONE middleware instance / ONE server         *)
(* timeoutHandler{handler, dt} is immutable; ServeHTTP allocates the context, the
   channels and the timeoutWriter per call; the engine builds one chain per route at
   bind time and nothing in it is written afterwards.  The system state is therefore a
   list of per-request components that share nothing; an event names the request whose
   thread (H, D or S) moves.  An abandoned handler of an earlier request (it ignored
   its context) is simply an H thread of its own component that is still running.
   A component is a wrapped request (the LTS above) or an unwrapped one (exempt
   request, route without timeout). *)

Fixpoint upd_nth {A : Type} (n : nat) (f : A -> A) (l : list A) : list A :=
  match l, n with
  | [], _ => []
  | x :: r, O => f x :: r
  | x :: r, S n' => x :: upd_nth n' f r
  end.

Definition mev := (nat * ev)%type.

Record request := mkReq { q_fl : bool; q_h0 : hdrs; q_script : list act }.

Definition minit (reqs : list request) : list state :=
  map (fun r => init (q_fl r) (q_h0 r) (q_script r)) reqs.

Definition mstepT (ss : list state) (e : mev) : list state :=
  upd_nth (fst e) (fun s => stepT s (snd e)) ss.

Definition mrun (ss : list state) (sched : list mev) : list state := fold_left mstepT sched ss.

(* the events of request [i], in order *)
Definition proj (i : nat) (sched : list mev) : list ev :=
  map snd (filter (fun e => Nat.eqb (fst e) i) sched).

Fixpoint mrun_strict (ss : list state) (sched : list mev)
  : option (list state * list (nat * ares)) :=
  match sched with
  | [] => Some (ss, [])
  | (i, e) :: r =>
    match nth_error ss i with
    | None => None
    | Some s =>
      match step s e with
      | None => None
      | Some (s', o) =>
        match mrun_strict (upd_nth i (fun _ => s') ss) r with
        | None => None
        | Some (ss', os) => Some (ss', match e with EH => (i, o) :: os | _ => os end)
        end
      end
    end
  end.

(* mixed systems: wrapped and unwrapped requests side by side (one server) *)
Inductive comp := CW (s : state) | CX (s : xstate).

Definition cstep (c : comp) (e : ev) : option (comp * ares) :=
  match c with
  | CW s => match step s e with Some (s', r) => Some (CW s', r) | None => None end
  | CX s => match xstep s e with Some (s', r) => Some (CX s', r) | None => None end
  end.

Definition cstepT (c : comp) (e : ev) : comp :=
  match cstep c e with Some (c', _) => c' | None => c end.

Definition crun (c : comp) (sched : list ev) : comp := fold_left cstepT sched c.

Definition cinit (wrap : bool) (r : request) : comp :=
  if wrap then CW (init (q_fl r) (q_h0 r) (q_script r))
  else CX (xinit (q_fl r) (q_h0 r) (q_script r)).

Definition cmstepT (cs : list comp) (e : mev) : list comp :=
  upd_nth (fst e) (fun c => cstepT c (snd e)) cs.

Definition cmrun (cs : list comp) (sched : list mev) : list comp := fold_left cmstepT sched cs.

Fixpoint cmrun_strict (cs : list comp) (sched : list mev)
  : option (list comp * list (nat * ares)) :=
  match sched with
  | [] => Some (cs, [])
  | (i, e) :: r =>
    match nth_error cs i with
    | None => None
    | Some c =>
      match cstep c e with
      | None => None
      | Some (c', o) =>
        match cmrun_strict (upd_nth i (fun _ => c') cs) r with
        | None => None
        | Some (cs', os) => Some (cs', match e with EH => (i, o) :: os | _ => os end)
        end
      end
    end
  end.

Definition comp_rw (c : comp) : rwriter :=
  match c with CW s => rw s | CX s => xrw s end.
(* ------------------------------------------------------------------ *)
(* which requests are wrapped, and deadlines                            *)

Inductive reqkind := RqPlain | RqWebsocket | RqSSE.

(* TimeoutHandler(dur): dur <= 0 returns next itself *)
Definition wrapped (dur : Z) (rq : reqkind) : bool :=
  (0 <? dur) && match rq with RqPlain => true | _ => false end.

(* context.WithTimeout(parent, dur) at time [now]: deadline (absolute, ns) *)
Definition with_timeout (parent : option Z) (now dur : Z) : Z :=
  match parent with
  | Some p => Z.min p (now + dur)
  | None => now + dur
  end.

(* rest/engine.go checkedTimeout: per-route timeout if positive, else conf.Timeout ms *)
Definition checked_timeout (route_ns conf_ms : Z) : Z :=
  if 0 <? route_ns then route_ns else conf_ms * 1000000.

(* deadline of the context the REST handler runs under *)
Definition rest_deadline (dur : Z) (rq : reqkind) (parent : option Z) (now : Z) : option Z :=
  if wrapped dur rq then Some (with_timeout parent now dur) else parent.

(* zRPC server: per-method timeout (last entry with that non-empty name wins), else default;
   method names are integers, 0 = "" *)
Fixpoint method_timeout (confs : list (Z * Z)) (m : Z) (default : Z) : Z :=
  match confs with
  | [] => default
  | (m', t) :: r =>
    let d := if (m' =? m) && negb (m' =? 0) then t else default in
    method_timeout r m d
  end.

(* always context.WithTimeout(ctx, t), whatever the sign of t *)
Definition server_deadline (confs : list (Z * Z)) (m default : Z) (parent : option Z) (now : Z) : option Z :=
  Some (with_timeout parent now (method_timeout confs m default)).

(* zRPC client: first TimeoutCallOption wins, else default; t <= 0: ctx passed through *)
Definition call_timeout (opts : list Z) (default : Z) : Z :=
  match opts with
  | t :: _ => t
  | [] => default
  end.

Definition client_deadline (opts : list Z) (default : Z) (parent : option Z) (now : Z) : option Z :=
  let t := call_timeout opts default in
  if t <=? 0 then parent else Some (with_timeout parent now t).

(* fx.DoWithTimeout(fn, t, WithContext(parent)?) *)
Definition fx_deadline (t : Z) (parent : option Z) (now : Z) : option Z :=
  Some (with_timeout parent now t).

(* ------------------------------------------------------------------ *)
(* the rest engine: which timeout a route gets (rest/server.go route options,
   rest/engine.go newEngine / addRoutes / buildSSERoutes / checkedTimeout /
   buildChainWithNativeMiddlewares / withTimeout)                          *)

(* request headers that matter: classification by the exemption test of ServeHTTP,
   r.Header.Get(name) == value, literally (byte strings from C04Consts) *)
Definition bstr := list Z.

Fixpoint bstr_eqb (a b : bstr) : bool :=
  match a, b with
  | [], [] => true
  | x :: a', y :: b' => (x =? y) && bstr_eqb a' b'
  | _, _ => false
  end.

(* http.Header.Get on the (canonical) header names the executor sets: first value *)
Fixpoint req_get (name : bstr) (hs : list (bstr * bstr)) : bstr :=
  match hs with
  | [] => []
  | (n, v) :: r => if bstr_eqb n name then v else req_get name r
  end.

Definition classify (hs : list (bstr * bstr)) : reqkind :=
  match exempt_headers with
  | [(n1, v1); (n2, v2)] =>
    if bstr_eqb (req_get n1 hs) v1 then RqWebsocket
    else if bstr_eqb (req_get n2 hs) v2 then RqSSE
    else RqPlain
  | _ => RqPlain
  end.

Inductive ropt := OptTimeout (ns : Z) | OptSSE.     (* rest.WithTimeout(d) | rest.WithSSE() *)

Record froutes := mkFR { fr_timeout : Z; fr_sse : bool }.   (* featuredRoutes{timeout, sse} *)

Definition apply_opt (f : froutes) (o : ropt) : froutes :=
  match o with
  | OptTimeout t => mkFR t (fr_sse f)
  | OptSSE => mkFR 0 true
  end.

(* Server.AddRoutes(rs, opts...) *)
Definition route_conf (opts : list ropt) : froutes := fold_left apply_opt opts (mkFR 0 false).

(* ng.timeout after newEngine(conf) and addRoutes of every group: the max *)
Definition eng_timeout (conf_ms : Z) (groups : list froutes) : Z :=
  fold_left (fun m g => if m <? fr_timeout g then fr_timeout g else m) groups (conf_ms * 1000000).

(* the duration handed to handler.TimeoutHandler for a route of group [f]; 0 = no
   TimeoutHandler in the chain (middleware switched off) *)
Definition eng_route_dur (mw_timeout : bool) (conf_ms : Z) (f : froutes) : Z :=
  if mw_timeout then checked_timeout (fr_timeout f) conf_ms else 0.

(* withTimeout(): http.Server.ReadTimeout / WriteTimeout *)
Definition srv_read_timeout (t : Z) : Z := if 0 <? t then 4 * t / 5 else 0.
Definition srv_write_timeout (t : Z) : Z := if 0 <? t then 11 * t / 10 else 0.

(* buildSSERoutes: the handler of a WithSSE() route first sets the event-stream
   headers (keys 900+i, values 950+i for the i-th header of C04Consts.sse_route_headers) *)
Definition sse_prefix : list act :=
  map (fun i => ASet (900 + Z.of_nat i) (950 + Z.of_nat i)) (seq 0 (length sse_route_headers)).

Definition route_script (f : froutes) (script : list act) : list act :=
  if fr_sse f then sse_prefix ++ script else script.

(* deadline of the context the route handler of group [f] runs under *)
Definition eng_deadline (mw_timeout : bool) (conf_ms : Z) (f : froutes) (rq : reqkind)
           (parent : option Z) (now : Z) : option Z :=
  rest_deadline (eng_route_dur mw_timeout conf_ms f) rq parent now.

(* ------------------------------------------------------------------ *)
(* result-slot wrappers: UnaryTimeoutInterceptor and fx.DoWithTimeout    *)
(* The work publishes one result (under the mutex / through the buffered
   channel) or panics; S selects on panicChan / done / ctx.Done().          *)

Inductive wact := WWork | WCheck.   (* a step that ignores the context / a ctx check *)

Inductive wfin := WRet (r e : Z) | WPanic (p : Z).   (* (resp, err) ids; 0 = nil *)

Record wscript := mkW { wsteps : list wact; wbail : Z * Z; wend : wfin }.

Inductive wstat := WRun | WDone (r e : Z) | WPanicked (p : Z).
Inductive wout := OWait | ORet (r e : Z) | OTimeout (k : kind) | OPanic (p : Z).

Record wstate := mkWS
  { wrest : list wact; wfinal : wfin; wbl : Z * Z;
    wst : wstat; wdk : option kind; wsst : wout;
    wn : Z }.                   (* ghost: number of steps the work has executed *)

Definition winit (w : wscript) : wstate :=
  mkWS (wsteps w) (wend w) (wbail w) WRun None OWait 0.

Definition wstep (s : wstate) (e : ev) : option (wstate * ares) :=
  match e with
  | EH =>
    match wst s with
    | WRun =>
      match wrest s with
      | [] =>
        match wfinal s with
        | WRet r e' => Some (mkWS [] (wfinal s) (wbl s) (WDone r e') (wdk s) (wsst s) (wn s + 1), RNone)
        | WPanic p => Some (mkWS [] (wfinal s) (wbl s) (WPanicked p) (wdk s) (wsst s) (wn s + 1), RPanic (PUser p))
        end
      | WWork :: r => Some (mkWS r (wfinal s) (wbl s) WRun (wdk s) (wsst s) (wn s + 1), RNone)
      | WCheck :: r =>
        match wdk s with
        | Some _ =>   (* the work gives up: returns its bail-out result *)
          Some (mkWS [] (wfinal s) (wbl s) (WDone (fst (wbl s)) (snd (wbl s))) (wdk s) (wsst s) (wn s + 1), RCtx true)
        | None => Some (mkWS r (wfinal s) (wbl s) WRun (wdk s) (wsst s) (wn s + 1), RCtx false)
        end
      end
    | _ => None
    end
  | ED k =>
    Some (match wdk s with
          | Some _ => s
          | None => mkWS (wrest s) (wfinal s) (wbl s) (wst s) (Some k) (wsst s) (wn s)
          end, RNone)
  | ES b =>
    match wsst s with
    | OWait =>
      match b with
      | BPanic =>
        match wst s with
        | WPanicked p => Some (mkWS (wrest s) (wfinal s) (wbl s) (wst s) (wdk s) (OPanic p) (wn s), RNone)
        | _ => None
        end
      | BDone =>
        match wst s with
        | WDone r e' => Some (mkWS (wrest s) (wfinal s) (wbl s) (wst s) (wdk s) (ORet r e') (wn s), RNone)
        | _ => None
        end
      | BTimeout =>
        match wdk s with
        | Some k => Some (mkWS (wrest s) (wfinal s) (wbl s) (wst s) (wdk s) (OTimeout k) (wn s), RNone)
        | None => None
        end
      end
    | _ => None
    end
  end.

Definition wstepT (s : wstate) (e : ev) : wstate :=
  match wstep s e with Some (s', _) => s' | None => s end.

Definition wrun (s : wstate) (sched : list ev) : wstate := fold_left wstepT sched s.

Fixpoint wrun_strict (s : wstate) (sched : list ev) : option (wstate * list ares) :=
  match sched with
  | [] => Some (s, [])
  | e :: sched' =>
    match wstep s e with
    | None => None
    | Some (s', r) =>
      match wrun_strict s' sched' with
      | None => None
      | Some (s'', rs) => Some (s'', match e with EH => r :: rs | _ => rs end)
      end
    end
  end.

(* the results the work itself can produce: its final result, or its bail-out
   result if it checks the context *)
Definition wresults (w : wscript) : list (Z * Z) :=
  (match wend w with WRet r e => [(r, e)] | WPanic _ => [] end) ++
  (if existsb (fun a => match a with WCheck => true | _ => false end) (wsteps w)
   then [wbail w] else []).

(* ------------------------------------------------------------------ *)
(* several calls through ONE interceptor instance / one package          *)
(* UnaryTimeoutInterceptor's closure holds only the immutable per-method map and
   fx.DoWithTimeout has no instance: context, channels, mutex and result variables are
   locals of each call.  The system state is a list of per-call components sharing
   nothing; an event names the call whose thread moves.  The work of a call that
   timed out (it ignored its context) is an H thread of its own component that
   returns or panics later, while other calls are in flight. *)

Definition wminit (ws : list wscript) : list wstate := map winit ws.

Definition wmstepT (ss : list wstate) (e : mev) : list wstate :=
  upd_nth (fst e) (fun s => wstepT s (snd e)) ss.

Definition wmrun (ss : list wstate) (sched : list mev) : list wstate := fold_left wmstepT sched ss.

Fixpoint wmrun_strict (ss : list wstate) (sched : list mev)
  : option (list wstate * list (nat * ares)) :=
  match sched with
  | [] => Some (ss, [])
  | (i, e) :: r =>
    match nth_error ss i with
    | None => None
    | Some s =>
      match wstep s e with
      | None => None
      | Some (s', o) =>
        match wmrun_strict (upd_nth i (fun _ => s') ss) r with
        | None => None
        | Some (ss', os) => Some (ss', match e with EH => (i, o) :: os | _ => os end)
        end
      end
    end
  end.
