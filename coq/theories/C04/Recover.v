(* C04 — the RecoverHandler INSIDE the timeout middleware.  Executable model only, no proofs.

   Anchors (go-zero):
     rest/engine.go               buildChainWithNativeMiddlewares: ... Timeout, Recover, Metrics, ...
                                  (the RecoverHandler runs in the goroutine the timeout handler starts)
     rest/handler/recoverhandler.go   defer func() { if recover() != nil { ...; w.WriteHeader(500) } }()

   A panic of the work — panic(p) of the route handler, or the "invalid WriteHeader code"
   panic of the timeout writer itself — is recovered in the handler goroutine, answered
   with w.WriteHeader(http.StatusInternalServerError) ON THE WRITER THE TIMEOUT MIDDLEWARE
   HANDED DOWN (for a wrapped request: the timeoutWriter, one more tw.mu-protected action),
   and the handler then returns normally (close(done)); the serving goroutine never sees
   the panic.

   As an LTS: [step] of Model.v, and after every step the state is repaired by [rec_fix]:
   a handler thread that has just panicked goes on with the one-action script
   [WriteHeader 500].  The Done event and the wrapper's select interleave with the
   recovery's WriteHeader like with any other handler action.

   Ghost bookkeeping: the panicking call had no effect on any writer (checkWriteHeaderCode
   runs before anything is recorded; panic(p) touches nothing), so it is dropped from the
   ghost list of executed actions: [hexec] stays "the actions that took effect". *)
From Coq Require Import List ZArith Bool.
From GZgen Require Import C04Consts.
From GZ Require Import C04.Model.
Import ListNotations.
Open Scope Z_scope.

(* THE REPLY IS A PARAMETER [rs]: the actions the RecoverHandler performs on the writer it was
   given (header operations, WriteHeader, Write), as regenerated from the tree
   (C04Consts.recover_reply, established by experiment: tools/c04consts.py); today
   [WriteHeader 500].  All that the theorems need of it is [safe_reply]: it contains no panic,
   no context check and no invalid status code (GenProofs.recover_reply_is_safe). *)
Definition safe_act (a : act) : bool :=
  match a with
  | APanic _ | ACheckCtx => false
  | AWriteHeader c => negb (bad_code c)
  | _ => true
  end.

Definition safe_reply (rs : list act) : bool := forallb safe_act rs.

(* the regenerated reply (C04Consts.recover_reply_ops) as handler actions *)
Definition decode_op (op : Z * Z * Z * list Z) : act :=
  let '(tag, a, b, bs) := op in
  if tag =? 0 then ADel a else if tag =? 1 then ASet a b else if tag =? 2 then AWriteHeader a else AWrite bs.

Definition recover_reply : list act := map decode_op recover_reply_ops.

Section Reply.
Variable recover_script : list act.

Definition rec_fix (s : state) : state :=
  match hst s with
  | HPanicked _ =>
    mkSt (tb s) (tto s) (rw s) HRun recover_script (removelast (hexec s)) (dk s) (sst s) (sexec s)
  | _ => s
  end.

(* [rec] = is there a RecoverHandler between the timeout middleware and the work *)
Definition rstep (rec : bool) (s : state) (e : ev) : option (state * ares) :=
  match step s e with
  | Some (s', r) => Some (if rec then rec_fix s' else s', r)
  | None => None
  end.

Definition rstepT (rec : bool) (s : state) (e : ev) : state :=
  match rstep rec s e with Some (s', _) => s' | None => s end.

Definition rrun (rec : bool) (s : state) (sched : list ev) : state := fold_left (rstepT rec) sched s.

Fixpoint rrun_strict (rec : bool) (s : state) (sched : list ev) : option (state * list ares) :=
  match sched with
  | [] => Some (s, [])
  | e :: sched' =>
    match rstep rec s e with
    | None => None
    | Some (s', r) =>
      match rrun_strict rec s' sched' with
      | None => None
      | Some (s'', rs) => Some (s'', match e with EH => r :: rs | _ => rs end)
      end
    end
  end.

(* the same for a request that is not wrapped (exempt, or no timeout on its route): the
   RecoverHandler then answers on the real writer *)
Definition xrec_fix (s : xstate) : xstate :=
  match xhst s with
  | HPanicked _ => mkX (xrw s) HRun recover_script (removelast (xexec s)) (xdk s)
  | _ => s
  end.

Definition rxstep (rec : bool) (s : xstate) (e : ev) : option (xstate * ares) :=
  match xstep s e with
  | Some (s', r) => Some (if rec then xrec_fix s' else s', r)
  | None => None
  end.

Fixpoint rxrun_strict (rec : bool) (s : xstate) (sched : list ev) : option (xstate * list ares) :=
  match sched with
  | [] => Some (s, [])
  | e :: sched' =>
    match rxstep rec s e with
    | None => None
    | Some (s', r) =>
      match rxrun_strict rec s' sched' with
      | None => None
      | Some (s'', rs) => Some (s'', match e with EH => r :: rs | _ => rs end)
      end
    end
  end.

(* several requests through one chain / one server *)
(* [recw]: is the RecoverHandler INSIDE the timeout middleware (then wrapped requests recover in the
   handler goroutine); [recx]: is there one at all (an unwrapped request always has it around its
   handler).  Which of the two orders the engine builds is an OBSERVATION of the tree. *)
Definition rcstep (recw recx : bool) (c : comp) (e : ev) : option (comp * ares) :=
  match c with
  | CW s => match rstep recw s e with Some (s', r) => Some (CW s', r) | None => None end
  | CX s => match rxstep recx s e with Some (s', r) => Some (CX s', r) | None => None end
  end.

(* the RecoverHandler IN FRONT of the timeout middleware: the panic the middleware re-raised is
   answered on the real writer, in the serving goroutine *)
Definition apply_reply (w : rwriter) : rwriter :=
  fold_left (fun w a => fst (rw_act w a)) recover_script w.

Fixpoint rcmrun_strict (recw recx : bool) (cs : list comp) (sched : list mev)
  : option (list comp * list (nat * ares)) :=
  match sched with
  | [] => Some (cs, [])
  | (i, e) :: r =>
    match nth_error cs i with
    | None => None
    | Some c =>
      match rcstep recw recx c e with
      | None => None
      | Some (c', o) =>
        match rcmrun_strict recw recx (upd_nth i (fun _ => c') cs) r with
        | None => None
        | Some (cs', os) => Some (cs', match e with EH => (i, o) :: os | _ => os end)
        end
      end
    end
  end.

(* ------------------------------------------------------------------ *)
(* Independent description of "the work" when a RecoverHandler is part of it: the
   script up to its first panic (as [spec_panic] describes it: panic(p), or an invalid
   code in the first status-committing WriteHeader), then WriteHeader(500).  A script
   that does not panic is unchanged. *)
Fixpoint rec_cut (fl : bool) (wrote : bool) (acts : list act) : list act :=
  match acts with
  | [] => []
  | APanic _ :: _ => recover_script
  | AWriteHeader c :: r =>
    if wrote then AWriteHeader c :: rec_cut fl wrote r
    else if bad_code c then recover_script else AWriteHeader c :: rec_cut fl true r
  | AWrite bs :: r => AWrite bs :: rec_cut fl true r
  | AFlush :: r => AFlush :: rec_cut fl (wrote || fl) r
  | a :: r => a :: rec_cut fl wrote r
  end.

(* [wrote] after [acts] (no panic among them) *)
Fixpoint wrote_after (fl : bool) (wrote : bool) (acts : list act) : bool :=
  match acts with
  | [] => wrote
  | AWriteHeader _ :: r => wrote_after fl true r
  | AWrite _ :: r => wrote_after fl true r
  | AFlush :: r => wrote_after fl (wrote || fl) r
  | _ :: r => wrote_after fl wrote r
  end.

(* the same against the real writer (unwrapped requests): the reference is [rw_act] itself *)
Fixpoint xrec_cut (w : rwriter) (acts : list act) : list act :=
  match acts with
  | [] => []
  | a :: r =>
    let '(w', res) := rw_act w a in
    match res with
    | RPanic _ => recover_script
    | _ => a :: xrec_cut w' r
    end
  end.

End Reply.
