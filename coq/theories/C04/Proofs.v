(* C04 — invariants of the timeout-wrapper LTS and the lemmas behind Props.v. *)
From Coq Require Import List ZArith Bool Lia.
From GZ Require Import C04.Model.
Import ListNotations.
Open Scope Z_scope.

(* ------------------------------------------------------------------ *)
(* the real writer                                                      *)

Lemma flush_fresh b h0 :
  flush b (rw_fresh h0) =
  mkRW (overlay h0 (bh b)) (Some (bcode b, overlay h0 (bh b))) (bbody b).
Proof.
  unfold flush, rw_fresh, rw_write, rw_wh, rw_hdr. cbn.
  destruct (Z.eqb_spec (bcode b) 200) as [E|E]; cbn.
  - rewrite E. reflexivity.
  - reflexivity.
Qed.

Lemma timeout_write_fresh k h0 : timeout_write k (rw_fresh h0) = timeout_resp h0 k.
Proof. reflexivity. Qed.

(* ------------------------------------------------------------------ *)
(* reference semantics of the handler                                   *)

Lemma href_app : forall l1 l2 b,
  href b (l1 ++ l2) =
  match href b l1 with
  | (b', None) => href b' l2
  | (b', Some p) => (b', Some p)
  end.
Proof.
  induction l1 as [|a l1 IH]; intros l2 b; cbn [app href].
  - reflexivity.
  - destruct (tw_act false b a) as [b' res]. destruct res; try apply IH. reflexivity.
Qed.

Definition panic_of (h : hstat) : option pval :=
  match h with HPanicked p => Some p | _ => None end.

Lemma href_snoc b0 ex a b :
  href b0 ex = (b, None) ->
  href b0 (ex ++ [a]) =
  (fst (tw_act false b a),
   match snd (tw_act false b a) with RPanic p => Some p | _ => None end).
Proof.
  intros H. rewrite href_app, H. cbn [href].
  destruct (tw_act false b a) as [b' res]. destruct res; reflexivity.
Qed.

(* the independent description agrees with the reference semantics *)
Lemma href_spec : forall acts b,
  (bwrote b = false -> bcode b = 200) ->
  snd (href b acts) = spec_panic (bwrote b) acts /\
  (spec_panic (bwrote b) acts = None ->
   bh (fst (href b acts)) = fold_left spec_hdr_act acts (bh b) /\
   bbody (fst (href b acts)) = bbody b ++ spec_body acts /\
   bcode (fst (href b acts)) = (if bwrote b then bcode b else spec_status acts)).
Proof.
  induction acts as [|a acts IH]; intros b Hc.
  - cbn. split; [reflexivity|]. intros _. rewrite app_nil_r.
    destruct (bwrote b) eqn:E; auto.
  - destruct a as [k v|k v|k|c|bs| |p]; cbn [href tw_act spec_panic spec_body spec_status fold_left spec_hdr_act].
    + specialize (IH (buf_hdr (hset k [v]) b) Hc). cbn in IH. exact IH.
    + specialize (IH (buf_hdr (fun m => hset k (hget k m ++ [v]) m) b) Hc). cbn in IH. exact IH.
    + specialize (IH (buf_hdr (hdel k) b) Hc). cbn in IH. exact IH.
    + pose proof (IH b Hc) as IHb. destruct (bwrote b) eqn:Ew.
      * exact IHb.
      * destruct (bad_code c) eqn:Eb.
        -- cbn. split; [reflexivity|discriminate].
        -- specialize (IH (mkBuf (bh b) (bbody b) c true) ltac:(discriminate)). cbn in IH. exact IH.
    + specialize (IH (mkBuf (bh b) (bbody b ++ bs) (if bwrote b then bcode b else 200) true)
                     ltac:(discriminate)).
      cbn in IH. destruct IH as [IH1 IH2]. split; [exact IH1|].
      intros Hn. destruct (IH2 Hn) as (H1 & H2 & H3). rewrite H1, H2, H3.
      rewrite <- app_assoc. destruct (bwrote b); auto.
    + apply IH, Hc.
    + cbn. split; [reflexivity|discriminate].
Qed.

Lemma script_panic_spec acts : snd (href buf0 acts) = spec_panic false acts.
Proof. apply (href_spec acts buf0). reflexivity. Qed.

Lemma complete_spec h0 acts :
  spec_panic false acts = None -> complete h0 acts = spec_complete h0 acts.
Proof.
  intros Hn. unfold complete, spec_complete. rewrite flush_fresh.
  destruct (href_spec acts buf0 ltac:(reflexivity)) as [_ H].
  destruct (H Hn) as (H1 & H2 & H3). cbn in H1, H2, H3.
  rewrite H1, H2, H3. reflexivity.
Qed.

(* ------------------------------------------------------------------ *)
(* the invariant of the REST LTS                                        *)

(* [ex] is the part of [script] the handler chose to run: all of it, or — once the
   Done event exists — up to one of its context checks *)
Definition cut (script ex : list act) (d : option kind) : Prop :=
  exists rest, script = ex ++ rest /\
    (rest = [] \/ (d <> None /\ exists pre, ex = pre ++ [ACheckCtx])).

Lemma cut_mono script ex d k : cut script ex d -> cut script ex (Some k).
Proof.
  intros (rest & E & [H|[_ H]]); exists rest; split; auto.
  right. split; [discriminate|exact H].
Qed.

Definition InvA (s : state) : Prop :=
  tto s = false -> href buf0 (hexec s) = (tb s, panic_of (hst s)).

Definition InvB (script : list act) (s : state) : Prop :=
  match hst s with
  | HRun => script = hexec s ++ hrest s \/ (hrest s = [] /\ cut script (hexec s) (dk s))
  | HDone => cut script (hexec s) (dk s)
  | HPanicked _ => exists rest, script = hexec s ++ rest
  end.

Definition InvC (h0 : hdrs) (s : state) : Prop :=
  match sst s with
  | SWait => tto s = false /\ rw s = rw_fresh h0
  | SDoneRet => tto s = false /\ hst s = HDone /\ rw s = complete h0 (hexec s)
  | STimeoutRet k => tto s = true /\ dk s = Some k /\ rw s = timeout_resp h0 k
  | SPanicRet p => tto s = false /\ hst s = HPanicked p /\ rw s = rw_fresh h0
  end.

Definition Inv (h0 : hdrs) (script : list act) (s : state) : Prop :=
  InvA s /\ InvB script s /\ InvC h0 s.

Lemma inv_init h0 script : Inv h0 script (init h0 script).
Proof.
  repeat split; cbn; auto.
Qed.

Lemma inv_d h0 script s k : Inv h0 script s -> Inv h0 script (d_step k s).
Proof.
  intros (A & B & C). unfold d_step. destruct (dk s) eqn:Ed; [repeat split; assumption|].
  repeat split.
  - exact A.
  - unfold InvB in *. cbn. destruct (hst s); auto.
    + destruct B as [B|[B1 B2]]; [left; exact B|right; split; [exact B1|]].
      rewrite Ed in B2. eapply cut_mono, B2.
    + rewrite Ed in B. eapply cut_mono, B.
  - unfold InvC in *. cbn. destruct (sst s); auto.
    destruct C as (_ & C & _). congruence.
Qed.

Lemma inv_s h0 script s b s' : Inv h0 script s -> s_step b s = Some s' -> Inv h0 script s'.
Proof.
  intros (A & B & C) H. unfold s_step in H.
  destruct (sst s) eqn:Es; try discriminate.
  unfold InvC in C. rewrite Es in C. destruct C as [C1 C2].
  unfold InvA, InvB in *.
  destruct b.
  - destruct (hst s) eqn:Eh; try discriminate. inversion H; subst s'; clear H.
    split; [|split].
    + cbn. exact A.
    + cbn. exact B.
    + cbn. auto.
  - destruct (hst s) eqn:Eh; try discriminate. inversion H; subst s'; clear H.
    split; [|split].
    + cbn. exact A.
    + cbn. exact B.
    + cbn. split; [exact C1|]. split; [reflexivity|].
      rewrite C2. unfold complete. rewrite (A C1). reflexivity.
  - destruct (dk s) eqn:Ed; try discriminate. inversion H; subst s'; clear H.
    split; [|split].
    + cbn. discriminate.
    + cbn. exact B.
    + cbn. split; [reflexivity|]. split; [reflexivity|]. rewrite C2. apply timeout_write_fresh.
Qed.

Lemma invC_h h0 s s' :
  InvC h0 s -> hst s = HRun ->
  tto s' = tto s -> rw s' = rw s -> dk s' = dk s -> sst s' = sst s ->
  InvC h0 s'.
Proof.
  unfold InvC. intros C Eh E1 E2 E3 E4. rewrite E4, E1, E2, E3.
  destruct (sst s); auto; destruct C as (_ & C & _); congruence.
Qed.

Lemma inv_h h0 script s s' r : Inv h0 script s -> h_step s = Some (s', r) -> Inv h0 script s'.
Proof.
  intros (A & B & C) H. unfold h_step in H.
  destruct (hst s) eqn:Eh; try discriminate.
  unfold InvB in B. rewrite Eh in B.
  destruct (hrest s) as [|a rest] eqn:Er.
  - (* the handler returns *)
    inversion H; subst s' r; clear H. repeat split.
    + intros T. cbn in *. rewrite (A T), Eh. reflexivity.
    + unfold InvB. cbn. destruct B as [B|[_ B]]; [|exact B].
      exists []. split; [exact B|left; reflexivity].
    + eapply invC_h; eauto.
  - assert (B' : script = hexec s ++ a :: rest) by (destruct B as [B|[B _]]; [exact B|discriminate]).
    assert (B'' : script = (hexec s ++ [a]) ++ rest) by (rewrite <- app_assoc; exact B').
    assert (Hgen : forall b' res, tw_act (tto s) (tb s) a = (b', res) ->
              forall s1,
              s1 = match res with
                   | RPanic p => mkSt b' (tto s) (rw s) (HPanicked p) [] (hexec s ++ [a]) (dk s) (sst s)
                   | _ => mkSt b' (tto s) (rw s) HRun rest (hexec s ++ [a]) (dk s) (sst s)
                   end -> Inv h0 script s1).
    { intros b' res Et s1 ->.
      assert (HA : tto s = false ->
                   href buf0 (hexec s ++ [a]) =
                   (b', match res with RPanic p => Some p | _ => None end)).
      { intros T'. specialize (A T'). rewrite Eh in A. cbn in A.
        rewrite (href_snoc _ _ a _ A). rewrite T' in Et. rewrite Et. reflexivity. }
      destruct res;
        (split; [unfold InvA; cbn; intros T; exact (HA T)
                |split; [unfold InvB; cbn; first [left; exact B''|exists rest; exact B'']
                        |eapply invC_h; [exact C|exact Eh|reflexivity..]]]). }
    revert H.
    destruct a as [k v|k v|k|c|bs| |p];
      try (destruct (tw_act (tto s) (tb s) _) as [b' res] eqn:Et; intros H;
           eapply (Hgen b' res eq_refl); destruct res; inversion H; reflexivity).
    intros H.
    (* the context check *)
    assert (HA : tto s = false -> href buf0 (hexec s ++ [ACheckCtx]) = (tb s, None)).
    { intros T. specialize (A T). rewrite Eh in A. cbn in A.
      rewrite (href_snoc _ _ ACheckCtx _ A). reflexivity. }
    destruct (dk s) eqn:Ed; inversion H; subst s' r; clear H.
    + split; [|split].
      * unfold InvA; cbn. exact HA.
      * unfold InvB; cbn. right. split; [reflexivity|].
        exists rest. split; [exact B''|]. right. split; [congruence|]. exists (hexec s). reflexivity.
      * eapply invC_h; [exact C|exact Eh|cbn; congruence..].
    + split; [|split].
      * unfold InvA; cbn. exact HA.
      * unfold InvB; cbn. left. exact B''.
      * eapply invC_h; [exact C|exact Eh|cbn; congruence..].
Qed.

Lemma inv_step h0 script s e : Inv h0 script s -> Inv h0 script (stepT s e).
Proof.
  intros I. unfold stepT, step. destruct e as [|k|b].
  - destruct (h_step s) as [[s' r]|] eqn:E; [eapply inv_h; eauto|exact I].
  - apply inv_d, I.
  - destruct (s_step b s) as [s'|] eqn:E; [eapply inv_s; eauto|exact I].
Qed.

Lemma inv_run h0 script sched : forall s, Inv h0 script s -> Inv h0 script (run s sched).
Proof.
  induction sched as [|e sched IH]; intros s I; cbn; [exact I|].
  apply IH, inv_step, I.
Qed.

Lemma inv_reach h0 script sched : Inv h0 script (run (init h0 script) sched).
Proof. apply inv_run, inv_init. Qed.

(* ------------------------------------------------------------------ *)
(* all-or-nothing                                                       *)

(* what the caller of ServeHTTP and the client can see *)
Inductive outcome (h0 : hdrs) (script : list act) (s : state) : Prop :=
| OutPending :        (* ServeHTTP still in its select: nothing written *)
    sst s = SWait -> rw s = rw_fresh h0 -> outcome h0 script s
| OutComplete ex :    (* the handler returned after running [ex]; its whole response, nothing else *)
    sst s = SDoneRet -> hst s = HDone -> hexec s = ex -> cut script ex (dk s) ->
    spec_panic false ex = None ->
    rw s = complete h0 ex -> rw s = spec_complete h0 ex -> outcome h0 script s
| OutTimeout k :      (* the Done event happened: 503 / 499 and nothing of the handler *)
    sst s = STimeoutRet k -> dk s = Some k -> rw s = timeout_resp h0 k -> outcome h0 script s
| OutPanic p :        (* the handler's panic re-raised in the serving goroutine, nothing written *)
    sst s = SPanicRet p -> spec_panic false script = Some p -> rw s = rw_fresh h0 ->
    outcome h0 script s.

Lemma inv_outcome h0 script s : Inv h0 script s -> outcome h0 script s.
Proof.
  intros (A & B & C). unfold InvC in C. destruct (sst s) eqn:Es.
  - destruct C. apply OutPending; auto.
  - destruct C as (T & Eh & R).
    specialize (A T). rewrite Eh in A. cbn in A.
    unfold InvB in B. rewrite Eh in B.
    assert (Hp : spec_panic false (hexec s) = None).
    { rewrite <- script_panic_spec, A. reflexivity. }
    eapply OutComplete; eauto. rewrite R. apply complete_spec, Hp.
  - destruct C as (T & Ed & R). eapply OutTimeout; eauto.
  - destruct C as (T & Eh & R).
    specialize (A T). rewrite Eh in A. cbn in A.
    unfold InvB in B. rewrite Eh in B. destruct B as [rest B].
    eapply OutPanic; eauto.
    rewrite <- script_panic_spec, B, href_app, A. reflexivity.
Qed.

Lemma all_or_nothing_lemma h0 script sched :
  outcome h0 script (run (init h0 script) sched).
Proof. apply inv_outcome, inv_reach. Qed.

(* a script without context checks is always run to its end *)
Definition ignores_ctx (script : list act) : Prop := ~ In ACheckCtx script.

Lemma cut_ignores script ex d : ignores_ctx script -> cut script ex d -> ex = script.
Proof.
  intros Hi (rest & E & [H|(_ & pre & H)]).
  - subst rest. rewrite app_nil_r in E. auto.
  - exfalso. apply Hi. rewrite E, H. apply in_or_app. left. apply in_or_app. right. left. reflexivity.
Qed.

Lemma cut_no_d script ex : cut script ex None -> ex = script.
Proof.
  intros (rest & E & [H|(H & _)]).
  - subst rest. rewrite app_nil_r in E. auto.
  - congruence.
Qed.

Lemma h_step_frame s s' r : h_step s = Some (s', r) ->
  dk s' = dk s /\ rw s' = rw s /\ sst s' = sst s /\ tto s' = tto s.
Proof.
  unfold h_step. destruct (hst s); try discriminate.
  destruct (hrest s) as [|a rest].
  - intros H; inversion H; subst; cbn; auto.
  - destruct a;
      try (destruct (tw_act (tto s) (tb s) _) as [b' res]; destruct res;
           intros H; inversion H; subst; cbn; auto).
    destruct (dk s) eqn:Ed; intros H; inversion H; subst; cbn; auto.
Qed.

Lemma stepT_H_frame s :
  dk (stepT s EH) = dk s /\ rw (stepT s EH) = rw s /\ sst (stepT s EH) = sst s.
Proof.
  unfold stepT, step. destruct (h_step s) as [[s' r]|] eqn:E; auto.
  destruct (h_step_frame _ _ _ E) as (H1 & H2 & H3 & _). auto.
Qed.

(* D never happens: no ED event in the schedule *)
Definition no_d (sched : list ev) : Prop := forall k, ~ In (ED k) sched.

Lemma no_d_dk : forall sched s, no_d sched -> dk s = None -> dk (run s sched) = None.
Proof.
  induction sched as [|e sched IH]; intros s Hn Hd; cbn; [exact Hd|].
  apply IH.
  - intros k Hk. apply (Hn k). right. exact Hk.
  - unfold stepT, step. destruct e as [|k|b].
    + destruct (stepT_H_frame s) as (E & _). unfold stepT, step in E. rewrite E. exact Hd.
    + exfalso. apply (Hn k). left. reflexivity.
    + unfold s_step. destruct (sst s); auto. destruct b.
      * destruct (hst s); auto.
      * destruct (hst s); auto.
      * rewrite Hd. exact Hd.
Qed.

(* ------------------------------------------------------------------ *)
(* nothing after the timeout                                            *)

Lemma step_after_return s e :
  sst s <> SWait -> sst (stepT s e) = sst s /\ rw (stepT s e) = rw s.
Proof.
  intros Hs. unfold stepT, step. destruct e as [|k|b].
  - destruct (stepT_H_frame s) as (_ & E1 & E2). unfold stepT, step in E1, E2. auto.
  - unfold d_step. destruct (dk s); auto.
  - unfold s_step. destruct (sst s) eqn:Es; cbn; auto. congruence.
Qed.

Lemma run_after_return : forall sched s,
  sst s <> SWait -> sst (run s sched) = sst s /\ rw (run s sched) = rw s.
Proof.
  induction sched as [|e sched IH]; intros s Hs; cbn; [auto|].
  destruct (step_after_return s e Hs) as [E1 E2].
  assert (Hs' : sst (stepT s e) <> SWait) by (rewrite E1; exact Hs).
  destruct (IH (stepT s e) Hs') as [E3 E4].
  split; [rewrite <- E1; exact E3|rewrite <- E2; exact E4].
Qed.

(* H and D never touch the real writer, at any time *)
Lemma only_S_writes s e : (forall b, e <> ES b) -> rw (stepT s e) = rw s.
Proof.
  intros He. unfold stepT, step. destruct e as [|k|b].
  - destruct (stepT_H_frame s) as (_ & E1 & _). unfold stepT, step in E1. exact E1.
  - unfold d_step. destruct (dk s); auto.
  - exfalso. apply (He b). reflexivity.
Qed.

Lemma late_write_refused h0 script sched k bs r :
  let s := run (init h0 script) sched in
  sst s = STimeoutRet k -> hst s = HRun -> hrest s = AWrite bs :: r ->
  exists s', step s EH = Some (s', RWriteTimeout) /\ rw s' = rw s /\ tb s' = tb s.
Proof.
  intros s Hs Hh Hr.
  destruct (inv_reach h0 script sched) as (_ & _ & C). fold s in C.
  unfold InvC in C. rewrite Hs in C. destruct C as (T & _).
  cbn [step]. unfold h_step. rewrite Hh, Hr. cbn [tw_act]. rewrite T.
  eexists. split; [reflexivity|]. split; reflexivity.
Qed.

(* ------------------------------------------------------------------ *)
(* returns at the deadline                                              *)

Lemma returns_at_deadline_lemma h0 script sched k :
  let s := run (init h0 script) sched in
  dk s = Some k -> sst s = SWait ->
  exists s', step s (ES BTimeout) = Some (s', RNone) /\
             sst s' = STimeoutRet k /\ rw s' = timeout_resp h0 k /\
             hst s' = hst s /\ hrest s' = hrest s /\ hexec s' = hexec s.
Proof.
  intros s Hd Hs.
  destruct (inv_reach h0 script sched) as (_ & _ & C). fold s in C.
  unfold InvC in C. rewrite Hs in C. destruct C as (_ & R).
  cbn [step]. unfold s_step. rewrite Hs, Hd.
  eexists. split; [reflexivity|]. cbn. rewrite R. repeat split; reflexivity.
Qed.

(* ------------------------------------------------------------------ *)
(* deadlines                                                            *)

Lemma with_timeout_le parent now d :
  with_timeout parent now d <= now + d /\
  (forall p, parent = Some p -> with_timeout parent now d <= p).
Proof.
  unfold with_timeout. destruct parent as [p|].
  - split; [lia|]. intros q E. inversion E. lia.
  - split; [lia|discriminate].
Qed.

Lemma rest_deadline_shrinks dur rq parent now :
  wrapped dur rq = true ->
  exists d, rest_deadline dur rq parent now = Some d /\ d <= now + dur /\
            (forall p, parent = Some p -> d <= p).
Proof.
  intros W. unfold rest_deadline. rewrite W. eexists. split; [reflexivity|].
  apply with_timeout_le.
Qed.

Lemma rest_exempt dur rq parent now :
  rq <> RqPlain -> wrapped dur rq = false /\ rest_deadline dur rq parent now = parent.
Proof.
  intros H. unfold rest_deadline, wrapped. destruct rq; try congruence;
    rewrite andb_false_r; auto.
Qed.

Lemma checked_timeout_spec route conf :
  (0 < route -> checked_timeout route conf = route) /\
  (route <= 0 -> checked_timeout route conf = conf * 1000000).
Proof.
  unfold checked_timeout. split; intros H.
  - destruct (Z.ltb_spec 0 route); [reflexivity|lia].
  - destruct (Z.ltb_spec 0 route); [lia|reflexivity].
Qed.

Lemma method_timeout_nomatch : forall confs m d,
  (forall t, ~ In (m, t) confs) -> method_timeout confs m d = d.
Proof.
  induction confs as [|[m' t] confs IH]; intros m d H; cbn; [reflexivity|].
  destruct (Z.eqb_spec m' m) as [E|E].
  - exfalso. apply (H t). left. congruence.
  - cbn. apply IH. intros t' Hin. apply (H t'). right. exact Hin.
Qed.

Lemma method_timeout_empty_name : forall confs d, method_timeout confs 0 d = d.
Proof.
  induction confs as [|[m' t] confs IH]; intros d; cbn; [reflexivity|].
  destruct (Z.eqb_spec m' 0) as [E|E]; cbn; apply IH.
Qed.

Lemma method_timeout_last pre m t post d :
  m <> 0 -> (forall t', ~ In (m, t') post) ->
  method_timeout (pre ++ (m, t) :: post) m d = t.
Proof.
  intros Hm Hp. revert d. induction pre as [|[m' t'] pre IH]; intros d; cbn.
  - rewrite Z.eqb_refl. destruct (Z.eqb_spec m 0); [contradiction|]. cbn.
    apply method_timeout_nomatch, Hp.
  - apply IH.
Qed.

Lemma server_deadline_shrinks confs m default parent now :
  exists d, server_deadline confs m default parent now = Some d /\
            d <= now + method_timeout confs m default /\
            (forall p, parent = Some p -> d <= p).
Proof. eexists. split; [reflexivity|]. apply with_timeout_le. Qed.

Lemma fx_deadline_shrinks t parent now :
  exists d, fx_deadline t parent now = Some d /\ d <= now + t /\
            (forall p, parent = Some p -> d <= p).
Proof. eexists. split; [reflexivity|]. apply with_timeout_le. Qed.

Lemma client_deadline_shrinks opts default parent now :
  let t := call_timeout opts default in
  (0 < t -> exists d, client_deadline opts default parent now = Some d /\ d <= now + t /\
                      (forall p, parent = Some p -> d <= p)) /\
  (t <= 0 -> client_deadline opts default parent now = parent).
Proof.
  intros t. unfold client_deadline. fold t. split; intros H.
  - destruct (Z.leb_spec t 0); [lia|]. eexists. split; [reflexivity|]. apply with_timeout_le.
  - destruct (Z.leb_spec t 0); [reflexivity|lia].
Qed.

(* ------------------------------------------------------------------ *)
(* exempt requests: the handler runs against the real writer            *)

Definition XInv (h0 : hdrs) (script : list act) (s : xstate) : Prop :=
  xrw s = direct h0 (xexec s) /\
  match xhst s with
  | HRun => script = xexec s ++ xrest s \/ (xrest s = [] /\ cut script (xexec s) (xdk s))
  | HDone => cut script (xexec s) (xdk s)
  | HPanicked _ => exists rest, script = xexec s ++ rest
  end.

Lemma direct_snoc h0 ex a : direct h0 (ex ++ [a]) = fst (rw_act (direct h0 ex) a).
Proof. unfold direct. rewrite fold_left_app. reflexivity. Qed.

Lemma xinv_step h0 script s e : XInv h0 script s -> XInv h0 script (xstepT s e).
Proof.
  intros [A B]. unfold xstepT, xstep. destruct e as [|k|b]; [| |split; assumption].
  - destruct (xhst s) eqn:Eh; try (split; [exact A|rewrite Eh; exact B]).
    destruct (xrest s) as [|a rest] eqn:Er.
    + cbn. split; [exact A|]. destruct B as [B|[_ B]]; [|exact B].
      exists []. split; [exact B|left; reflexivity].
    + assert (B' : script = (xexec s ++ [a]) ++ rest).
      { rewrite <- app_assoc. destruct B as [B|[B _]]; [exact B|discriminate]. }
      assert (Hgen : forall w' res, rw_act (xrw s) a = (w', res) ->
                XInv h0 script
                  match res with
                  | RPanic p => mkX w' (HPanicked p) [] (xexec s ++ [a]) (xdk s)
                  | _ => mkX w' HRun rest (xexec s ++ [a]) (xdk s)
                  end).
      { intros w' res Ea. split.
        - destruct res; cbn [xrw xexec]; rewrite direct_snoc, <- A, Ea; reflexivity.
        - destruct res; cbn; try (left; exact B'). exists rest. exact B'. }
      destruct a as [k v|k v|k|c|bs| |p];
        try solve [destruct (rw_act (xrw s) _) as [w' res] eqn:Ea;
                   generalize (Hgen w' res eq_refl); destruct res; cbn; auto].
      destruct (xdk s) eqn:Ed; split; cbn [xrw xexec xhst xrest xdk].
      * rewrite direct_snoc, <- A. reflexivity.
      * right. split; [reflexivity|]. exists rest. split; [exact B'|].
        right. split; [congruence|]. exists (xexec s). reflexivity.
      * rewrite direct_snoc, <- A. reflexivity.
      * left. exact B'.
  - destruct (xdk s) eqn:Ed; [split; [exact A|rewrite Ed; exact B]|]. cbn. split; [exact A|].
    destruct (xhst s); auto.
    + destruct B as [B|[B1 B2]]; [left; exact B|right; split; [exact B1|]].
      eapply cut_mono, B2.
    + eapply cut_mono, B.
Qed.

Lemma xinv_run h0 script sched : forall s, XInv h0 script s -> XInv h0 script (xrun s sched).
Proof.
  induction sched as [|e sched IH]; intros s I; cbn; [exact I|].
  apply IH, xinv_step, I.
Qed.

Lemma exempt_direct h0 script sched :
  let s := xrun (xinit h0 script) sched in
  xrw s = direct h0 (xexec s) /\
  (xhst s = HDone -> cut script (xexec s) (xdk s)).
Proof.
  intros s. assert (I : XInv h0 script s).
  { apply xinv_run. split; cbn; auto. }
  destruct I as [A B]. split; [exact A|]. intros Eh. rewrite Eh in B. exact B.
Qed.

(* ------------------------------------------------------------------ *)
(* result-slot wrappers                                                 *)

Definition has_check (w : wscript) : Prop := In WCheck (wsteps w).

Definition WInv (w : wscript) (s : wstate) : Prop :=
  wfinal s = wend w /\ wbl s = wbail w /\
  (exists pre, wsteps w = pre ++ wrest s) /\
  match wst s with
  | WRun => True
  | WDone r e => wend w = WRet r e \/ (wdk s <> None /\ has_check w /\ (r, e) = wbail w)
  | WPanicked p => wend w = WPanic p
  end /\
  match wsst s with
  | OWait => True
  | ORet r e => wst s = WDone r e
  | OTimeout k => wdk s = Some k
  | OPanic p => wst s = WPanicked p
  end.

Lemma winv_init w : WInv w (winit w).
Proof. unfold WInv, winit. cbn. repeat split; auto. exists []. reflexivity. Qed.

Ltac wsplit := split; [|split; [|split; [|split]]].

Lemma winv_step w s e : WInv w s -> WInv w (wstepT s e).
Proof.
  intros I. pose proof I as (F & Bl & (pre & P) & H & S).
  unfold wstepT, wstep. destruct e as [|k|b].
  - (* the work *)
    destruct (wst s) eqn:Ew; try exact I.
    assert (S' : forall st dk', dk' = wdk s ->
              match wsst s with
              | OWait => True
              | ORet r e => st = WDone r e
              | OTimeout k => dk' = Some k
              | OPanic p => st = WPanicked p
              end).
    { intros st dk' ->. destruct (wsst s); auto; congruence. }
    destruct (wrest s) as [|a rest] eqn:Er.
    + destruct (wfinal s) eqn:Ef; cbn; wsplit; cbn; auto;
        try (apply S'; reflexivity); try (exists pre; rewrite P; reflexivity);
        try (left; congruence); try congruence.
    + assert (P' : wsteps w = (pre ++ [a]) ++ rest) by (rewrite <- app_assoc; exact P).
      destruct a.
      * cbn; wsplit; cbn; auto; try (apply S'; reflexivity). exists (pre ++ [WWork]). exact P'.
      * destruct (wdk s) eqn:Ed; cbn; wsplit; cbn; auto; try (apply S'; reflexivity).
        -- exists (pre ++ WCheck :: rest). rewrite app_nil_r. exact P.
        -- right. split; [congruence|]. split.
           ++ unfold has_check. rewrite P. apply in_or_app. right. left. reflexivity.
           ++ rewrite <- Bl. destruct (wbl s); reflexivity.
        -- exists (pre ++ [WCheck]). exact P'.
  - (* the Done event *)
    destruct (wdk s) eqn:Ed; [exact I|].
    cbn; wsplit; cbn; auto.
    + exists pre. exact P.
    + destruct (wst s); auto. destruct H as [H|(H & _)]; [left; exact H|congruence].
    + destruct (wsst s); auto. congruence.
  - (* the select *)
    destruct (wsst s) eqn:Es; try exact I.
    destruct b.
    + destruct (wst s) eqn:Ew; try exact I.
      cbn; wsplit; cbn; auto. exists pre. exact P.
    + destruct (wst s) eqn:Ew; try exact I.
      cbn; wsplit; cbn; auto. exists pre. exact P.
    + destruct (wdk s) eqn:Ed; try exact I.
      cbn; wsplit; cbn; auto. exists pre. exact P.
Qed.

Lemma winv_run w sched : forall s, WInv w s -> WInv w (wrun s sched).
Proof.
  induction sched as [|e sched IH]; intros s I; cbn; [exact I|].
  apply IH, winv_step, I.
Qed.

Lemma slot_all_or_nothing_lemma w sched :
  let s := wrun (winit w) sched in
  match wsst s with
  | OWait => True
  | ORet r e => wend w = WRet r e \/ (wdk s <> None /\ has_check w /\ (r, e) = wbail w)
  | OTimeout k => wdk s = Some k
  | OPanic p => wend w = WPanic p
  end.
Proof.
  intros s. destruct (winv_run w sched _ (winv_init w)) as (_ & _ & _ & H & S). fold s in H, S.
  destruct (wsst s); auto.
  - rewrite S in H. exact H.
  - rewrite S in H. exact H.
Qed.

Lemma slot_returns_at_deadline_lemma (s : wstate) k :
  wdk s = Some k -> wsst s = OWait ->
  exists s', wstep s (ES BTimeout) = Some (s', RNone) /\ wsst s' = OTimeout k /\
             wst s' = wst s /\ wrest s' = wrest s /\ wn s' = wn s.
Proof.
  intros Hd Hs. cbn. rewrite Hs, Hd. eexists. split; [reflexivity|]. repeat split.
Qed.

Lemma slot_sticky : forall sched s, wsst s <> OWait -> wsst (wrun s sched) = wsst s.
Proof.
  induction sched as [|e sched IH]; intros s Hs; cbn; [reflexivity|].
  assert (E : wsst (wstepT s e) = wsst s).
  { unfold wstepT, wstep. destruct e as [|k|b].
    - destruct (wst s); auto. destruct (wrest s) as [|a r]; [destruct (wfinal s); auto|].
      destruct a; auto. destruct (wdk s); auto.
    - destruct (wdk s); auto.
    - destruct (wsst s) eqn:Es; cbn; auto; congruence. }
  rewrite <- E. apply IH. rewrite E. exact Hs.
Qed.

(* ------------------------------------------------------------------ *)
(* corollaries used by Props.v                                          *)

Lemma run_app s a b : run s (a ++ b) = run (run s a) b.
Proof. unfold run. apply fold_left_app. Qed.

Lemma ignoring_ctx_lemma h0 script sched :
  ignores_ctx script ->
  sst (run (init h0 script) sched) = SDoneRet ->
  rw (run (init h0 script) sched) = spec_complete h0 script /\
  spec_panic false script = None.
Proof.
  intros Hi Hs.
  destruct (all_or_nothing_lemma h0 script sched) as [E|ex E1 E2 E3 E4 E5 E6 E7|k E|p E];
    try congruence.
  assert (Hx : ex = script) by (eapply cut_ignores; eauto).
  rewrite Hx in E5, E7. split; assumption.
Qed.

Lemma no_deadline_lemma h0 script sched :
  no_d sched ->
  (forall k, sst (run (init h0 script) sched) <> STimeoutRet k) /\
  (sst (run (init h0 script) sched) = SDoneRet ->
   rw (run (init h0 script) sched) = spec_complete h0 script).
Proof.
  intros Hn.
  assert (Hd : dk (run (init h0 script) sched) = None) by (apply no_d_dk; auto).
  destruct (all_or_nothing_lemma h0 script sched) as [E|ex E1 E2 E3 E4 E5 E6 E7|k E E'|p E];
    split; try congruence.
  intros _. rewrite Hd in E4. apply cut_no_d in E4. rewrite E4 in E7. exact E7.
Qed.

Lemma response_final_lemma h0 script sched1 sched2 :
  sst (run (init h0 script) sched1) <> SWait ->
  rw (run (init h0 script) (sched1 ++ sched2)) = rw (run (init h0 script) sched1) /\
  sst (run (init h0 script) (sched1 ++ sched2)) = sst (run (init h0 script) sched1).
Proof.
  intros Hs. rewrite run_app.
  destruct (run_after_return sched2 _ Hs) as [E1 E2]. auto.
Qed.

Lemma nothing_after_timeout_lemma h0 script sched1 sched2 k :
  sst (run (init h0 script) sched1) = STimeoutRet k ->
  rw (run (init h0 script) (sched1 ++ sched2)) = timeout_resp h0 k /\
  sst (run (init h0 script) (sched1 ++ sched2)) = STimeoutRet k.
Proof.
  intros Hs.
  destruct (response_final_lemma h0 script sched1 sched2 ltac:(congruence)) as [E1 E2].
  rewrite E1, E2. split; [|exact Hs].
  destruct (all_or_nothing_lemma h0 script sched1) as [E|ex E3 E4 E5 E6 E7 E8 E9|k' E E' E''|p E];
    try congruence.
Qed.

Lemma exempt_lemma dur rq parent now h0 script sched :
  rq <> RqPlain ->
  wrapped dur rq = false /\ rest_deadline dur rq parent now = parent /\
  xrw (xrun (xinit h0 script) sched) = direct h0 (xexec (xrun (xinit h0 script) sched)) /\
  (xhst (xrun (xinit h0 script) sched) = HDone ->
   cut script (xexec (xrun (xinit h0 script) sched)) (xdk (xrun (xinit h0 script) sched))).
Proof.
  intros H. destruct (rest_exempt dur rq parent now H) as [E1 E2].
  destruct (exempt_direct h0 script sched) as [E3 E4]. auto.
Qed.

(* ------------------------------------------------------------------ *)
(* several requests through one middleware instance                     *)

Lemma nth_error_upd_same {A} (f : A -> A) : forall l i,
  nth_error (upd_nth i f l) i = option_map f (nth_error l i).
Proof.
  induction l as [|x l IH]; intros [|i]; cbn; auto.
Qed.

Lemma nth_error_upd_other {A} (f : A -> A) : forall l i j,
  i <> j -> nth_error (upd_nth i f l) j = nth_error l j.
Proof.
  induction l as [|x l IH]; intros [|i] [|j] H; cbn; auto; try congruence.
Qed.

(* frame: a step of request i leaves every other request's component alone *)
Lemma mstep_frame ss i e j : i <> j -> nth_error (mstepT ss (i, e)) j = nth_error ss j.
Proof. intros H. unfold mstepT. cbn. apply nth_error_upd_other, H. Qed.

Lemma mstep_own ss i e :
  nth_error (mstepT ss (i, e)) i = option_map (fun s => stepT s e) (nth_error ss i).
Proof. unfold mstepT. cbn. apply nth_error_upd_same. Qed.

(* each component evolves exactly as a single request under its own events *)
Lemma mrun_proj : forall sched ss j,
  nth_error (mrun ss sched) j = option_map (fun s => run s (proj j sched)) (nth_error ss j).
Proof.
  induction sched as [|[i e] sched IH]; intros ss j.
  - cbn. destruct (nth_error ss j); reflexivity.
  - cbn [mrun fold_left]. change (fold_left mstepT sched (mstepT ss (i, e))) with (mrun (mstepT ss (i, e)) sched).
    rewrite IH. unfold proj. cbn [filter fst]. destruct (Nat.eqb_spec i j) as [E|E].
    + subst j. rewrite mstep_own. cbn [map snd]. destruct (nth_error ss i); reflexivity.
    + rewrite mstep_frame by exact E. reflexivity.
Qed.

Lemma requests_isolated_lemma reqs sched i h0 script :
  nth_error reqs i = Some (h0, script) ->
  exists s, nth_error (mrun (minit reqs) sched) i = Some s /\
            s = run (init h0 script) (proj i sched) /\
            outcome h0 script s.
Proof.
  intros H. exists (run (init h0 script) (proj i sched)).
  split; [|split; [reflexivity|apply all_or_nothing_lemma]].
  rewrite mrun_proj. unfold minit.
  rewrite (map_nth_error (fun r => init (fst r) (snd r)) i reqs H). reflexivity.
Qed.

(* once request i got its timeout reply, nothing any thread of any request does changes it *)
Lemma isolated_timeout_final reqs sched1 sched2 i h0 script k s1 :
  nth_error reqs i = Some (h0, script) ->
  nth_error (mrun (minit reqs) sched1) i = Some s1 -> sst s1 = STimeoutRet k ->
  exists s2, nth_error (mrun (minit reqs) (sched1 ++ sched2)) i = Some s2 /\
             rw s2 = timeout_resp h0 k /\ sst s2 = STimeoutRet k.
Proof.
  intros H H1 Hs.
  destruct (requests_isolated_lemma reqs sched1 i h0 script H) as (s & E & Es & _).
  assert (E1 : s1 = run (init h0 script) (proj i sched1)) by congruence.
  destruct (requests_isolated_lemma reqs (sched1 ++ sched2) i h0 script H) as (s2 & E2 & Es2 & _).
  exists s2. split; [exact E2|].
  assert (P : proj i (sched1 ++ sched2) = proj i sched1 ++ proj i sched2).
  { unfold proj. rewrite filter_app, map_app. reflexivity. }
  rewrite P in Es2. rewrite E1 in Hs. rewrite Es2.
  apply nothing_after_timeout_lemma, Hs.
Qed.

(* ------------------------------------------------------------------ *)
(* several calls through one interceptor instance                       *)

Lemma wmstep_frame ss i e j : i <> j -> nth_error (wmstepT ss (i, e)) j = nth_error ss j.
Proof. intros H. unfold wmstepT. cbn. apply nth_error_upd_other, H. Qed.

Lemma wmstep_own ss i e :
  nth_error (wmstepT ss (i, e)) i = option_map (fun s => wstepT s e) (nth_error ss i).
Proof. unfold wmstepT. cbn. apply nth_error_upd_same. Qed.

Lemma wmrun_proj : forall sched ss j,
  nth_error (wmrun ss sched) j = option_map (fun s => wrun s (proj j sched)) (nth_error ss j).
Proof.
  induction sched as [|[i e] sched IH]; intros ss j.
  - cbn. destruct (nth_error ss j); reflexivity.
  - cbn [wmrun fold_left].
    change (fold_left wmstepT sched (wmstepT ss (i, e))) with (wmrun (wmstepT ss (i, e)) sched).
    rewrite IH. unfold proj. cbn [filter fst]. destruct (Nat.eqb_spec i j) as [E|E].
    + subst j. rewrite wmstep_own. cbn [map snd]. destruct (nth_error ss i); reflexivity.
    + rewrite wmstep_frame by exact E. reflexivity.
Qed.

Lemma calls_isolated_lemma ws sched i w :
  nth_error ws i = Some w ->
  exists s, nth_error (wmrun (wminit ws) sched) i = Some s /\
            s = wrun (winit w) (proj i sched) /\
            match wsst s with
            | OWait => True
            | ORet r e => wend w = WRet r e \/ (wdk s <> None /\ has_check w /\ (r, e) = wbail w)
            | OTimeout k => wdk s = Some k
            | OPanic p => wend w = WPanic p
            end.
Proof.
  intros H. exists (wrun (winit w) (proj i sched)).
  split; [|split; [reflexivity|apply slot_all_or_nothing_lemma]].
  rewrite wmrun_proj. unfold wminit. rewrite (map_nth_error winit i ws H). reflexivity.
Qed.

(* what a call returned stays what it returned, whatever any call's threads do later *)
Lemma isolated_result_final ws sched1 sched2 i w s1 :
  nth_error ws i = Some w ->
  nth_error (wmrun (wminit ws) sched1) i = Some s1 -> wsst s1 <> OWait ->
  exists s2, nth_error (wmrun (wminit ws) (sched1 ++ sched2)) i = Some s2 /\ wsst s2 = wsst s1.
Proof.
  intros H H1 Hs.
  destruct (calls_isolated_lemma ws sched1 i w H) as (s & E & Es & _).
  assert (E1 : s1 = wrun (winit w) (proj i sched1)) by congruence.
  destruct (calls_isolated_lemma ws (sched1 ++ sched2) i w H) as (s2 & E2 & Es2 & _).
  exists s2. split; [exact E2|].
  assert (P : proj i (sched1 ++ sched2) = proj i sched1 ++ proj i sched2).
  { unfold proj. rewrite filter_app, map_app. reflexivity. }
  rewrite Es2, P. unfold wrun at 1. rewrite fold_left_app.
  change (fold_left wstepT (proj i sched2) (fold_left wstepT (proj i sched1) (winit w)))
    with (wrun (wrun (winit w) (proj i sched1)) (proj i sched2)).
  rewrite <- E1. apply slot_sticky, Hs.
Qed.
