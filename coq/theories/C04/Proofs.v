(* C04 — invariants of the timeout-wrapper LTS and the lemmas behind Props.v. *)
From Coq Require Import List ZArith Bool Lia.
From GZ Require Import C04.Model.
Import ListNotations.
Open Scope Z_scope.

(* ------------------------------------------------------------------ *)
(* the real writer                                                      *)

Lemma timeout_write_fresh k fl h0 : timeout_write k (rw_fresh fl h0) = timeout_resp fl h0 k.
Proof. destruct k; reflexivity. Qed.

Lemma is_info_timeout_code k : is_info (timeout_code k) = false.
Proof. destruct k; reflexivity. Qed.

Lemma rw_commit_rfl c w : rfl (rw_commit c w) = rfl w.
Proof. unfold rw_commit. destruct (rres w); [reflexivity|]. destruct (is_info c); reflexivity. Qed.

Lemma rw_wh_rfl c w : rfl (rw_wh c w) = rfl w.
Proof. unfold rw_wh. cbn. apply rw_commit_rfl. Qed.

Lemma rw_write_rfl bs w : rfl (rw_write bs w) = rfl w.
Proof. unfold rw_write. cbn. apply rw_commit_rfl. Qed.

(* ------------------------------------------------------------------ *)
(* handler actions                                                      *)

Definition panic_res (r : ares) : option pval :=
  match r with RPanic p => Some p | _ => None end.

Lemma tw_flush_rfl to b w : rfl (snd (tw_flush to b w)) = rfl w.
Proof.
  unfold tw_flush. destruct (rfl w) eqn:E; cbn [negb].
  - destruct to; cbn [snd]; [exact E|]. rewrite rw_write_rfl.
    destruct (bfl b); [exact E|]. destruct (_ =? 200); [exact E|]. rewrite rw_wh_rfl. exact E.
  - cbn [snd]. exact E.
Qed.

Lemma hact_rfl to bw a : rfl (snd (fst (hact to bw a))) = rfl (snd bw).
Proof.
  destruct a; cbn [hact]; try (destruct (tw_act to (fst bw) _) as [b' r]; reflexivity).
  cbn. apply tw_flush_rfl.
Qed.

(* once timed out, no action of the handler touches the real writer *)
Lemma hact_timedout_rw bw a : snd (fst (hact true bw a)) = snd bw.
Proof.
  destruct a; cbn [hact]; try (destruct (tw_act true (fst bw) _) as [b' r]; reflexivity).
  cbn. unfold tw_flush. destruct (negb (rfl (snd bw))); reflexivity.
Qed.

(* a writer that is no Flusher is never touched by the handler; and only Flush touches it *)
Lemma hact_noflusher_rw to bw a : rfl (snd bw) = false -> snd (fst (hact to bw a)) = snd bw.
Proof.
  intros E. destruct a; cbn [hact]; try (destruct (tw_act to (fst bw) _) as [b' r]; reflexivity).
  cbn. unfold tw_flush. rewrite E. reflexivity.
Qed.

Lemma hact_notflush_rw to bw a : a <> AFlush -> snd (fst (hact to bw a)) = snd bw.
Proof.
  intros N. destruct a; cbn [hact]; try (destruct (tw_act to (fst bw) _) as [b' r]; reflexivity).
  congruence.
Qed.

(* ------------------------------------------------------------------ *)
(* reference semantics of the handler                                   *)

Lemma href_app : forall l1 l2 bw,
  href bw (l1 ++ l2) =
  match href bw l1 with
  | (bw', None) => href bw' l2
  | (bw', Some p) => (bw', Some p)
  end.
Proof.
  induction l1 as [|a l1 IH]; intros l2 bw; cbn [app href].
  - reflexivity.
  - destruct (hact false bw a) as [bw' res]. destruct res; try apply IH. reflexivity.
Qed.

Definition panic_of (h : hstat) : option pval :=
  match h with HPanicked p => Some p | _ => None end.

Lemma href_snoc bw0 ex a bw :
  href bw0 ex = (bw, None) ->
  href bw0 (ex ++ [a]) = (fst (hact false bw a), panic_res (snd (hact false bw a))).
Proof.
  intros H. rewrite href_app, H. cbn [href].
  destruct (hact false bw a) as [bw' res]. destruct res; reflexivity.
Qed.

Lemma hact_check to bw : hact to bw ACheckCtx = (bw, RNone).
Proof. destruct bw. reflexivity. Qed.

(* without an effective Flush the real writer is not touched by the reference run *)
Lemma href_rw_untouched : forall acts bw,
  rfl (snd bw) = false \/ has_flush acts = false ->
  snd (fst (href bw acts)) = snd bw.
Proof.
  induction acts as [|a acts IH]; intros bw H; cbn [href]; [reflexivity|].
  destruct (hact false bw a) as [bw' res] eqn:Ea.
  assert (E : snd bw' = snd bw).
  { replace bw' with (fst (hact false bw a)) by (rewrite Ea; reflexivity).
    destruct H as [H|H]; [apply hact_noflusher_rw, H|].
    apply hact_notflush_rw. intros ->. cbn in H. discriminate. }
  assert (H' : rfl (snd bw') = false \/ has_flush acts = false).
  { destruct H as [H|H]; [left; rewrite E; exact H|right].
    unfold has_flush in *. cbn in H. apply orb_false_iff in H. apply H. }
  destruct res; try (rewrite (IH bw' H'); exact E). cbn. exact E.
Qed.

Lemma committed_untouched fl h0 acts :
  fl = false \/ has_flush acts = false -> committed fl h0 acts = rw_fresh fl h0.
Proof. intros H. unfold committed. rewrite href_rw_untouched; [reflexivity|exact H]. Qed.

Lemma has_flush_app a b : has_flush (a ++ b) = has_flush a || has_flush b.
Proof. unfold has_flush. apply existsb_app. Qed.

(* ------------------------------------------------------------------ *)
(* the independent description agrees with the reference semantics      *)

(* phase 1: after the first effective Flush everything the handler writes is
   appended, status and headers stay *)
Lemma href_flushed : forall acts b w x,
  rfl w = true -> bfl b = true -> bwrote b = true -> rres w = Some x ->
  snd (href (b, w) acts) = spec_panic true true acts /\
  (spec_panic true true acts = None ->
   rw_view (flush (fst (fst (href (b, w) acts))) (snd (fst (href (b, w) acts)))) =
   (rinfo w, Some x, rbody w ++ bbody b ++ spec_body acts)).
Proof.
  induction acts as [|a acts IH]; intros b w x Hf Hb Hw Hr.
  - cbn. split; [reflexivity|]. intros _. unfold flush, rw_view, rw_write, rw_wh, rw_hdr. cbn.
    rewrite Hb, orb_true_r. cbn. rewrite Hr. cbn. rewrite app_nil_r. reflexivity.
  - destruct a as [k v|k v|k|c|bs| |p| ]; cbn [href hact tw_act fst snd spec_panic spec_body].
    + apply (IH (buf_hdr (hset k [v]) b) w x); auto.
    + apply (IH (buf_hdr (fun m => hset k (hget k m ++ [v]) m) b) w x); auto.
    + apply (IH (buf_hdr (hdel k) b) w x); auto.
    + rewrite Hw. cbn. apply (IH b w x); auto.
    + rewrite Hw. cbn.
      destruct (IH (mkBuf (bh b) (bbody b ++ bs) (bcode b) true (bfl b)) w x Hf Hb eq_refl Hr) as [I1 I2].
      split; [exact I1|]. intros Hn. rewrite (I2 Hn). cbn. rewrite <- !app_assoc. reflexivity.
    + apply (IH b w x); auto.
    + cbn. split; [reflexivity|discriminate].
    + unfold tw_flush. rewrite Hf. cbn. rewrite Hb, Hw.
      set (w1 := rw_hdr (fun d => overlay d (bh b)) w).
      assert (Hr1 : rres w1 = Some x) by exact Hr.
      assert (Hw1 : rw_write (bbody b) w1 =
                    mkRW (rfl w) (rlive w1) (Some x) (rbody w ++ bbody b) (rinfo w) (rcode w)).
      { unfold rw_write, rw_commit. rewrite Hr1. cbn. rewrite Hr. reflexivity. }
      rewrite Hw1.
      destruct (IH (mkBuf (bh b) [] (bcode b) true true)
                   (mkRW (rfl w) (rlive w1) (Some x) (rbody w ++ bbody b) (rinfo w) (rcode w)) x
                   Hf eq_refl eq_refl eq_refl) as [I1 I2].
      split; [exact I1|]. intros Hn. rewrite (I2 Hn). cbn. rewrite <- app_assoc. reflexivity.
Qed.

Definition fl_code (b : tbuf) : Z := if bwrote b then bcode b else 200.
Definition fl_writer (b : tbuf) (h0 : hdrs) : rwriter :=
  rw_write (bbody b)
    (if fl_code b =? 200 then rw_hdr (fun d => overlay d (bh b)) (rw_fresh true h0)
     else rw_wh (fl_code b) (rw_hdr (fun d => overlay d (bh b)) (rw_fresh true h0))).

Lemma tw_flush_first b h0 :
  bfl b = false ->
  tw_flush false b (rw_fresh true h0) = (mkBuf (bh b) [] (fl_code b) true true, fl_writer b h0).
Proof. intros Hb. unfold tw_flush, fl_writer, fl_code. cbn [rfl rw_fresh negb]. rewrite Hb. reflexivity. Qed.

Lemma tw_flush_noflusher to b h0 : tw_flush to b (rw_fresh false h0) = (b, rw_fresh false h0).
Proof. reflexivity. Qed.

Lemma fl_writer_shape b h0 :
  rfl (fl_writer b h0) = true /\ (exists x, rres (fl_writer b h0) = Some x) /\
  (is_info (fl_code b) = false ->
   fl_writer b h0 = mkRW true (overlay h0 (bh b)) (Some (fl_code b, overlay h0 (bh b))) (bbody b) [] (fl_code b)).
Proof.
  unfold fl_writer. split; [|split].
  - rewrite rw_write_rfl. destruct (_ =? 200); [reflexivity|]. rewrite rw_wh_rfl. reflexivity.
  - destruct (_ =? 200); [eexists; reflexivity|].
    unfold rw_write, rw_wh, rw_hdr, rw_fresh. cbn. destruct (is_info _); cbn; eexists; reflexivity.
  - intros Hic. destruct (Z.eqb_spec (fl_code b) 200) as [E|E].
    + rewrite E. reflexivity.
    + unfold rw_write, rw_wh, rw_hdr, rw_fresh. cbn. rewrite Hic. cbn. reflexivity.
Qed.

(* phase 0: nothing flushed yet, the real writer is still fresh *)
Definition status_ok (fl : bool) (b : tbuf) (acts : list act) : Prop :=
  if bwrote b then is_info (bcode b) = false else info_first fl acts = false.

Lemma href_unflushed : forall acts fl h0 b,
  bfl b = false ->
  (bwrote b = false -> bcode b = 200) ->
  snd (href (b, rw_fresh fl h0) acts) = spec_panic fl (bwrote b) acts /\
  (spec_panic fl (bwrote b) acts = None ->
   status_ok fl b acts ->
   rw_view (flush (fst (fst (href (b, rw_fresh fl h0) acts))) (snd (fst (href (b, rw_fresh fl h0) acts)))) =
   ([], Some (if bwrote b then bcode b else spec_status fl acts,
              overlay h0 (fold_left spec_hdr_act (if fl then before_flush acts else acts) (bh b))),
    bbody b ++ spec_body acts)).
Proof.
  induction acts as [|a acts IH]; intros fl h0 b Hb Hc.
  - cbn. split; [reflexivity|]. intros _ Hi. rewrite app_nil_r.
    assert (Hi' : is_info (bcode b) = false).
    { unfold status_ok in Hi. destruct (bwrote b) eqn:E; [exact Hi|rewrite (Hc eq_refl); reflexivity]. }
    assert (Hs : (if bwrote b then bcode b else 200) = bcode b).
    { destruct (bwrote b); [reflexivity|symmetry; apply Hc; reflexivity]. }
    rewrite Hs. unfold flush, rw_view, rw_write, rw_wh, rw_hdr, rw_fresh. rewrite Hb, orb_false_r.
    assert (Hfold : fold_left spec_hdr_act (if fl then [] else []) (bh b) = bh b) by (destruct fl; reflexivity).
    rewrite Hfold.
    destruct (Z.eqb_spec (bcode b) 200) as [E|E]; cbn.
    + rewrite E. reflexivity.
    + rewrite Hi'. cbn. reflexivity.
  - destruct a as [k v|k v|k|c|bs| |p| ];
      cbn [href hact tw_act fst snd spec_panic spec_body spec_status info_first before_flush].
    + destruct (IH fl h0 (buf_hdr (hset k [v]) b) Hb Hc) as [I1 I2]. split; [exact I1|].
      intros Hn Hf. rewrite (I2 Hn Hf). cbn. destruct fl; reflexivity.
    + destruct (IH fl h0 (buf_hdr (fun m => hset k (hget k m ++ [v]) m) b) Hb Hc) as [I1 I2].
      split; [exact I1|]. intros Hn Hf. rewrite (I2 Hn Hf). cbn. destruct fl; reflexivity.
    + destruct (IH fl h0 (buf_hdr (hdel k) b) Hb Hc) as [I1 I2]. split; [exact I1|].
      intros Hn Hf. rewrite (I2 Hn Hf). cbn. destruct fl; reflexivity.
    + pose proof (IH fl h0 b Hb Hc) as IHb. unfold status_ok in *. destruct (bwrote b) eqn:Ew.
      * cbn. destruct IHb as [I1 I2]. split; [exact I1|].
        intros Hn Hf. rewrite (I2 Hn Hf). destruct fl; reflexivity.
      * destruct (bad_code c) eqn:Eb; [cbn; split; [reflexivity|discriminate]|]. cbn.
        destruct (IH fl h0 (mkBuf (bh b) (bbody b) c true (bfl b)) Hb ltac:(discriminate)) as [I1 I2].
        split; [exact I1|]. intros Hn Hf. cbn in Hf.
        cbn in I2. rewrite (I2 Hn Hf). rewrite Hf. destruct fl; reflexivity.
    + cbn.
      destruct (IH fl h0 (mkBuf (bh b) (bbody b ++ bs) (if bwrote b then bcode b else 200) true (bfl b))
                   Hb ltac:(discriminate)) as [I1 I2].
      split; [exact I1|]. intros Hn Hf. cbn in I2.
      assert (Hi2 : status_ok fl (mkBuf (bh b) (bbody b ++ bs) (if bwrote b then bcode b else 200) true (bfl b)) acts).
      { unfold status_ok in *. cbn. destruct (bwrote b); [exact Hf|reflexivity]. }
      rewrite (I2 Hn Hi2).
      rewrite <- app_assoc. destruct (bwrote b); destruct fl; reflexivity.
    + destruct (IH fl h0 b Hb Hc) as [I1 I2]. destruct b; cbn in *. split; [exact I1|].
      intros Hn Hf. rewrite (I2 Hn Hf). destruct fl; reflexivity.
    + cbn. split; [reflexivity|discriminate].
    + destruct fl.
      * (* an effective Flush: the header goes out *)
        rewrite (tw_flush_first b h0 Hb). rewrite orb_true_r.
        destruct (fl_writer_shape b h0) as (HW1 & [x HW2] & Hw).
        destruct (href_flushed acts (mkBuf (bh b) [] (fl_code b) true true) (fl_writer b h0) x
                               HW1 eq_refl eq_refl HW2) as [I1 I2].
        split; [exact I1|].
        intros Hn Hf.
        assert (Hic : is_info (fl_code b) = false).
        { unfold fl_code, status_ok in *. destruct (bwrote b); [exact Hf|reflexivity]. }
        rewrite (I2 Hn). rewrite (Hw Hic) in HW2 |- *. cbn in HW2. inversion HW2; subst x. cbn.
        unfold fl_code. destruct (bwrote b); reflexivity.
      * (* the writer is no Flusher: nothing happens *)
        rewrite tw_flush_noflusher. rewrite orb_false_r.
        destruct (IH false h0 b Hb Hc) as [I1 I2]. split; [exact I1|]. exact I2.
Qed.

Lemma script_panic_spec fl h0 acts : snd (href (start fl h0) acts) = spec_panic fl false acts.
Proof. apply (href_unflushed acts fl h0 buf0); reflexivity. Qed.

Lemma info_first_no_infos : forall acts fl h0 m,
  info_first fl acts = false -> spec_infos fl h0 m acts = [].
Proof.
  induction acts as [|a acts IH]; intros fl h0 m H; [reflexivity|].
  destruct a; cbn in *; try (apply IH; exact H); try reflexivity.
  - rewrite H. reflexivity.
  - destruct fl; [reflexivity|apply IH; exact H].
Qed.

(* the client's view of the complete response is the independent description *)
Lemma complete_view_spec fl h0 acts :
  spec_panic fl false acts = None -> info_first fl acts = false ->
  rw_view (complete fl h0 acts) = spec_view fl h0 acts.
Proof.
  intros Hn Hi. unfold complete, spec_view, spec_frozen, spec_hdrs, start. cbv zeta.
  destruct (href_unflushed acts fl h0 buf0 eq_refl ltac:(reflexivity)) as [_ H].
  cbn [bwrote buf0] in H. rewrite (H Hn Hi). rewrite (info_first_no_infos _ _ _ _ Hi). reflexivity.
Qed.

Lemma before_flush_noflush : forall acts, has_flush acts = false -> before_flush acts = acts.
Proof.
  induction acts as [|a acts IH]; intros H; [reflexivity|].
  unfold has_flush in *. destruct a; cbn in *; try (f_equal; apply IH; exact H). discriminate.
Qed.

Lemma spec_status_noflush : forall acts fl, has_flush acts = false -> spec_status fl acts = spec_status false acts.
Proof.
  induction acts as [|a acts IH]; intros fl H; [reflexivity|].
  unfold has_flush in *. destruct a; cbn in *; try (apply IH; exact H); try reflexivity.
  - rewrite (IH fl H). reflexivity.
  - discriminate.
Qed.

Lemma flush_rfl b w : rfl (flush b w) = rfl w.
Proof.
  unfold flush. rewrite rw_write_rfl. destruct (_ || _); [reflexivity|]. rewrite rw_wh_rfl. reflexivity.
Qed.

Lemma flush_unfrozen_live b w c hs :
  rres w = None -> rres (flush b w) = Some (c, hs) -> hs = rlive (flush b w).
Proof.
  intros Hr. unfold flush.
  destruct (_ || _).
  - unfold rw_write, rw_commit, rw_hdr. cbn. rewrite Hr. cbn. intros H; inversion H; reflexivity.
  - unfold rw_write, rw_wh, rw_commit, rw_hdr. cbn. rewrite Hr.
    destruct (is_info (bcode b)); cbn; intros H; inversion H; reflexivity.
Qed.

(* the outer record after the done branch on an untouched writer is the status the client got
   (unless a 1xx went out: known finding) *)
Lemma flush_fresh_code b fl h0 c hs :
  rres (flush b (rw_fresh fl h0)) = Some (c, hs) -> rinfo (flush b (rw_fresh fl h0)) = [] ->
  rcode (flush b (rw_fresh fl h0)) = c.
Proof.
  unfold flush. destruct ((bcode b =? 200) || bfl b) eqn:E.
  - unfold rw_write, rw_commit, rw_hdr, rw_fresh. cbn. intros H _. inversion H. reflexivity.
  - unfold rw_write, rw_wh, rw_commit, rw_hdr, rw_fresh. cbn.
    destruct (is_info (bcode b)); cbn; intros H Hi; [discriminate|]. inversion H. reflexivity.
Qed.

(* without an effective Flush the whole real writer (live header map included) is described *)
Lemma complete_spec fl h0 acts :
  fl = false \/ has_flush acts = false ->
  spec_panic fl false acts = None -> info_first fl acts = false ->
  complete fl h0 acts = spec_complete fl h0 acts.
Proof.
  intros Hf Hn Hi.
  pose proof (complete_view_spec fl h0 acts Hn Hi) as V.
  assert (Hw : snd (fst (href (start fl h0) acts)) = rw_fresh fl h0).
  { apply (href_rw_untouched acts (start fl h0)). destruct Hf as [Hf|Hf]; [left; exact Hf|right; exact Hf]. }
  unfold complete in *. cbv zeta in *. rewrite Hw in *.
  set (b := fst (fst (href (start fl h0) acts))) in *.
  assert (Hl : forall c hs, rres (flush b (rw_fresh fl h0)) = Some (c, hs) -> hs = rlive (flush b (rw_fresh fl h0))).
  { intros c hs. apply flush_unfrozen_live. reflexivity. }
  pose proof (flush_rfl b (rw_fresh fl h0)) as Hfl.
  pose proof (flush_fresh_code b fl h0) as Hcd.
  unfold rw_view, spec_view, spec_frozen in V.
  destruct (flush b (rw_fresh fl h0)) as [f l r bd inf cd]. cbn in *.
  inversion V; subst. clear V.
  rewrite <- (Hl _ _ eq_refl). rewrite (Hcd _ _ eq_refl (info_first_no_infos _ _ _ _ Hi)).
  unfold spec_complete.
  assert (E1 : (if fl then before_flush acts else acts) = acts).
  { destruct Hf as [->|Hf]; [reflexivity|]. destruct fl; [apply before_flush_noflush, Hf|reflexivity]. }
  assert (E2 : spec_status fl acts = spec_status false acts).
  { destruct Hf as [->|Hf]; [reflexivity|apply spec_status_noflush, Hf]. }
  rewrite E1, E2, (info_first_no_infos _ _ _ _ Hi). reflexivity.
Qed.

(* ------------------------------------------------------------------ *)
(* what the handler's own Flush calls pass to the client                *)

Lemma upto_last_flush_noflush acts : has_flush acts = false -> upto_last_flush acts = [].
Proof. destruct acts as [|a r]; [reflexivity|]. intros H. cbn [upto_last_flush]. rewrite H. reflexivity. Qed.

Lemma has_flush_cons a r :
  has_flush (a :: r) = (match a with AFlush => true | _ => false end) || has_flush r.
Proof. reflexivity. Qed.

(* phase 1: after the first effective Flush the committed body grows with every further Flush *)
Lemma committed_flushed : forall acts b w x,
  rfl w = true -> bfl b = true -> bwrote b = true -> rres w = Some x ->
  spec_panic true true acts = None ->
  rw_view (snd (fst (href (b, w) acts))) =
  (rinfo w, Some x,
   rbody w ++ (if has_flush acts then bbody b ++ spec_body (upto_last_flush acts) else [])).
Proof.
  induction acts as [|a acts IH]; intros b w x Hf Hb Hw Hr Hn.
  - cbn. rewrite app_nil_r. unfold rw_view. rewrite Hr. reflexivity.
  - destruct a as [k v|k v|k|c|bs| |p| ];
      cbn [href hact tw_act fst snd spec_panic] in *; rewrite ?has_flush_cons; cbn [orb].
    + rewrite (IH (buf_hdr (hset k [v]) b) w x); auto.
      destruct (has_flush acts) eqn:E; [cbn [upto_last_flush]; rewrite has_flush_cons, E|]; reflexivity.
    + rewrite (IH (buf_hdr (fun m => hset k (hget k m ++ [v]) m) b) w x); auto.
      destruct (has_flush acts) eqn:E; [cbn [upto_last_flush]; rewrite has_flush_cons, E|]; reflexivity.
    + rewrite (IH (buf_hdr (hdel k) b) w x); auto.
      destruct (has_flush acts) eqn:E; [cbn [upto_last_flush]; rewrite has_flush_cons, E|]; reflexivity.
    + rewrite Hw in *. cbn [fst snd] in *. rewrite (IH b w x); auto.
      destruct (has_flush acts) eqn:E; [cbn [upto_last_flush]; rewrite has_flush_cons, E|]; reflexivity.
    + rewrite Hw. cbn [fst snd].
      rewrite (IH (mkBuf (bh b) (bbody b ++ bs) (bcode b) true (bfl b)) w x); auto.
      destruct (has_flush acts) eqn:E; [|reflexivity].
      cbn [upto_last_flush]. rewrite has_flush_cons, E. cbn. rewrite <- app_assoc. reflexivity.
    + rewrite (IH b w x); auto.
      destruct (has_flush acts) eqn:E; [cbn [upto_last_flush]; rewrite has_flush_cons, E|]; reflexivity.
    + discriminate.
    + unfold tw_flush. rewrite Hf. cbn [negb fst snd]. rewrite Hb, Hw.
      set (w1 := rw_hdr (fun d => overlay d (bh b)) w).
      assert (Hw1 : rw_write (bbody b) w1 =
                    mkRW (rfl w) (rlive w1) (Some x) (rbody w ++ bbody b) (rinfo w) (rcode w)).
      { unfold rw_write, rw_commit. assert (Hr1 : rres w1 = Some x) by exact Hr. rewrite Hr1. cbn. rewrite Hr. reflexivity. }
      rewrite Hw1.
      rewrite (IH (mkBuf (bh b) [] (bcode b) true true)
                  (mkRW (rfl w) (rlive w1) (Some x) (rbody w ++ bbody b) (rinfo w) (rcode w)) x Hf eq_refl eq_refl eq_refl Hn).
      cbn [rinfo rbody bbody upto_last_flush]. rewrite has_flush_cons. cbn [orb spec_body].
      rewrite <- app_assoc. destruct (has_flush acts) eqn:E.
      * reflexivity.
      * rewrite (upto_last_flush_noflush _ E). reflexivity.
Qed.

(* phase 0, on a Flusher-capable writer, for a run that does flush *)
Lemma committed_unflushed : forall acts h0 b,
  bfl b = false -> (bwrote b = false -> bcode b = 200) ->
  has_flush acts = true ->
  spec_panic true (bwrote b) acts = None -> status_ok true b acts ->
  rw_view (snd (fst (href (b, rw_fresh true h0) acts))) =
  ([], Some (if bwrote b then bcode b else spec_status true acts,
             overlay h0 (fold_left spec_hdr_act (before_flush acts) (bh b))),
   bbody b ++ spec_body (upto_last_flush acts)).
Proof.
  induction acts as [|a acts IH]; intros h0 b Hb Hc Hfl Hn Hi; [discriminate|].
  destruct a as [k v|k v|k|c|bs| |p| ];
    cbn [href hact tw_act fst snd spec_panic spec_body spec_status before_flush] in *;
    cbn [upto_last_flush]; rewrite Hfl; rewrite has_flush_cons in Hfl; cbn [orb] in Hfl.
  - rewrite (IH h0 (buf_hdr (hset k [v]) b)); auto.
  - rewrite (IH h0 (buf_hdr (fun m => hset k (hget k m ++ [v]) m) b)); auto.
  - rewrite (IH h0 (buf_hdr (hdel k) b)); auto.
  - pose proof (IH h0 b Hb Hc Hfl) as I. unfold status_ok in *. destruct (bwrote b) eqn:Ew.
    + cbn [fst snd]. rewrite (I Hn Hi). reflexivity.
    + destruct (bad_code c) eqn:Eb; [discriminate|]. cbn. cbn in Hi.
      rewrite (IH h0 (mkBuf (bh b) (bbody b) c true (bfl b)) Hb ltac:(discriminate) Hfl Hn Hi).
      cbn. rewrite Hi. reflexivity.
  - cbn.
    assert (Hi2 : status_ok true (mkBuf (bh b) (bbody b ++ bs) (if bwrote b then bcode b else 200) true (bfl b)) acts).
    { unfold status_ok in *. cbn. destruct (bwrote b); [exact Hi|reflexivity]. }
    rewrite (IH h0 (mkBuf (bh b) (bbody b ++ bs) (if bwrote b then bcode b else 200) true (bfl b))
                Hb ltac:(discriminate) Hfl Hn Hi2).
    cbn. rewrite <- app_assoc. destruct (bwrote b); reflexivity.
  - assert (Hi2 : status_ok true b acts) by (unfold status_ok in *; destruct (bwrote b); exact Hi).
    pose proof (IH h0 b Hb Hc Hfl Hn Hi2) as I. destruct b; cbn in *. exact I.
  - discriminate.
  - rewrite (tw_flush_first b h0 Hb). rewrite orb_true_r in Hn.
    destruct (fl_writer_shape b h0) as (HW1 & [x HW2] & Hw).
    assert (Hic : is_info (fl_code b) = false).
    { unfold fl_code, status_ok in *. destruct (bwrote b); [exact Hi|reflexivity]. }
    rewrite (committed_flushed acts (mkBuf (bh b) [] (fl_code b) true true) (fl_writer b h0) x
                               HW1 eq_refl eq_refl HW2 Hn).
    rewrite (Hw Hic) in HW2 |- *. cbn in HW2. inversion HW2; subst x. cbn.
    unfold fl_code. destruct (has_flush acts) eqn:E.
    + destruct (bwrote b); reflexivity.
    + rewrite (upto_last_flush_noflush _ E). cbn. destruct (bwrote b); reflexivity.
Qed.

(* the client's view of what the handler has flushed itself is the independent description *)
Lemma committed_view_spec fl h0 pre :
  spec_panic fl false pre = None -> info_first fl pre = false ->
  rw_view (committed fl h0 pre) = spec_committed fl h0 pre.
Proof.
  intros Hn Hi. unfold spec_committed.
  destruct (fl && has_flush pre) eqn:E.
  - apply andb_true_iff in E. destruct E as [-> Hf].
    unfold committed, start.
    rewrite (committed_unflushed pre h0 buf0 eq_refl ltac:(reflexivity) Hf Hn Hi).
    unfold spec_view, spec_frozen, spec_hdrs. cbn [fst snd bwrote buf0 bh bbody app].
    rewrite (info_first_no_infos _ _ _ _ Hi). reflexivity.
  - rewrite committed_untouched; [reflexivity|].
    apply andb_false_iff in E. exact E.
Qed.

Lemma rw_wh_final c w :
  is_info c = false -> rres w = None ->
  rw_wh c w = mkRW (rfl w) (rlive w) (Some (c, rlive w)) (rbody w) (rinfo w) c.
Proof. intros Hi Hr. unfold rw_wh, rw_commit. rewrite Hr, Hi. reflexivity. Qed.

Lemma rw_commit_frozen c w x : rres w = Some x -> rw_commit c w = w.
Proof. intros Hr. unfold rw_commit. rewrite Hr. reflexivity. Qed.

(* a superfluous WriteHeader changes only the outer record *)
Lemma rw_wh_frozen c w x :
  rres w = Some x -> rw_wh c w = mkRW (rfl w) (rlive w) (rres w) (rbody w) (rinfo w) c.
Proof. intros Hr. unfold rw_wh. rewrite (rw_commit_frozen _ _ _ Hr). reflexivity. Qed.

Lemma timeout_write_view k w :
  rw_view (timeout_write k w) =
  match rres w with
  | Some x => (rinfo w, Some x, rbody w ++ reason)
  | None => (rinfo w, Some (timeout_code k, rlive w), rbody w ++ reason)
  end.
Proof.
  unfold timeout_write. destruct (rres w) eqn:E.
  - rewrite (rw_wh_frozen _ _ _ E). unfold rw_write. erewrite rw_commit_frozen by (cbn; exact E).
    unfold rw_view. cbn. rewrite E. reflexivity.
  - rewrite (rw_wh_final _ _ (is_info_timeout_code k) E). unfold rw_write.
    erewrite rw_commit_frozen by reflexivity. reflexivity.
Qed.

(* the outer middlewares' record after the timeout branch is the timeout status, whatever
   the handler did before — even if its own status is already on the wire *)
Lemma timeout_write_code k w : rcode (timeout_write k w) = timeout_code k.
Proof. unfold timeout_write, rw_write, rw_wh. cbn. unfold rw_commit. destruct (rres _); [reflexivity|]. destruct (is_info 200); reflexivity. Qed.

Lemma committed_unfrozen_live fl h0 pre :
  rres (committed fl h0 pre) = None -> spec_panic fl false pre = None -> info_first fl pre = false ->
  rlive (committed fl h0 pre) = h0.
Proof.
  intros Hr Hn Hi.
  pose proof (committed_view_spec fl h0 pre Hn Hi) as V. unfold spec_committed in V.
  destruct (fl && has_flush pre) eqn:E.
  - unfold rw_view, spec_view in V. cbn in V. inversion V. congruence.
  - rewrite committed_untouched; [reflexivity|]. apply andb_false_iff in E. exact E.
Qed.

(* the timeout result, as the client sees it: the flushed prefix of some prefix of the
   script, then the reply; for scripts that do not flush through: the reply alone *)
Lemma timeout_view_spec fl h0 k pre :
  spec_panic fl false pre = None -> info_first fl pre = false ->
  rw_view (timeout_write k (committed fl h0 pre)) = timeout_view fl h0 k pre.
Proof.
  intros Hn Hi. rewrite timeout_write_view. unfold timeout_view.
  pose proof (committed_view_spec fl h0 pre Hn Hi) as V.
  pose proof (committed_unfrozen_live fl h0 pre) as L.
  destruct (spec_committed fl h0 pre) as [[infos res] body].
  unfold rw_view in V. inversion V as [[V1 V2 V3]]. rewrite V2 in *.
  destruct res as [x|]; [reflexivity|]. rewrite (L eq_refl Hn Hi). reflexivity.
Qed.

(* ------------------------------------------------------------------ *)
(* the invariant of the REST LTS                                        *)

(* [ex] is the part of [script] the handler chose to run: all of it, or — once the
   Done event exists — up to one of its context checks *)
Definition cut (script ex : list act) (d : option kind) : Prop :=
  exists rest, script = ex ++ rest /\
    (rest = [] \/ (d <> None /\ exists pre, ex = pre ++ [ACheckCtx])).

Lemma cut_mono script ex d k : cut script ex d -> cut script ex (Some k).
Proof.
  intros (rest & E & [H|[_ H]]); exists rest; split; auto.
  right. split; [discriminate|exact H].
Qed.

Lemma cut_prefix script ex d : cut script ex d -> exists rest, script = ex ++ rest.
Proof. intros (rest & E & _). exists rest. exact E. Qed.

Section Inv.
Variables (fl : bool) (h0 : hdrs) (script : list act).

(* while not timed out, the timeoutWriter and the panic state are those of the reference run *)
Definition InvA (s : state) : Prop :=
  tto s = false ->
  fst (fst (href (start fl h0) (hexec s))) = tb s /\
  snd (href (start fl h0) (hexec s)) = panic_of (hst s).

Definition InvB (s : state) : Prop :=
  match hst s with
  | HRun => script = hexec s ++ hrest s \/ (hrest s = [] /\ cut script (hexec s) (dk s))
  | HDone => cut script (hexec s) (dk s)
  | HPanicked _ => exists rest, script = hexec s ++ rest
  end.

Definition InvC (s : state) : Prop :=
  match sst s with
  | SWait => tto s = false /\ rw s = committed fl h0 (hexec s)
  | SDoneRet => tto s = false /\ hst s = HDone /\ rw s = complete fl h0 (hexec s)
  | STimeoutRet k =>
    tto s = true /\ dk s = Some k /\ rw s = timeout_write k (committed fl h0 (sexec s)) /\
    exists post, hexec s = sexec s ++ post
  | SPanicRet p => tto s = false /\ hst s = HPanicked p /\ rw s = committed fl h0 (hexec s)
  end.

Definition Inv (s : state) : Prop := InvA s /\ InvB s /\ InvC s.

Lemma inv_init : Inv (init fl h0 script).
Proof. repeat split; cbn; auto. Qed.

Lemma inv_d s k : Inv s -> Inv (d_step k s).
Proof.
  intros (A & B & C). unfold d_step. destruct (dk s) eqn:Ed; [exact (conj A (conj B C))|].
  split; [|split].
  - exact A.
  - unfold InvB in *. cbn. destruct (hst s); auto.
    + destruct B as [B|[B1 B2]]; [left; exact B|right; split; [exact B1|]].
      rewrite Ed in B2. eapply cut_mono, B2.
    + rewrite Ed in B. eapply cut_mono, B.
  - unfold InvC in *. cbn. destruct (sst s); auto.
    destruct C as (_ & C & _). congruence.
Qed.

Lemma inv_s s b s' : Inv s -> s_step b s = Some s' -> Inv s'.
Proof.
  intros (A & B & C) H. unfold s_step in H.
  destruct (sst s) eqn:Es; try discriminate.
  unfold InvC in C. rewrite Es in C. destruct C as [C1 C2].
  unfold InvA, InvB in *.
  destruct b.
  - destruct (hst s) eqn:Eh; try discriminate. inversion H; subst s'; clear H.
    split; [|split].
    + cbn. exact A.
    + cbn. exact B.
    + cbn. auto.
  - destruct (hst s) eqn:Eh; try discriminate. inversion H; subst s'; clear H.
    split; [|split].
    + cbn. exact A.
    + cbn. exact B.
    + cbn. split; [exact C1|]. split; [reflexivity|].
      rewrite C2. unfold complete, committed. cbv zeta. rewrite (proj1 (A C1)). reflexivity.
  - destruct (dk s) eqn:Ed; try discriminate. inversion H; subst s'; clear H.
    split; [|split].
    + cbn. discriminate.
    + cbn. exact B.
    + cbn. split; [reflexivity|]. split; [reflexivity|]. split; [rewrite C2; reflexivity|].
      exists []. rewrite app_nil_r. reflexivity.
Qed.

Lemma href_pair bw0 ex (b : tbuf) (w : rwriter) p :
  fst (fst (href bw0 ex)) = b -> snd (fst (href bw0 ex)) = w -> snd (href bw0 ex) = p ->
  href bw0 ex = ((b, w), p).
Proof. destruct (href bw0 ex) as [[b' w'] p']. cbn. intros -> -> ->. reflexivity. Qed.

Lemma inv_h s s' r : Inv s -> h_step s = Some (s', r) -> Inv s'.
Proof.
  intros (A & B & C) H. unfold h_step in H. unfold InvA in A. unfold InvB in B.
  destruct (hst s) eqn:Eh; try discriminate.
  (* the handler is running, so ServeHTTP either waits or has timed out *)
  assert (Cw : (sst s = SWait /\ tto s = false /\ rw s = committed fl h0 (hexec s)) \/
               (exists k post, sst s = STimeoutRet k /\ tto s = true /\ dk s = Some k /\
                               rw s = timeout_write k (committed fl h0 (sexec s)) /\
                               hexec s = sexec s ++ post)).
  { unfold InvC in C. destruct (sst s) eqn:Es.
    - left. tauto.
    - destruct C as (_ & C & _). congruence.
    - right. destruct C as (C1 & C2 & C3 & post & C4). exists k, post. tauto.
    - destruct C as (_ & C & _). congruence. }
  destruct (hrest s) as [|a rest] eqn:Er.
  - (* the handler returns *)
    inversion H; subst s' r; clear H. split; [|split].
    + unfold InvA. cbn. intros T. exact (A T).
    + unfold InvB. cbn. destruct B as [B|[_ B]]; [|exact B].
      exists []. split; [exact B|left; reflexivity].
    + unfold InvC in *. cbn. destruct (sst s); auto.
      * destruct C as (_ & C & _). congruence.
      * destruct C as (_ & C & _). congruence.
  - assert (B' : script = hexec s ++ a :: rest) by (destruct B as [B|[B _]]; [exact B|discriminate]).
    assert (B'' : script = (hexec s ++ [a]) ++ rest) by (rewrite <- app_assoc; exact B').
    (* what a step does to the invariant, given the new buffer/writer and status *)
    assert (Hgen : forall b' w' res hs' rest',
              hact (tto s) (tb s, rw s) a = ((b', w'), res) ->
              hs' = match res with RPanic p => HPanicked p | _ => HRun end ->
              (match res with RPanic _ => True | _ => rest' = rest end) ->
              Inv (mkSt b' (tto s) w' hs' rest' (hexec s ++ [a]) (dk s) (sst s) (sexec s))).
    { intros b' w' res hs' rest' Ea -> Hr.
      destruct Cw as [(Es & T & R)|(k & post & Es & T & Ed & R & P)].
      - (* not timed out: one more step of the reference run *)
        destruct (A T) as [A1 A2]. cbn in A2.
        assert (HR : href (start fl h0) (hexec s) = ((tb s, rw s), None)).
        { apply href_pair; auto. }
        pose proof (href_snoc _ _ a _ HR) as Hs. rewrite T in Ea. rewrite Ea in Hs. cbn in Hs.
        split; [|split].
        + unfold InvA. cbn. intros _. rewrite Hs. cbn. split; [reflexivity|].
          destruct res; reflexivity.
        + unfold InvB. cbn. destruct res; try (left; rewrite Hr; exact B''). exists rest. exact B''.
        + unfold InvC. cbn. rewrite Es. split; [exact T|]. unfold committed. rewrite Hs. reflexivity.
      - (* timed out: the real writer is out of reach *)
        assert (Ew : w' = rw s).
        { rewrite T in Ea. pose proof (hact_timedout_rw (tb s, rw s) a) as Hw. rewrite Ea in Hw. exact Hw. }
        split; [|split].
        + unfold InvA. cbn. congruence.
        + unfold InvB. cbn. destruct res; try (left; rewrite Hr; exact B''). exists rest. exact B''.
        + unfold InvC. cbn. rewrite Es. split; [exact T|]. split; [exact Ed|]. split; [congruence|].
          exists (post ++ [a]). rewrite P, app_assoc. reflexivity. }
    destruct a as [k v|k v|k|c|bs| |p| ];
      [ | | | | |shelve| | ];
      (destruct (hact (tto s) (tb s, rw s) _) as [[b' w'] res] eqn:Ea;
           destruct res; inversion H; subst s' r; clear H;
           (eapply (Hgen _ _ _ _ _ eq_refl); [reflexivity|exact I || reflexivity])).
    Unshelve.
    (* the context check *)
    pose proof (hact_check (tto s) (tb s, rw s)) as Ea.
    destruct (dk s) eqn:Ed; inversion H; subst s' r; clear H.
    + (* it saw Done: the handler returns early *)
      pose proof (Hgen (tb s) (rw s) RNone HRun [] Ea eq_refl) as G.
      (* Hgen wants rest' = rest; redo the InvB part by hand *)
      clear G.
      destruct Cw as [(Es & T & R)|(k' & post & Es & T & Ed' & R & P)].
      * destruct (A T) as [A1 A2]. cbn in A2.
        assert (HR : href (start fl h0) (hexec s) = ((tb s, rw s), None)) by (apply href_pair; auto).
        pose proof (href_snoc _ _ ACheckCtx _ HR) as Hs. rewrite hact_check in Hs. cbn in Hs.
        split; [|split].
        -- unfold InvA. cbn. intros _. rewrite Hs. split; reflexivity.
        -- unfold InvB. cbn. right. split; [reflexivity|].
           exists rest. split; [exact B''|]. right. split; [discriminate|]. exists (hexec s). reflexivity.
        -- unfold InvC. cbn. rewrite Es. split; [exact T|]. unfold committed. rewrite Hs. reflexivity.
      * split; [|split].
        -- unfold InvA. cbn. congruence.
        -- unfold InvB. cbn. right. split; [reflexivity|].
           exists rest. split; [exact B''|]. right. split; [discriminate|]. exists (hexec s). reflexivity.
        -- unfold InvC. cbn. rewrite Es. split; [exact T|]. split; [congruence|]. split; [exact R|].
           exists (post ++ [ACheckCtx]). rewrite P, app_assoc. reflexivity.
    + pose proof (Hgen (tb s) (rw s) RNone HRun rest Ea eq_refl eq_refl) as G. exact G.
Qed.

Lemma inv_step s e : Inv s -> Inv (stepT s e).
Proof.
  intros I. unfold stepT, step. destruct e as [|k|b].
  - destruct (h_step s) as [[s' r]|] eqn:E; [eapply inv_h; eauto|exact I].
  - apply inv_d, I.
  - destruct (s_step b s) as [s'|] eqn:E; [eapply inv_s; eauto|exact I].
Qed.

Lemma inv_run sched : forall s, Inv s -> Inv (run s sched).
Proof.
  induction sched as [|e sched IH]; intros s I; cbn; [exact I|].
  apply IH, inv_step, I.
Qed.

Lemma inv_reach sched : Inv (run (init fl h0 script) sched).
Proof. apply inv_run, inv_init. Qed.

End Inv.

(* ------------------------------------------------------------------ *)
(* all-or-nothing                                                       *)

(* What the caller of ServeHTTP and the client can see.  [committed fl h0 ex] is what
   the handler's own Flush calls passed to the client while running [ex]; it is the
   fresh writer unless the handler flushed through a Flusher-capable writer
   ([committed_untouched]). *)
Inductive outcome (fl : bool) (h0 : hdrs) (script : list act) (s : state) : Prop :=
| OutPending :        (* ServeHTTP still in its select: only what the handler flushed itself *)
    sst s = SWait -> rw s = committed fl h0 (hexec s) -> outcome fl h0 script s
| OutComplete ex :    (* the handler returned after running [ex]; its whole response, nothing else *)
    sst s = SDoneRet -> hst s = HDone -> hexec s = ex -> cut script ex (dk s) ->
    spec_panic fl false ex = None ->
    rw s = complete fl h0 ex -> outcome fl h0 script s
| OutTimeout k pre :  (* the Done event happened: 503 / 499 on top of what was flushed before, nothing later *)
    sst s = STimeoutRet k -> dk s = Some k ->
    (exists post, script = pre ++ post) ->
    rw s = timeout_write k (committed fl h0 pre) -> outcome fl h0 script s
| OutPanic p :        (* the handler's panic re-raised in the serving goroutine *)
    sst s = SPanicRet p -> spec_panic fl false script = Some p ->
    rw s = committed fl h0 (hexec s) -> outcome fl h0 script s.

Lemma invB_prefix script s : InvB script s -> exists rest, script = hexec s ++ rest.
Proof.
  unfold InvB. destruct (hst s).
  - intros [B|[_ B]]; [eexists; exact B|apply cut_prefix in B; exact B].
  - apply cut_prefix.
  - auto.
Qed.

Lemma inv_outcome fl h0 script s : Inv fl h0 script s -> outcome fl h0 script s.
Proof.
  intros (A & B & C). unfold InvC in C. destruct (sst s) eqn:Es.
  - destruct C. apply OutPending; auto.
  - destruct C as (T & Eh & R).
    destruct (A T) as [_ A2]. rewrite Eh in A2. cbn in A2.
    unfold InvB in B. rewrite Eh in B.
    assert (Hp : spec_panic fl false (hexec s) = None).
    { rewrite <- (script_panic_spec fl h0). exact A2. }
    eapply OutComplete; eauto.
  - destruct C as (T & Ed & R & post & P).
    destruct (invB_prefix _ _ B) as [rest Hr].
    eapply (OutTimeout _ _ _ _ k (sexec s)); eauto.
    exists (post ++ rest). rewrite Hr, P, app_assoc. reflexivity.
  - destruct C as (T & Eh & R).
    destruct (A T) as [_ A2]. rewrite Eh in A2. cbn in A2.
    unfold InvB in B. rewrite Eh in B. destruct B as [rest B].
    eapply OutPanic; eauto.
    rewrite <- (script_panic_spec fl h0), B, href_app.
    destruct (href (start fl h0) (hexec s)) as [bw o]. cbn in A2. subst o. reflexivity.
Qed.

Lemma all_or_nothing_flush_lemma fl h0 script sched :
  outcome fl h0 script (run (init fl h0 script) sched).
Proof. apply inv_outcome, inv_reach. Qed.

(* the strict form: when the handler cannot flush through (the writer is no Flusher,
   or the script never calls Flush), nothing at all reaches the client before the
   outcome is decided, and the timeout reply stands alone *)
Inductive outcome_strict (fl : bool) (h0 : hdrs) (script : list act) (s : state) : Prop :=
| SOutPending : sst s = SWait -> rw s = rw_fresh fl h0 -> outcome_strict fl h0 script s
| SOutComplete ex :
    sst s = SDoneRet -> hst s = HDone -> hexec s = ex -> cut script ex (dk s) ->
    spec_panic fl false ex = None ->
    rw s = complete fl h0 ex ->
    (info_first fl ex = false -> rw s = spec_complete fl h0 ex) ->
    outcome_strict fl h0 script s
| SOutTimeout k :
    sst s = STimeoutRet k -> dk s = Some k -> rw s = timeout_resp fl h0 k -> outcome_strict fl h0 script s
| SOutPanic p :
    sst s = SPanicRet p -> spec_panic fl false script = Some p -> rw s = rw_fresh fl h0 ->
    outcome_strict fl h0 script s.

Lemma has_flush_prefix a b : has_flush (a ++ b) = false -> has_flush a = false.
Proof. rewrite has_flush_app. intros H. apply orb_false_iff in H. apply H. Qed.

Lemma no_flush_prefix fl script pre post :
  fl = false \/ has_flush script = false -> script = pre ++ post ->
  fl = false \/ has_flush pre = false.
Proof.
  intros [H|H] E; [left; exact H|right]. rewrite E in H. eapply has_flush_prefix, H.
Qed.

Lemma all_or_nothing_lemma fl h0 script sched :
  fl = false \/ has_flush script = false ->
  outcome_strict fl h0 script (run (init fl h0 script) sched).
Proof.
  intros Hf.
  pose proof (inv_reach fl h0 script sched) as I.
  destruct (invB_prefix _ _ (proj1 (proj2 I))) as [rest Hr].
  destruct (inv_outcome _ _ _ _ I) as [E1 E2|ex E1 E2 E3 E4 E5 E6|k pre E1 E2 [post E3] E4|p E1 E2 E3].
  - apply SOutPending; [exact E1|]. rewrite E2. apply committed_untouched.
    eapply no_flush_prefix; eauto.
  - assert (Hx : fl = false \/ has_flush ex = false).
    { destruct (cut_prefix _ _ _ E4) as [r' Hr']. eapply no_flush_prefix; eauto. }
    eapply SOutComplete; eauto. intros Hi. rewrite E6. apply complete_spec; auto.
  - apply (SOutTimeout _ _ _ _ k); auto. rewrite E4, committed_untouched.
    + apply timeout_write_fresh.
    + eapply no_flush_prefix; eauto.
  - eapply SOutPanic; eauto. rewrite E3. apply committed_untouched. eapply no_flush_prefix; eauto.
Qed.

(* a script without context checks is always run to its end *)
Definition ignores_ctx (script : list act) : Prop := ~ In ACheckCtx script.

Lemma cut_ignores script ex d : ignores_ctx script -> cut script ex d -> ex = script.
Proof.
  intros Hi (rest & E & [H|(_ & pre & H)]).
  - subst rest. rewrite app_nil_r in E. auto.
  - exfalso. apply Hi. rewrite E, H. apply in_or_app. left. apply in_or_app. right. left. reflexivity.
Qed.

Lemma cut_no_d script ex : cut script ex None -> ex = script.
Proof.
  intros (rest & E & [H|(H & _)]).
  - subst rest. rewrite app_nil_r in E. auto.
  - congruence.
Qed.

Lemma h_step_frame s s' r : h_step s = Some (s', r) ->
  dk s' = dk s /\ sst s' = sst s /\ tto s' = tto s /\ sexec s' = sexec s /\
  (tto s = true \/ rfl (rw s) = false \/ (forall r', hrest s <> AFlush :: r') -> rw s' = rw s).
Proof.
  unfold h_step. destruct (hst s); try discriminate.
  destruct (hrest s) as [|a rest].
  - intros H; inversion H; subst; cbn; repeat (split; [reflexivity|]); auto.
  - assert (Hw : tto s = true \/ rfl (rw s) = false \/ (forall r', a :: rest <> AFlush :: r') ->
                 snd (fst (hact (tto s) (tb s, rw s) a)) = rw s).
    { intros [T|[F|N]].
      - rewrite T. apply hact_timedout_rw.
      - apply (hact_noflusher_rw (tto s) (tb s, rw s) a F).
      - apply (hact_notflush_rw (tto s) (tb s, rw s) a). intros ->. apply (N rest). reflexivity. }
    destruct a;
      try solve [destruct (hact (tto s) (tb s, rw s) _) as [[b' w'] res]; cbn in Hw; destruct res;
                 intros H; inversion H; subst; cbn; repeat (split; [reflexivity|]); auto].
    destruct (dk s) eqn:Ed; intros H; inversion H; subst; cbn; repeat (split; [reflexivity|]); auto.
Qed.

Lemma stepT_H_frame s :
  dk (stepT s EH) = dk s /\ sst (stepT s EH) = sst s /\
  (tto s = true \/ rfl (rw s) = false \/ (forall r', hrest s <> AFlush :: r') -> rw (stepT s EH) = rw s).
Proof.
  unfold stepT, step. destruct (h_step s) as [[s' r]|] eqn:E; auto.
  destruct (h_step_frame _ _ _ E) as (H1 & H2 & _ & _ & H5). auto.
Qed.

(* D never happens: no ED event in the schedule *)
Definition no_d (sched : list ev) : Prop := forall k, ~ In (ED k) sched.

Lemma no_d_dk : forall sched s, no_d sched -> dk s = None -> dk (run s sched) = None.
Proof.
  induction sched as [|e sched IH]; intros s Hn Hd; cbn; [exact Hd|].
  apply IH.
  - intros k Hk. apply (Hn k). right. exact Hk.
  - unfold stepT, step. destruct e as [|k|b].
    + destruct (stepT_H_frame s) as (E & _). unfold stepT, step in E. rewrite E. exact Hd.
    + exfalso. apply (Hn k). left. reflexivity.
    + unfold s_step. destruct (sst s); auto. destruct b.
      * destruct (hst s); auto.
      * destruct (hst s); auto.
      * rewrite Hd. exact Hd.
Qed.

(* ------------------------------------------------------------------ *)
(* nothing after the timeout                                            *)

(* H and D never touch the real writer once timed out, nor when the writer is no
   Flusher, nor with any action but Flush *)
Lemma only_S_and_flush_write s e :
  (forall b, e <> ES b) ->
  tto s = true \/ rfl (rw s) = false \/ (forall r', hrest s <> AFlush :: r') ->
  rw (stepT s e) = rw s.
Proof.
  intros He Hc. destruct e as [|k|b].
  - destruct (stepT_H_frame s) as (_ & _ & E). apply E, Hc.
  - unfold stepT, step, d_step. destruct (dk s); auto.
  - exfalso. apply (He b). reflexivity.
Qed.

Lemma tto_after_return fl h0 script s : Inv fl h0 script s -> sst s <> SWait ->
  tto s = true \/ hst s <> HRun.
Proof.
  intros (_ & _ & C) Hs. unfold InvC in C. destruct (sst s); try congruence.
  - right. destruct C as (_ & C & _). congruence.
  - left. apply C.
  - right. destruct C as (_ & C & _). congruence.
Qed.

Lemma step_after_return fl h0 script s e :
  Inv fl h0 script s -> sst s <> SWait -> sst (stepT s e) = sst s /\ rw (stepT s e) = rw s.
Proof.
  intros I Hs. destruct e as [|k|b].
  - destruct (tto_after_return _ _ _ _ I Hs) as [T|Hh].
    + destruct (stepT_H_frame s) as (_ & E1 & E2). split; [exact E1|apply E2; left; exact T].
    + unfold stepT, step, h_step. destruct (hst s); try congruence; auto.
  - unfold stepT, step, d_step. destruct (dk s); auto.
  - unfold stepT, step, s_step. destruct (sst s) eqn:Es; cbn; auto. congruence.
Qed.

Lemma run_after_return fl h0 script : forall sched s,
  Inv fl h0 script s -> sst s <> SWait -> sst (run s sched) = sst s /\ rw (run s sched) = rw s.
Proof.
  induction sched as [|e sched IH]; intros s I Hs; cbn; [auto|].
  destruct (step_after_return _ _ _ s e I Hs) as [E1 E2].
  assert (Hs' : sst (stepT s e) <> SWait) by (rewrite E1; exact Hs).
  destruct (IH (stepT s e) (inv_step _ _ _ _ e I) Hs') as [E3 E4].
  split; [rewrite <- E1; exact E3|rewrite <- E2; exact E4].
Qed.

Lemma late_write_refused fl h0 script sched k bs r :
  let s := run (init fl h0 script) sched in
  sst s = STimeoutRet k -> hst s = HRun -> hrest s = AWrite bs :: r ->
  exists s', step s EH = Some (s', RWriteTimeout) /\ rw s' = rw s /\ tb s' = tb s.
Proof.
  intros s Hs Hh Hr.
  destruct (inv_reach fl h0 script sched) as (_ & _ & C). fold s in C.
  unfold InvC in C. rewrite Hs in C. destruct C as (T & _).
  cbn [step]. unfold h_step. rewrite Hh, Hr. cbn [hact tw_act fst snd]. rewrite T.
  eexists. split; [reflexivity|]. split; reflexivity.
Qed.

(* a Flush issued after the timeout does nothing at all *)
Lemma late_flush_ignored fl h0 script sched k r :
  let s := run (init fl h0 script) sched in
  sst s = STimeoutRet k -> hst s = HRun -> hrest s = AFlush :: r ->
  exists s', step s EH = Some (s', RNone) /\ rw s' = rw s /\ tb s' = tb s.
Proof.
  intros s Hs Hh Hr.
  destruct (inv_reach fl h0 script sched) as (_ & _ & C). fold s in C.
  unfold InvC in C. rewrite Hs in C. destruct C as (T & _).
  cbn [step]. unfold h_step. rewrite Hh, Hr. cbn [hact fst snd]. rewrite T.
  unfold tw_flush. destruct (negb (rfl (rw s))); cbn; eexists; (split; [reflexivity|split; reflexivity]).
Qed.

(* ------------------------------------------------------------------ *)
(* returns at the deadline                                              *)

Lemma returns_at_deadline_lemma fl h0 script sched k :
  let s := run (init fl h0 script) sched in
  dk s = Some k -> sst s = SWait ->
  exists s', step s (ES BTimeout) = Some (s', RNone) /\
             sst s' = STimeoutRet k /\ rw s' = timeout_write k (committed fl h0 (hexec s)) /\
             (fl = false \/ has_flush script = false -> rw s' = timeout_resp fl h0 k) /\
             hst s' = hst s /\ hrest s' = hrest s /\ hexec s' = hexec s.
Proof.
  intros s Hd Hs.
  pose proof (inv_reach fl h0 script sched) as I. fold s in I.
  destruct I as (_ & B & C).
  unfold InvC in C. rewrite Hs in C. destruct C as (_ & R).
  cbn [step]. unfold s_step. rewrite Hs, Hd.
  eexists. split; [reflexivity|]. cbn. rewrite R. repeat split; try reflexivity.
  intros Hf. destruct (invB_prefix _ _ B) as [rest Hr].
  rewrite committed_untouched; [apply timeout_write_fresh|]. eapply no_flush_prefix; eauto.
Qed.
(* ------------------------------------------------------------------ *)
(* deadlines                                                            *)

Lemma with_timeout_le parent now d :
  with_timeout parent now d <= now + d /\
  (forall p, parent = Some p -> with_timeout parent now d <= p).
Proof.
  unfold with_timeout. destruct parent as [p|].
  - split; [lia|]. intros q E. inversion E. lia.
  - split; [lia|discriminate].
Qed.

Lemma rest_deadline_shrinks dur rq parent now :
  wrapped dur rq = true ->
  exists d, rest_deadline dur rq parent now = Some d /\ d <= now + dur /\
            (forall p, parent = Some p -> d <= p).
Proof.
  intros W. unfold rest_deadline. rewrite W. eexists. split; [reflexivity|].
  apply with_timeout_le.
Qed.

Lemma rest_exempt dur rq parent now :
  rq <> RqPlain -> wrapped dur rq = false /\ rest_deadline dur rq parent now = parent.
Proof.
  intros H. unfold rest_deadline, wrapped. destruct rq; try congruence;
    rewrite andb_false_r; auto.
Qed.

Lemma checked_timeout_spec route conf :
  (0 < route -> checked_timeout route conf = route) /\
  (route <= 0 -> checked_timeout route conf = conf * 1000000).
Proof.
  unfold checked_timeout. split; intros H.
  - destruct (Z.ltb_spec 0 route); [reflexivity|lia].
  - destruct (Z.ltb_spec 0 route); [lia|reflexivity].
Qed.

Lemma method_timeout_nomatch : forall confs m d,
  (forall t, ~ In (m, t) confs) -> method_timeout confs m d = d.
Proof.
  induction confs as [|[m' t] confs IH]; intros m d H; cbn; [reflexivity|].
  destruct (Z.eqb_spec m' m) as [E|E].
  - exfalso. apply (H t). left. congruence.
  - cbn. apply IH. intros t' Hin. apply (H t'). right. exact Hin.
Qed.

Lemma method_timeout_empty_name : forall confs d, method_timeout confs 0 d = d.
Proof.
  induction confs as [|[m' t] confs IH]; intros d; cbn; [reflexivity|].
  destruct (Z.eqb_spec m' 0) as [E|E]; cbn; apply IH.
Qed.

Lemma method_timeout_last pre m t post d :
  m <> 0 -> (forall t', ~ In (m, t') post) ->
  method_timeout (pre ++ (m, t) :: post) m d = t.
Proof.
  intros Hm Hp. revert d. induction pre as [|[m' t'] pre IH]; intros d; cbn.
  - rewrite Z.eqb_refl. destruct (Z.eqb_spec m 0); [contradiction|]. cbn.
    apply method_timeout_nomatch, Hp.
  - apply IH.
Qed.

Lemma server_deadline_shrinks confs m default parent now :
  exists d, server_deadline confs m default parent now = Some d /\
            d <= now + method_timeout confs m default /\
            (forall p, parent = Some p -> d <= p).
Proof. eexists. split; [reflexivity|]. apply with_timeout_le. Qed.

Lemma fx_deadline_shrinks t parent now :
  exists d, fx_deadline t parent now = Some d /\ d <= now + t /\
            (forall p, parent = Some p -> d <= p).
Proof. eexists. split; [reflexivity|]. apply with_timeout_le. Qed.

Lemma client_deadline_shrinks opts default parent now :
  let t := call_timeout opts default in
  (0 < t -> exists d, client_deadline opts default parent now = Some d /\ d <= now + t /\
                      (forall p, parent = Some p -> d <= p)) /\
  (t <= 0 -> client_deadline opts default parent now = parent).
Proof.
  intros t. unfold client_deadline. fold t. split; intros H.
  - destruct (Z.leb_spec t 0); [lia|]. eexists. split; [reflexivity|]. apply with_timeout_le.
  - destruct (Z.leb_spec t 0); [reflexivity|lia].
Qed.

(* ------------------------------------------------------------------ *)
(* exempt requests: the handler runs against the real writer            *)

Definition XInv (fl : bool) (h0 : hdrs) (script : list act) (s : xstate) : Prop :=
  xrw s = direct fl h0 (xexec s) /\
  match xhst s with
  | HRun => script = xexec s ++ xrest s \/ (xrest s = [] /\ cut script (xexec s) (xdk s))
  | HDone => cut script (xexec s) (xdk s)
  | HPanicked _ => exists rest, script = xexec s ++ rest
  end.

Lemma direct_snoc fl h0 ex a : direct fl h0 (ex ++ [a]) = fst (rw_act (direct fl h0 ex) a).
Proof. unfold direct. rewrite fold_left_app. reflexivity. Qed.

Lemma xinv_step fl h0 script s e : XInv fl h0 script s -> XInv fl h0 script (xstepT s e).
Proof.
  intros [A B]. unfold xstepT, xstep. destruct e as [|k|b]; [| |split; assumption].
  - destruct (xhst s) eqn:Eh; try (split; [exact A|rewrite Eh; exact B]).
    destruct (xrest s) as [|a rest] eqn:Er.
    + cbn. split; [exact A|]. destruct B as [B|[_ B]]; [|exact B].
      exists []. split; [exact B|left; reflexivity].
    + assert (B' : script = (xexec s ++ [a]) ++ rest).
      { rewrite <- app_assoc. destruct B as [B|[B _]]; [exact B|discriminate]. }
      assert (Hgen : forall w' res, rw_act (xrw s) a = (w', res) ->
                XInv fl h0 script
                  match res with
                  | RPanic p => mkX w' (HPanicked p) [] (xexec s ++ [a]) (xdk s)
                  | _ => mkX w' HRun rest (xexec s ++ [a]) (xdk s)
                  end).
      { intros w' res Ea. split.
        - destruct res; cbn [xrw xexec]; rewrite direct_snoc, <- A, Ea; reflexivity.
        - destruct res; cbn; try (left; exact B'). exists rest. exact B'. }
      destruct a as [k v|k v|k|c|bs| |p| ];
        try solve [destruct (rw_act (xrw s) _) as [w' res] eqn:Ea;
                   generalize (Hgen w' res eq_refl); destruct res; cbn; auto].
      destruct (xdk s) eqn:Ed; split; cbn [xrw xexec xhst xrest xdk].
      * rewrite direct_snoc, <- A. reflexivity.
      * right. split; [reflexivity|]. exists rest. split; [exact B'|].
        right. split; [congruence|]. exists (xexec s). reflexivity.
      * rewrite direct_snoc, <- A. reflexivity.
      * left. exact B'.
  - destruct (xdk s) eqn:Ed; [split; [exact A|rewrite Ed; exact B]|]. cbn. split; [exact A|].
    destruct (xhst s); auto.
    + destruct B as [B|[B1 B2]]; [left; exact B|right; split; [exact B1|]].
      eapply cut_mono, B2.
    + eapply cut_mono, B.
Qed.

Lemma xinv_run fl h0 script sched : forall s, XInv fl h0 script s -> XInv fl h0 script (xrun s sched).
Proof.
  induction sched as [|e sched IH]; intros s I; cbn; [exact I|].
  apply IH, xinv_step, I.
Qed.

Lemma exempt_direct fl h0 script sched :
  let s := xrun (xinit fl h0 script) sched in
  xrw s = direct fl h0 (xexec s) /\
  (xhst s = HDone -> cut script (xexec s) (xdk s)).
Proof.
  intros s. assert (I : XInv fl h0 script s).
  { apply xinv_run. split; cbn; auto. }
  destruct I as [A B]. split; [exact A|]. intros Eh. rewrite Eh in B. exact B.
Qed.

(* ------------------------------------------------------------------ *)
(* result-slot wrappers                                                 *)

Definition has_check (w : wscript) : Prop := In WCheck (wsteps w).

Definition WInv (w : wscript) (s : wstate) : Prop :=
  wfinal s = wend w /\ wbl s = wbail w /\
  (exists pre, wsteps w = pre ++ wrest s) /\
  match wst s with
  | WRun => True
  | WDone r e => wend w = WRet r e \/ (wdk s <> None /\ has_check w /\ (r, e) = wbail w)
  | WPanicked p => wend w = WPanic p
  end /\
  match wsst s with
  | OWait => True
  | ORet r e => wst s = WDone r e
  | OTimeout k => wdk s = Some k
  | OPanic p => wst s = WPanicked p
  end.

Lemma winv_init w : WInv w (winit w).
Proof. unfold WInv, winit. cbn. repeat split; auto. exists []. reflexivity. Qed.

Ltac wsplit := split; [|split; [|split; [|split]]].

Lemma winv_step w s e : WInv w s -> WInv w (wstepT s e).
Proof.
  intros I. pose proof I as (F & Bl & (pre & P) & H & S).
  unfold wstepT, wstep. destruct e as [|k|b].
  - (* the work *)
    destruct (wst s) eqn:Ew; try exact I.
    assert (S' : forall st dk', dk' = wdk s ->
              match wsst s with
              | OWait => True
              | ORet r e => st = WDone r e
              | OTimeout k => dk' = Some k
              | OPanic p => st = WPanicked p
              end).
    { intros st dk' ->. destruct (wsst s); auto; congruence. }
    destruct (wrest s) as [|a rest] eqn:Er.
    + destruct (wfinal s) eqn:Ef; cbn; wsplit; cbn; auto;
        try (apply S'; reflexivity); try (exists pre; rewrite P; reflexivity);
        try (left; congruence); try congruence.
    + assert (P' : wsteps w = (pre ++ [a]) ++ rest) by (rewrite <- app_assoc; exact P).
      destruct a.
      * cbn; wsplit; cbn; auto; try (apply S'; reflexivity). exists (pre ++ [WWork]). exact P'.
      * destruct (wdk s) eqn:Ed; cbn; wsplit; cbn; auto; try (apply S'; reflexivity).
        -- exists (pre ++ WCheck :: rest). rewrite app_nil_r. exact P.
        -- right. split; [congruence|]. split.
           ++ unfold has_check. rewrite P. apply in_or_app. right. left. reflexivity.
           ++ rewrite <- Bl. destruct (wbl s); reflexivity.
        -- exists (pre ++ [WCheck]). exact P'.
  - (* the Done event *)
    destruct (wdk s) eqn:Ed; [exact I|].
    cbn; wsplit; cbn; auto.
    + exists pre. exact P.
    + destruct (wst s); auto. destruct H as [H|(H & _)]; [left; exact H|congruence].
    + destruct (wsst s); auto. congruence.
  - (* the select *)
    destruct (wsst s) eqn:Es; try exact I.
    destruct b.
    + destruct (wst s) eqn:Ew; try exact I.
      cbn; wsplit; cbn; auto. exists pre. exact P.
    + destruct (wst s) eqn:Ew; try exact I.
      cbn; wsplit; cbn; auto. exists pre. exact P.
    + destruct (wdk s) eqn:Ed; try exact I.
      cbn; wsplit; cbn; auto. exists pre. exact P.
Qed.

Lemma winv_run w sched : forall s, WInv w s -> WInv w (wrun s sched).
Proof.
  induction sched as [|e sched IH]; intros s I; cbn; [exact I|].
  apply IH, winv_step, I.
Qed.

Lemma slot_all_or_nothing_lemma w sched :
  let s := wrun (winit w) sched in
  match wsst s with
  | OWait => True
  | ORet r e => wend w = WRet r e \/ (wdk s <> None /\ has_check w /\ (r, e) = wbail w)
  | OTimeout k => wdk s = Some k
  | OPanic p => wend w = WPanic p
  end.
Proof.
  intros s. destruct (winv_run w sched _ (winv_init w)) as (_ & _ & _ & H & S). fold s in H, S.
  destruct (wsst s); auto.
  - rewrite S in H. exact H.
  - rewrite S in H. exact H.
Qed.

Lemma slot_returns_at_deadline_lemma (s : wstate) k :
  wdk s = Some k -> wsst s = OWait ->
  exists s', wstep s (ES BTimeout) = Some (s', RNone) /\ wsst s' = OTimeout k /\
             wst s' = wst s /\ wrest s' = wrest s /\ wn s' = wn s.
Proof.
  intros Hd Hs. cbn. rewrite Hs, Hd. eexists. split; [reflexivity|]. repeat split.
Qed.

Lemma slot_sticky : forall sched s, wsst s <> OWait -> wsst (wrun s sched) = wsst s.
Proof.
  induction sched as [|e sched IH]; intros s Hs; cbn; [reflexivity|].
  assert (E : wsst (wstepT s e) = wsst s).
  { unfold wstepT, wstep. destruct e as [|k|b].
    - destruct (wst s); auto. destruct (wrest s) as [|a r]; [destruct (wfinal s); auto|].
      destruct a; auto. destruct (wdk s); auto.
    - destruct (wdk s); auto.
    - destruct (wsst s) eqn:Es; cbn; auto; congruence. }
  rewrite <- E. apply IH. rewrite E. exact Hs.
Qed.


(* ------------------------------------------------------------------ *)
(* corollaries used by Props.v                                          *)

Lemma run_app s a b : run s (a ++ b) = run (run s a) b.
Proof. unfold run. apply fold_left_app. Qed.

Lemma ignoring_ctx_lemma fl h0 script sched :
  fl = false \/ has_flush script = false ->
  ignores_ctx script -> info_first fl script = false ->
  sst (run (init fl h0 script) sched) = SDoneRet ->
  rw (run (init fl h0 script) sched) = spec_complete fl h0 script /\
  spec_panic fl false script = None.
Proof.
  intros Hf Hi Hq Hs.
  destruct (all_or_nothing_lemma fl h0 script sched Hf) as [E|ex E1 E2 E3 E4 E5 E6 E7|k E|p E];
    try congruence.
  assert (Hx : ex = script) by (eapply cut_ignores; eauto).
  rewrite Hx in E5, E7. split; auto.
Qed.

Lemma no_deadline_lemma fl h0 script sched :
  fl = false \/ has_flush script = false ->
  no_d sched ->
  (forall k, sst (run (init fl h0 script) sched) <> STimeoutRet k) /\
  (sst (run (init fl h0 script) sched) = SDoneRet -> info_first fl script = false ->
   rw (run (init fl h0 script) sched) = spec_complete fl h0 script).
Proof.
  intros Hf Hn.
  assert (Hd : dk (run (init fl h0 script) sched) = None) by (apply no_d_dk; auto).
  destruct (all_or_nothing_lemma fl h0 script sched Hf) as [E|ex E1 E2 E3 E4 E5 E6 E7|k E E'|p E];
    split; try congruence.
  intros _ Hq. rewrite Hd in E4. apply cut_no_d in E4. rewrite E4 in E7. apply E7, Hq.
Qed.

(* with Flush: no Done event, the handler returned: the client's view is the description *)
Lemma no_deadline_flush_lemma fl h0 script sched :
  no_d sched ->
  (forall k, sst (run (init fl h0 script) sched) <> STimeoutRet k) /\
  (sst (run (init fl h0 script) sched) = SDoneRet -> info_first fl script = false ->
   rw_view (rw (run (init fl h0 script) sched)) = spec_view fl h0 script).
Proof.
  intros Hn.
  assert (Hd : dk (run (init fl h0 script) sched) = None) by (apply no_d_dk; auto).
  destruct (all_or_nothing_flush_lemma fl h0 script sched) as [E|ex E1 E2 E3 E4 E5 E6|k pre E E'|p E];
    split; try congruence.
  intros _ Hq. rewrite Hd in E4. apply cut_no_d in E4. rewrite E6. subst ex. rewrite E4 in *.
  apply complete_view_spec; auto.
Qed.

Lemma response_final_lemma fl h0 script sched1 sched2 :
  sst (run (init fl h0 script) sched1) <> SWait ->
  rw (run (init fl h0 script) (sched1 ++ sched2)) = rw (run (init fl h0 script) sched1) /\
  sst (run (init fl h0 script) (sched1 ++ sched2)) = sst (run (init fl h0 script) sched1).
Proof.
  intros Hs. rewrite run_app.
  destruct (run_after_return fl h0 script sched2 _ (inv_reach fl h0 script sched1) Hs) as [E1 E2]. auto.
Qed.

Lemma nothing_after_timeout_lemma fl h0 script sched1 sched2 k :
  sst (run (init fl h0 script) sched1) = STimeoutRet k ->
  rw (run (init fl h0 script) (sched1 ++ sched2)) = rw (run (init fl h0 script) sched1) /\
  sst (run (init fl h0 script) (sched1 ++ sched2)) = STimeoutRet k /\
  (fl = false \/ has_flush script = false ->
   rw (run (init fl h0 script) (sched1 ++ sched2)) = timeout_resp fl h0 k).
Proof.
  intros Hs.
  destruct (response_final_lemma fl h0 script sched1 sched2 ltac:(congruence)) as [E1 E2].
  rewrite E1, E2. split; [reflexivity|]. split; [exact Hs|].
  intros Hf.
  destruct (all_or_nothing_lemma fl h0 script sched1 Hf) as [E|ex E3 E4 E5 E6 E7 E8 E9|k' E E' E''|p E];
    try congruence.
Qed.

Lemma exempt_lemma dur rq parent now fl h0 script sched :
  rq <> RqPlain ->
  wrapped dur rq = false /\ rest_deadline dur rq parent now = parent /\
  xrw (xrun (xinit fl h0 script) sched) = direct fl h0 (xexec (xrun (xinit fl h0 script) sched)) /\
  (xhst (xrun (xinit fl h0 script) sched) = HDone ->
   cut script (xexec (xrun (xinit fl h0 script) sched)) (xdk (xrun (xinit fl h0 script) sched))).
Proof.
  intros H. destruct (rest_exempt dur rq parent now H) as [E1 E2].
  destruct (exempt_direct fl h0 script sched) as [E3 E4]. auto.
Qed.

(* ------------------------------------------------------------------ *)
(* several requests through one middleware instance                     *)

Lemma nth_error_upd_same {A} (f : A -> A) : forall l i,
  nth_error (upd_nth i f l) i = option_map f (nth_error l i).
Proof.
  induction l as [|x l IH]; intros [|i]; cbn; auto.
Qed.

Lemma nth_error_upd_other {A} (f : A -> A) : forall l i j,
  i <> j -> nth_error (upd_nth i f l) j = nth_error l j.
Proof.
  induction l as [|x l IH]; intros [|i] [|j] H; cbn; auto; try congruence.
Qed.

(* frame: a step of request i leaves every other request's component alone *)
Lemma mstep_frame ss i e j : i <> j -> nth_error (mstepT ss (i, e)) j = nth_error ss j.
Proof. intros H. unfold mstepT. cbn. apply nth_error_upd_other, H. Qed.

Lemma mstep_own ss i e :
  nth_error (mstepT ss (i, e)) i = option_map (fun s => stepT s e) (nth_error ss i).
Proof. unfold mstepT. cbn. apply nth_error_upd_same. Qed.

(* each component evolves exactly as a single request under its own events *)
Lemma mrun_proj : forall sched ss j,
  nth_error (mrun ss sched) j = option_map (fun s => run s (proj j sched)) (nth_error ss j).
Proof.
  induction sched as [|[i e] sched IH]; intros ss j.
  - cbn. destruct (nth_error ss j); reflexivity.
  - cbn [mrun fold_left]. change (fold_left mstepT sched (mstepT ss (i, e))) with (mrun (mstepT ss (i, e)) sched).
    rewrite IH. unfold proj. cbn [filter fst]. destruct (Nat.eqb_spec i j) as [E|E].
    + subst j. rewrite mstep_own. cbn [map snd]. destruct (nth_error ss i); reflexivity.
    + rewrite mstep_frame by exact E. reflexivity.
Qed.

Lemma requests_isolated_lemma reqs sched i q :
  nth_error reqs i = Some q ->
  exists s, nth_error (mrun (minit reqs) sched) i = Some s /\
            s = run (init (q_fl q) (q_h0 q) (q_script q)) (proj i sched) /\
            outcome (q_fl q) (q_h0 q) (q_script q) s /\
            (q_fl q = false \/ has_flush (q_script q) = false ->
             outcome_strict (q_fl q) (q_h0 q) (q_script q) s).
Proof.
  intros H. exists (run (init (q_fl q) (q_h0 q) (q_script q)) (proj i sched)).
  split; [|split; [reflexivity|split; [apply all_or_nothing_flush_lemma|apply all_or_nothing_lemma]]].
  rewrite mrun_proj. unfold minit.
  rewrite (map_nth_error (fun r => init (q_fl r) (q_h0 r) (q_script r)) i reqs H). reflexivity.
Qed.

(* once request i got its timeout reply, nothing any thread of any request does changes it *)
Lemma isolated_timeout_final reqs sched1 sched2 i q k s1 :
  nth_error reqs i = Some q ->
  nth_error (mrun (minit reqs) sched1) i = Some s1 -> sst s1 = STimeoutRet k ->
  exists s2, nth_error (mrun (minit reqs) (sched1 ++ sched2)) i = Some s2 /\
             rw s2 = rw s1 /\ sst s2 = STimeoutRet k /\
             (q_fl q = false \/ has_flush (q_script q) = false ->
              rw s2 = timeout_resp (q_fl q) (q_h0 q) k).
Proof.
  intros H H1 Hs.
  destruct (requests_isolated_lemma reqs sched1 i q H) as (s & E & Es & _).
  assert (E1 : s1 = run (init (q_fl q) (q_h0 q) (q_script q)) (proj i sched1)) by congruence.
  destruct (requests_isolated_lemma reqs (sched1 ++ sched2) i q H) as (s2 & E2 & Es2 & _).
  exists s2. split; [exact E2|].
  assert (P : proj i (sched1 ++ sched2) = proj i sched1 ++ proj i sched2).
  { unfold proj. rewrite filter_app, map_app. reflexivity. }
  rewrite P in Es2. rewrite E1 in Hs. rewrite Es2, E1.
  apply nothing_after_timeout_lemma, Hs.
Qed.

(* the same with wrapped and unwrapped requests side by side (one server, many routes) *)
Lemma cmstep_frame cs i e j : i <> j -> nth_error (cmstepT cs (i, e)) j = nth_error cs j.
Proof. intros H. unfold cmstepT. cbn. apply nth_error_upd_other, H. Qed.

Lemma cmstep_own cs i e :
  nth_error (cmstepT cs (i, e)) i = option_map (fun c => cstepT c e) (nth_error cs i).
Proof. unfold cmstepT. cbn. apply nth_error_upd_same. Qed.

Lemma cmrun_proj : forall sched cs j,
  nth_error (cmrun cs sched) j = option_map (fun c => crun c (proj j sched)) (nth_error cs j).
Proof.
  induction sched as [|[i e] sched IH]; intros cs j.
  - cbn. destruct (nth_error cs j); reflexivity.
  - cbn [cmrun fold_left]. change (fold_left cmstepT sched (cmstepT cs (i, e))) with (cmrun (cmstepT cs (i, e)) sched).
    rewrite IH. unfold proj. cbn [filter fst]. destruct (Nat.eqb_spec i j) as [E|E].
    + subst j. rewrite cmstep_own. cbn [map snd]. destruct (nth_error cs i); reflexivity.
    + rewrite cmstep_frame by exact E. reflexivity.
Qed.

Lemma crun_wrapped : forall sched s, crun (CW s) sched = CW (run s sched).
Proof.
  induction sched as [|e sched IH]; intros s; [reflexivity|].
  cbn [crun fold_left run]. change (fold_left cstepT sched (cstepT (CW s) e)) with (crun (cstepT (CW s) e) sched).
  unfold cstepT at 1, cstep, stepT. destruct (step s e) as [[s' r]|]; apply IH.
Qed.

Lemma crun_unwrapped : forall sched s, crun (CX s) sched = CX (xrun s sched).
Proof.
  induction sched as [|e sched IH]; intros s; [reflexivity|].
  cbn [crun fold_left xrun]. change (fold_left cstepT sched (cstepT (CX s) e)) with (crun (cstepT (CX s) e) sched).
  unfold cstepT at 1, cstep, xstepT. destruct (xstep s e) as [[s' r]|]; apply IH.
Qed.

Lemma server_requests_isolated_lemma (wraps : list bool) (reqs : list request) sched i wrap q :
  nth_error wraps i = Some wrap -> nth_error reqs i = Some q ->
  nth_error (cmrun (map (fun wq => cinit (fst wq) (snd wq)) (combine wraps reqs)) sched) i =
  Some (if wrap then CW (run (init (q_fl q) (q_h0 q) (q_script q)) (proj i sched))
        else CX (xrun (xinit (q_fl q) (q_h0 q) (q_script q)) (proj i sched))).
Proof.
  intros Hw Hq. rewrite cmrun_proj.
  assert (Hc : nth_error (combine wraps reqs) i = Some (wrap, q)).
  { revert wraps reqs Hw Hq. induction i as [|i IH]; intros [|w ws] [|r rs] Hw Hq; cbn in *; try discriminate.
    - congruence.
    - apply IH; assumption. }
  rewrite (map_nth_error (fun wq => cinit (fst wq) (snd wq)) i _ Hc). cbn.
  unfold cinit. destruct wrap; [rewrite crun_wrapped|rewrite crun_unwrapped]; reflexivity.
Qed.

(* ------------------------------------------------------------------ *)
(* several calls through one interceptor instance                       *)

Lemma wmstep_frame ss i e j : i <> j -> nth_error (wmstepT ss (i, e)) j = nth_error ss j.
Proof. intros H. unfold wmstepT. cbn. apply nth_error_upd_other, H. Qed.

Lemma wmstep_own ss i e :
  nth_error (wmstepT ss (i, e)) i = option_map (fun s => wstepT s e) (nth_error ss i).
Proof. unfold wmstepT. cbn. apply nth_error_upd_same. Qed.

Lemma wmrun_proj : forall sched ss j,
  nth_error (wmrun ss sched) j = option_map (fun s => wrun s (proj j sched)) (nth_error ss j).
Proof.
  induction sched as [|[i e] sched IH]; intros ss j.
  - cbn. destruct (nth_error ss j); reflexivity.
  - cbn [wmrun fold_left].
    change (fold_left wmstepT sched (wmstepT ss (i, e))) with (wmrun (wmstepT ss (i, e)) sched).
    rewrite IH. unfold proj. cbn [filter fst]. destruct (Nat.eqb_spec i j) as [E|E].
    + subst j. rewrite wmstep_own. cbn [map snd]. destruct (nth_error ss i); reflexivity.
    + rewrite wmstep_frame by exact E. reflexivity.
Qed.

Lemma calls_isolated_lemma ws sched i w :
  nth_error ws i = Some w ->
  exists s, nth_error (wmrun (wminit ws) sched) i = Some s /\
            s = wrun (winit w) (proj i sched) /\
            match wsst s with
            | OWait => True
            | ORet r e => wend w = WRet r e \/ (wdk s <> None /\ has_check w /\ (r, e) = wbail w)
            | OTimeout k => wdk s = Some k
            | OPanic p => wend w = WPanic p
            end.
Proof.
  intros H. exists (wrun (winit w) (proj i sched)).
  split; [|split; [reflexivity|apply slot_all_or_nothing_lemma]].
  rewrite wmrun_proj. unfold wminit. rewrite (map_nth_error winit i ws H). reflexivity.
Qed.

(* what a call returned stays what it returned, whatever any call's threads do later *)
Lemma isolated_result_final ws sched1 sched2 i w s1 :
  nth_error ws i = Some w ->
  nth_error (wmrun (wminit ws) sched1) i = Some s1 -> wsst s1 <> OWait ->
  exists s2, nth_error (wmrun (wminit ws) (sched1 ++ sched2)) i = Some s2 /\ wsst s2 = wsst s1.
Proof.
  intros H H1 Hs.
  destruct (calls_isolated_lemma ws sched1 i w H) as (s & E & Es & _).
  assert (E1 : s1 = wrun (winit w) (proj i sched1)) by congruence.
  destruct (calls_isolated_lemma ws (sched1 ++ sched2) i w H) as (s2 & E2 & Es2 & _).
  exists s2. split; [exact E2|].
  assert (P : proj i (sched1 ++ sched2) = proj i sched1 ++ proj i sched2).
  { unfold proj. rewrite filter_app, map_app. reflexivity. }
  rewrite Es2, P. unfold wrun at 1. rewrite fold_left_app.
  change (fold_left wstepT (proj i sched2) (fold_left wstepT (proj i sched1) (winit w)))
    with (wrun (wrun (winit w) (proj i sched1)) (proj i sched2)).
  rewrite <- E1. apply slot_sticky, Hs.
Qed.

(* ------------------------------------------------------------------ *)
(* the rest engine                                                      *)

Lemma route_conf_snoc opts o : route_conf (opts ++ [o]) = apply_opt (route_conf opts) o.
Proof. unfold route_conf. rewrite fold_left_app. reflexivity. Qed.

(* no option: the server's timeout; the last WithTimeout / WithSSE decides *)
Lemma route_conf_none : route_conf [] = mkFR 0 false.
Proof. reflexivity. Qed.

Lemma route_conf_last_timeout opts t : fr_timeout (route_conf (opts ++ [OptTimeout t])) = t.
Proof. rewrite route_conf_snoc. reflexivity. Qed.

Lemma route_conf_last_sse opts :
  route_conf (opts ++ [OptSSE]) = mkFR 0 true.
Proof. rewrite route_conf_snoc. reflexivity. Qed.

Lemma eng_route_dur_spec mw conf_ms f :
  (mw = false -> eng_route_dur mw conf_ms f = 0) /\
  (mw = true -> 0 < fr_timeout f -> eng_route_dur mw conf_ms f = fr_timeout f) /\
  (mw = true -> fr_timeout f <= 0 -> eng_route_dur mw conf_ms f = conf_ms * 1000000).
Proof.
  unfold eng_route_dur. destruct mw; repeat split; try discriminate; intros _ H;
    apply checked_timeout_spec; exact H.
Qed.

Lemma eng_deadline_shrinks mw conf_ms f parent now :
  0 < eng_route_dur mw conf_ms f ->
  exists d, eng_deadline mw conf_ms f RqPlain parent now = Some d /\
            d <= now + eng_route_dur mw conf_ms f /\
            (forall p, parent = Some p -> d <= p).
Proof.
  intros H. unfold eng_deadline. apply rest_deadline_shrinks.
  unfold wrapped. destruct (Z.ltb_spec 0 (eng_route_dur mw conf_ms f)); [reflexivity|lia].
Qed.

Lemma eng_exempt mw conf_ms f rq parent now :
  rq <> RqPlain \/ eng_route_dur mw conf_ms f <= 0 ->
  wrapped (eng_route_dur mw conf_ms f) rq = false /\
  eng_deadline mw conf_ms f rq parent now = parent.
Proof.
  intros [H|H].
  - apply rest_exempt, H.
  - unfold eng_deadline, rest_deadline, wrapped.
    destruct (Z.ltb_spec 0 (eng_route_dur mw conf_ms f)); [lia|]. cbn. auto.
Qed.

(* ng.timeout is at least the server's own timeout and every group's timeout *)
Lemma eng_timeout_ge_acc : forall groups m,
  m <= fold_left (fun m g => if m <? fr_timeout g then fr_timeout g else m) groups m.
Proof.
  induction groups as [|g groups IH]; intros m; cbn; [lia|].
  destruct (Z.ltb_spec m (fr_timeout g)).
  - specialize (IH (fr_timeout g)). lia.
  - apply IH.
Qed.

Lemma eng_timeout_ge_group : forall groups m g,
  In g groups ->
  fr_timeout g <= fold_left (fun m g => if m <? fr_timeout g then fr_timeout g else m) groups m.
Proof.
  induction groups as [|g' groups IH]; intros m g Hin; [destruct Hin|]. destruct Hin as [E|Hin]; cbn.
  - subst g'. destruct (Z.ltb_spec m (fr_timeout g)).
    + apply eng_timeout_ge_acc.
    + pose proof (eng_timeout_ge_acc groups m). lia.
  - apply IH, Hin.
Qed.

(* every route's timeout fits into the http.Server's WriteTimeout (so the 503 can be written) *)
Lemma write_timeout_covers mw conf_ms groups g :
  In g groups -> 0 <= conf_ms ->
  eng_route_dur mw conf_ms g <= srv_write_timeout (eng_timeout conf_ms groups) /\
  srv_read_timeout (eng_timeout conf_ms groups) <= eng_timeout conf_ms groups.
Proof.
  intros Hin Hc.
  pose proof (eng_timeout_ge_group groups (conf_ms * 1000000) g Hin) as H1.
  pose proof (eng_timeout_ge_acc groups (conf_ms * 1000000)) as H2.
  fold (eng_timeout conf_ms groups) in H1, H2.
  set (t := eng_timeout conf_ms groups) in *.
  assert (Hd : eng_route_dur mw conf_ms g <= t /\ 0 <= t).
  { split; [|lia]. unfold eng_route_dur, checked_timeout. destruct mw; [|lia].
    destruct (Z.ltb_spec 0 (fr_timeout g)); lia. }
  unfold srv_write_timeout, srv_read_timeout. destruct (Z.ltb_spec 0 t).
  - split.
    + assert (t <= 11 * t / 10) by (apply Z.div_le_lower_bound; lia). lia.
    + apply Z.div_le_upper_bound; lia.
  - split; lia.
Qed.

(* the timeout outcome, as the client sees it, in the checker's terms *)
Lemma timeout_result_lemma fl h0 script sched k :
  let s := run (init fl h0 script) sched in
  sst s = STimeoutRet k ->
  exists pre, (exists post, script = pre ++ post) /\
              rw s = timeout_write k (committed fl h0 pre) /\
              (spec_panic fl false pre = None -> info_first fl pre = false ->
               rw_view (rw s) = timeout_view fl h0 k pre).
Proof.
  intros s Hs.
  pose proof (all_or_nothing_flush_lemma fl h0 script sched) as O. fold s in O.
  destruct O as [E|ex E|k' pre E1 E2 E3 E4|p E]; try congruence.
  assert (k' = k) by congruence. subst k'.
  exists pre. split; [exact E3|]. split; [exact E4|].
  intros Hn Hi. rewrite E4. apply timeout_view_spec; assumption.
Qed.

(* ------------------------------------------------------------------ *)
(* 499 or 503: decided by the FIRST Done event, whatever follows        *)

Fixpoint first_done (sched : list ev) : option kind :=
  match sched with
  | [] => None
  | ED k :: _ => Some k
  | _ :: r => first_done r
  end.

Lemma stepT_dk s e :
  dk (stepT s e) = match e with ED k => match dk s with Some k' => Some k' | None => Some k end | _ => dk s end.
Proof.
  destruct e as [|k|b].
  - apply (stepT_H_frame s).
  - unfold stepT, step, d_step. destruct (dk s) eqn:E; [exact E|reflexivity].
  - unfold stepT, step, s_step. destruct (sst s); try reflexivity.
    destruct b; [destruct (hst s)|destruct (hst s)|destruct (dk s) eqn:E]; cbn; rewrite ?E; reflexivity.
Qed.

Lemma run_dk : forall sched s,
  dk (run s sched) = match dk s with Some k => Some k | None => first_done sched end.
Proof.
  induction sched as [|e sched IH]; intros s; cbn [run fold_left first_done].
  - destruct (dk s); reflexivity.
  - change (fold_left stepT sched (stepT s e)) with (run (stepT s e) sched).
    rewrite IH, stepT_dk. destruct e as [|k|b]; destruct (dk s); reflexivity.
Qed.

Lemma timeout_kind_lemma fl h0 script sched k :
  sst (run (init fl h0 script) sched) = STimeoutRet k ->
  first_done sched = Some k /\
  rres (rw (run (init fl h0 script) sched)) <> None /\
  (fl = false \/ has_flush script = false ->
   rres (rw (run (init fl h0 script) sched)) = Some (timeout_code k, h0)).
Proof.
  intros Hs.
  pose proof (run_dk sched (init fl h0 script)) as D. cbn [dk init] in D.
  pose proof (all_or_nothing_flush_lemma fl h0 script sched) as O.
  destruct O as [E|ex E|k' pre E1 E2 E3 E4|p E]; try congruence.
  assert (k' = k) by congruence. subst k'.
  split; [congruence|]. split.
  - rewrite E4.
    change (rres (timeout_write k (committed fl h0 pre)))
      with (snd (fst (rw_view (timeout_write k (committed fl h0 pre))))).
    rewrite timeout_write_view. destruct (rres (committed fl h0 pre)); discriminate.
  - intros Hf. destruct (all_or_nothing_lemma fl h0 script sched Hf) as [F|ex F|k' F1 F2 F3|p F]; try congruence.
    assert (k' = k) by congruence. subst k'. rewrite F3. reflexivity.
Qed.

(* ------------------------------------------------------------------ *)
(* what the OUTER middlewares record (response.WithCodeResponseWriter.Code) *)

Lemma outer_view_lemma fl h0 script sched :
  let s := run (init fl h0 script) sched in
  (forall k, sst s = STimeoutRet k -> rcode (rw s) = timeout_code k) /\
  (sst s = SDoneRet -> fl = false \/ has_flush script = false -> info_first fl (hexec s) = false ->
   rres (rw s) = Some (rcode (rw s), rlive (rw s)) /\ rcode (rw s) = spec_status false (hexec s)) /\
  (sst s = SWait -> fl = false \/ has_flush script = false -> rcode (rw s) = 200 /\ rres (rw s) = None).
Proof.
  intros s. split; [|split].
  - intros k Hs.
    pose proof (all_or_nothing_flush_lemma fl h0 script sched) as O. fold s in O.
    destruct O as [E|ex E|k' pre E1 E2 E3 E4|p E]; try congruence.
    assert (k' = k) by congruence. subst k'. rewrite E4. apply timeout_write_code.
  - intros Hs Hf Hi.
    pose proof (all_or_nothing_lemma fl h0 script sched Hf) as O. fold s in O.
    destruct O as [E|ex E1 E2 E3 E4 E5 E6 E7|k' E|p E]; try congruence.
    subst ex. rewrite (E7 Hi). cbn. split; reflexivity.
  - intros Hs Hf.
    pose proof (all_or_nothing_lemma fl h0 script sched Hf) as O. fold s in O.
    destruct O as [E1 E2|ex E|k' E|p E]; try congruence. rewrite E2. split; reflexivity.
Qed.
