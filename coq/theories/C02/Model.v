(* C02 — adaptive load shedder: executable model of core/load/adaptiveshedder.go
   (NewAdaptiveShedder / Allow / shouldDrop / systemOverloaded / stillHot /
   highThru / maxFlight / maxPass / minRt / overloadFactor / addFlying /
   promise.Pass / promise.Fail), core/load/nopshedder.go and the part of
   core/load/sheddergroup.go that matters (a group hands out shedders built by
   NewAdaptiveShedder).  The two windows are the shared model
   Lib/RollingWindow.v of core/collection/rollingwindow.go with
   IgnoreCurrentBucket.  No proofs in this file.

   Conventions
   - times are integers: nanoseconds of timex.Now(); every operation that reads
     the clock carries the value it reads ([now]);
   - the CPU gauge stat.CpuUsage() is outside the model: an Allow carries the two
     readings the code makes, [cpu1] (read by systemOverloadChecker, compared
     with the threshold) and [cpu2] (read by overloadFactor);
   - a promise is named by the index of the Allow operation that returned it;
     [proms] maps that index to promise.start.  Resolving a promise twice is not
     prevented by the Go code (flying is decremented again); the model does the
     same, the theorems carry the well-formedness hypothesis explicitly;
   - float64 quantities are exact rationals here (Q).  The correspondence check
     skips decisions whose margin is below 2^-30 (Check.v);
   - math.Round(float64(Sum)/float64(Count)) is round-half-away-from-zero;
     math.Ceil(ns/1e6) is the integer ceiling;
   - IEEE corner: cpuThreshold = cpuMax makes overloadFactor divide by zero:
     +Inf (clamped to 1), -Inf (clamped to the lower bound) or NaN (cpu = cpuMax;
     every comparison with NaN is false, so nothing is shed).  [overload_factor]
     returns [None] for NaN.
   - the extra stillHot() call inside the log message of shouldDrop is omitted:
     at an unchanged clock it returns what it returned before and changes
     nothing. *)
From Coq Require Import List ZArith QArith Bool.
From GZ Require Import Lib.RollingWindow.
Import ListNotations.
Open Scope Z_scope.

(* ---- constants of adaptiveshedder.go (re-extracted into gen/C02Consts.v on
   every run; C02/GenProofs.v proves they are these) ---- *)
Definition defaultBuckets : Z := 50.
Definition defaultWindow : Z := 5000000000.
Definition defaultCpuThreshold : Z := 900.
Definition defaultMinRt : Z := 1000.
Definition flyingBeta : Q := 9 # 10.
Definition coolOffDuration : Z := 1000000000.
Definition cpuMax : Z := 1000.
Definition millisecondsPerSecond : Z := 1000.
Definition overloadFactorLowerBound : Q := 1 # 10.
Definition nsPerSecond : Z := 1000000000.       (* time.Second *)
Definition nsPerMillisecond : Z := 1000000.     (* time.Millisecond *)

Record config := mkCfg
  { cwindow : Z;       (* WithWindow, ns *)
    cbuckets : Z;      (* WithBuckets *)
    cthreshold : Z;    (* WithCpuThreshold *)
    cenabled : bool    (* load.enabled when NewAdaptiveShedder ran *) }.

Definition default_config : config :=
  mkCfg defaultWindow defaultBuckets defaultCpuThreshold true.

Record state := mkSt
  { senabled : bool;          (* false: nopShedder *)
    sthreshold : Z;
    sscale : Q;               (* windowScale *)
    flying : Z;
    avgFlying : Q;
    overloadTime : Z;         (* 0 = unset *)
    droppedRecently : bool;
    passCounter : rw;
    rtCounter : rw;
    nextId : Z;               (* index of the next operation *)
    proms : list (Z * Z)      (* promise id |-> promise.start *) }.

Inductive op :=
| OAllow (now cpu1 cpu2 : Z)
| OPass (id now : Z)
| OFail (id : Z).

Inductive res :=
| RAdmit        (* Allow returned a promise *)
| RShed         (* Allow returned ErrServiceOverloaded *)
| RDone         (* Pass / Fail on a promise that exists *)
| RNoop.        (* Pass / Fail naming an operation that returned no promise *)

Definition bucket_duration (c : config) : Z := Z.quot (cwindow c) (cbuckets c).

(* float64(time.Second) / float64(bucketDuration) / millisecondsPerSecond *)
Definition window_scale (c : config) : Q :=
  (inject_Z nsPerSecond / inject_Z (bucket_duration c) / inject_Z millisecondsPerSecond)%Q.

Definition init (c : config) (t0 : Z) : state :=
  let w := rw_new (Z.to_nat (cbuckets c)) (bucket_duration c) t0 true in
  mkSt (cenabled c) (cthreshold c) (window_scale c) 0 0%Q 0 false w w 0 [].

(* ---- field updates ---- *)
Definition set_overload (s : state) (t : Z) : state :=
  mkSt (senabled s) (sthreshold s) (sscale s) (flying s) (avgFlying s) t
       (droppedRecently s) (passCounter s) (rtCounter s) (nextId s) (proms s).
Definition set_dropped (s : state) (b : bool) : state :=
  mkSt (senabled s) (sthreshold s) (sscale s) (flying s) (avgFlying s) (overloadTime s)
       b (passCounter s) (rtCounter s) (nextId s) (proms s).
Definition set_flying (s : state) (f : Z) (a : Q) : state :=
  mkSt (senabled s) (sthreshold s) (sscale s) f a (overloadTime s)
       (droppedRecently s) (passCounter s) (rtCounter s) (nextId s) (proms s).
Definition set_windows (s : state) (p r : rw) : state :=
  mkSt (senabled s) (sthreshold s) (sscale s) (flying s) (avgFlying s) (overloadTime s)
       (droppedRecently s) p r (nextId s) (proms s).
Definition add_prom (s : state) (start : Z) : state :=
  mkSt (senabled s) (sthreshold s) (sscale s) (flying s) (avgFlying s) (overloadTime s)
       (droppedRecently s) (passCounter s) (rtCounter s) (nextId s)
       ((nextId s, start) :: proms s).
Definition bump (s : state) : state :=
  mkSt (senabled s) (sthreshold s) (sscale s) (flying s) (avgFlying s) (overloadTime s)
       (droppedRecently s) (passCounter s) (rtCounter s) (nextId s + 1) (proms s).

Definition prom_start (id : Z) (l : list (Z * Z)) : option Z :=
  match find (fun p => fst p =? id) l with
  | Some p => Some (snd p)
  | None => None
  end.

(* ---- rational helpers (mathx.AtLeast / mathx.Between on float64) ---- *)
Definition q_ltb (a b : Q) : bool := negb (Qle_bool b a).
Definition at_least (x lower : Q) : Q := if q_ltb x lower then lower else x.
Definition between (x lower upper : Q) : Q :=
  if q_ltb x lower then lower else if q_ltb upper x then upper else x.

(* ---- Bucket{Sum,Count} of a bucket = list of added values ---- *)
Definition bsum (b : list Z) : Z := fold_right Z.add 0 b.
Definition bcount (b : list Z) : Z := Z.of_nat (length b).

(* maxPass(): result starts at 1; if b.Sum > result { result = b.Sum } *)
Definition max_pass_of (bs : list (list Z)) : Z :=
  fold_left (fun r b => Z.max r (bsum b)) bs 1.

(* math.Round(x/y) for y > 0: half away from zero *)
Definition round_div (s c : Z) : Z :=
  if 0 <=? s then (2 * s + c) / (2 * c) else - ((2 * (- s) + c) / (2 * c)).

(* minRt(): result starts at defaultMinRt; empty buckets skipped;
   avg := Round(Sum/Count); if avg < result { result = avg } *)
Definition min_rt_of (bs : list (list Z)) : Z :=
  fold_left (fun r b => if bcount b <=? 0 then r else Z.min r (round_div (bsum b) (bcount b)))
            bs defaultMinRt.

Definition max_pass (s : state) (now : Z) : Z := max_pass_of (rw_reduce (passCounter s) now).
Definition min_rt (s : state) (now : Z) : Z := min_rt_of (rw_reduce (rtCounter s) now).

(* maxFlight(): AtLeast(float64(maxPass) * minRt * windowScale, 1) *)
Definition raw_flight (s : state) (now : Z) : Q :=
  (inject_Z (max_pass s now) * inject_Z (min_rt s now) * sscale s)%Q.
Definition max_flight (s : state) (now : Z) : Q := at_least (raw_flight s now) 1%Q.

(* overloadFactor(); None = NaN *)
Definition overload_factor (threshold cpu : Z) : option Q :=
  if threshold =? cpuMax then
    if cpu <? cpuMax then Some 1%Q
    else if cpu =? cpuMax then None
    else Some overloadFactorLowerBound
  else
    Some (between (inject_Z (cpuMax - cpu) / inject_Z (cpuMax - threshold))%Q
                  overloadFactorLowerBound 1%Q).

(* highThru() *)
Definition high_thru (s : state) (now cpu2 : Z) : bool :=
  match overload_factor (sthreshold s) cpu2 with
  | None => false
  | Some f =>
    let m := (max_flight s now * f)%Q in
    q_ltb m (avgFlying s) && q_ltb m (inject_Z (flying s))
  end.

(* systemOverloaded(): the checker compares its reading with the threshold *)
Definition system_overloaded (s : state) (now cpu1 : Z) : state * bool :=
  if sthreshold s <=? cpu1 then (set_overload s now, true) else (s, false).

(* stillHot() *)
Definition still_hot (s : state) (now : Z) : state * bool :=
  if negb (droppedRecently s) then (s, false)
  else if overloadTime s =? 0 then (s, false)
  else if now - overloadTime s <? coolOffDuration then (s, true)
  else (set_dropped s false, false).

(* as.systemOverloaded() || as.stillHot()   (short-circuit) *)
Definition hot_check (s : state) (now cpu1 : Z) : state * bool :=
  let '(s1, o) := system_overloaded s now cpu1 in
  if o then (s1, true) else still_hot s1 now.

(* shouldDrop() *)
Definition should_drop (s : state) (now cpu1 cpu2 : Z) : state * bool :=
  let '(s1, h) := hot_check s now cpu1 in
  (s1, h && high_thru s1 now cpu2).

(* the tail of Allow once shouldDrop has answered [d] on state [s1] *)
Definition allow_finish (s1 : state) (now : Z) (d : bool) : state * res :=
  if d then (set_dropped s1 true, RShed)
  else (add_prom (set_flying s1 (flying s1 + 1) (avgFlying s1)) now, RAdmit).

Definition allow (s : state) (now cpu1 cpu2 : Z) : state * res :=
  let '(s1, d) := should_drop s now cpu1 cpu2 in allow_finish s1 now d.

(* addFlying(-1) *)
Definition next_avg (avg : Q) (fl : Z) : Q :=
  Qred (avg * flyingBeta + inject_Z fl * (1 - flyingBeta))%Q.
Definition dec_flying (s : state) : state :=
  set_flying s (flying s - 1) (next_avg (avgFlying s) (flying s - 1)).

(* int64(math.Ceil(float64(d) / float64(time.Millisecond))) *)
Definition ceil_ms (d : Z) : Z := - ((- d) / nsPerMillisecond).

Definition pass (s : state) (id now : Z) : state * res :=
  match prom_start id (proms s) with
  | None => (s, RNoop)
  | Some start =>
    let s1 := dec_flying s in
    (set_windows s1 (rw_add (passCounter s1) now 1)
                    (rw_add (rtCounter s1) now (ceil_ms (now - start))), RDone)
  end.

Definition fail (s : state) (id : Z) : state * res :=
  match prom_start id (proms s) with
  | None => (s, RNoop)
  | Some _ => (dec_flying s, RDone)
  end.

(* nopShedder: Allow always returns a promise whose Pass / Fail do nothing *)
Definition nop_step (s : state) (o : op) : state * res :=
  match o with
  | OAllow now _ _ => (add_prom s now, RAdmit)
  | OPass id _ | OFail id =>
    match prom_start id (proms s) with
    | None => (s, RNoop)
    | Some _ => (s, RDone)
    end
  end.

Definition step0 (s : state) (o : op) : state * res :=
  if senabled s then
    match o with
    | OAllow now cpu1 cpu2 => allow s now cpu1 cpu2
    | OPass id now => pass s id now
    | OFail id => fail s id
    end
  else nop_step s o.

Definition step (s : state) (o : op) : state * res :=
  let '(s', r) := step0 s o in (bump s', r).

(* history semantics *)
Fixpoint run (s : state) (ops : list op) : list res :=
  match ops with
  | [] => []
  | o :: ops' => let '(s', r) := step s o in r :: run s' ops'
  end.

Fixpoint final (s : state) (ops : list op) : state :=
  match ops with
  | [] => s
  | o :: ops' => final (fst (step s o)) ops'
  end.
