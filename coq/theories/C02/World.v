(* C02 — the process-wide picture: the ORDER of the configuration calls.

   load.Disable() flips a package-level flag that is consulted by NewAdaptiveShedder - and therefore by
   ShedderGroup.GetShedder when it builds the member for a key it has not seen (sheddergroup.go keeps the
   caller's options and calls NewAdaptiveShedder(g.options...) at that moment; NewShedderGroup itself looks
   at nothing).  A history of the process is a list of events

     XDisable | XNew opts t0 | XGroup opts | XGet g key t0 | XOp k op

   in ANY order: Disable before or after NewShedderGroup, between two GetShedder calls, in the middle of
   the traffic.  Shedders are numbered in the order in which they are made; every shedder has its own
   state (Model.state); the world keeps, as a ghost, the "birth certificate" of each shedder: the options
   it was built with, the clock at that moment and the value of the flag at that moment.
   Definitions only; proofs in C02/ProofsWorld.v. *)
From Coq Require Import List ZArith Bool.
From GZ Require Import Lib.RollingWindow C02.Model.
Import ListNotations.
Open Scope Z_scope.

(* what the caller passes: WithWindow / WithBuckets / WithCpuThreshold (the defaults where left out) *)
Record opts := mkOpts { owindow : Z; obuckets : Z; othreshold : Z }.
Definition cfg_of (o : opts) (en : bool) : config := mkCfg (owindow o) (obuckets o) (othreshold o) en.

Inductive wev :=
| XDisable                               (* load.Disable() *)
| XNew (o : opts) (t0 : Z)               (* NewAdaptiveShedder(opts...) at clock t0 *)
| XGroup (o : opts)                      (* NewShedderGroup(opts...); groups are numbered in order *)
| XGet (g : nat) (key : Z) (t0 : Z)      (* group g .GetShedder(key) at clock t0 *)
| XOp (k : nat) (o : op).                (* Allow / Pass / Fail on shedder k (promise ids are per shedder) *)

Inductive wres :=
| YNone                  (* Disable / NewShedderGroup; or an event naming a group or shedder that does not exist *)
| YMade (k : nat)        (* a shedder was built: number k *)
| YSame (k : nat)        (* GetShedder of a key seen before: the shedder built then *)
| YRes (r : res).

Definition cert := (opts * Z * bool)%type.

Record world := mkW
  { wdisabled : bool;                            (* !load.enabled *)
    wshedders : list state;
    wcerts : list cert;                          (* ghost: options, clock and flag at construction *)
    wgroups : list (opts * list (Z * nat)) }.    (* options kept by the group; key |-> shedder number *)

Definition w0 : world := mkW false [] [] [].

Fixpoint upd {A} (l : list A) (k : nat) (x : A) : list A :=
  match l, k with
  | [], _ => []
  | _ :: l', O => x :: l'
  | y :: l', S k' => y :: upd l' k' x
  end.

Definition lookup (key : Z) (ms : list (Z * nat)) : option nat :=
  match find (fun p => fst p =? key) ms with Some p => Some (snd p) | None => None end.

Definition make (w : world) (o : opts) (t0 : Z) (groups : list (opts * list (Z * nat))) : world * wres :=
  let en := negb (wdisabled w) in
  (mkW (wdisabled w) (wshedders w ++ [init (cfg_of o en) t0]) (wcerts w ++ [(o, t0, en)]) groups,
   YMade (length (wshedders w))).

Definition wstep (w : world) (e : wev) : world * wres :=
  match e with
  | XDisable => (mkW true (wshedders w) (wcerts w) (wgroups w), YNone)
  | XNew o t0 => make w o t0 (wgroups w)
  | XGroup o => (mkW (wdisabled w) (wshedders w) (wcerts w) (wgroups w ++ [(o, [])]), YNone)
  | XGet g key t0 =>
    match nth_error (wgroups w) g with
    | None => (w, YNone)
    | Some (o, ms) =>
      match lookup key ms with
      | Some k => (w, YSame k)
      | None => make w o t0 (upd (wgroups w) g (o, (key, length (wshedders w)) :: ms))
      end
    end
  | XOp k o =>
    match nth_error (wshedders w) k with
    | None => (w, YNone)
    | Some s => (mkW (wdisabled w) (upd (wshedders w) k (fst (step s o))) (wcerts w) (wgroups w),
                 YRes (snd (step s o)))
    end
  end.

Fixpoint wrun (w : world) (evs : list wev) : list wres :=
  match evs with
  | [] => []
  | e :: evs' => snd (wstep w e) :: wrun (fst (wstep w e)) evs'
  end.

Fixpoint wfinal (w : world) (evs : list wev) : world :=
  match evs with
  | [] => w
  | e :: evs' => wfinal (fst (wstep w e)) evs'
  end.

(* the history of ONE shedder inside the history of the process: the operations that reached it *)
Fixpoint proj (k : nat) (evs : list wev) (rs : list wres) : list op :=
  match evs, rs with
  | XOp k' o :: evs', YRes _ :: rs' => if Nat.eqb k' k then o :: proj k evs' rs' else proj k evs' rs'
  | _ :: evs', _ :: rs' => proj k evs' rs'
  | _, _ => []
  end.

Fixpoint projr (k : nat) (evs : list wev) (rs : list wres) : list res :=
  match evs, rs with
  | XOp k' _ :: evs', YRes r :: rs' => if Nat.eqb k' k then r :: projr k evs' rs' else projr k evs' rs'
  | _ :: evs', _ :: rs' => projr k evs' rs'
  | _, _ => []
  end.

Definition is_disable (e : wev) : bool := match e with XDisable => true | _ => false end.

(* the options given to the groups, in the order of the NewShedderGroup calls *)
Fixpoint group_opts (evs : list wev) : list opts :=
  match evs with
  | [] => []
  | XGroup o :: evs' => o :: group_opts evs'
  | _ :: evs' => group_opts evs'
  end.

(* the p-th event is a constructor call with options [o] (its own, or those of its group) at clock [t0] *)
Definition made_by (evs : list wev) (p : nat) (o : opts) (t0 : Z) : Prop :=
  nth_error evs p = Some (XNew o t0) \/
  exists g key, nth_error evs p = Some (XGet g key t0) /\ nth_error (group_opts evs) g = Some o.

(* the configuration calls alone *)
Definition is_config (e : wev) : bool := match e with XOp _ _ => false | _ => true end.
