(* C02 — the wrappers over REQUEST HISTORIES with overlapping requests.

   rest SheddingHandler and zrpc UnarySheddingInterceptor in front of one shedder: a history is a list of
     HStart now cpu1 cpu2 o   a request arrives (its handler, if it runs, is going to do [o]: write status codes /
                              return an error / panic - Check.wout)
     HEnd r now               the handler of the request started by event r ends (returns or panics)
   in any order: requests overlap freely, a handler can end long after later requests have come and gone.
   [hrun] is what the wrappers make of it: Allow at every HStart; for a let-in request the deferred function
   resolves the promise when the handler ends - Fail for the overload-class outcomes (REST: the last status
   written is 503; zRPC: errors.Is(err, context.DeadlineExceeded)), Pass for everything else, panics included;
   a shed request runs nothing and resolves nothing; a handler ends once.

   [wrapped_histories_core]: for EVERY such history the Allow / Pass / Fail history handed to the shedder names
   every promise at most once (the hypothesis of Props.flying_counts_open_requests is met by construction),
   every ended let-in request has been resolved - by exactly the operation [resolve_op] prescribes -, no open one
   has, and the shedder's in-flight count is the number of let-in requests whose handler is still running. *)
From Coq Require Import List ZArith Bool Lia.
From GZ Require Import Lib.RollingWindow C02.Model C02.Proofs C02.ProofsHist C02.Wrap C02.ProofsWrap C02.World C02.ProofsWorld C02.Check.
Import ListNotations.
Open Scope Z_scope.

Inductive hev :=
| HStart (now cpu1 cpu2 : Z) (o : wout)
| HEnd (r : nat) (now : Z).

Inductive rstatus :=
| ROpen (id : Z) (o : wout)        (* let in, promise [id], handler running *)
| RClosed (id : Z) (o : wout)      (* let in, handler ended, promise resolved *)
| RShedded                         (* shed: the handler never ran *)
| RNot.                            (* (the slot of an HEnd event) *)

Definition resolve_op (o : wout) (id now : Z) : op :=
  match wout_resolution o with ResFail => OFail id | _ => OPass id now end.

Definition hstep (s : state) (st : list rstatus) (e : hev) : state * list rstatus * list op :=
  match e with
  | HStart now c1 c2 o =>
    (fst (step s (OAllow now c1 c2)),
     st ++ [match snd (step s (OAllow now c1 c2)) with RAdmit => ROpen (nextId s) o | _ => RShedded end],
     [OAllow now c1 c2])
  | HEnd r now =>
    match nth_error st r with
    | Some (ROpen id o) =>
      (fst (step s (resolve_op o id now)), upd st r (RClosed id o) ++ [RNot], [resolve_op o id now])
    | _ => (s, st ++ [RNot], [])
    end
  end.

Fixpoint hrun (s : state) (st : list rstatus) (evs : list hev) : state * list rstatus * list op :=
  match evs with
  | [] => (s, st, [])
  | e :: evs' =>
    let '(s1, st1, ops1) := hstep s st e in
    let '(s2, st2, ops2) := hrun s1 st1 evs' in (s2, st2, ops1 ++ ops2)
  end.

Definition is_open (x : rstatus) : bool := match x with ROpen _ _ => true | _ => false end.
Definition count_open (st : list rstatus) : nat := length (filter is_open st).

(* ---- which operation: Fail exactly for the overload class ---- *)
Lemma resolve_op_class : forall o id now,
  (wout_overload_class o = true -> resolve_op o id now = OFail id) /\
  (wout_overload_class o = false -> resolve_op o id now = OPass id now).
Proof.
  intros o id now. unfold resolve_op, wout_resolution, wout_overload_class.
  destruct o as [o|o].
  - unfold rest_resolution, last_code, overloadStatus. destruct (last (ro_codes o) 200 =? 503); split; intros H; try discriminate; reflexivity.
  - destruct o; cbn; split; intros H; try discriminate; reflexivity.
Qed.

Lemma resolve_op_id : forall o id now, res_ids [resolve_op o id now] = [id].
Proof. intros. unfold resolve_op. destruct (wout_resolution o); reflexivity. Qed.

(* ---- lists ---- *)
Lemma res_ids_app : forall a b, res_ids (a ++ b) = res_ids a ++ res_ids b.
Proof.
  induction a as [|o a IH]; intros b; [reflexivity|].
  destruct o; cbn [app res_ids]; rewrite IH; reflexivity.
Qed.

Lemma filter_upd_open : forall st r id o x,
  nth_error st r = Some (ROpen id o) -> is_open x = false ->
  S (length (filter is_open (upd st r x))) = length (filter is_open st).
Proof.
  induction st as [|y st IH]; intros [|r] id o x H Hx; cbn in H; try discriminate.
  - inversion H; subst y. cbn [upd filter is_open]. rewrite Hx. reflexivity.
  - cbn [upd filter]. destruct (is_open y); cbn [length]; rewrite (IH r id o x H Hx); reflexivity.
Qed.

Lemma count_open_snoc : forall st x, count_open (st ++ [x]) = (count_open st + (if is_open x then 1 else 0))%nat.
Proof.
  intros. unfold count_open. rewrite filter_app, app_length. cbn [filter]. destruct (is_open x); reflexivity.
Qed.

Lemma nth_error_upd_cases : forall {A} (l : list A) k j x y,
  nth_error (upd l k x) j = Some y -> (j = k /\ y = x) \/ (j <> k /\ nth_error l j = Some y).
Proof.
  induction l as [|z l IH]; intros [|k] [|j] x y H; cbn in H; try discriminate.
  - inversion H. left. auto.
  - right. split; [discriminate|exact H].
  - right. split; [discriminate|exact H].
  - destruct (IH k j x y H) as [[-> ->]|[Hne Hj]]; [left; auto|right; split; [congruence|exact Hj]].
Qed.

Lemma NoDup_app_snoc : forall {A} (l : list A) x, NoDup l -> ~ In x l -> NoDup (l ++ [x]).
Proof.
  induction l as [|y l IH]; intros x Hnd Hni; cbn.
  - constructor; [intros []|constructor].
  - inversion Hnd; subst. constructor.
    + intros Hin. apply in_app_or in Hin. destruct Hin as [Hin|[Hin|[]]]; [contradiction|].
      subst. apply Hni. left. reflexivity.
    + apply IH; [assumption|]. intros Hin. apply Hni. right. exact Hin.
Qed.

(* ---- one step of the shedder, what the wrappers need ---- *)
Lemma step_next_id : forall s o, nextId (fst (step s o)) = nextId s + 1.
Proof.
  intros s o. unfold step, step0. destruct (senabled s).
  - destruct o as [now c1 c2|id now|id].
    + destruct (allow s now c1 c2) as [s' r] eqn:Ea.
      destruct (allow_state _ _ _ _ _ _ Ea) as (_ & _ & _ & _ & _ & Hx & _). cbn. lia.
    + unfold pass. destruct (prom_start id (proms s)); reflexivity.
    + unfold fail. destruct (prom_start id (proms s)); reflexivity.
  - unfold nop_step. destruct o; try destruct (prom_start id (proms s)); reflexivity.
Qed.

Lemma step_keeps_prom : forall s o id t, senabled s = true -> id <> nextId s ->
  prom_start id (proms s) = Some t -> prom_start id (proms (fst (step s o))) = Some t.
Proof.
  intros s o id t Hen Hne Hp. unfold step, step0. rewrite Hen.
  destruct o as [now c1 c2|id' now|id'].
  - destruct (allow s now c1 c2) as [s' r] eqn:Ea.
    destruct (allow_state _ _ _ _ _ _ Ea) as (_ & _ & _ & _ & _ & _ & _ & [(_ & _ & Hx & _)|(_ & _ & Hx & _)] & _);
      cbn [fst bump proms]; rewrite Hx; [exact Hp|].
    unfold prom_start. cbn [find fst]. destruct (Z.eqb_spec (nextId s) id) as [E|E]; [congruence|exact Hp].
  - unfold pass. destruct (prom_start id' (proms s)); cbn; exact Hp.
  - unfold fail. destruct (prom_start id' (proms s)); cbn; exact Hp.
Qed.

Lemma resolve_done_op : forall s o id now t, senabled s = true -> prom_start id (proms s) = Some t ->
  snd (step s (resolve_op o id now)) = RDone.
Proof.
  intros s o id now t Hen Hp. destruct (resolve_done s id t now Hen Hp) as [H1 H2].
  unfold resolve_op. destruct (wout_resolution o); assumption.
Qed.

(* ---- the invariant ---- *)
Record hinv (s : state) (st : list rstatus) (pre : list op) : Prop := mkHinv
  { h_en : senabled s = true;
    h_fl : flying s = Z.of_nat (count_open st);
    h_open : forall r id o, nth_error st r = Some (ROpen id o) ->
             id < nextId s /\ (exists t, prom_start id (proms s) = Some t) /\ ~ In id (res_ids pre);
    h_inj : forall r r' id o o', nth_error st r = Some (ROpen id o) -> nth_error st r' = Some (ROpen id o') -> r = r';
    h_closed : forall r id o, nth_error st r = Some (RClosed id o) ->
               In id (res_ids pre) /\ exists now, In (resolve_op o id now) pre;
    h_ids : forall id, In id (res_ids pre) -> id < nextId s;
    h_nodup : NoDup (res_ids pre) }.

Lemma hinv_step : forall s st pre e s' st' ops,
  hinv s st pre -> hstep s st e = (s', st', ops) ->
  hinv s' st' (pre ++ ops) /\ s' = final s ops.
Proof.
  intros s st pre e s' st' ops I H. destruct I as [Hen Hfl Hopen Hinj Hclosed Hids Hnd].
  destruct e as [now c1 c2 o|r now]; cbn [hstep] in H.
  - (* a request arrives *)
    inversion H; subst s' st' ops; clear H. split; [|reflexivity].
    pose proof (step_flying s (OAllow now c1 c2) Hen) as Hf.
    pose proof (step_enabled s (OAllow now c1 c2)) as He.
    pose proof (step_next_id s (OAllow now c1 c2)) as Hn.
    assert (Hres : snd (step s (OAllow now c1 c2)) = RShed \/ snd (step s (OAllow now c1 c2)) = RAdmit).
    { rewrite step_allow_snd by exact Hen. apply allow_res. }
    assert (Hids' : res_ids (pre ++ [OAllow now c1 c2]) = res_ids pre) by (rewrite res_ids_app; cbn; apply app_nil_r).
    constructor.
    + congruence.
    + rewrite Hf, count_open_snoc, Hfl. destruct Hres as [-> | ->]; cbn [is_open]; lia.
    + intros r id o' Hr. apply nth_error_snoc_cases in Hr. destruct Hr as [[_ Hr]|[_ Hr]].
      * destruct (Hopen r id o' Hr) as (Hlt & (t & Hp) & Hni). rewrite Hn, Hids'. split; [lia|]. split; [|exact Hni].
        exists t. apply step_keeps_prom; [exact Hen|lia|exact Hp].
      * destruct Hres as [E|E]; rewrite E in Hr; [discriminate|]. inversion Hr; subst id o'.
        rewrite Hn, Hids'. split; [lia|]. split.
        -- exists now. destruct (step s (OAllow now c1 c2)) as [s1 r1] eqn:Es. cbn [fst snd] in *. subst r1.
           exact (proj2 (step_allow_prom _ _ _ _ _ Hen Es)).
        -- intros Hin. apply Hids in Hin. lia.
    + intros r r' id o1 o2 Hr Hr'. apply nth_error_snoc_cases in Hr. apply nth_error_snoc_cases in Hr'.
      destruct Hr as [[Hlt Hr]|[Hre Hr]]; destruct Hr' as [[Hlt' Hr']|[Hre' Hr']].
      * eapply Hinj; eassumption.
      * exfalso. destruct Hres as [E|E]; rewrite E in Hr'; [discriminate|]. inversion Hr'; subst id.
        destruct (Hopen r _ o1 Hr) as (Hx & _). lia.
      * exfalso. destruct Hres as [E|E]; rewrite E in Hr; [discriminate|]. inversion Hr; subst id.
        destruct (Hopen r' _ o2 Hr') as (Hx & _). lia.
      * congruence.
    + intros r id o' Hr. apply nth_error_snoc_cases in Hr. destruct Hr as [[_ Hr]|[_ Hr]].
      * destruct (Hclosed r id o' Hr) as (Hin & nw & Hop). rewrite Hids'. split; [exact Hin|].
        exists nw. apply in_or_app. left. exact Hop.
      * destruct Hres as [E|E]; rewrite E in Hr; discriminate.
    + intros id Hin. rewrite Hids' in Hin. apply Hids in Hin. lia.
    + rewrite Hids'. exact Hnd.
  - (* a handler ends *)
    assert (Hquiet : hinv s (st ++ [RNot]) pre).
    { constructor.
      - exact Hen.
      - rewrite count_open_snoc. cbn [is_open]. rewrite Nat.add_0_r. exact Hfl.
      - intros r0 id0 o0 Hr0. apply nth_error_snoc_cases in Hr0. destruct Hr0 as [[_ Hr0]|[_ Hr0]]; [|discriminate].
        eapply Hopen. exact Hr0.
      - intros r0 r1 id0 o0 o1 Hr0 Hr1. apply nth_error_snoc_cases in Hr0. apply nth_error_snoc_cases in Hr1.
        destruct Hr0 as [[_ Hr0]|[_ Hr0]]; [|discriminate]. destruct Hr1 as [[_ Hr1]|[_ Hr1]]; [|discriminate].
        eapply Hinj; eassumption.
      - intros r0 id0 o0 Hr0. apply nth_error_snoc_cases in Hr0. destruct Hr0 as [[_ Hr0]|[_ Hr0]]; [|discriminate].
        eapply Hclosed. exact Hr0.
      - exact Hids.
      - exact Hnd. }
    destruct (nth_error st r) as [[id o|id o| |]|] eqn:Er;
      try (inversion H; subst s' st' ops; clear H; rewrite app_nil_r; split; [exact Hquiet|reflexivity]).
    clear Hquiet.
    inversion H; subst s' st' ops; clear H. split; [|reflexivity].
    destruct (Hopen r id o Er) as (Hlt & (t & Hp) & Hni).
    set (ro := resolve_op o id now).
    pose proof (step_flying s ro Hen) as Hf.
    assert (Hd : snd (step s ro) = RDone) by (exact (resolve_done_op s o id now t Hen Hp)). rewrite Hd in Hf.
    pose proof (step_enabled s ro) as He.
    pose proof (step_next_id s ro) as Hn.
    assert (Hids' : res_ids (pre ++ [ro]) = res_ids pre ++ [id]) by (rewrite res_ids_app; unfold ro; rewrite resolve_op_id; reflexivity).
    constructor.
    + congruence.
    + rewrite Hf, count_open_snoc. cbn [is_open]. rewrite Nat.add_0_r.
      pose proof (filter_upd_open st r id o (RClosed id o) Er eq_refl) as Hc. unfold count_open in *. lia.
    + intros r0 id0 o0 Hr0. apply nth_error_snoc_cases in Hr0. destruct Hr0 as [[_ Hr0]|[_ Hr0]]; [|discriminate].
      apply nth_error_upd_cases in Hr0. destruct Hr0 as [[_ Hx]|[Hne Hr0]]; [discriminate|].
      destruct (Hopen r0 id0 o0 Hr0) as (Hlt0 & (t0 & Hp0) & Hni0). rewrite Hn, Hids'. split; [lia|]. split.
      * exists t0. apply step_keeps_prom; [exact Hen|lia|exact Hp0].
      * intros Hin. apply in_app_or in Hin. destruct Hin as [Hin|[Hin|[]]]; [exact (Hni0 Hin)|].
        subst id0. apply Hne. eapply Hinj; eassumption.
    + intros r0 r1 id0 o0 o1 Hr0 Hr1. apply nth_error_snoc_cases in Hr0. apply nth_error_snoc_cases in Hr1.
      destruct Hr0 as [[_ Hr0]|[_ Hr0]]; [|discriminate]. destruct Hr1 as [[_ Hr1]|[_ Hr1]]; [|discriminate].
      apply nth_error_upd_cases in Hr0. apply nth_error_upd_cases in Hr1.
      destruct Hr0 as [[_ Hx]|[_ Hr0]]; [discriminate|]. destruct Hr1 as [[_ Hx]|[_ Hr1]]; [discriminate|].
      eapply Hinj; eassumption.
    + intros r0 id0 o0 Hr0. apply nth_error_snoc_cases in Hr0. destruct Hr0 as [[_ Hr0]|[_ Hr0]]; [|discriminate].
      apply nth_error_upd_cases in Hr0. destruct Hr0 as [[_ Hx]|[_ Hr0]].
      * inversion Hx; subst id0 o0. rewrite Hids'. split; [apply in_or_app; right; left; reflexivity|].
        exists now. apply in_or_app. right. left. reflexivity.
      * destruct (Hclosed r0 id0 o0 Hr0) as (Hin & nw & Hop). rewrite Hids'. split; [apply in_or_app; left; exact Hin|].
        exists nw. apply in_or_app. left. exact Hop.
    + intros id0 Hin. rewrite Hids' in Hin. rewrite Hn. apply in_app_or in Hin.
      destruct Hin as [Hin|[Hin|[]]]; [apply Hids in Hin; lia|subst id0; lia].
    + rewrite Hids'. apply NoDup_app_snoc; assumption.
Qed.

Lemma hrun_inv : forall evs s st pre s2 st2 ops,
  hinv s st pre -> hrun s st evs = (s2, st2, ops) -> hinv s2 st2 (pre ++ ops) /\ s2 = final s ops.
Proof.
  induction evs as [|e evs IH]; intros s st pre s2 st2 ops I H; cbn [hrun] in H.
  - inversion H; subst. rewrite app_nil_r. split; [exact I|reflexivity].
  - destruct (hstep s st e) as [[s1 st1] ops1] eqn:E1.
    destruct (hrun s1 st1 evs) as [[s3 st3] ops2] eqn:E2. inversion H; subst; clear H.
    destruct (hinv_step _ _ _ _ _ _ _ I E1) as [I1 F1].
    destruct (IH _ _ _ _ _ _ I1 E2) as [I2 F2].
    rewrite app_assoc. split; [exact I2|]. rewrite final_app, <- F1. exact F2.
Qed.

Lemma hinv_init : forall c t0, cenabled c = true -> hinv (init c t0) [] [].
Proof.
  intros c t0 H. constructor; cbn; try assumption; try reflexivity.
  - intros [|r] id o Hr; discriminate.
  - intros [|r] r' id o o' Hr; discriminate.
  - intros [|r] id o Hr; discriminate.
  - intros id [].
  - constructor.
Qed.

(* the statement: every history of overlapping wrapped requests *)
Lemma wrapped_histories_core : forall c t0 evs s st ops, cenabled c = true ->
  hrun (init c t0) [] evs = (s, st, ops) ->
  s = final (init c t0) ops /\ NoDup (res_ids ops) /\
  flying s = Z.of_nat (count_open st) /\
  (forall r id o, nth_error st r = Some (ROpen id o) -> ~ In id (res_ids ops)) /\
  (forall r id o, nth_error st r = Some (RClosed id o) ->
     In id (res_ids ops) /\ exists now, In (resolve_op o id now) ops).
Proof.
  intros c t0 evs s st ops Hen H.
  destruct (hrun_inv evs _ _ [] _ _ _ (hinv_init c t0 Hen) H) as [I F]. cbn [app] in I.
  destruct I as [_ Hfl Hopen _ Hclosed _ Hnd].
  split; [exact F|]. split; [exact Hnd|]. split; [exact Hfl|]. split.
  - intros r id o Hr. exact (proj2 (proj2 (Hopen r id o Hr))).
  - exact Hclosed.
Qed.

(* when every handler has ended, nothing is in flight *)
Lemma all_ended_nothing_in_flight : forall c t0 evs s st ops, cenabled c = true ->
  hrun (init c t0) [] evs = (s, st, ops) -> count_open st = 0%nat -> flying s = 0.
Proof.
  intros c t0 evs s st ops Hen H H0.
  destruct (wrapped_histories_core c t0 evs s st ops Hen H) as (_ & _ & Hfl & _). rewrite Hfl, H0. reflexivity.
Qed.
