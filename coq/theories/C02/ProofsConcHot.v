(* C02 — interleaving semantics: a concurrent Allow sheds only if hot.
   For every set of calls and every schedule, an Allow thread that returns
   ErrServiceOverloaded either read a CPU value at or above the threshold, or
   (some Allow thread had already been shed and some Allow thread whose CPU reading
   was at or above the threshold had executed its overloadTime.Set, with a clock
   reading less than coolOffDuration before this thread's). *)
From Coq Require Import List ZArith QArith Bool Lia Arith.
From GZ Require Import Lib.RollingWindow C02.Model C02.Conc C02.Proofs C02.ProofsConc.
Import ListNotations.
Open Scope Z_scope.

(* some Allow thread has returned ErrServiceOverloaded *)
Definition shed_thread (ths : list thread) : Prop :=
  exists i t now c1 c2, nth_error ths i = Some t /\ tcall t = CAllow now c1 c2 /\ tres t = Some RShed.

(* some Allow thread with clock reading tj saw cpu >= threshold and is past systemOverloaded() *)
Definition over_thread (th : Z) (ths : list thread) (tj : Z) : Prop :=
  exists i t c1 c2, nth_error ths i = Some t /\ tcall t = CAllow tj c1 c2 /\ th <= c1 /\ (1 <= tpc t)%nat.

(* what an Allow thread knows at each program point (SH, OV: facts about other threads) *)
Definition hot_ok (SH : Prop) (OV : Z -> Prop) (th : Z) (t : thread) (now c1 : Z) : Prop :=
  ((tpc t = 2 \/ tpc t = 3)%nat -> SH) /\
  (((4 <= tpc t <= 8)%nat \/ tres t = Some RShed) ->
   th <= c1 \/ (SH /\ exists tj, OV tj /\ now - tj < coolOffDuration)).

Lemma hot_ok_mono : forall (SH SH' : Prop) (OV OV' : Z -> Prop) th t now c1,
  (SH -> SH') -> (forall tj, OV tj -> OV' tj) ->
  hot_ok SH OV th t now c1 -> hot_ok SH' OV' th t now c1.
Proof.
  intros SH SH' OV OV' th t now c1 H1 H2 [Ha Hb]. split; [auto|].
  intros Hp. destruct (Hb Hp) as [Hc|[Hs (tj & Ho & Ht)]]; [left; exact Hc|right].
  split; [auto|]. exists tj. auto.
Qed.

Ltac fin :=
  auto; try lia; try congruence; try discriminate; try (intros; congruence);
  try (intros [?|?]; lia || discriminate || congruence);
  try (intros [[? ?]|?]; lia || discriminate || congruence);
  try (intros Hx; left; exact Hx).

(* one action of an Allow thread that has not returned yet *)
Lemma allow_act_hot : forall (SH : Prop) (OV : Z -> Prop) sh t now c1 c2 sh' t',
  tres t = None -> (tpc t <= 9)%nat ->
  hot_ok SH OV (sthreshold sh) t now c1 ->
  (droppedRecently sh = true -> SH) ->
  (overloadTime sh <> 0 -> OV (overloadTime sh)) ->
  allow_act sh t now c1 c2 = (sh', t') ->
  hot_ok SH OV (sthreshold sh) t' now c1 /\
  sthreshold sh' = sthreshold sh /\
  (1 <= tpc t')%nat /\
  (droppedRecently sh' = true -> droppedRecently sh = true \/ tres t' = Some RShed) /\
  (overloadTime sh' = overloadTime sh \/ (overloadTime sh' = now /\ sthreshold sh <= c1)).
Proof.
  intros SH OV sh t now c1 c2 sh' t' Hn Hle [Ha Hb] Hd Ho. unfold allow_act, pc_done.
  destruct (tpc t) as [|[|[|[|[|[|[|[|[|[|n]]]]]]]]]] eqn:Epc; try lia.
  - (* 0 *)
    destruct (Z.leb_spec (sthreshold sh) c1) as [Hc|Hc]; intros H; injection H as <- <-;
      unfold hot_ok; cbn [tpc tres at_pc sthreshold droppedRecently overloadTime set_overload];
      rewrite ?Hn; repeat split; fin;
      try (intros; left; exact Hc); try (right; split; [reflexivity|exact Hc]).
  - (* 1 *)
    destruct (droppedRecently sh) eqn:Ed; intros H; injection H as <- <-;
      unfold hot_ok; cbn [tpc tres at_pc]; rewrite ?Hn; repeat split; fin.
  - (* 2 *)
    assert (Hs : SH) by (apply Ha; left; reflexivity).
    destruct (Z.eqb_spec (overloadTime sh) 0) as [E0|E0];
      [|destruct (Z.ltb_spec (now - overloadTime sh) coolOffDuration) as [Hc|Hc]];
      intros H; injection H as <- <-;
      unfold hot_ok; cbn [tpc tres at_pc]; rewrite ?Hn; repeat split; fin.
    intros _. right. split; [exact Hs|]. exists (overloadTime sh). split; [apply Ho; exact E0|exact Hc].
  - (* 3 *)
    intros H; injection H as <- <-.
    unfold hot_ok; cbn [tpc tres at_pc sthreshold droppedRecently overloadTime set_dropped];
      rewrite ?Hn; repeat split; fin.
  - (* 4 *)
    intros H; injection H as <- <-.
    unfold hot_ok; cbn [tpc tres]; rewrite ?Hn; repeat split; fin.
    intros _. apply Hb. left. lia.
  - (* 5 *)
    intros H; injection H as <- <-.
    unfold hot_ok; cbn [tpc tres]; rewrite ?Hn; repeat split; fin.
    intros _. apply Hb. left. lia.
  - (* 6 *)
    intros H; injection H as <- <-.
    unfold hot_ok; cbn [tpc tres]; rewrite ?Hn; repeat split; fin.
    intros _. apply Hb. left. lia.
  - (* 7 *)
    assert (Hh : sthreshold sh <= c1 \/ (SH /\ exists tj, OV tj /\ now - tj < coolOffDuration))
      by (apply Hb; left; lia).
    destruct (overload_factor (sthreshold sh) c2);
      [match goal with |- context [if ?b then _ else _] => destruct b end|];
      intros H; injection H as <- <-;
      unfold hot_ok; cbn [tpc tres at_pc]; rewrite ?Hn; repeat split; fin.
  - (* 8 *)
    assert (Hh : sthreshold sh <= c1 \/ (SH /\ exists tj, OV tj /\ now - tj < coolOffDuration))
      by (apply Hb; left; lia).
    intros H; injection H as <- <-.
    unfold hot_ok; cbn [tpc tres sthreshold droppedRecently overloadTime set_dropped];
      repeat split; fin.
  - (* 9 *)
    intros H; injection H as <- <-.
    unfold hot_ok; cbn [tpc tres sthreshold droppedRecently overloadTime set_flying];
      repeat split; fin.
Qed.

(* ------------------------------------------------------------------ *)
(* facts about other threads are stable                                 *)

Lemma shed_thread_upd : forall ths tid t t',
  nth_error ths tid = Some t -> tcall t' = tcall t ->
  (forall now c1 c2, tcall t = CAllow now c1 c2 -> tres t = Some RShed -> tres t' = Some RShed) ->
  shed_thread ths -> shed_thread (upd_nth tid t' ths).
Proof.
  intros ths tid t t' E Hc Hr (i & ti & now & c1 & c2 & Hi & Hci & Hri).
  destruct (Nat.eq_dec tid i) as [->|Hne].
  - rewrite E in Hi. inversion Hi; subst ti.
    exists i, t', now, c1, c2. split; [eapply nth_error_upd_eq; eauto|]. split; [congruence|eauto].
  - exists i, ti, now, c1, c2. rewrite nth_error_upd_neq by exact Hne. auto.
Qed.

Lemma over_thread_upd : forall th ths tid t t' tj,
  nth_error ths tid = Some t -> tcall t' = tcall t ->
  (forall now c1 c2, tcall t = CAllow now c1 c2 -> (1 <= tpc t)%nat -> (1 <= tpc t')%nat) ->
  over_thread th ths tj -> over_thread th (upd_nth tid t' ths) tj.
Proof.
  intros th ths tid t t' tj E Hc Hp (i & ti & c1 & c2 & Hi & Hci & Hth & Hpc).
  destruct (Nat.eq_dec tid i) as [->|Hne].
  - rewrite E in Hi. inversion Hi; subst ti.
    exists i, t', c1, c2. split; [eapply nth_error_upd_eq; eauto|]. split; [congruence|]. split; [exact Hth|eauto].
  - exists i, ti, c1, c2. rewrite nth_error_upd_neq by exact Hne. auto.
Qed.

Lemma upd_nth_same : forall {A} (l : list A) i x, nth_error l i = Some x -> upd_nth i x l = l.
Proof.
  induction l as [|y l IH]; intros [|i] x H; cbn in *; try discriminate.
  - inversion H. reflexivity.
  - f_equal. apply IH. exact H.
Qed.

Lemma resolve_act_keeps : forall sh t st pn sh' t',
  resolve_act sh t st pn = (sh', t') ->
  droppedRecently sh' = droppedRecently sh /\ overloadTime sh' = overloadTime sh /\
  sthreshold sh' = sthreshold sh /\ tcall t' = tcall t.
Proof.
  intros sh t st pn sh' t'. unfold resolve_act.
  destruct (tpc t) as [|[|[|[|n]]]]; destruct pn; intros H; injection H as <- <-; repeat split.
Qed.

(* ------------------------------------------------------------------ *)
(* the global invariant                                                 *)

Definition ginv (th : Z) (m : machine) : Prop :=
  sthreshold (fst m) = th /\
  (droppedRecently (fst m) = true -> shed_thread (snd m)) /\
  (overloadTime (fst m) <> 0 -> over_thread th (snd m) (overloadTime (fst m))) /\
  forall i t now c1 c2, nth_error (snd m) i = Some t -> tcall t = CAllow now c1 c2 ->
    hot_ok (shed_thread (snd m)) (over_thread th (snd m)) th t now c1.

Lemma ginv_same_shared : forall th sh sh' ths tid t t',
  nth_error ths tid = Some t -> tcall t' = tcall t ->
  (forall now c1 c2, tcall t = CAllow now c1 c2 -> False) ->
  droppedRecently sh' = droppedRecently sh -> overloadTime sh' = overloadTime sh ->
  sthreshold sh' = sthreshold sh ->
  ginv th (sh, ths) -> ginv th (sh', upd_nth tid t' ths).
Proof.
  intros th sh sh' ths tid t t' E Hc Hna Hd Ho Hth (G1 & G2 & G3 & G4). cbn [fst snd] in *.
  assert (HS : shed_thread ths -> shed_thread (upd_nth tid t' ths)).
  { apply (shed_thread_upd ths tid t t' E Hc). intros now c1 c2 Hx. destruct (Hna _ _ _ Hx). }
  assert (HO : forall tj, over_thread th ths tj -> over_thread th (upd_nth tid t' ths) tj).
  { intros tj. apply (over_thread_upd th ths tid t t' tj E Hc). intros now c1 c2 Hx. destruct (Hna _ _ _ Hx). }
  unfold ginv. cbn [fst snd].
  split; [congruence|]. split; [rewrite Hd; auto|]. split; [rewrite Ho; auto|].
  intros i ti now c1 c2 Hi Hci.
  destruct (Nat.eq_dec tid i) as [->|Hne].
  - rewrite (nth_error_upd_eq _ _ _ _ E) in Hi. inversion Hi; subst ti.
    exfalso. apply (Hna now c1 c2). congruence.
  - rewrite nth_error_upd_neq in Hi by exact Hne.
    eapply hot_ok_mono; [exact HS|exact HO|]. eapply G4; eauto.
Qed.

Lemma cstep_ginv : forall th m tid, cinv m -> ginv th m -> ginv th (cstep m tid).
Proof.
  intros th [sh ths] tid [Hl _] G. unfold cstep. cbn [fst snd] in *.
  destruct (nth_error ths tid) as [t|] eqn:E; [|exact G].
  pose proof (nth_error_Forall _ _ _ _ Hl E) as Hlt.
  destruct (act sh ths t) as [sh' t'] eqn:Ea. unfold act in Ea.
  destruct (tcall t) as [now c1 c2|p pnow|p] eqn:Ec.
  - (* Allow *)
    destruct (le_lt_dec (tpc t) 9) as [Hle|Hgt].
    + assert (Hn : tres t = None) by (unfold lwf in Hlt; rewrite Ec in Hlt; auto).
      destruct G as (G1 & G2 & G3 & G4). cbn [fst snd] in *.
      destruct (allow_act_cases _ _ _ _ _ _ _ Hn Hle Ea) as (Hc & _ & _).
      assert (H1 : hot_ok (shed_thread ths) (over_thread th ths) (sthreshold sh) t now c1).
      { rewrite G1. eapply G4; eauto. }
      destruct (allow_act_hot (shed_thread ths) (over_thread th ths) sh t now c1 c2 sh' t' Hn Hle H1 G2 G3 Ea)
        as (Hhot & Hth & Hpc & Hd & Ho).
      rewrite G1 in Hhot, Ho.
      assert (HS : shed_thread ths -> shed_thread (upd_nth tid t' ths)).
      { apply (shed_thread_upd ths tid t t' E Hc). intros; congruence. }
      assert (HO : forall tj, over_thread th ths tj -> over_thread th (upd_nth tid t' ths) tj).
      { intros tj. apply (over_thread_upd th ths tid t t' tj E Hc). intros; exact Hpc. }
      unfold ginv. cbn [fst snd].
      split; [congruence|]. split; [|split].
      * intros Hx. destruct (Hd Hx) as [Hy|Hy]; [auto|].
        exists tid, t', now, c1, c2. split; [eapply nth_error_upd_eq; eauto|]. split; [congruence|exact Hy].
      * intros Hx. destruct Ho as [Hy|[Hy Hz]].
        -- rewrite Hy in *. auto.
        -- rewrite Hy. exists tid, t', c1, c2. split; [eapply nth_error_upd_eq; eauto|].
           split; [congruence|]. split; [exact Hz|exact Hpc].
      * intros i ti now' c1' c2' Hi Hci.
        destruct (Nat.eq_dec tid i) as [->|Hne].
        -- rewrite (nth_error_upd_eq _ _ _ _ E) in Hi. inversion Hi; subst ti.
           assert (Heq : CAllow now' c1' c2' = CAllow now c1 c2) by congruence.
           inversion Heq; subst now' c1' c2'.
           eapply hot_ok_mono; [exact HS|exact HO|exact Hhot].
        -- rewrite nth_error_upd_neq in Hi by exact Hne.
           eapply hot_ok_mono; [exact HS|exact HO|]. eapply G4; eauto.
    + assert (Es : (sh', t') = (sh, t)).
      { rewrite <- Ea. unfold allow_act.
        destruct (tpc t) as [|[|[|[|[|[|[|[|[|[|n]]]]]]]]]]; try lia; reflexivity. }
      injection Es as -> ->. rewrite (upd_nth_same _ _ _ E). exact G.
  - (* Pass *)
    destruct (promise_of ths p) as [st|].
    + destruct (resolve_act_keeps _ _ _ _ _ _ Ea) as (Hd & Ho & Hth & Hc).
      eapply ginv_same_shared; eauto. intros; congruence.
    + injection Ea as <- <-. rewrite (upd_nth_same _ _ _ E). exact G.
  - (* Fail *)
    destruct (promise_of ths p) as [st|].
    + destruct (resolve_act_keeps _ _ _ _ _ _ Ea) as (Hd & Ho & Hth & Hc).
      eapply ginv_same_shared; eauto. intros; congruence.
    + injection Ea as <- <-. rewrite (upd_nth_same _ _ _ E). exact G.
Qed.

Lemma crun_ginv : forall th sched m, cinv m -> ginv th m -> ginv th (crun m sched).
Proof.
  induction sched as [|tid sched IH]; intros m H G; [exact G|].
  cbn [crun fold_left]. apply IH; [apply cstep_inv; exact H|apply cstep_ginv; assumption].
Qed.

Lemma start_ginv : forall c t0 calls, ginv (cthreshold c) (start c t0 calls).
Proof.
  intros c t0 calls. split; [reflexivity|]. split; [cbn; discriminate|]. split; [cbn; congruence|].
  intros i t now c1 c2 Hi Hc. cbn [start snd] in Hi.
  apply nth_error_In in Hi. apply in_map_iff in Hi. destruct Hi as [cl [Ecl _]]. subst t.
  unfold hot_ok. cbn [fresh tpc tres]. split.
  - intros [Hx|Hx]; discriminate.
  - intros [Hx|Hx]; [lia|discriminate].
Qed.

(* theorem 1's first conjunct, for every set of concurrent calls and every schedule *)
Lemma conc_shed_only_hot_core : forall c t0 calls sched i t now cpu1 cpu2,
  nth_error (snd (crun (start c t0 calls) sched)) i = Some t ->
  tcall t = CAllow now cpu1 cpu2 -> tres t = Some RShed ->
  cthreshold c <= cpu1 \/
  (shed_thread (snd (crun (start c t0 calls) sched)) /\
   exists tj, over_thread (cthreshold c) (snd (crun (start c t0 calls) sched)) tj /\
              now - tj < coolOffDuration).
Proof.
  intros c t0 calls sched i t now cpu1 cpu2 Hi Hc Hr.
  destruct (crun_ginv (cthreshold c) sched _ (start_inv c t0 calls) (start_ginv c t0 calls))
    as (_ & _ & _ & G4).
  destruct (G4 i t now cpu1 cpu2 Hi Hc) as [_ Hb]. apply Hb. right. exact Hr.
Qed.

Lemma conc_shed_only_core : forall c t0 calls sched i t now cpu1 cpu2,
  nth_error (snd (crun (start c t0 calls) sched)) i = Some t ->
  tcall t = CAllow now cpu1 cpu2 -> tres t = Some RShed ->
  (cthreshold c <= cpu1 \/
   (shed_thread (snd (crun (start c t0 calls) sched)) /\
    exists tj, over_thread (cthreshold c) (snd (crun (start c t0 calls) sched)) tj /\
               now - tj < coolOffDuration)) /\
  (overloadFactorLowerBound * reg_capacity (window_scale c) t < inject_Z (tfl t))%Q /\
  (overloadFactorLowerBound * reg_capacity (window_scale c) t < tavg t)%Q.
Proof.
  intros c t0 calls sched i t now cpu1 cpu2 Hi Hc Hr. split.
  - exact (conc_shed_only_hot_core c t0 calls sched i t now cpu1 cpu2 Hi Hc Hr).
  - exact (conc_shed_only_loaded_core c t0 calls sched i t now cpu1 cpu2 Hi Hc Hr).
Qed.
