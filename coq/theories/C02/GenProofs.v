(* C02 — obligations that mention the constants re-extracted from
   core/load/adaptiveshedder.go on every run (gen/C02Consts.v): the constants
   the model and the theorems use are the ones in today's source, and they
   satisfy the numeric side conditions the theorems rely on. *)
From Coq Require Import ZArith QArith.
From GZ Require Import C02.Model.
From GZgen Require C02Consts.
Open Scope Q_scope.

Lemma gen_defaultBuckets : C02Consts.defaultBuckets == inject_Z defaultBuckets.
Proof. reflexivity. Qed.
Lemma gen_defaultWindow : C02Consts.defaultWindow == inject_Z defaultWindow.
Proof. reflexivity. Qed.
Lemma gen_defaultCpuThreshold : C02Consts.defaultCpuThreshold == inject_Z defaultCpuThreshold.
Proof. reflexivity. Qed.
Lemma gen_defaultMinRt : C02Consts.defaultMinRt == inject_Z defaultMinRt.
Proof. reflexivity. Qed.
Lemma gen_flyingBeta : C02Consts.flyingBeta == flyingBeta.
Proof. reflexivity. Qed.
Lemma gen_coolOffDuration : C02Consts.coolOffDuration == inject_Z coolOffDuration.
Proof. reflexivity. Qed.
Lemma gen_cpuMax : C02Consts.cpuMax == inject_Z cpuMax.
Proof. reflexivity. Qed.
Lemma gen_millisecondsPerSecond : C02Consts.millisecondsPerSecond == inject_Z millisecondsPerSecond.
Proof. reflexivity. Qed.
Lemma gen_overloadFactorLowerBound : C02Consts.overloadFactorLowerBound == overloadFactorLowerBound.
Proof. reflexivity. Qed.

(* side conditions used by the theorems, on the extracted values *)
Lemma gen_lowerBound_range : 0 < C02Consts.overloadFactorLowerBound /\ C02Consts.overloadFactorLowerBound <= 1.
Proof. split; reflexivity || discriminate. Qed.
Lemma gen_beta_range : 0 < C02Consts.flyingBeta /\ C02Consts.flyingBeta < 1.
Proof. split; reflexivity. Qed.
Lemma gen_coolOff_pos : 0 < C02Consts.coolOffDuration.
Proof. reflexivity. Qed.
Lemma gen_default_threshold_below_max : C02Consts.defaultCpuThreshold < C02Consts.cpuMax.
Proof. reflexivity. Qed.
Lemma gen_default_bucket_duration_pos :
  0 < C02Consts.defaultWindow / C02Consts.defaultBuckets.
Proof. reflexivity. Qed.

(* windowScale: the extracted millisecondsPerSecond is consistent with the time units the model uses
   (ms per second x ns per ms = ns per second), and the default configuration's scale, computed from
   the extracted constants, is the model's (1/100: ten 100 ms buckets per second / 1000) *)
Lemma gen_ms_per_second_consistent :
  C02Consts.millisecondsPerSecond * inject_Z nsPerMillisecond == inject_Z nsPerSecond.
Proof. reflexivity. Qed.
Lemma gen_default_window_scale :
  inject_Z nsPerSecond / (C02Consts.defaultWindow / C02Consts.defaultBuckets) / C02Consts.millisecondsPerSecond
  == window_scale default_config /\ window_scale default_config == 1 # 100.
Proof. split; reflexivity. Qed.
(* the cool-off is the property's "preceding second", the latency default is one second in ms *)
Lemma gen_coolOff_is_one_second : C02Consts.coolOffDuration == inject_Z nsPerSecond.
Proof. reflexivity. Qed.
Lemma gen_defaultMinRt_is_one_second_in_ms : C02Consts.defaultMinRt * inject_Z nsPerMillisecond == inject_Z nsPerSecond.
Proof. reflexivity. Qed.
