(* C02 — boundaries of what is proved, shown by concrete witnesses.

   1. The statement "CPU overloaded and flying, avgFlying above capacity => shed",
      taken for EVERY configuration, is false at cpuThreshold = cpuMax with a CPU
      reading of exactly cpuMax: overloadFactor() computes (1000-1000)/(1000-1000) =
      NaN, every comparison with NaN is false, nothing is shed.  The same history
      replayed on the Go code (corpus case "NaN corner" of tools/props/c02.py) gives
      the same verdicts.  adaptiveshedder.go documents the precondition
      ("as.cpuThreshold must be less than cpuMax") but NewAdaptiveShedder does not
      enforce it; Props.shed_when_saturated carries the excluding hypothesis.

   2. The lower bound and the clamp of overloadFactor are needed: a variant of
      highThru without the clamp sheds a request with a single request in flight
      although 10% of the capacity is 1 (witness for the "lowerBound dropped"
      mutation family). *)
From Coq Require Import List ZArith QArith Bool.
From GZ Require Import Lib.RollingWindow C02.Model C02.Proofs.
Import ListNotations.
Open Scope Z_scope.

Definition B : Z := 1000000000000.
Definition ms : Z := 1000000.
Definition cfg_max : config := mkCfg defaultWindow defaultBuckets cpuMax true.

Definition hist : list op :=
  repeat (OAllow B 0 0) 20 ++ map (fun i => OPass i (B + 5 * ms)) [0;1;2;3;4;5;6;7;8;9].

Theorem shed_when_saturated_refuted_at_threshold_cpuMax :
  exists c t0 pre now cpu1 cpu2,
    cenabled c = true /\ cthreshold c <= cpu1 /\
    (capacity (final (init c t0) pre) now < inject_Z (flying (final (init c t0) pre)))%Q /\
    (capacity (final (init c t0) pre) now < avgFlying (final (init c t0) pre))%Q /\
    snd (step (final (init c t0) pre) (OAllow now cpu1 cpu2)) = RAdmit.
Proof.
  exists cfg_max, B, hist, (B + 150 * ms), 1000, 1000.
  vm_compute. repeat split; try reflexivity; discriminate.
Qed.

(* highThru with the factor not clamped from below *)
Definition high_thru_noclamp (s : state) (now cpu2 : Z) : bool :=
  let f := (inject_Z (cpuMax - cpu2) / inject_Z (cpuMax - sthreshold s))%Q in
  let m := (max_flight s now * (if q_ltb 1 f then 1 else f))%Q in
  q_ltb m (avgFlying s) && q_ltb m (inject_Z (flying s)).

Theorem noclamp_sheds_below_ten_percent_refuted :
  exists c t0 pre now cpu2,
    let s := final (init c t0) pre in
    high_thru_noclamp s now cpu2 = true /\
    ~ (overloadFactorLowerBound * capacity s now < inject_Z (flying s))%Q.
Proof.
  (* capacity 10 (10 passes of 100 ms in one 100 ms bucket), one request in flight, CPU at 1000 *)
  exists default_config, B,
    (repeat (OAllow B 0 0) 13 ++ map (fun i => OPass i (B + 100 * ms - 1)) [0;1;2;3;4;5;6;7;8;9]
     ++ [OFail 10; OFail 11]),
    (B + 150 * ms), 1000.
  vm_compute. split; [reflexivity|]. intros H. discriminate H.
Qed.
