(* C02 — boundaries of what is proved, shown by concrete witnesses.

   1. The statement "CPU overloaded and flying, avgFlying above capacity => shed",
      taken for EVERY configuration, is false at cpuThreshold = cpuMax with a CPU
      reading of exactly cpuMax: overloadFactor() computes (1000-1000)/(1000-1000) =
      NaN, every comparison with NaN is false, nothing is shed.  The same history
      replayed on the Go code (corpus case "NaN corner" of tools/props/c02.py) gives
      the same verdicts.  adaptiveshedder.go documents the precondition
      ("as.cpuThreshold must be less than cpuMax") but NewAdaptiveShedder does not
      enforce it; Props.shed_when_saturated carries the excluding hypothesis.

   2. The lower bound and the clamp of overloadFactor are needed: a variant of
      highThru without the clamp sheds a request with a single request in flight
      although 10% of the capacity is 1 (witness for the "lowerBound dropped"
      mutation family). *)
From Coq Require Import List ZArith QArith Bool.
From GZ Require Import Lib.RollingWindow C02.Model C02.Proofs C02.ProofsHist C02.Wrap C02.Conc C02.World C02.Check.
Import ListNotations.
Open Scope Z_scope.

Definition B : Z := 1000000000000.
Definition ms : Z := 1000000.
Definition cfg_max : config := mkCfg defaultWindow defaultBuckets cpuMax true.

Definition hist : list op :=
  repeat (OAllow B 0 0) 20 ++ map (fun i => OPass i (B + 5 * ms)) [0;1;2;3;4;5;6;7;8;9].

Theorem shed_when_saturated_refuted_at_threshold_cpuMax :
  exists c t0 pre now cpu1 cpu2,
    cenabled c = true /\ cthreshold c <= cpu1 /\
    (capacity (final (init c t0) pre) now < inject_Z (flying (final (init c t0) pre)))%Q /\
    (capacity (final (init c t0) pre) now < avgFlying (final (init c t0) pre))%Q /\
    snd (step (final (init c t0) pre) (OAllow now cpu1 cpu2)) = RAdmit.
Proof.
  exists cfg_max, B, hist, (B + 150 * ms), 1000, 1000.
  vm_compute. repeat split; try reflexivity; discriminate.
Qed.

(* highThru with the factor not clamped from below *)
Definition high_thru_noclamp (s : state) (now cpu2 : Z) : bool :=
  let f := (inject_Z (cpuMax - cpu2) / inject_Z (cpuMax - sthreshold s))%Q in
  let m := (max_flight s now * (if q_ltb 1 f then 1 else f))%Q in
  q_ltb m (avgFlying s) && q_ltb m (inject_Z (flying s)).

Theorem noclamp_sheds_below_ten_percent_refuted :
  exists c t0 pre now cpu2,
    let s := final (init c t0) pre in
    high_thru_noclamp s now cpu2 = true /\
    ~ (overloadFactorLowerBound * capacity s now < inject_Z (flying s))%Q.
Proof.
  (* capacity 10 (10 passes of 100 ms in one 100 ms bucket), one request in flight, CPU at 1000 *)
  exists default_config, B,
    (repeat (OAllow B 0 0) 13 ++ map (fun i => OPass i (B + 100 * ms - 1)) [0;1;2;3;4;5;6;7;8;9]
     ++ [OFail 10; OFail 11]),
    (B + 150 * ms), 1000.
  vm_compute. split; [reflexivity|]. intros H. discriminate H.
Qed.

(* ------------------------------------------------------------------ *)
(* 3. "Resolved ONCE" is a real hypothesis.  promise.Pass / promise.Fail do not remember that
      they ran: resolving the same promise twice decrements flying twice (the Go code does exactly
      this; the executor replays it - feature "double_resolve").  One request, Pass then Fail:
      flying = -1, so neither "flying = open promises" nor "flying >= 0" survives without the
      NoDup hypothesis of Props.flying_conservation_wf.  Callers (SheddingHandler, the zRPC
      interceptor) resolve in one deferred function, once: Props.wrapper_resolves_exactly_once. *)
Theorem double_resolution_breaks_conservation_refuted :
  exists c t0 ops,
    cenabled c = true /\
    run (init c t0) ops = [RAdmit; RDone; RDone] /\
    resolved ops (run (init c t0) ops) = [0; 0] /\
    granted 0 (run (init c t0) ops) = [0] /\
    flying (final (init c t0) ops) = -1.
Proof.
  exists default_config, B, [OAllow B 0 0; OPass 0 (B + ms); OFail 0].
  vm_compute. repeat split; reflexivity.
Qed.

(* ------------------------------------------------------------------ *)
(* Pinned variants of seeded changes (each compiles and passes go-zero's own tests).           *)

Fixpoint final_by (st : state -> op -> state * res) (s : state) (ops : list op) : state :=
  match ops with [] => s | o :: ops' => final_by st (fst (st s o)) ops' end.
Fixpoint run_by (st : state -> op -> state * res) (s : state) (ops : list op) : list res :=
  match ops with [] => [] | o :: ops' => snd (st s o) :: run_by st (fst (st s o)) ops' end.

(* 4. windowScale computed as float64(time.Second / bucketDuration) / 1000: an integer division
      of two Durations.  Same value whenever the bucket duration divides one second; too small
      otherwise, 0 for buckets longer than a second. *)
Definition window_scale_trunc (c : config) : Q :=
  (inject_Z (Z.quot nsPerSecond (bucket_duration c)) / inject_Z millisecondsPerSecond)%Q.

Definition with_scale (s : state) (q : Q) : state :=
  mkSt (senabled s) (sthreshold s) q (flying s) (avgFlying s) (overloadTime s)
       (droppedRecently s) (passCounter s) (rtCounter s) (nextId s) (proms s).

Definition init_trunc (c : config) (t0 : Z) : state := with_scale (init c t0) (window_scale_trunc c).

Example trunc_same_when_dividing : Qeq (window_scale_trunc default_config) (window_scale default_config).
Proof. vm_compute. reflexivity. Qed.

(* 600 ms buckets (3 s / 5): 60 passes of 500 ms in one bucket, 4 requests in flight, CPU at 1000:
   the capacity estimate is 60 x 500 / 600 = 50, 10% of it is 5 >= 4, yet the request is shed
   (the truncated scale gives 60 x 500 x 1/1000 = 30, 10% = 3 < 4). *)
Theorem truncated_window_scale_sheds_below_ten_percent_refuted :
  exists c t0 pre now cpu1 cpu2,
    let s := final (init_trunc c t0) pre in
    cenabled c = true /\
    snd (step s (OAllow now cpu1 cpu2)) = RShed /\
    flying s = 4 /\
    Qeq (capacity (with_scale s (window_scale c)) now) 50 /\
    ~ (overloadFactorLowerBound * capacity (with_scale s (window_scale c)) now < inject_Z (flying s))%Q.
Proof.
  exists (mkCfg 3000000000 5 900 true), B,
    (repeat (OAllow B 0 0) 70 ++ map (fun i => OPass (Z.of_nat i) (B + 500 * ms)) (seq 0 60)
     ++ map (fun i => OFail (Z.of_nat i)) (seq 60 6)),
    (B + 601 * ms), 1000, 1000.
  vm_compute. repeat split; try reflexivity. intros H. discriminate H.
Qed.

(* 5. overloadTime written when a request is dropped instead of when the CPU is seen overloaded
      ("markDropped"): every request shed during the cool-off re-arms it, so shedding goes on with
      a cool CPU for as long as Allow calls keep coming less than a second apart. *)
Definition allow_md (s : state) (now cpu1 cpu2 : Z) : state * res :=
  let '(s1, h) := if sthreshold s <=? cpu1 then (s, true) else still_hot s now in
  if h && high_thru s1 now cpu2
  then (set_dropped (set_overload s1 now) true, RShed)
  else (add_prom (set_flying s1 (flying s1 + 1) (avgFlying s1)) now, RAdmit).

Definition step_md (s : state) (o : op) : state * res :=
  let '(s', r) := match o with
                  | OAllow now c1 c2 => allow_md s now c1 c2
                  | OPass id now => pass s id now
                  | OFail id => fail s id
                  end in (bump s', r).

(* no Allow of [pre] saw the CPU at or above the threshold less than coolOffDuration before [now] *)
Definition no_recent_overload (th now : Z) (pre : list op) : bool :=
  forallb (fun o => match o with
                    | OAllow tj cj _ => negb (th <=? cj) || (coolOffDuration <=? now - tj)
                    | _ => true end) pre.

Theorem mark_dropped_extends_cool_off_refuted :
  exists c t0 pre now cpu,
    cenabled c = true /\ cpu < cthreshold c /\
    no_recent_overload (cthreshold c) now pre = true /\
    snd (step_md (final_by step_md (init c t0) pre) (OAllow now cpu cpu)) = RShed /\
    (* the real Allow lets the same request in after the same history *)
    snd (step (final (init c t0) pre) (OAllow now cpu cpu)) = RAdmit.
Proof.
  exists default_config, B,
    (repeat (OAllow B 0 0) 60 ++ map (fun i => OFail (Z.of_nat i)) (seq 0 25)
     ++ [OAllow (B + 1) 1000 1000; OAllow (B + 900 * ms) 0 0]),
    (B + 1800 * ms), 0.
  vm_compute. repeat split; reflexivity.
Qed.

(* 6. promise.Fail that decrements flying without feeding the moving average: requests that end
      with Fail (REST 503, gRPC DeadlineExceeded) leave avgFlying stale, and an overloaded shedder
      whose in-flight count and true moving average both exceed the capacity does not shed. *)
Definition step_fa (s : state) (o : op) : state * res :=
  let '(s', r) := match o with
                  | OAllow now c1 c2 => allow s now c1 c2
                  | OPass id now => pass s id now
                  | OFail id => match prom_start id (proms s) with
                                | None => (s, RNoop)
                                | Some _ => (set_flying s (flying s - 1) (avgFlying s), RDone)
                                end
                  end in (bump s', r).

Theorem fail_without_average_never_sheds_refuted :
  exists c t0 pre now cpu,
    let s := final_by step_fa (init c t0) pre in
    let rs := run_by step_fa (init c t0) pre in
    cenabled c = true /\ cthreshold c <= cpu /\ cthreshold c <> cpuMax /\
    Qeq (capacity s now) 10 /\
    fst (ProofsHist.hist_avg 0 0%Q rs) = 30 /\ flying s = 30 /\
    (capacity s now < snd (ProofsHist.hist_avg 0 0%Q rs))%Q /\
    snd (step_fa s (OAllow now cpu cpu)) = RAdmit.
Proof.
  exists default_config, B,
    (repeat (OAllow B 0 0) 40 ++ map (fun i => OFail (Z.of_nat i)) (seq 0 10)),
    (B + ms), 950.
  vm_compute. repeat split; try reflexivity; discriminate.
Qed.

(* 7. the zRPC interceptor without the deferred function (handler called, then Pass / Fail in
      straight-line code): a panicking handler leaves its promise unresolved for ever. *)
Definition rpc_wrap_nodefer (v : verdict) (o : rpc_outcome) : wrap_result :=
  match v, o with
  | VGrant, GPanic => mkWR 1 0 0 (VisRpc GPanic) true
  | VGrant, GPanicOverloaded => mkWR 1 0 0 (VisRpc GPanicOverloaded) true
  | _, _ => rpc_wrap v o
  end.

Theorem no_defer_leaks_in_flight_refuted :
  (exists o, wr_runs (rpc_wrap_nodefer VGrant o) = 1 /\
             wr_pass (rpc_wrap_nodefer VGrant o) + wr_fail (rpc_wrap_nodefer VGrant o) = 0) /\
  (* against the shedder: 12 such requests, then 10 requests that end normally: nothing is in flight any
     more, yet flying = 12 and, with the CPU over the threshold, the next request is shed *)
  (let s := serve_all (init default_config B)
                      (repeat (mkReq B 0 0 (B + ms) ResNone) 12 ++ repeat (mkReq B 0 0 (B + ms) ResFail) 10) in
   flying s = 12 /\ snd (step s (OAllow (B + 2 * ms) 1000 1000)) = RShed).
Proof.
  split; [exists GPanic; split; reflexivity|].
  vm_compute. split; reflexivity.
Qed.

(* ------------------------------------------------------------------ *)
(* 8. "Reserve, then check" (seeded C02-7): Allow takes its slot first (flying + 1), decides with
      flying - 1, and gives the slot back with a raw decrement when it drops.  Alone, a call sees
      exactly what it saw before - every SEQUENTIAL history has the same verdicts.  In the interleaving
      semantics the counter also contains the slots of calls that are still between their increment
      and their decision: N overlapping calls that have all reserved each see N - 1 "in flight"
      although no promise at all is out.  Thread actions of the variant (pc):
        0 reserve | 1..7 = Conc's 0..6 | 8 = Conc's 7 with flying - 1 | 9 drop: give back, set
        droppedRecently | 10 grant. *)
Definition allow_act_rc (sh : state) (t : thread) (now cpu1 cpu2 : Z) : state * thread :=
  match tpc t with
  | 0%nat => (set_flying sh (flying sh + 1) (avgFlying sh), at_pc t 1)
  | 1%nat => if sthreshold sh <=? cpu1 then (set_overload sh now, at_pc t 5) else (sh, at_pc t 2)
  | 2%nat => if droppedRecently sh then (sh, at_pc t 3) else (sh, at_pc t 10)
  | 3%nat => let ot := overloadTime sh in
             let t' := mkT (tcall t) 0 ot (tavg t) (tmp t) (trt t) (tfl t) (tres t) in
             if ot =? 0 then (sh, at_pc t' 10)
             else if now - ot <? coolOffDuration then (sh, at_pc t' 5)
             else (sh, at_pc t' 4)
  | 4%nat => (set_dropped sh false, at_pc t 10)
  | 5%nat => (sh, mkT (tcall t) 6 (tot t) (avgFlying sh) (tmp t) (trt t) (tfl t) (tres t))
  | 6%nat => (sh, mkT (tcall t) 7 (tot t) (tavg t) (max_pass sh now) (trt t) (tfl t) (tres t))
  | 7%nat => (sh, mkT (tcall t) 8 (tot t) (tavg t) (tmp t) (min_rt sh now) (tfl t) (tres t))
  | 8%nat => let t' := mkT (tcall t) 0 (tot t) (tavg t) (tmp t) (trt t) (flying sh - 1) (tres t) in
             match overload_factor (sthreshold sh) cpu2 with
             | None => (sh, at_pc t' 10)
             | Some f =>
               if q_ltb (reg_bound (sscale sh) t' f) (tavg t') &&
                  q_ltb (reg_bound (sscale sh) t' f) (inject_Z (tfl t'))
               then (sh, at_pc t' 9) else (sh, at_pc t' 10)
             end
  | 9%nat => (set_dropped (set_flying sh (flying sh - 1) (avgFlying sh)) true,
              mkT (tcall t) 11 (tot t) (tavg t) (tmp t) (trt t) (tfl t) (Some RShed))
  | 10%nat => (sh, mkT (tcall t) 11 (tot t) (tavg t) (tmp t) (trt t) (tfl t) (Some RAdmit))
  | _ => (sh, t)
  end.

Definition act_rc (sh : state) (ths : list thread) (t : thread) : state * thread :=
  match tcall t with
  | CAllow now cpu1 cpu2 => allow_act_rc sh t now cpu1 cpu2
  | _ => act sh ths t
  end.

Definition cstep_rc (m : machine) (tid : nat) : machine :=
  match nth_error (snd m) tid with
  | None => m
  | Some t => let '(sh', t') := act_rc (fst m) (snd m) t in (sh', upd_nth tid t' (snd m))
  end.

Definition crun_rc (m : machine) (sched : list nat) : machine := fold_left cstep_rc sched m.

(* 10 s window, 10 buckets (capacity estimate 1): 40 calls let in and passed one by one (flying 0, average
   ~ 8.8); then three overlapping Allows with the CPU at 1000.  Schedule: the 80 earlier calls one after
   the other; the three reserve (one step each), decide, and return. *)
Definition rc_cfg : config := mkCfg 10000000000 10 900 true.
Definition rc_calls : list call :=
  repeat (CAllow B 0 0) 40 ++ map (fun i => CPass i (B + ms)) (seq 0 40) ++ repeat (CAllow (B + 2 * ms) 1000 1000) 3.
Definition rc_prefix : list nat :=
  concat (map (fun i => repeat i 12) (seq 0 80)).
(* reserve x 3; each decides (5 steps: checker, average, maxPass, minRt, flying) and stands before its drop
   action - where the Go code writes its log line; then the three droppers give back and return *)
Definition rc_sched : list nat :=
  rc_prefix ++ [80; 81; 82]%nat ++ repeat 80%nat 5 ++ repeat 81%nat 5 ++ repeat 82%nat 5 ++ [80; 81; 82]%nat.

Theorem reserve_then_check_sheds_with_nothing_in_flight_refuted :
  let m := crun_rc (start rc_cfg B rc_calls) rc_sched in
  (* all three overlapping calls are shed ... *)
  map tres (skipn 80 (snd m)) = [Some RShed; Some RShed; Some RShed] /\
  (* ... each having "seen" two requests in flight ... *)
  map tfl (skipn 80 (snd m)) = [2; 2; 2] /\
  (* ... although every promise ever handed out had been resolved before they started
     (40 handed out, 40 resolved), and the counter is back at 0 afterwards *)
  countb is_granted (snd m) = 40 /\ countb has_decremented (snd m) = 40 /\ flying (fst m) = 0 /\
  (* the real Allow, the same calls, the three overlapping ones step by step in turn: each reads
     0 in flight and is let in (Props.idle_never_sheds_interleaved) *)
  (let m' := crun (start rc_cfg B rc_calls) (rc_prefix ++ concat (repeat [80; 81; 82]%nat 12)) in
   map tres (skipn 80 (snd m')) = [Some RAdmit; Some RAdmit; Some RAdmit] /\
   map tfl (skipn 80 (snd m')) = [0; 0; 0]).
Proof. vm_compute. repeat split; reflexivity. Qed.

(* ------------------------------------------------------------------ *)
(* 9. "Do not spin in the completion path" (seeded C02-9): addFlying folds its sample in only if
      avgFlyingLock.TryLock() succeeds; with the lock busy the sample is dropped.  Every sequential
      history is bit-identical (nobody else holds the lock).  With the lock explicit - events of the
      schedule are thread steps and "somebody else takes / gives back the lock" - resolutions that
      reach their sampling action while the lock is busy lose their sample for good
      (Props.every_resolution_contributes_one_sample is what the real code guarantees). *)
Inductive ev := Step (tid : nat) | Busy (b : bool).

Definition resolve_act_try (busy : bool) (sh : state) (t : thread) (start : Z) (pass_now : option Z) : state * thread :=
  match tpc t with
  | 1%nat => if busy
             then (sh, match pass_now with
                       | Some _ => at_pc t 2
                       | None => mkT (tcall t) pc_done (tot t) (tavg t) (tmp t) (trt t) (tfl t) (Some RDone)
                       end)
             else resolve_act sh t start pass_now
  | _ => resolve_act sh t start pass_now
  end.

Definition act_try (busy : bool) (sh : state) (ths : list thread) (t : thread) : state * thread :=
  match tcall t with
  | CAllow now cpu1 cpu2 => allow_act sh t now cpu1 cpu2
  | CPass p now => match promise_of ths p with Some st => resolve_act_try busy sh t st (Some now) | None => (sh, t) end
  | CFail p => match promise_of ths p with Some st => resolve_act_try busy sh t st None | None => (sh, t) end
  end.

Definition estep (mb : machine * bool) (e : ev) : machine * bool :=
  match e with
  | Busy b => (fst mb, b)
  | Step tid =>
    let m := fst mb in
    match nth_error (snd m) tid with
    | None => mb
    | Some t => let '(sh', t') := act_try (snd mb) (fst m) (snd m) t in ((sh', upd_nth tid t' (snd m)), snd mb)
    end
  end.

Definition erun (m : machine) (es : list ev) : machine := fst (fold_left estep es (m, false)).

(* the seed's demo: threshold 999 (factor 1 below 1000), default window (capacity estimate 10); 60 requests let
   in; the lock is taken; 40 of them fail (each sample 59..20 is above 10); the lock is given back; CPU 999,
   20 in flight: the real code sheds (average >= 19 in every lock order), the variant lets the request in with
   an average of 0 *)
Definition tl_cfg : config := mkCfg defaultWindow defaultBuckets 999 true.
Definition tl_calls : list call :=
  repeat (CAllow B 0 0) 60 ++ map CFail (seq 0 40) ++ [CAllow (B + ms) 999 999].
Definition tl_events : list ev :=
  map Step (concat (map (fun i => repeat i 12) (seq 0 60))) ++ [Busy true]
  ++ map Step (concat (map (fun i => repeat i 3) (seq 60 40))) ++ [Busy false]
  ++ map Step (repeat 100%nat 12).

Theorem try_lock_drops_samples_refuted :
  let m := erun (start tl_cfg B tl_calls) tl_events in
  option_map tres (nth_error (snd m) 100) = Some (Some RAdmit) /\
  Qeq (avgFlying (fst m)) 0 /\ flying (fst m) = 21 /\
  countb is_granted (snd m) - countb has_decremented (snd m) = 21 /\
  (* the same calls in the real semantics, the 40 resolutions getting the lock in the order that gives the
     SMALLEST average (large samples first): 20 in flight, average above the capacity estimate 10 -> shed *)
  (let m' := crun (start tl_cfg B tl_calls)
                  (concat (map (fun i => repeat i 12) (seq 0 60)) ++ concat (map (fun i => repeat i 3) (seq 60 40))
                   ++ repeat 100%nat 12) in
   option_map tres (nth_error (snd m') 100) = Some (Some RShed) /\
   (10 < avgFlying (fst m'))%Q /\ flying (fst m') = 20).
Proof. vm_compute. repeat split; reflexivity. Qed.

(* ------------------------------------------------------------------ *)
(* 10. seeded C02-8: shouldDrop returns early when nothing is in flight ("highThru cannot hold"): every single verdict
      is the same given the same state, but the early return also skips stillHot(), which is where a finished cool-off
      resets droppedRecently.  Under strictly sequential idle traffic the shedding episode is never closed; a later CPU
      spike that sheds nothing re-arms the cool-off, and for a second requests are shed under a cool CPU although no
      shedding was in progress ([episode], C02/ProofsEpisode.v) - the real Allow lets the same request in. *)
Definition step_fp (s : state) (o : op) : state * res :=
  let '(s', r) := match o with
                  | OAllow now c1 c2 => if flying s =? 0 then allow_finish s now false else allow s now c1 c2
                  | OPass id now => pass s id now
                  | OFail id => fail s id
                  end in (bump s', r).

Definition sec : Z := 1000000000.
Definition fails (from n : nat) : list op := map (fun i => OFail (Z.of_nat i)) (seq from n).
Definition hist_fp : list op :=
  repeat (OAllow B 0 0) 20 ++ fails 0 10                                      (* 0..29: 10 in flight, average ~ 8.9 *)
  ++ [OAllow (B + 1) 1000 1000]                                               (* 30: shed - the episode starts *)
  ++ fails 10 10                                                              (* 31..40: drained *)
  ++ [OAllow (B + 1 + sec) 0 0; OPass 41 (B + 1 + sec + ms)]                  (* 41, 42: idle, cool, the cool-off is over *)
  ++ concat (map (fun j => [OAllow (B + 2 * sec + Z.of_nat j) 0 0; OFail (Z.of_nat (43 + 2 * j))]) (seq 0 60))
                                                                              (* 43..162: the average decays *)
  ++ [OAllow (B + 4 * sec) 0 0; OAllow (B + 4 * sec) 1000 1000]               (* 163, 164: a spike that sheds nothing *)
  ++ repeat (OAllow (B + 4 * sec + 1) 0 0) 20 ++ fails 165 10                 (* 165..194: 12 in flight, average ~ 10 *)
  ++ [OAllow (B + 4 * sec + 500 * ms) 0 0].                                   (* 195: cool CPU, 0.5 s after the spike *)

Theorem fast_path_keeps_episode_open_refuted :
  exists c t0 ops k now c1 c2,
    cenabled c = true /\ nth_error ops k = Some (OAllow now c1 c2) /\
    nth_error (run_by step_fp (init c t0) ops) k = Some RShed /\
    hot_ref (cthreshold c)
            (episode (cthreshold c) (0, false) (firstn k ops) (firstn k (run_by step_fp (init c t0) ops))) now c1 = false /\
    (* the real Allow lets the same request in after the same history *)
    nth_error (run (init c t0) ops) k = Some RAdmit.
Proof.
  exists default_config, B, hist_fp, 195%nat, (B + 4 * sec + 500 * ms), 0, 0.
  vm_compute. repeat split; reflexivity.
Qed.

(* ------------------------------------------------------------------ *)
(* 11. seeded C02-10: ShedderGroup decides "nop or adaptive" once, in NewShedderGroup, instead of leaving it to
      NewAdaptiveShedder at the first GetShedder of a key.  load.Disable() called after NewShedderGroup and before the
      first GetShedder then yields a live adaptive member: a shedder built after Disable() sheds
      (Props.disabled_never_sheds_wherever_disable_stands is the statement this variant violates). *)
Definition wstep_early (wf : world * list bool) (e : wev) : (world * list bool) * wres :=
  let '(w, fl) := wf in
  match e with
  | XGroup o => ((fst (wstep w e), fl ++ [negb (wdisabled w)]), YNone)
  | XGet g key t0 =>
    (* the member is built with the flag the group saw when it was made *)
    let '(w', r) := wstep (mkW (negb (nth g fl true)) (wshedders w) (wcerts w) (wgroups w)) e in
    ((mkW (wdisabled w) (wshedders w') (wcerts w') (wgroups w'), fl), r)
  | _ => let '(w', r) := wstep w e in ((w', fl), r)
  end.

Fixpoint wrun_early (wf : world * list bool) (evs : list wev) : list wres :=
  match evs with
  | [] => []
  | e :: evs' => snd (wstep_early wf e) :: wrun_early (fst (wstep_early wf e)) evs'
  end.

Definition hist_early : list wev :=
  [XGroup (mkOpts 2000000000 4 500); XDisable; XGet 0 7 B]
  ++ repeat (XOp 0 (OAllow (B + 1) 1000 1000)) 20 ++ map (fun i => XOp 0 (OFail (Z.of_nat i))) (seq 0 10)
  ++ [XOp 0 (OAllow (B + 2) 1000 1000)].

Theorem group_decides_at_construction_sheds_after_disable_refuted :
  exists evs i p k m o,
    nth_error evs i = Some XDisable /\ (i < p)%nat /\
    nth_error (wrun_early (w0, []) evs) p = Some (YMade k) /\
    nth_error evs m = Some (XOp k o) /\
    nth_error (wrun_early (w0, []) evs) m = Some (YRes RShed) /\
    (* the real order of decisions: the same events, the member is a nopShedder, the request is let in *)
    nth_error (wrun w0 evs) m = Some (YRes RAdmit).
Proof.
  exists hist_early, 1%nat, 2%nat, 0%nat, 33%nat, (OAllow (B + 2) 1000 1000).
  vm_compute. repeat split; reflexivity.
Qed.

(* ------------------------------------------------------------------ *)
(* 12. seeded C02-5: maxFlight() memoised per "bucket epoch" timex.Now() / bucketDuration.  The windows' buckets are
      aligned with the instant the shedder was BUILT, the epochs with the process clock: unless the shedder was built on
      a multiple of the bucket duration, a bucket of the window completes in the middle of an epoch and the memo keeps
      the estimate from before.  Two overloaded Allows in one epoch, on both sides of that boundary: the second is let
      in against the stale estimate although in flight and its average exceed the capacity estimate of the property
      (peak per-bucket pass count x minimum average latency over the completed buckets = Props.capacity_def). *)
Definition high_thru_with (m : Q) (s : state) (cpu2 : Z) : bool :=
  match overload_factor (sthreshold s) cpu2 with
  | None => false
  | Some f => q_ltb (m * f)%Q (avgFlying s) && q_ltb (m * f)%Q (inject_Z (flying s))
  end.

Definition step_memo (bd : Z) (sm : state * option (Z * Q)) (o : op) : (state * option (Z * Q)) * res :=
  let '(s, memo) := sm in
  match o with
  | OAllow now c1 c2 =>
    let '(s1, h) := hot_check s now c1 in
    if h then
      let epoch := now / bd in
      let m := match memo with
               | Some (e, v) => if e =? epoch then v else max_flight s1 now
               | None => max_flight s1 now
               end in
      let '(s2, r) := allow_finish s1 now (high_thru_with m s1 c2) in
      ((bump s2, Some (epoch, m)), r)
    else
      let '(s2, r) := allow_finish s1 now false in ((bump s2, memo), r)
  | _ => let '(s', r) := step s o in ((s', memo), r)
  end.

Fixpoint final_memo (bd : Z) (sm : state * option (Z * Q)) (ops : list op) : state * option (Z * Q) :=
  match ops with [] => sm | o :: ops' => final_memo bd (fst (step_memo bd sm o)) ops' end.

Definition t0_off : Z := B + 30 * ms.     (* built 30 ms past a multiple of the 100 ms bucket duration *)
Definition hist_memo : list op :=
  repeat (OAllow t0_off 0 0) 20 ++ map (fun i => OPass (Z.of_nat i) (t0_off + 50 * ms)) (seq 0 10)
  ++ [OFail 10; OFail 11; OAllow (t0_off + 80 * ms) 900 900].

Theorem memoised_capacity_lets_in_when_saturated_refuted :
  exists c t0 pre now cpu,
    let sv := final_memo (bucket_duration c) (init c t0, None) pre in
    let sr := final (init c t0) pre in
    cenabled c = true /\ cthreshold c <= cpu /\ cthreshold c <> cpuMax /\
    fst sv = sr /\
    (capacity sr now < inject_Z (flying sr))%Q /\ (capacity sr now < avgFlying sr)%Q /\
    snd (step_memo (bucket_duration c) sv (OAllow now cpu cpu)) = RAdmit /\
    snd (step sr (OAllow now cpu cpu)) = RShed.
Proof.
  exists default_config, t0_off, hist_memo, (t0_off + 110 * ms), 900.
  vm_compute. repeat split; try reflexivity; discriminate.
Qed.

(* ------------------------------------------------------------------ *)
(* 13. seeded C02-6: RollingWindow.updateOffset advances lastTime by span x interval (span is clipped to the number of
      buckets) instead of realigning it with the clock.  After an idle period of more than two windows lastTime lags a
      whole window or more behind: every Add "crosses" all buckets again and wipes the window, Reduce sees nothing.
      The capacity estimate falls back to the default (1 x 1000 ms x scale) although two requests have just passed
      with 50 ms latency (true estimate 1.02): an overloaded Allow with 5 in flight and an average above 3 is let in. *)
Definition rw_update_drift (w : rw) (now : Z) : rw :=
  let span := rw_span w now in
  match span with
  | O => w
  | _ => mkRW (rsize w) (rinterval w) ((roffset w + span) mod rsize w)
              (rlast w + Z.of_nat span * rinterval w) (rignore w)
              (rw_reset (rsize w) (roffset w) span (rbuckets w))
  end.

Definition rw_add_drift (w : rw) (now v : Z) : rw :=
  let w' := rw_update_drift w now in
  let i := (roffset w' mod rsize w')%nat in
  mkRW (rsize w') (rinterval w') (roffset w') (rlast w') (rignore w')
       (set_nth i (nth i (rbuckets w') [] ++ [v]) (rbuckets w')).

Definition step_drift (s : state) (o : op) : state * res :=
  let '(s', r) := match o with
                  | OAllow now c1 c2 => allow s now c1 c2
                  | OPass id now =>
                    match prom_start id (proms s) with
                    | None => (s, RNoop)
                    | Some start =>
                      let s1 := dec_flying s in
                      (set_windows s1 (rw_add_drift (passCounter s1) now 1)
                                      (rw_add_drift (rtCounter s1) now (ceil_ms (now - start))), RDone)
                    end
                  | OFail id => fail s id
                  end in (bump s', r).

Definition hist_drift : list op :=
  repeat (OAllow B 0 0) 10 ++ fails 0 5                                             (* 0..14: 5 in flight *)
  ++ [OAllow (B + 15 * sec - 50 * ms) 0 0; OAllow (B + 15 * sec - 50 * ms) 0 0]     (* 15, 16: after three idle windows *)
  ++ [OPass 15 (B + 15 * sec); OPass 16 (B + 15 * sec + ms)].                       (* two passes of 50 ms in one bucket *)

Theorem window_drift_blind_after_idle_refuted :
  exists c t0 pre now cpu,
    let sv := final_by step_drift (init c t0) pre in
    let sr := final (init c t0) pre in
    cenabled c = true /\ cthreshold c <= cpu /\ cthreshold c <> cpuMax /\
    flying sv = flying sr /\ avgFlying sv = avgFlying sr /\
    (capacity sr now < 2)%Q /\
    (capacity sr now < inject_Z (flying sr))%Q /\ (capacity sr now < avgFlying sr)%Q /\
    snd (step_drift sv (OAllow now cpu cpu)) = RAdmit /\
    snd (step sr (OAllow now cpu cpu)) = RShed.
Proof.
  exists default_config, B, hist_drift, (B + 15 * sec + 150 * ms), 900.
  vm_compute. repeat split; try reflexivity; discriminate.
Qed.
