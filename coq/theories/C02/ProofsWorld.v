(* C02 — proofs about the process-wide picture (C02/World.v): whatever the order of Disable /
   NewAdaptiveShedder / NewShedderGroup / GetShedder / traffic,
   - every shedder lives its own single-shedder history ([Model.run] from [Model.init] of its birth
     certificate): nothing is shared, and the theorems about one shedder apply to each;
   - the flag in the certificate is the value of load.enabled when the shedder was BUILT (for a group
     member: at the first GetShedder of its key, not at NewShedderGroup), its options are the caller's
     (for a group member: the group's);
   - a shedder built after a Disable() - at whatever position - never sheds. *)
From Coq Require Import List ZArith Bool Lia.
From GZ Require Import Lib.RollingWindow C02.Model C02.Proofs C02.ProofsHist C02.World.
Import ListNotations.
Open Scope Z_scope.

(* ---- lists ---- *)
Lemma upd_length : forall {A} (l : list A) k x, length (upd l k x) = length l.
Proof. induction l as [|y l IH]; intros [|k] x; cbn; auto. Qed.

Lemma nth_error_upd_eq : forall {A} (l : list A) k x, (k < length l)%nat -> nth_error (upd l k x) k = Some x.
Proof.
  induction l as [|y l IH]; intros [|k] x H; cbn in *; try lia; [reflexivity|]. apply IH. lia.
Qed.

Lemma nth_error_upd_neq : forall {A} (l : list A) k j x, k <> j -> nth_error (upd l k x) j = nth_error l j.
Proof.
  induction l as [|y l IH]; intros [|k] [|j] x H; cbn; try reflexivity; try congruence.
  apply IH. congruence.
Qed.

Lemma map_fst_upd : forall {A B} (l : list (A * B)) k a b b',
  nth_error l k = Some (a, b) -> map fst (upd l k (a, b')) = map fst l.
Proof.
  induction l as [|y l IH]; intros [|k] a b b' H; cbn in *; try discriminate.
  - inversion H; subst. reflexivity.
  - f_equal. eapply IH. exact H.
Qed.

Lemma nth_error_some_lt : forall {A} (l : list A) k x, nth_error l k = Some x -> (k < length l)%nat.
Proof. intros A l k x H. apply nth_error_Some. congruence. Qed.

Lemma nth_error_snoc_old : forall {A} (l : list A) x p y,
  nth_error (l ++ [x]) p = Some y -> (p < length l)%nat -> nth_error l p = Some y.
Proof. intros A l x p y H Hp. rewrite nth_error_app1 in H by exact Hp. exact H. Qed.

Lemma nth_error_snoc_cases : forall {A} (l : list A) x p y,
  nth_error (l ++ [x]) p = Some y -> ((p < length l)%nat /\ nth_error l p = Some y) \/ (p = length l /\ y = x).
Proof.
  intros A l x p y H.
  destruct (Nat.lt_ge_cases p (length l)) as [Hp|Hp].
  - left. split; [exact Hp|]. rewrite nth_error_app1 in H by exact Hp. exact H.
  - right. rewrite nth_error_app2 in H by exact Hp.
    destruct (p - length l)%nat as [|n] eqn:E; cbn in H.
    + inversion H. split; [lia|reflexivity].
    + destruct n; discriminate.
Qed.

Lemma firstn_snoc_le : forall {A} (l : list A) x p, (p <= length l)%nat -> firstn p (l ++ [x]) = firstn p l.
Proof.
  intros A l x p H. rewrite firstn_app. replace (p - length l)%nat with 0%nat by lia.
  cbn. apply app_nil_r.
Qed.

(* ---- runs ---- *)
Lemma wrun_app : forall evs1 evs2 w, wrun w (evs1 ++ evs2) = wrun w evs1 ++ wrun (wfinal w evs1) evs2.
Proof. induction evs1 as [|e evs1 IH]; intros evs2 w; [reflexivity|]. cbn. rewrite IH. reflexivity. Qed.

Lemma wfinal_app : forall evs1 evs2 w, wfinal w (evs1 ++ evs2) = wfinal (wfinal w evs1) evs2.
Proof. induction evs1 as [|e evs1 IH]; intros evs2 w; [reflexivity|]. cbn. apply IH. Qed.

Lemma wrun_length : forall evs w, length (wrun w evs) = length evs.
Proof. induction evs as [|e evs IH]; intros w; [reflexivity|]. cbn. rewrite IH. reflexivity. Qed.

Lemma wrun_snoc : forall evs e w, wrun w (evs ++ [e]) = wrun w evs ++ [snd (wstep (wfinal w evs) e)].
Proof. intros. rewrite wrun_app. reflexivity. Qed.

Lemma wfinal_snoc : forall evs e w, wfinal w (evs ++ [e]) = fst (wstep (wfinal w evs) e).
Proof. intros. rewrite wfinal_app. reflexivity. Qed.

Lemma proj_app : forall k evs rs evs' rs', length evs = length rs ->
  proj k (evs ++ evs') (rs ++ rs') = proj k evs rs ++ proj k evs' rs'.
Proof.
  induction evs as [|e evs IH]; intros [|r rs] evs' rs' H; cbn in H; try discriminate; [reflexivity|].
  injection H as H. cbn [app proj].
  destruct e; try (apply IH; exact H).
  destruct r; try (apply IH; exact H).
  destruct (Nat.eqb k0 k); [cbn [app]; f_equal|]; apply IH; exact H.
Qed.

Lemma projr_app : forall k evs rs evs' rs', length evs = length rs ->
  projr k (evs ++ evs') (rs ++ rs') = projr k evs rs ++ projr k evs' rs'.
Proof.
  induction evs as [|e evs IH]; intros [|r rs] evs' rs' H; cbn in H; try discriminate; [reflexivity|].
  injection H as H. cbn [app projr].
  destruct e; try (apply IH; exact H).
  destruct r; try (apply IH; exact H).
  destruct (Nat.eqb k0 k); [cbn [app]; f_equal|]; apply IH; exact H.
Qed.

Lemma projr_in : forall k evs rs m o r,
  nth_error evs m = Some (XOp k o) -> nth_error rs m = Some (YRes r) -> In r (projr k evs rs).
Proof.
  induction evs as [|e evs IH]; intros [|r0 rs] [|m] o r He Hr; cbn in He, Hr; try discriminate.
  - inversion He; inversion Hr; subst. cbn. rewrite Nat.eqb_refl. left. reflexivity.
  - cbn [projr]. specialize (IH rs m o r He Hr).
    destruct e; try exact IH. destruct r0; try exact IH.
    destruct (Nat.eqb k0 k); [right|]; exact IH.
Qed.

Lemma group_opts_app : forall evs evs', group_opts (evs ++ evs') = group_opts evs ++ group_opts evs'.
Proof.
  induction evs as [|e evs IH]; intros evs'; [reflexivity|].
  cbn [app group_opts]. destruct e; rewrite IH; reflexivity.
Qed.

Lemma existsb_snoc : forall {A} (f : A -> bool) l x, existsb f (l ++ [x]) = existsb f l || f x.
Proof. intros. rewrite existsb_app. cbn. rewrite orb_false_r. reflexivity. Qed.

Lemma made_by_snoc : forall evs e p o t0, made_by evs p o t0 -> made_by (evs ++ [e]) p o t0.
Proof.
  intros evs e p o t0 [H|(g & key & H & Hg)].
  - left. apply nth_error_app_l. exact H.
  - right. exists g, key. split; [apply nth_error_app_l; exact H|].
    rewrite group_opts_app. apply nth_error_app_l. exact Hg.
Qed.

(* ---- the invariant ---- *)
Record inv (evs : list wev) (w : world) (rs : list wres) : Prop := mkInv
  { i_dis : wdisabled w = existsb is_disable evs;
    i_len : length (wcerts w) = length (wshedders w);
    i_grp : map fst (wgroups w) = group_opts evs;
    i_made : forall p k, nth_error rs p = Some (YMade k) ->
             exists o t0, nth_error (wcerts w) k = Some (o, t0, negb (existsb is_disable (firstn p evs))) /\
                          made_by evs p o t0;
    i_hist : forall k o t0 en, nth_error (wcerts w) k = Some (o, t0, en) ->
             nth_error (wshedders w) k = Some (final (init (cfg_of o en) t0) (proj k evs rs)) /\
             projr k evs rs = run (init (cfg_of o en) t0) (proj k evs rs);
    i_none : forall k, (length (wshedders w) <= k)%nat -> proj k evs rs = [] /\ projr k evs rs = [] }.

Lemma inv_nil : inv [] w0 [].
Proof.
  constructor; cbn; try reflexivity.
  - intros [|p] k H; discriminate.
  - intros [|k] o t0 en H; discriminate.
  - intros k _. split; reflexivity.
Qed.

(* a step that leaves shedders and certificates alone and is not a successful XOp *)
Lemma hist_quiet : forall evs rs e r k,
  length evs = length rs ->
  (forall k' o r', e = XOp k' o -> r = YRes r' -> False) ->
  proj k (evs ++ [e]) (rs ++ [r]) = proj k evs rs /\ projr k (evs ++ [e]) (rs ++ [r]) = projr k evs rs.
Proof.
  intros evs rs e r k Hlen Hq.
  rewrite proj_app, projr_app by exact Hlen.
  assert (proj k [e] [r] = [] /\ projr k [e] [r] = []) as [-> ->].
  { destruct e; cbn; auto. destruct r; cbn; auto. exfalso. eapply Hq; reflexivity. }
  rewrite !app_nil_r. split; reflexivity.
Qed.

Lemma inv_make : forall evs w rs e o t0 groups,
  inv evs w rs -> length evs = length rs ->
  is_disable e = false -> (forall k' o', e <> XOp k' o') ->
  made_by (evs ++ [e]) (length evs) o t0 ->
  map fst groups = group_opts (evs ++ [e]) ->
  inv (evs ++ [e]) (fst (make w o t0 groups)) (rs ++ [snd (make w o t0 groups)]).
Proof.
  intros evs w rs e o t0 groups I Hlen Hnd Hnop Hmade Hgrp.
  destruct I as [Idis Ilen Igrp Imade Ihist Inone].
  assert (Hq : forall k, proj k (evs ++ [e]) (rs ++ [snd (make w o t0 groups)]) = proj k evs rs /\
                         projr k (evs ++ [e]) (rs ++ [snd (make w o t0 groups)]) = projr k evs rs).
  { intros k. apply (hist_quiet evs); [exact Hlen|]. intros k' o' r' He _. eapply Hnop. exact He. }
  unfold make in *. cbn [fst snd] in *. constructor; cbn [wdisabled wshedders wcerts wgroups].
  - rewrite existsb_snoc, Hnd, orb_false_r. exact Idis.
  - rewrite !app_length, Ilen. reflexivity.
  - exact Hgrp.
  - intros p k Hp. apply nth_error_snoc_cases in Hp. destruct Hp as [[Hlt Hp]|[Hpe Hk]].
    + destruct (Imade p k Hp) as (o1 & t1 & Hc & Hm). exists o1, t1. split.
      * rewrite firstn_snoc_le by lia. apply nth_error_app_l. exact Hc.
      * apply made_by_snoc. exact Hm.
    + inversion Hk; subst k p. exists o, t0. split.
      * rewrite <- Ilen. rewrite nth_error_app2 by lia. rewrite Nat.sub_diag. cbn.
        rewrite <- Hlen. rewrite firstn_snoc_le by lia. rewrite firstn_all. rewrite Idis. reflexivity.
      * rewrite <- Hlen. exact Hmade.
  - intros k o1 t1 en Hc. destruct (Hq k) as [-> ->].
    apply nth_error_snoc_cases in Hc. destruct Hc as [[Hlt Hc]|[Hke Hce]].
    + destruct (Ihist k o1 t1 en Hc) as [Hs Hr]. split; [apply nth_error_app_l; exact Hs|exact Hr].
    + inversion Hce; subst o1 t1 en. rewrite Ilen in Hke. subst k.
      destruct (Inone (length (wshedders w)) (Nat.le_refl _)) as [-> ->].
      split; [|reflexivity]. rewrite nth_error_app2 by lia. rewrite Nat.sub_diag. reflexivity.
  - intros k Hk. rewrite app_length in Hk. cbn in Hk. destruct (Hq k) as [-> ->]. apply Inone. lia.
Qed.

Lemma inv_step : forall evs w rs e,
  inv evs w rs -> length evs = length rs ->
  inv (evs ++ [e]) (fst (wstep w e)) (rs ++ [snd (wstep w e)]).
Proof.
  intros evs w rs e I Hlen.
  assert (Hquiet : forall r, (forall k' o r', e = XOp k' o -> r = YRes r' -> False) ->
            wshedders (fst (wstep w e)) = wshedders w -> wcerts (fst (wstep w e)) = wcerts w ->
            wdisabled (fst (wstep w e)) = wdisabled w || is_disable e ->
            map fst (wgroups (fst (wstep w e))) = group_opts (evs ++ [e]) ->
            snd (wstep w e) = r -> (forall k, r <> YMade k) ->
            inv (evs ++ [e]) (fst (wstep w e)) (rs ++ [snd (wstep w e)])).
  { intros r Hq Hs Hc Hd Hg Hr Hnm. destruct I as [Idis Ilen Igrp Imade Ihist Inone].
    rewrite Hr. constructor.
    - rewrite Hd, existsb_snoc, Idis. reflexivity.
    - rewrite Hs, Hc. exact Ilen.
    - exact Hg.
    - intros p k Hp. apply nth_error_snoc_cases in Hp. destruct Hp as [[Hlt Hp]|[Hpe Hk]].
      + destruct (Imade p k Hp) as (o1 & t1 & Hc1 & Hm). exists o1, t1. split.
        * rewrite firstn_snoc_le by lia. rewrite Hc. exact Hc1.
        * apply made_by_snoc. exact Hm.
      + exfalso. eapply Hnm. symmetry. exact Hk.
    - intros k o1 t1 en Hc1. rewrite Hc in Hc1.
      destruct (hist_quiet evs rs e r k Hlen Hq) as [-> ->]. rewrite Hs. apply Ihist. exact Hc1.
    - intros k Hk. rewrite Hs in Hk. destruct (hist_quiet evs rs e r k Hlen Hq) as [-> ->]. apply Inone. exact Hk. }
  destruct e as [|o t0|o|g key t0|k o].
  - (* Disable *)
    apply (Hquiet YNone); cbn; try reflexivity; try discriminate.
    + rewrite orb_true_r. reflexivity.
    + rewrite group_opts_app. cbn. rewrite app_nil_r. apply (i_grp _ _ _ I).
  - (* NewAdaptiveShedder *)
    cbn [wstep]. apply inv_make; try assumption; try reflexivity; try discriminate.
    + left. apply nth_error_snoc.
    + rewrite group_opts_app. cbn. rewrite app_nil_r. apply (i_grp _ _ _ I).
  - (* NewShedderGroup *)
    apply (Hquiet YNone); cbn; try reflexivity; try discriminate.
    + rewrite orb_false_r. reflexivity.
    + rewrite map_app, group_opts_app. cbn. rewrite (i_grp _ _ _ I). reflexivity.
  - (* GetShedder *)
    destruct (nth_error (wgroups w) g) as [[o ms]|] eqn:Eg; [destruct (lookup key ms) as [k|] eqn:El|].
    + assert (Hw : wstep w (XGet g key t0) = (w, YSame k)) by (cbn [wstep]; rewrite Eg, El; reflexivity).
      apply (Hquiet (YSame k)); rewrite ?Hw; cbn [fst snd is_disable]; try reflexivity; try discriminate.
      * rewrite orb_false_r. reflexivity.
      * rewrite group_opts_app. cbn. rewrite app_nil_r. apply (i_grp _ _ _ I).
    + assert (Hw : wstep w (XGet g key t0) =
                   make w o t0 (upd (wgroups w) g (o, (key, length (wshedders w)) :: ms)))
        by (cbn [wstep]; rewrite Eg, El; reflexivity).
      rewrite Hw. apply inv_make; try assumption; try reflexivity; try discriminate.
      * right. exists g, key. split; [apply nth_error_snoc|].
        rewrite group_opts_app. cbn. rewrite app_nil_r. rewrite <- (i_grp _ _ _ I).
        rewrite nth_error_map, Eg. reflexivity.
      * rewrite group_opts_app. cbn. rewrite app_nil_r. rewrite <- (i_grp _ _ _ I).
        eapply map_fst_upd. exact Eg.
    + assert (Hw : wstep w (XGet g key t0) = (w, YNone)) by (cbn [wstep]; rewrite Eg; reflexivity).
      apply (Hquiet YNone); rewrite ?Hw; cbn [fst snd is_disable]; try reflexivity; try discriminate.
      * rewrite orb_false_r. reflexivity.
      * rewrite group_opts_app. cbn. rewrite app_nil_r. apply (i_grp _ _ _ I).
  - (* Allow / Pass / Fail on shedder k *)
    destruct (nth_error (wshedders w) k) as [s|] eqn:Es.
    + assert (Hw : wstep w (XOp k o) =
                   (mkW (wdisabled w) (upd (wshedders w) k (fst (step s o))) (wcerts w) (wgroups w),
                    YRes (snd (step s o)))) by (cbn [wstep]; rewrite Es; reflexivity).
      rewrite Hw. clear Hquiet Hw.
      destruct I as [Idis Ilen Igrp Imade Ihist Inone]. cbn [fst snd].
      assert (Hk : (k < length (wshedders w))%nat) by (eapply nth_error_some_lt; exact Es).
      constructor; cbn [wdisabled wshedders wcerts wgroups].
      * rewrite existsb_snoc. cbn. rewrite orb_false_r. exact Idis.
      * rewrite upd_length. exact Ilen.
      * rewrite group_opts_app. cbn. rewrite app_nil_r. exact Igrp.
      * intros p k1 Hp. apply nth_error_snoc_cases in Hp. destruct Hp as [[Hlt Hp]|[Hpe Hk1]]; [|discriminate].
        destruct (Imade p k1 Hp) as (o1 & t1 & Hc1 & Hm). exists o1, t1. split.
        -- rewrite firstn_snoc_le by lia. exact Hc1.
        -- apply made_by_snoc. exact Hm.
      * intros k1 o1 t1 en Hc1. destruct (Ihist k1 o1 t1 en Hc1) as [Hs Hr].
        rewrite proj_app, projr_app by exact Hlen. cbn [proj projr].
        destruct (Nat.eqb_spec k k1) as [->|Hne].
        -- rewrite Es in Hs. inversion Hs; subst s. split.
           ++ rewrite nth_error_upd_eq by exact Hk. rewrite final_snoc. reflexivity.
           ++ rewrite run_snoc, Hr. reflexivity.
        -- rewrite !app_nil_r. split; [|exact Hr]. rewrite nth_error_upd_neq by exact Hne. exact Hs.
      * intros k1 Hk1. rewrite upd_length in Hk1. rewrite proj_app, projr_app by exact Hlen. cbn [proj projr].
        destruct (Nat.eqb_spec k k1) as [->|Hne]; [lia|]. rewrite !app_nil_r. apply Inone. exact Hk1.
    + assert (Hw : wstep w (XOp k o) = (w, YNone)) by (cbn [wstep]; rewrite Es; reflexivity).
      apply (Hquiet YNone); rewrite ?Hw; cbn [fst snd is_disable]; try reflexivity; try discriminate.
      * rewrite orb_false_r. reflexivity.
      * rewrite group_opts_app. cbn. rewrite app_nil_r. apply (i_grp _ _ _ I).
Qed.

Lemma inv_run : forall evs, inv evs (wfinal w0 evs) (wrun w0 evs).
Proof.
  induction evs as [|e evs IH] using rev_ind; [exact inv_nil|].
  rewrite wfinal_snoc, wrun_snoc. apply inv_step; [exact IH|]. rewrite wrun_length. reflexivity.
Qed.

(* ------------------------------------------------------------------ *)
(* the statements                                                       *)

(* 1. every shedder of the process lives the single-shedder history of its own operations, from the
      initial state of its birth certificate: whatever else happens in the process in between *)
Lemma world_projection_core : forall evs k o t0 en,
  nth_error (wcerts (wfinal w0 evs)) k = Some (o, t0, en) ->
  nth_error (wshedders (wfinal w0 evs)) k =
    Some (final (init (cfg_of o en) t0) (proj k evs (wrun w0 evs))) /\
  projr k evs (wrun w0 evs) = run (init (cfg_of o en) t0) (proj k evs (wrun w0 evs)).
Proof. intros evs k o t0 en H. exact (i_hist _ _ _ (inv_run evs) k o t0 en H). Qed.

(* 2. the certificate: the shedder built by the p-th event has the options of that call (for GetShedder:
      the options its group was given, whenever that was) and is enabled iff no Disable() came before p *)
Lemma birth_certificate_core : forall evs p k,
  nth_error (wrun w0 evs) p = Some (YMade k) ->
  exists o t0, nth_error (wcerts (wfinal w0 evs)) k =
                 Some (o, t0, negb (existsb is_disable (firstn p evs))) /\
               made_by evs p o t0.
Proof. intros evs p k H. exact (i_made _ _ _ (inv_run evs) p k H). Qed.

Lemma existsb_firstn_disable : forall evs i p,
  nth_error evs i = Some XDisable -> (i < p)%nat -> existsb is_disable (firstn p evs) = true.
Proof.
  intros evs i p Hi Hip. apply existsb_exists. exists XDisable. split; [|reflexivity].
  apply nth_error_In with (n := i). rewrite nth_firstn_lt by exact Hip. exact Hi.
Qed.

(* 3. a shedder built after a Disable() - wherever the Disable() stands in the history: before or after
      NewShedderGroup, between two GetShedder calls, in the middle of the traffic - never sheds *)
Lemma disabled_world_core : forall evs i p k m o,
  nth_error evs i = Some XDisable -> (i < p)%nat ->
  nth_error (wrun w0 evs) p = Some (YMade k) ->
  nth_error evs m = Some (XOp k o) ->
  nth_error (wrun w0 evs) m <> Some (YRes RShed).
Proof.
  intros evs i p k m o Hi Hip Hp Hm Hr.
  destruct (birth_certificate_core evs p k Hp) as (o1 & t1 & Hc & _).
  rewrite (existsb_firstn_disable evs i p Hi Hip) in Hc. cbn [negb] in Hc.
  destruct (world_projection_core evs k o1 t1 false Hc) as [_ Hrun].
  pose proof (projr_in k evs _ m o RShed Hm Hr) as Hin. rewrite Hrun in Hin.
  pose proof (disabled_core (proj k evs (wrun w0 evs)) (init (cfg_of o1 false) t1) eq_refl) as Hf.
  rewrite Forall_forall in Hf. exact (Hf _ Hin eq_refl).
Qed.

(* ... and one built while no Disable() has happened yet is a live adaptive shedder: its history is the
   enabled single-shedder history, to which every theorem about one shedder applies *)
Lemma enabled_world_core : forall evs p k,
  nth_error (wrun w0 evs) p = Some (YMade k) ->
  existsb is_disable (firstn p evs) = false ->
  exists o t0, made_by evs p o t0 /\
    projr k evs (wrun w0 evs) = run (init (cfg_of o true) t0) (proj k evs (wrun w0 evs)).
Proof.
  intros evs p k Hp Hd.
  destruct (birth_certificate_core evs p k Hp) as (o1 & t1 & Hc & Hm).
  rewrite Hd in Hc. cbn [negb] in Hc.
  destruct (world_projection_core evs k o1 t1 true Hc) as [_ Hrun].
  exists o1, t1. split; assumption.
Qed.

(* 4. the certificates depend on the configuration calls alone: the traffic in between changes nothing
      (Check.world_ok computes them from the configuration calls of an executed scenario) *)
Definition csim (w w' : world) : Prop :=
  wdisabled w = wdisabled w' /\ wcerts w = wcerts w' /\ wgroups w = wgroups w' /\
  length (wshedders w) = length (wshedders w').

Lemma csim_step_config : forall w w' e, csim w w' -> is_config e = true ->
  csim (fst (wstep w e)) (fst (wstep w' e)) /\
  (forall k, snd (wstep w e) = YMade k <-> snd (wstep w' e) = YMade k).
Proof.
  intros w w' e (Hd & Hc & Hg & Hl) He. destruct e as [|o t0|o|g key t0|k o]; try discriminate; cbn [wstep].
  - split; [|intros; split; discriminate]. repeat split; cbn; assumption.
  - unfold make. cbn. rewrite Hd, Hc, Hg, Hl. split; [|tauto]. repeat split; cbn [wshedders]; rewrite ?app_length; cbn; congruence.
  - split; [|intros; split; discriminate]. repeat split; cbn; try assumption. rewrite Hg. reflexivity.
  - rewrite <- Hg. destruct (nth_error (wgroups w) g) as [[o ms]|].
    + destruct (lookup key ms).
      * split; [|intros; split; discriminate]. repeat split; assumption.
      * unfold make. cbn. rewrite Hd, Hc, Hl. split; [|tauto]. repeat split; cbn [wshedders]; rewrite ?app_length; cbn; congruence.
    + split; [|intros; split; discriminate]. repeat split; assumption.
Qed.

Lemma csim_step_traffic : forall w w' k o, csim w w' -> csim (fst (wstep w (XOp k o))) w'.
Proof.
  intros w w' k o (Hd & Hc & Hg & Hl). cbn [wstep].
  destruct (nth_error (wshedders w) k); repeat split; cbn [fst wdisabled wcerts wgroups wshedders]; try assumption.
  rewrite upd_length. exact Hl.
Qed.

Lemma certs_ignore_traffic_gen : forall evs w w', csim w w' ->
  wcerts (wfinal w evs) = wcerts (wfinal w' (filter is_config evs)).
Proof.
  induction evs as [|e evs IH]; intros w w' H; [apply H|].
  cbn [wfinal filter]. destruct (is_config e) eqn:Ec.
  - cbn [wfinal]. apply IH. apply csim_step_config; assumption.
  - destruct e; try discriminate. apply IH. apply csim_step_traffic. exact H.
Qed.

Lemma certs_ignore_traffic : forall evs,
  wcerts (wfinal w0 evs) = wcerts (wfinal w0 (filter is_config evs)).
Proof. intros. apply certs_ignore_traffic_gen. repeat split. Qed.
