(* C02 — proofs about the sequential model (C02/Model.v). *)
From Coq Require Import List ZArith QArith Qabs Bool Lia Lqa.
From GZ Require Import Lib.RollingWindow Lib.RollingWindowSpec Lib.RollingWindowProofs C02.Model.
Import ListNotations.
Open Scope Z_scope.

(* ------------------------------------------------------------------ *)
(* rationals                                                           *)

Lemma q_ltb_lt : forall a b, q_ltb a b = true <-> (a < b)%Q.
Proof.
  intros a b. unfold q_ltb. rewrite negb_true_iff.
  split; intros H.
  - apply Qnot_le_lt. intros Hle. apply Qle_bool_iff in Hle. congruence.
  - destruct (Qle_bool b a) eqn:E; [|reflexivity].
    apply Qle_bool_iff in E. exfalso. apply (Qlt_not_le _ _ H E).
Qed.

Lemma q_ltb_ge : forall a b, q_ltb a b = false <-> (b <= a)%Q.
Proof.
  intros a b. unfold q_ltb. rewrite negb_false_iff. apply Qle_bool_iff.
Qed.

Lemma at_least_ge : forall x l, (l <= at_least x l)%Q.
Proof.
  intros x l. unfold at_least. destruct (q_ltb x l) eqn:E.
  - apply Qle_refl.
  - apply q_ltb_ge in E. exact E.
Qed.

Lemma at_least_ge_x : forall x l, (x <= at_least x l)%Q.
Proof.
  intros x l. unfold at_least. destruct (q_ltb x l) eqn:E.
  - apply q_ltb_lt in E. apply Qlt_le_weak. exact E.
  - apply Qle_refl.
Qed.

Lemma between_range : forall x lo hi, (lo <= hi)%Q ->
  (lo <= between x lo hi)%Q /\ (between x lo hi <= hi)%Q.
Proof.
  intros x lo hi H. unfold between.
  destruct (q_ltb x lo) eqn:E1.
  - split; [apply Qle_refl|exact H].
  - destruct (q_ltb hi x) eqn:E2.
    + split; [exact H|apply Qle_refl].
    + apply q_ltb_ge in E1. apply q_ltb_ge in E2. split; assumption.
Qed.

Lemma lower_bound_range : (0 < overloadFactorLowerBound)%Q /\ (overloadFactorLowerBound <= 1)%Q.
Proof. split; [reflexivity|discriminate]. Qed.

Lemma factor_range : forall th cpu f, overload_factor th cpu = Some f ->
  (overloadFactorLowerBound <= f)%Q /\ (f <= 1)%Q.
Proof.
  intros th cpu f. unfold overload_factor.
  destruct (th =? cpuMax).
  - destruct (cpu <? cpuMax).
    + intros H. inversion H. split; [discriminate|apply Qle_refl].
    + destruct (cpu =? cpuMax); [discriminate|].
      intros H. inversion H. split; [apply Qle_refl|discriminate].
  - intros H. inversion H. apply between_range. discriminate.
Qed.

(* overloadFactor is a number except at the documented corner *)
Lemma factor_defined : forall th cpu, ~ (th = cpuMax /\ cpu = cpuMax) ->
  exists f, overload_factor th cpu = Some f.
Proof.
  intros th cpu H. unfold overload_factor.
  destruct (Z.eqb_spec th cpuMax) as [E|E]; [|eexists; reflexivity].
  destruct (cpu <? cpuMax); [eexists; reflexivity|].
  destruct (Z.eqb_spec cpu cpuMax) as [E2|E2]; [tauto|eexists; reflexivity].
Qed.

Lemma max_flight_ge_1 : forall s now, (1 <= max_flight s now)%Q.
Proof. intros. unfold max_flight. apply at_least_ge. Qed.

(* ------------------------------------------------------------------ *)
(* one Allow                                                           *)

(* what systemOverloaded() || stillHot() means and what it may change *)
Lemma hot_check_spec : forall s now c1 s1 h, hot_check s now c1 = (s1, h) ->
  (* it touches only overloadTime / droppedRecently *)
  senabled s1 = senabled s /\ sthreshold s1 = sthreshold s /\ sscale s1 = sscale s /\
  flying s1 = flying s /\ avgFlying s1 = avgFlying s /\
  passCounter s1 = passCounter s /\ rtCounter s1 = rtCounter s /\
  nextId s1 = nextId s /\ proms s1 = proms s /\
  (* its answer *)
  (h = true <->
     sthreshold s <= c1 \/
     (droppedRecently s = true /\ overloadTime s <> 0 /\ now - overloadTime s < coolOffDuration)) /\
  (* bookkeeping *)
  (droppedRecently s1 = true -> droppedRecently s = true) /\
  ((sthreshold s <= c1 /\ overloadTime s1 = now) \/ (~ sthreshold s <= c1 /\ overloadTime s1 = overloadTime s)).
Proof.
  intros s now c1 s1 h. unfold hot_check, system_overloaded, still_hot.
  destruct (Z.leb_spec (sthreshold s) c1) as [Hth|Hth];
  [| destruct (droppedRecently s) eqn:Ed; cbn [negb];
     [ destruct (Z.eqb_spec (overloadTime s) 0) as [E0|E0];
       [| destruct (Z.ltb_spec (now - overloadTime s) coolOffDuration) as [Hc|Hc]] |]];
  intros H; inversion H; subst; clear H; cbn;
  repeat split; auto; try tauto; try lia; try (intros; discriminate);
  try solve [intuition (try lia; try congruence; try discriminate)].
Qed.

Lemma max_flight_same : forall s s1 now,
  passCounter s1 = passCounter s -> rtCounter s1 = rtCounter s -> sscale s1 = sscale s ->
  max_flight s1 now = max_flight s now.
Proof.
  intros s s1 now Hp Hr Hs. unfold max_flight, raw_flight, max_pass, min_rt.
  rewrite Hp, Hr, Hs. reflexivity.
Qed.

Lemma high_thru_spec : forall s now cpu2, high_thru s now cpu2 = true <->
  exists f, overload_factor (sthreshold s) cpu2 = Some f /\
            (max_flight s now * f < avgFlying s)%Q /\
            (max_flight s now * f < inject_Z (flying s))%Q.
Proof.
  intros s now cpu2. unfold high_thru.
  destruct (overload_factor (sthreshold s) cpu2) as [f|].
  - rewrite andb_true_iff, !q_ltb_lt. split.
    + intros [H1 H2]. exists f. auto.
    + intros [f' [E [H1 H2]]]. inversion E; subst. auto.
  - split; [discriminate|]. intros [f [E _]]. discriminate.
Qed.

(* the verdict of one Allow, as a predicate on the state before it *)
Lemma allow_shed_iff : forall s now c1 c2,
  snd (allow s now c1 c2) = RShed <->
  (sthreshold s <= c1 \/
   (droppedRecently s = true /\ overloadTime s <> 0 /\ now - overloadTime s < coolOffDuration)) /\
  exists f, overload_factor (sthreshold s) c2 = Some f /\
            (max_flight s now * f < avgFlying s)%Q /\
            (max_flight s now * f < inject_Z (flying s))%Q.
Proof.
  intros s now c1 c2. unfold allow, should_drop.
  destruct (hot_check s now c1) as [s1 h] eqn:E.
  destruct (hot_check_spec _ _ _ _ _ E) as
      (He & Hth & Hsc & Hfl & Havg & Hp & Hr & Hn & Hpr & Hh & Hd & Ho).
  assert (Hht : high_thru s1 now c2 = true <->
                exists f, overload_factor (sthreshold s) c2 = Some f /\
                          (max_flight s now * f < avgFlying s)%Q /\
                          (max_flight s now * f < inject_Z (flying s))%Q).
  { rewrite high_thru_spec, Hth, Havg, Hfl, (max_flight_same s s1 now Hp Hr Hsc). reflexivity. }
  unfold allow_finish.
  destruct h; cbn [andb].
  - destruct (high_thru s1 now c2) eqn:Eh; cbn [snd].
    + split; [intros _|reflexivity]. split; [apply Hh; reflexivity|apply Hht; reflexivity].
    + split; [discriminate|]. intros [_ Hx]. apply Hht in Hx. discriminate.
  - cbn [snd]. split; [discriminate|]. intros [Hx _]. apply Hh in Hx. discriminate.
Qed.

Lemma allow_res : forall s now c1 c2,
  snd (allow s now c1 c2) = RShed \/ snd (allow s now c1 c2) = RAdmit.
Proof.
  intros. unfold allow, should_drop, allow_finish.
  destruct (hot_check s now c1) as [s1 h].
  destruct (h && high_thru s1 now c2); cbn; auto.
Qed.

(* the state after one Allow *)
Lemma allow_state : forall s now c1 c2 s' r, allow s now c1 c2 = (s', r) ->
  senabled s' = senabled s /\ sthreshold s' = sthreshold s /\ sscale s' = sscale s /\
  passCounter s' = passCounter s /\ rtCounter s' = rtCounter s /\ nextId s' = nextId s /\
  avgFlying s' = avgFlying s /\
  (r = RShed /\ flying s' = flying s /\ proms s' = proms s /\ droppedRecently s' = true
   \/ r = RAdmit /\ flying s' = flying s + 1 /\ proms s' = (nextId s, now) :: proms s /\
      (droppedRecently s' = true -> droppedRecently s = true)) /\
  ((sthreshold s <= c1 /\ overloadTime s' = now) \/ (~ sthreshold s <= c1 /\ overloadTime s' = overloadTime s)).
Proof.
  intros s now c1 c2 s' r. unfold allow, should_drop.
  destruct (hot_check s now c1) as [s1 h] eqn:E.
  destruct (hot_check_spec _ _ _ _ _ E) as
      (He & Hth & Hsc & Hfl & Havg & Hp & Hr & Hn & Hpr & Hh & Hd & Ho).
  unfold allow_finish. destruct (h && high_thru s1 now c2); intros H; inversion H; subst; clear H; cbn.
  - repeat split; auto; try solve [left; repeat split; auto].
  - repeat split; auto; try solve [right; rewrite ?Hn, ?Hpr, ?Hfl; repeat split; auto].
Qed.

(* ------------------------------------------------------------------ *)
(* histories                                                           *)

Lemma run_app : forall ops1 ops2 s,
  run s (ops1 ++ ops2) = run s ops1 ++ run (final s ops1) ops2.
Proof.
  induction ops1 as [|o ops1 IH]; intros ops2 s; [reflexivity|].
  cbn [app run final]. destruct (step s o) as [s' r] eqn:E. cbn [fst].
  rewrite IH. reflexivity.
Qed.

Lemma final_app : forall ops1 ops2 s, final s (ops1 ++ ops2) = final (final s ops1) ops2.
Proof.
  induction ops1 as [|o ops1 IH]; intros ops2 s; [reflexivity|].
  cbn [app final]. apply IH.
Qed.

Lemma run_length : forall ops s, length (run s ops) = length ops.
Proof.
  induction ops as [|o ops IH]; intros s; [reflexivity|].
  cbn [run]. destruct (step s o). cbn [length]. rewrite IH. reflexivity.
Qed.

Lemma run_snoc : forall ops o s,
  run s (ops ++ [o]) = run s ops ++ [snd (step (final s ops) o)].
Proof.
  intros. rewrite run_app. cbn [run]. destruct (step (final s ops) o). reflexivity.
Qed.

Lemma final_snoc : forall ops o s, final s (ops ++ [o]) = fst (step (final s ops) o).
Proof. intros. rewrite final_app. reflexivity. Qed.

Lemma step_enabled : forall s o, senabled (fst (step s o)) = senabled s.
Proof.
  intros s o. unfold step, step0.
  destruct (senabled s) eqn:E.
  - destruct o as [now c1 c2|id now|id].
    + destruct (allow s now c1 c2) as [s' r] eqn:Ea.
      destruct (allow_state _ _ _ _ _ _ Ea) as (H & _). cbn. congruence.
    + unfold pass. destruct (prom_start id (proms s)); cbn; assumption.
    + unfold fail. destruct (prom_start id (proms s)); cbn; assumption.
  - unfold nop_step. destruct o; try destruct (prom_start id (proms s)); cbn; assumption.
Qed.

Lemma step_threshold : forall s o, sthreshold (fst (step s o)) = sthreshold s.
Proof.
  intros s o. unfold step, step0.
  destruct (senabled s) eqn:E.
  - destruct o as [now c1 c2|id now|id].
    + destruct (allow s now c1 c2) as [s' r] eqn:Ea.
      destruct (allow_state _ _ _ _ _ _ Ea) as (_ & H & _). cbn. congruence.
    + unfold pass. destruct (prom_start id (proms s)); reflexivity.
    + unfold fail. destruct (prom_start id (proms s)); reflexivity.
  - unfold nop_step. destruct o; try destruct (prom_start id (proms s)); reflexivity.
Qed.

Lemma final_enabled : forall ops s, senabled (final s ops) = senabled s.
Proof.
  induction ops as [|o ops IH]; intros s; [reflexivity|].
  cbn [final]. rewrite IH. apply step_enabled.
Qed.

Lemma final_threshold : forall ops s, sthreshold (final s ops) = sthreshold s.
Proof.
  induction ops as [|o ops IH]; intros s; [reflexivity|].
  cbn [final]. rewrite IH. apply step_threshold.
Qed.

(* ------------------------------------------------------------------ *)
(* cool-off bookkeeping is grounded in the history                      *)

(* droppedRecently: some earlier Allow was shed;  overloadTime <> 0: it is the clock
   reading of some earlier Allow whose CPU reading was at or above the threshold *)
Definition grounded (th : Z) (ops : list op) (rs : list res) (s : state) : Prop :=
  (droppedRecently s = true -> exists k, nth_error rs k = Some RShed) /\
  (overloadTime s <> 0 ->
   exists j tj c1 c2, nth_error ops j = Some (OAllow tj c1 c2) /\ th <= c1 /\ overloadTime s = tj).

Lemma nth_error_app_l : forall {A} (l l' : list A) k x,
  nth_error l k = Some x -> nth_error (l ++ l') k = Some x.
Proof.
  intros A l l' k x H. rewrite nth_error_app1; [assumption|].
  apply nth_error_Some. congruence.
Qed.

Lemma nth_error_snoc : forall {A} (l : list A) x, nth_error (l ++ [x]) (length l) = Some x.
Proof.
  intros. rewrite nth_error_app2 by lia. rewrite Nat.sub_diag. reflexivity.
Qed.

Lemma grounded_step : forall th ops rs s o,
  senabled s = true -> sthreshold s = th -> length rs = length ops ->
  grounded th ops rs s ->
  grounded th (ops ++ [o]) (rs ++ [snd (step s o)]) (fst (step s o)).
Proof.
  intros th ops rs s o Hen Hth Hlen [Hd Ho].
  assert (Hd' : forall r, droppedRecently s = true -> exists k, nth_error (rs ++ [r]) k = Some RShed).
  { intros r H. destruct (Hd H) as [k Hk]. exists k. apply nth_error_app_l. exact Hk. }
  assert (Ho' : overloadTime s <> 0 ->
                exists j tj c1 c2, nth_error (ops ++ [o]) j = Some (OAllow tj c1 c2) /\ th <= c1 /\ overloadTime s = tj).
  { intros H. destruct (Ho H) as (j & tj & c1 & c2 & Hj & Hc & Ht).
    exists j, tj, c1, c2. split; [apply nth_error_app_l; exact Hj|auto]. }
  unfold step, step0. rewrite Hen.
  destruct o as [now c1 c2|id now|id].
  - destruct (allow s now c1 c2) as [s' r] eqn:Ea.
    destruct (allow_state _ _ _ _ _ _ Ea) as (_ & _ & _ & _ & _ & _ & _ & Hcase & Hov).
    cbn [fst snd]. split; cbn.
    + intros Hdr. destruct Hcase as [(Hr & _)|(Hr & _ & _ & Hk)].
      * subst r. exists (length rs). apply nth_error_snoc.
      * destruct (Hd (Hk Hdr)) as [k Hk']. exists k. apply nth_error_app_l. exact Hk'.
    + intros Hne. destruct Hov as [[Hc Ht]|[Hc Ht]].
      * exists (length ops), now, c1, c2. split; [apply nth_error_snoc|]. split; [lia|exact Ht].
      * rewrite Ht in Hne. destruct (Ho Hne) as (j & tj & c1' & c2' & Hj & Hc' & Ht').
        exists j, tj, c1', c2'. split; [apply nth_error_app_l; exact Hj|]. split; [exact Hc'|congruence].
  - unfold pass. destruct (prom_start id (proms s)); cbn; (split; [apply Hd'|apply Ho']).
  - unfold fail. destruct (prom_start id (proms s)); cbn; (split; [apply Hd'|apply Ho']).
Qed.

Lemma grounded_run : forall c t0 ops, cenabled c = true ->
  grounded (cthreshold c) ops (run (init c t0) ops) (final (init c t0) ops).
Proof.
  intros c t0 ops Hen. induction ops as [|o ops IH] using rev_ind.
  - split; cbn; [discriminate|congruence].
  - rewrite run_snoc, final_snoc. apply grounded_step.
    + rewrite final_enabled. exact Hen.
    + rewrite final_threshold. reflexivity.
    + apply run_length.
    + exact IH.
Qed.

(* ------------------------------------------------------------------ *)
(* the property theorems (sequential histories)                         *)

(* the capacity estimate the code uses *)
Definition capacity (s : state) (now : Z) : Q := max_flight s now.

Lemma step_allow_snd : forall s now c1 c2, senabled s = true ->
  snd (step s (OAllow now c1 c2)) = snd (allow s now c1 c2).
Proof.
  intros s now c1 c2 H. unfold step, step0. rewrite H.
  destruct (allow s now c1 c2). reflexivity.
Qed.

Lemma lower_bound_capacity : forall s now f x,
  (overloadFactorLowerBound <= f)%Q -> (max_flight s now * f < x)%Q ->
  (overloadFactorLowerBound * capacity s now < x)%Q.
Proof.
  intros s now f x Hf Hx. unfold capacity.
  pose proof (max_flight_ge_1 s now) as H1.
  eapply Qle_lt_trans; [|exact Hx].
  rewrite (Qmult_comm (max_flight s now) f).
  apply Qmult_le_compat_r; [exact Hf|].
  eapply Qle_trans; [|exact H1]. discriminate.
Qed.

Lemma shed_only_core : forall c t0 pre now c1 c2,
  cenabled c = true ->
  snd (step (final (init c t0) pre) (OAllow now c1 c2)) = RShed ->
  (cthreshold c <= c1 \/
   ((exists k, nth_error (run (init c t0) pre) k = Some RShed) /\
    (exists j tj cj cj2, nth_error pre j = Some (OAllow tj cj cj2) /\
                         cthreshold c <= cj /\ now - tj < coolOffDuration))) /\
  (overloadFactorLowerBound * capacity (final (init c t0) pre) now
   < inject_Z (flying (final (init c t0) pre)))%Q /\
  (overloadFactorLowerBound * capacity (final (init c t0) pre) now
   < avgFlying (final (init c t0) pre))%Q.
Proof.
  intros c t0 pre now c1 c2 Hen Hshed.
  set (s := final (init c t0) pre) in *.
  assert (Hes : senabled s = true) by (unfold s; rewrite final_enabled; exact Hen).
  assert (Hts : sthreshold s = cthreshold c) by (unfold s; rewrite final_threshold; reflexivity).
  rewrite step_allow_snd in Hshed by exact Hes.
  apply allow_shed_iff in Hshed. destruct Hshed as [Hhot (f & Hf & Havg & Hfl)].
  destruct (factor_range _ _ _ Hf) as [Hlo _].
  split; [|split; eapply lower_bound_capacity; eauto].
  rewrite Hts in Hhot. destruct Hhot as [Hc|(Hd & Ho & Ht)]; [left; exact Hc|right].
  destruct (grounded_run c t0 pre Hen) as [Gd Go]. fold s in Gd, Go.
  split; [apply Gd; exact Hd|].
  destruct (Go Ho) as (j & tj & cj & cj2 & Hj & Hcj & Htj).
  exists j, tj, cj, cj2. repeat split; auto. rewrite <- Htj. exact Ht.
Qed.

Lemma shed_when_saturated_core : forall c t0 pre now c1 c2,
  cenabled c = true ->
  cthreshold c <= c1 ->
  ~ (cthreshold c = cpuMax /\ c2 = cpuMax) ->
  (capacity (final (init c t0) pre) now < inject_Z (flying (final (init c t0) pre)))%Q ->
  (capacity (final (init c t0) pre) now < avgFlying (final (init c t0) pre))%Q ->
  snd (step (final (init c t0) pre) (OAllow now c1 c2)) = RShed.
Proof.
  intros c t0 pre now c1 c2 Hen Hc Hnan Hfl Havg.
  set (s := final (init c t0) pre) in *.
  assert (Hes : senabled s = true) by (unfold s; rewrite final_enabled; exact Hen).
  assert (Hts : sthreshold s = cthreshold c) by (unfold s; rewrite final_threshold; reflexivity).
  rewrite step_allow_snd by exact Hes. apply allow_shed_iff. rewrite Hts.
  split; [left; exact Hc|].
  destruct (factor_defined _ _ Hnan) as [f Hf]. exists f. split; [exact Hf|].
  destruct (factor_range _ _ _ Hf) as [_ Hhi].
  pose proof (max_flight_ge_1 s now) as H1.
  assert (Hle : (max_flight s now * f <= max_flight s now)%Q).
  { rewrite <- (Qmult_1_r (max_flight s now)) at 2.
    rewrite !(Qmult_comm (max_flight s now)).
    apply Qmult_le_compat_r; [exact Hhi|].
    eapply Qle_trans; [|exact H1]. discriminate. }
  unfold capacity in *. split; eapply Qle_lt_trans; eauto.
Qed.

Lemma idle_core : forall c t0 pre now c1 c2,
  cenabled c = true ->
  flying (final (init c t0) pre) <= 0 ->
  snd (step (final (init c t0) pre) (OAllow now c1 c2)) = RAdmit.
Proof.
  intros c t0 pre now c1 c2 Hen Hidle.
  set (s := final (init c t0) pre) in *.
  assert (Hes : senabled s = true) by (unfold s; rewrite final_enabled; exact Hen).
  destruct (allow_res s now c1 c2) as [Hs|Ha]; [|rewrite step_allow_snd by exact Hes; exact Ha].
  exfalso. rewrite <- step_allow_snd in Hs by exact Hes.
  destruct (shed_only_core c t0 pre now c1 c2 Hen Hs) as (_ & Hfl & _). fold s in Hfl.
  pose proof (max_flight_ge_1 s now) as H1. unfold capacity in Hfl.
  assert (H0 : (0 < overloadFactorLowerBound * max_flight s now)%Q).
  { apply Qmult_lt_0_compat; [reflexivity|]. eapply Qlt_le_trans; [|exact H1]. reflexivity. }
  assert (Hz : (inject_Z (flying s) <= 0)%Q).
  { change 0%Q with (inject_Z 0). rewrite <- Zle_Qle. exact Hidle. }
  apply (Qlt_irrefl 0). eapply Qlt_le_trans; [exact H0|].
  eapply Qle_trans; [apply Qlt_le_weak; exact Hfl|exact Hz].
Qed.

(* ---- disabled ---- *)
Lemma disabled_core : forall ops s, senabled s = false ->
  Forall (fun r => r <> RShed) (run s ops).
Proof.
  induction ops as [|o ops IH]; intros s H; [constructor|].
  cbn [run]. destruct (step s o) as [s' r] eqn:E. constructor.
  - assert (r = snd (step s o)) by (rewrite E; reflexivity). subst r.
    unfold step, step0, nop_step. rewrite H.
    destruct o; try destruct (prom_start id (proms s)); cbn; discriminate.
  - apply IH. assert (s' = fst (step s o)) by (rewrite E; reflexivity). subst s'.
    rewrite step_enabled. exact H.
Qed.

(* ---- in-flight conservation ---- *)
Definition count (x : res) (rs : list res) : Z :=
  Z.of_nat (length (filter (fun r => match r, x with
                                     | RAdmit, RAdmit | RShed, RShed | RDone, RDone | RNoop, RNoop => true
                                     | _, _ => false end) rs)).

Lemma count_cons : forall x r rs,
  count x (r :: rs) = (if match r, x with
                          | RAdmit, RAdmit | RShed, RShed | RDone, RDone | RNoop, RNoop => true
                          | _, _ => false end then 1 else 0) + count x rs.
Proof.
  intros x r rs. unfold count. cbn [filter].
  destruct (match r, x with
            | RAdmit, RAdmit | RShed, RShed | RDone, RDone | RNoop, RNoop => true
            | _, _ => false end); cbn [length]; lia.
Qed.

Lemma step_flying : forall s o, senabled s = true ->
  flying (fst (step s o)) =
  flying s + (match snd (step s o) with RAdmit => 1 | RDone => -1 | _ => 0 end).
Proof.
  intros s o H. unfold step, step0. rewrite H.
  destruct o as [now c1 c2|id now|id].
  - destruct (allow s now c1 c2) as [s' r] eqn:Ea.
    destruct (allow_state _ _ _ _ _ _ Ea) as (_ & _ & _ & _ & _ & _ & _ & Hcase & _).
    cbn. destruct Hcase as [(Hr & Hf & _)|(Hr & Hf & _)]; subst r; lia.
  - unfold pass. destruct (prom_start id (proms s)); cbn; lia.
  - unfold fail. destruct (prom_start id (proms s)); cbn; lia.
Qed.

Lemma conservation_core : forall ops s, senabled s = true ->
  flying (final s ops) = flying s + count RAdmit (run s ops) - count RDone (run s ops).
Proof.
  induction ops as [|o ops IH]; intros s H.
  - cbn. unfold count. cbn. lia.
  - cbn [final run]. pose proof (step_flying s o H) as Hf.
    pose proof (step_enabled s o) as He.
    destruct (step s o) as [s' r]. cbn [fst snd] in *.
    rewrite IH by congruence. rewrite Hf, !count_cons.
    destruct r; lia.
Qed.

(* identities of promises *)
Fixpoint granted (k : Z) (rs : list res) : list Z :=
  match rs with
  | [] => []
  | RAdmit :: rs' => k :: granted (k + 1) rs'
  | _ :: rs' => granted (k + 1) rs'
  end.

Fixpoint resolved (ops : list op) (rs : list res) : list Z :=
  match ops, rs with
  | OPass id _ :: ops', RDone :: rs' => id :: resolved ops' rs'
  | OFail id :: ops', RDone :: rs' => id :: resolved ops' rs'
  | _ :: ops', _ :: rs' => resolved ops' rs'
  | _, _ => []
  end.

Lemma granted_length : forall rs k, Z.of_nat (length (granted k rs)) = count RAdmit rs.
Proof.
  induction rs as [|r rs IH]; intros k; [reflexivity|].
  rewrite count_cons. destruct r; cbn [granted length]; rewrite ?Nat2Z.inj_succ, IH; lia.
Qed.

Lemma resolved_length : forall ops s, Z.of_nat (length (resolved ops (run s ops))) = count RDone (run s ops).
Proof.
  induction ops as [|o ops IH]; intros s; [reflexivity|].
  cbn [run].
  assert (Hk : forall id now, snd (step s (OAllow id now now)) <> RDone).
  { intros. unfold step, step0. destruct (senabled s).
    - destruct (allow s id now now) as [s' r] eqn:Ea.
      destruct (allow_state _ _ _ _ _ _ Ea) as (_ & _ & _ & _ & _ & _ & _ & [(Hr & _)|(Hr & _)] & _);
        subst r; cbn; discriminate.
    - cbn. discriminate. }
  destruct (step s o) as [s' r] eqn:E. rewrite count_cons.
  destruct o as [now c1 c2|id now|id]; destruct r; cbn [resolved length];
    rewrite ?Nat2Z.inj_succ, IH; try lia.
  exfalso. unfold step, step0 in E. destruct (senabled s).
  - destruct (allow s now c1 c2) as [s'' r] eqn:Ea.
    destruct (allow_state _ _ _ _ _ _ Ea) as (_ & _ & _ & _ & _ & _ & _ & [(Hr & _)|(Hr & _)] & _);
      subst r; inversion E.
  - cbn in E. inversion E.
Qed.

Lemma prom_start_in : forall id l st, prom_start id l = Some st -> In id (map fst l).
Proof.
  intros id l st. unfold prom_start.
  destruct (find (fun p => fst p =? id) l) as [p|] eqn:E; [|discriminate].
  intros _. apply find_some in E. destruct E as [Hin Heq].
  apply Z.eqb_eq in Heq. subst id. apply in_map. exact Hin.
Qed.

(* the promise table after a history: the granted indices, newest first *)
Lemma proms_final : forall ops s,
  map fst (proms (final s ops)) = rev (granted (nextId s) (run s ops)) ++ map fst (proms s).
Proof.
  induction ops as [|o ops IH]; intros s; [reflexivity|].
  cbn [final run].
  assert (Hn : nextId (fst (step s o)) = nextId s + 1).
  { unfold step, step0. destruct (senabled s).
    - destruct o as [now c1 c2|id now|id].
      + destruct (allow s now c1 c2) as [s' r] eqn:Ea.
        destruct (allow_state _ _ _ _ _ _ Ea) as (_ & _ & _ & _ & _ & Hx & _). cbn. lia.
      + unfold pass. destruct (prom_start id (proms s)); reflexivity.
      + unfold fail. destruct (prom_start id (proms s)); reflexivity.
    - unfold nop_step. destruct o; try destruct (prom_start id (proms s)); reflexivity. }
  assert (Hp : map fst (proms (fst (step s o))) =
               match snd (step s o) with RAdmit => nextId s :: map fst (proms s) | _ => map fst (proms s) end).
  { unfold step, step0. destruct (senabled s).
    - destruct o as [now c1 c2|id now|id].
      + destruct (allow s now c1 c2) as [s' r] eqn:Ea.
        destruct (allow_state _ _ _ _ _ _ Ea) as (_ & _ & _ & _ & _ & _ & _ & [(Hr & _ & Hx & _)|(Hr & _ & Hx & _)] & _);
          subst r; cbn; rewrite Hx; reflexivity.
      + unfold pass. destruct (prom_start id (proms s)); reflexivity.
      + unfold fail. destruct (prom_start id (proms s)); reflexivity.
    - unfold nop_step. destruct o; try destruct (prom_start id (proms s)); reflexivity. }
  destruct (step s o) as [s' r]. cbn [fst snd] in *.
  rewrite IH, Hn, Hp. destruct r; cbn [granted rev]; rewrite <- ?app_assoc; reflexivity.
Qed.

Lemma proms_grow : forall ops s id, In id (map fst (proms s)) -> In id (map fst (proms (final s ops))).
Proof.
  intros ops s id H. rewrite proms_final. apply in_or_app. right. exact H.
Qed.

(* only promises that were handed out get resolved *)
Lemma resolved_incl : forall ops s,
  incl (resolved ops (run s ops)) (map fst (proms (final s ops))).
Proof.
  induction ops as [|o ops IH]; intros s; [intros x []|].
  cbn [run final].
  assert (Hin : match o, snd (step s o) with
                | OPass id _, RDone | OFail id, RDone => In id (map fst (proms s))
                | _, _ => True end).
  { destruct o as [now c1 c2|id now|id];
      [destruct (snd (step s (OAllow now c1 c2))); exact I| |]; unfold step, step0.
    - destruct (senabled s).
      + unfold pass. destruct (prom_start id (proms s)) eqn:Ep; cbn; [|exact I].
        eapply prom_start_in; eauto.
      + unfold nop_step. destruct (prom_start id (proms s)) eqn:Ep; cbn; [|exact I].
        eapply prom_start_in; eauto.
    - destruct (senabled s).
      + unfold fail. destruct (prom_start id (proms s)) eqn:Ep; cbn; [|exact I].
        eapply prom_start_in; eauto.
      + unfold nop_step. destruct (prom_start id (proms s)) eqn:Ep; cbn; [|exact I].
        eapply prom_start_in; eauto. }
  assert (Hmono : forall id, In id (map fst (proms s)) -> In id (map fst (proms (fst (step s o))))).
  { intros id H. change (fst (step s o)) with (final s [o]). apply proms_grow. exact H. }
  destruct (step s o) as [s' r]. cbn [fst snd] in *.
  destruct o as [now c1 c2|id now|id]; destruct r; cbn [resolved]; try apply IH;
    (intros x [Hx|Hx]; [subst x; apply proms_grow; apply Hmono; exact Hin|apply IH; exact Hx]).
Qed.

(* with every promise resolved at most once, flying counts the open promises *)
Lemma conservation_wf_core : forall c t0 ops,
  cenabled c = true ->
  let rs := run (init c t0) ops in
  NoDup (resolved ops rs) ->
  incl (resolved ops rs) (granted 0 rs) /\
  flying (final (init c t0) ops) =
    Z.of_nat (length (granted 0 rs)) - Z.of_nat (length (resolved ops rs)) /\
  0 <= flying (final (init c t0) ops).
Proof.
  intros c t0 ops Hen rs Hnd.
  assert (Hincl : incl (resolved ops rs) (granted 0 rs)).
  { intros x Hx. apply (resolved_incl ops (init c t0)) in Hx.
    rewrite proms_final in Hx. cbn [init proms map nextId] in Hx. rewrite app_nil_r in Hx.
    apply in_rev. exact Hx. }
  assert (Heq : flying (final (init c t0) ops) =
                Z.of_nat (length (granted 0 rs)) - Z.of_nat (length (resolved ops rs))).
  { rewrite conservation_core by exact Hen. unfold rs.
    rewrite granted_length, resolved_length. cbn [init flying]. lia. }
  split; [exact Hincl|]. split; [exact Heq|].
  rewrite Heq. pose proof (NoDup_incl_length Hnd Hincl). lia.
Qed.

(* ------------------------------------------------------------------ *)
(* capacity_def: what maxFlight is, in terms of the history of passes   *)

(* the completed passes of a history: (completion time, latency in ms) *)
Fixpoint passes (s : state) (ops : list op) : list (Z * Z) :=
  match ops with
  | [] => []
  | o :: ops' =>
    (match o with
     | OPass id now =>
       match prom_start id (proms s) with
       | Some st => [(now, ceil_ms (now - st))]
       | None => []
       end
     | _ => []
     end) ++ passes (fst (step s o)) ops'
  end.

(* what passCounter records for them: a 1 at the completion time *)
Definition pass_marks (h : list (Z * Z)) : list (Z * Z) := map (fun p => (fst p, 1)) h.

Lemma rw_run_app : forall w h1 h2, rw_run w (h1 ++ h2) = rw_run (rw_run w h1) h2.
Proof. intros. unfold rw_run. apply fold_left_app. Qed.

Lemma windows_final : forall ops s, senabled s = true ->
  passCounter (final s ops) = rw_run (passCounter s) (pass_marks (passes s ops)) /\
  rtCounter (final s ops) = rw_run (rtCounter s) (passes s ops) /\
  sscale (final s ops) = sscale s.
Proof.
  induction ops as [|o ops IH]; intros s H; [repeat split|].
  cbn [final passes]. pose proof (step_enabled s o) as He.
  destruct (IH (fst (step s o))) as (Hp & Hr & Hs); [congruence|].
  rewrite Hp, Hr, Hs. unfold pass_marks. rewrite map_app. fold (pass_marks (passes (fst (step s o)) ops)).
  rewrite !rw_run_app.
  unfold step, step0. rewrite H.
  destruct o as [now c1 c2|id now|id].
  - destruct (allow s now c1 c2) as [s' r] eqn:Ea.
    destruct (allow_state _ _ _ _ _ _ Ea) as (_ & _ & Hsc & Hpc & Hrc & _).
    cbn. rewrite Hpc, Hrc, Hsc. repeat split.
  - unfold pass. destruct (prom_start id (proms s)); cbn; repeat split.
  - unfold fail. destruct (prom_start id (proms s)); cbn; repeat split.
Qed.

Lemma marks_fst : forall h, map fst (pass_marks h) = map fst h.
Proof. intros. unfold pass_marks. rewrite map_map. reflexivity. Qed.

Lemma marks_mono : forall h t, rw_mono t h -> rw_mono t (pass_marks h).
Proof.
  induction h as [|p h IH]; intros t H; [exact I|].
  cbn in *. destruct H as [H1 H2]. split; [exact H1|apply IH; exact H2].
Qed.

Lemma marks_last : forall h t0, rw_last_time t0 (pass_marks h) = rw_last_time t0 h.
Proof. intros. unfold rw_last_time. rewrite marks_fst. reflexivity. Qed.

Lemma capacity_def_core : forall c t0 ops now,
  cenabled c = true -> 1 <= cbuckets c -> 0 < bucket_duration c ->
  rw_mono t0 (passes (init c t0) ops) ->
  rw_last_time t0 (passes (init c t0) ops) <= now ->
  capacity (final (init c t0) ops) now =
  at_least
    (inject_Z (max_pass_of (rw_reduce_spec (Z.to_nat (cbuckets c)) (bucket_duration c) t0 true
                                           (pass_marks (passes (init c t0) ops)) now)) *
     inject_Z (min_rt_of (rw_reduce_spec (Z.to_nat (cbuckets c)) (bucket_duration c) t0 true
                                         (passes (init c t0) ops) now)) *
     window_scale c)%Q 1%Q.
Proof.
  intros c t0 ops now Hen Hb Hiv Hm Hl.
  unfold capacity, max_flight, raw_flight, max_pass, min_rt.
  destruct (windows_final ops (init c t0) Hen) as (Hp & Hr & Hs).
  rewrite Hp, Hr, Hs. cbn [init passCounter rtCounter sscale].
  rewrite !reduce_visits_last_size_intervals; try assumption; try lia.
  - reflexivity.
  - apply marks_mono. exact Hm.
  - rewrite marks_last. exact Hl.
Qed.

(* the two folds, characterised *)
Lemma max_fold : forall bs a,
  a <= fold_left (fun r b => Z.max r (bsum b)) bs a /\
  Forall (fun b => bsum b <= fold_left (fun r b => Z.max r (bsum b)) bs a) bs /\
  (fold_left (fun r b => Z.max r (bsum b)) bs a = a \/
   Exists (fun b => bsum b = fold_left (fun r b => Z.max r (bsum b)) bs a) bs).
Proof.
  induction bs as [|b bs IH]; intros a; cbn [fold_left].
  - split; [lia|]. split; [constructor|left; reflexivity].
  - destruct (IH (Z.max a (bsum b))) as (H1 & H2 & H3).
    split; [lia|]. split; [constructor; [lia|exact H2]|].
    destruct H3 as [H3|H3].
    + destruct (Z.max_spec a (bsum b)) as [[_ E]|[_ E]].
      * right. constructor. lia.
      * left. lia.
    + right. apply Exists_cons_tl. exact H3.
Qed.

(* maxPass: the largest per-bucket pass count, but at least 1 *)
Lemma max_pass_of_char : forall bs,
  1 <= max_pass_of bs /\ Forall (fun b => bsum b <= max_pass_of bs) bs /\
  (max_pass_of bs = 1 \/ Exists (fun b => bsum b = max_pass_of bs) bs).
Proof. intros. apply max_fold. Qed.

Definition bavg (b : list Z) : Z := round_div (bsum b) (bcount b).

Lemma min_fold : forall bs a,
  let f := fun r b => if bcount b <=? 0 then r else Z.min r (bavg b) in
  fold_left f bs a <= a /\
  Forall (fun b => b <> [] -> fold_left f bs a <= bavg b) bs /\
  (fold_left f bs a = a \/ Exists (fun b => b <> [] /\ bavg b = fold_left f bs a) bs).
Proof.
  induction bs as [|b bs IH]; intros a f; cbn [fold_left].
  - split; [lia|]. split; [constructor|left; reflexivity].
  - destruct (IH (f a b)) as (H1 & H2 & H3). fold f in H1, H2, H3.
    assert (Hf : (b = [] /\ f a b = a) \/ (b <> [] /\ f a b = Z.min a (bavg b))).
    { unfold f, bcount. destruct b as [|x b]; [left; split; reflexivity|right].
      split; [discriminate|]. cbn [length].
      destruct (Z.leb_spec (Z.of_nat (S (length b))) 0); [lia|reflexivity]. }
    destruct Hf as [[Hb Hf]|[Hb Hf]]; rewrite Hf in *.
    + split; [exact H1|]. split; [constructor; [intros; congruence|exact H2]|].
      destruct H3 as [H3|H3]; [left; exact H3|right; apply Exists_cons_tl; exact H3].
    + split; [lia|]. split; [constructor; [intros _; lia|exact H2]|].
      destruct H3 as [H3|H3]; [|right; apply Exists_cons_tl; exact H3].
      destruct (Z.min_spec a (bavg b)) as [[_ E]|[_ E]].
      * left. lia.
      * right. constructor. split; [exact Hb|lia].
Qed.

(* minRt: the least rounded average latency of a non-empty bucket, but at most defaultMinRt *)
Lemma min_rt_of_char : forall bs,
  min_rt_of bs <= defaultMinRt /\
  Forall (fun b => b <> [] -> min_rt_of bs <= bavg b) bs /\
  (min_rt_of bs = defaultMinRt \/ Exists (fun b => b <> [] /\ bavg b = min_rt_of bs) bs).
Proof. intros. apply (min_fold bs defaultMinRt). Qed.

(* a bucket of passCounter sums to the number of passes completed in its interval *)
Lemma marks_bucket : forall t0 iv h i,
  bsum (rw_vals_at t0 iv (pass_marks h) i) = Z.of_nat (length (rw_vals_at t0 iv h i)).
Proof.
  intros t0 iv h i. unfold rw_vals_at, pass_marks.
  induction h as [|p h IH]; [reflexivity|].
  cbn [map filter fst]. destruct (rw_idx t0 iv (fst p) =? i); [|exact IH].
  cbn [map bsum fold_right length snd]. fold (bsum (map snd (filter (fun p0 => rw_idx t0 iv (fst p0) =? i)
        (map (fun p0 => (fst p0, 1)) h)))).
  rewrite IH. lia.
Qed.
