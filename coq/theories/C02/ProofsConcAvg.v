(* C02 — interleaving semantics (C02/Conc.v): every resolution contributes exactly one sample to the
   moving average.

   A Pass / Fail thread decrements the in-flight counter (action 0, remembering the value the atomic add
   returned in its register [tfl]) and later, under the spin lock, folds THAT value into avgFlying
   (action 1).  Whatever the schedule - however many other threads get the lock in between - the
   average after the schedule is the fold of these samples in the order in which the threads performed
   action 1 (= the order in which they got the lock), nothing is lost and nothing is folded twice. *)
From Coq Require Import List ZArith QArith Bool Lia Arith.
From GZ Require Import Lib.RollingWindow C02.Model C02.Conc C02.Proofs C02.ProofsConc.
Import ListNotations.
Open Scope Z_scope.

(* the sample thread [tid] folds in when it takes the next step (None: that step is no sampling step) *)
Definition sampling (m : machine) (tid : nat) : option Z :=
  match nth_error (snd m) tid with
  | Some t =>
    match target (tcall t) with
    | Some p =>
      match promise_of (snd m) p with
      | Some _ => if (tpc t =? 1)%nat then Some (tfl t) else None
      | None => None
      end
    | None => None
    end
  | None => None
  end.

(* the samples of a schedule, in lock order *)
Fixpoint sample_log (m : machine) (sched : list nat) : list Z :=
  match sched with
  | [] => []
  | tid :: sched' =>
    match sampling m tid with Some v => [v] | None => [] end ++ sample_log (cstep m tid) sched'
  end.

Lemma allow_act_avg : forall sh t now c1 c2, avgFlying (fst (allow_act sh t now c1 c2)) = avgFlying sh.
Proof.
  intros sh t now c1 c2. unfold allow_act.
  destruct (tpc t) as [|[|[|[|[|[|[|[|[|[|n]]]]]]]]]];
    repeat match goal with
           | |- context [match overload_factor ?a ?b with _ => _ end] => destruct (overload_factor a b)
           | |- context [if ?b then _ else _] => destruct b
           end; reflexivity.
Qed.

Lemma resolve_act_avg : forall sh t st pn,
  avgFlying (fst (resolve_act sh t st pn)) =
  if (tpc t =? 1)%nat then next_avg (avgFlying sh) (tfl t) else avgFlying sh.
Proof.
  intros sh t st pn. unfold resolve_act.
  destruct (tpc t) as [|[|[|[|n]]]]; cbn [Nat.eqb]; try reflexivity; destruct pn; reflexivity.
Qed.

Lemma cstep_avg : forall m tid,
  avgFlying (fst (cstep m tid)) =
  match sampling m tid with
  | Some v => next_avg (avgFlying (fst m)) v
  | None => avgFlying (fst m)
  end.
Proof.
  intros [sh ths] tid. unfold cstep, sampling. cbn [fst snd].
  destruct (nth_error ths tid) as [t|]; [|reflexivity].
  destruct (act sh ths t) as [sh' t'] eqn:Ea. cbn [fst].
  assert (Hs : sh' = fst (act sh ths t)) by (rewrite Ea; reflexivity). subst sh'. clear Ea.
  unfold act. destruct (tcall t) as [now c1 c2|p now|p]; cbn [target].
  - apply allow_act_avg.
  - destruct (promise_of ths p); [|reflexivity]. rewrite resolve_act_avg. destruct (tpc t =? 1)%nat; reflexivity.
  - destruct (promise_of ths p); [|reflexivity]. rewrite resolve_act_avg. destruct (tpc t =? 1)%nat; reflexivity.
Qed.

(* the moving average after ANY schedule = the fold of the samples in lock order *)
Lemma avg_is_fold_of_samples : forall sched m,
  avgFlying (fst (crun m sched)) = fold_left next_avg (sample_log m sched) (avgFlying (fst m)).
Proof.
  induction sched as [|tid sched IH]; intros m; [reflexivity|].
  cbn [crun fold_left sample_log]. change (fold_left cstep sched (cstep m tid)) with (crun (cstep m tid) sched).
  rewrite IH, cstep_avg, fold_left_app.
  destruct (sampling m tid); reflexivity.
Qed.

(* the sample is the value the thread's own decrement returned *)
Lemma decrement_records_sample : forall sh t st pn,
  tpc t = 0%nat ->
  let '(sh', t') := resolve_act sh t st pn in
  flying sh' = flying sh - 1 /\ tfl t' = flying sh' /\ tpc t' = 1%nat /\ avgFlying sh' = avgFlying sh.
Proof. intros sh t st pn H. unfold resolve_act. rewrite H. cbn. repeat split. Qed.

(* exactly one sample per resolution: the number of samples folded in = the number of Pass / Fail
   threads that are past their sampling action *)
Definition has_sampled (t : thread) : bool :=
  match target (tcall t) with Some _ => (2 <=? tpc t)%nat | None => false end.

Lemma cstep_sampled : forall m tid,
  countb has_sampled (snd (cstep m tid)) =
  countb has_sampled (snd m) + match sampling m tid with Some _ => 1 | None => 0 end.
Proof.
  intros [sh ths] tid. unfold cstep, sampling. cbn [fst snd].
  destruct (nth_error ths tid) as [t|] eqn:En; [|cbn; lia].
  destruct (act sh ths t) as [sh' t'] eqn:Ea. cbn [snd].
  rewrite (countb_upd has_sampled ths tid t t' En).
  assert (Ht : t' = snd (act sh ths t)) by (rewrite Ea; reflexivity). subst t'. clear Ea.
  unfold act, has_sampled. destruct (tcall t) as [now c1 c2|p now|p] eqn:Ec; cbn [target].
  - (* an Allow thread stays an Allow thread *)
    assert (Hc : tcall (snd (allow_act sh t now c1 c2)) = CAllow now c1 c2).
    { unfold allow_act.
      destruct (tpc t) as [|[|[|[|[|[|[|[|[|[|n]]]]]]]]]];
        repeat match goal with
               | |- context [match overload_factor ?a ?b with _ => _ end] => destruct (overload_factor a b)
               | |- context [if ?b then _ else _] => destruct b
               end; cbn; exact Ec. }
    rewrite Hc. cbn [target b2z]. lia.
  - destruct (promise_of ths p); [|cbn [snd]; rewrite Ec; cbn [target]; destruct (2 <=? tpc t)%nat; cbn; lia].
    unfold resolve_act, pc_done.
    destruct (tpc t) as [|[|[|[|n]]]] eqn:Ep;
      cbn [Nat.eqb tcall target tpc at_pc snd]; rewrite ?Ec, ?Ep; cbn [target Nat.leb b2z]; lia.
  - destruct (promise_of ths p); [|cbn [snd]; rewrite Ec; cbn [target]; destruct (2 <=? tpc t)%nat; cbn; lia].
    unfold resolve_act, pc_done.
    destruct (tpc t) as [|[|[|[|n]]]] eqn:Ep;
      cbn [Nat.eqb tcall target tpc at_pc snd]; rewrite ?Ec, ?Ep; cbn [target Nat.leb b2z]; lia.
Qed.

Lemma samples_counted : forall sched m,
  Z.of_nat (length (sample_log m sched)) =
  countb has_sampled (snd (crun m sched)) - countb has_sampled (snd m).
Proof.
  induction sched as [|tid sched IH]; intros m; [cbn; lia|].
  cbn [crun fold_left sample_log]. change (fold_left cstep sched (cstep m tid)) with (crun (cstep m tid) sched).
  rewrite app_length, Nat2Z.inj_add, IH, cstep_sampled.
  destruct (sampling m tid); cbn [length]; lia.
Qed.

Lemma start_none_sampled : forall c t0 calls, countb has_sampled (snd (start c t0 calls)) = 0.
Proof.
  intros c t0 calls. unfold start, countb. cbn [snd].
  induction calls as [|x calls IH]; [reflexivity|].
  cbn [map filter]. unfold has_sampled at 1. cbn [fresh tcall tpc].
  destruct (target x); cbn [Nat.leb]; exact IH.
Qed.

Lemma one_sample_per_resolution_core : forall c t0 calls sched,
  let m := crun (start c t0 calls) sched in
  avgFlying (fst m) = fold_left next_avg (sample_log (start c t0 calls) sched) 0%Q /\
  Z.of_nat (length (sample_log (start c t0 calls) sched)) = countb has_sampled (snd m).
Proof.
  intros c t0 calls sched m. split.
  - unfold m. rewrite avg_is_fold_of_samples. reflexivity.
  - unfold m. rewrite samples_counted, start_none_sampled. lia.
Qed.
