(* C02 — Adaptive load shedder: sheds only when overloaded and over capacity.
   Statements only; proofs are in C02/Proofs.v and C02/ProofsConc.v.

   Vocabulary (C02/Model.v): a history is a list of operations
     OAllow now cpu1 cpu2 | OPass id now | OFail id
   ([now] = the clock reading, [cpu1]/[cpu2] = the CPU gauge as read by the overload
   checker / by overloadFactor, [id] = index of the Allow that returned the promise);
   [run (init c t0) ops] is the list of their results, [final (init c t0) ops] the
   state afterwards; [capacity s now] is the code's maxFlight() evaluated at [now]. *)
From Coq Require Import List ZArith QArith Bool.
From GZ Require Import Lib.RollingWindow Lib.RollingWindowSpec C02.Model C02.Conc C02.Proofs C02.ProofsHist C02.ProofsConc C02.ProofsConcHot C02.ProofsConcSat C02.ProofsConcAvg C02.Wrap C02.ProofsWrap C02.Check C02.ProofsRef C02.ProofsEpisode C02.World C02.ProofsWorld C02.ProofsWrapHist.
Import ListNotations.
Open Scope Z_scope.

(* 1. Allow returns ErrServiceOverloaded only if the CPU reading is at or above the
      threshold at that moment, or shedding was already in progress (an earlier Allow
      was shed) and an Allow less than coolOffDuration ago saw the CPU at or above the
      threshold; and, in either case, only if the in-flight count (and its moving
      average) exceed overloadFactorLowerBound (10%) of the capacity estimate.
      For every configuration, start time, history, clock reading and CPU readings. *)
Theorem shed_only_if_hot_and_loaded : forall c t0 pre now cpu1 cpu2,
  cenabled c = true ->
  snd (step (final (init c t0) pre) (OAllow now cpu1 cpu2)) = RShed ->
  (cthreshold c <= cpu1 \/
   ((exists k, nth_error (run (init c t0) pre) k = Some RShed) /\
    (exists j tj cj cj2, nth_error pre j = Some (OAllow tj cj cj2) /\
                         cthreshold c <= cj /\ now - tj < coolOffDuration))) /\
  (overloadFactorLowerBound * capacity (final (init c t0) pre) now
   < inject_Z (flying (final (init c t0) pre)))%Q /\
  (overloadFactorLowerBound * capacity (final (init c t0) pre) now
   < avgFlying (final (init c t0) pre))%Q.
Proof. exact shed_only_core. Qed.

(* 2. When the CPU is overloaded and both the in-flight count and its moving average
      exceed the full capacity estimate, Allow sheds.  The excluded corner
      cpuThreshold = cpuMax = CPU reading makes overloadFactor 0/0 = NaN in the Go
      code (see Pinned.v: there the statement is false); the source documents
      "cpuThreshold must be less than cpuMax". *)
Theorem shed_when_saturated : forall c t0 pre now cpu1 cpu2,
  cenabled c = true ->
  cthreshold c <= cpu1 ->
  ~ (cthreshold c = cpuMax /\ cpu2 = cpuMax) ->
  (capacity (final (init c t0) pre) now < inject_Z (flying (final (init c t0) pre)))%Q ->
  (capacity (final (init c t0) pre) now < avgFlying (final (init c t0) pre))%Q ->
  snd (step (final (init c t0) pre) (OAllow now cpu1 cpu2)) = RShed.
Proof. exact shed_when_saturated_core. Qed.

(* 3. In-flight conservation: after every history, flying = #granted - #resolutions;
      when every promise is resolved at most once, only handed-out promises are
      resolved, flying is the number of open promises and is never negative. *)
Theorem flying_conservation : forall c t0 ops,
  cenabled c = true ->
  flying (final (init c t0) ops) =
  count RAdmit (run (init c t0) ops) - count RDone (run (init c t0) ops).
Proof. intros c t0 ops H. rewrite (conservation_core ops (init c t0) H). reflexivity. Qed.

Theorem flying_conservation_wf : forall c t0 ops,
  cenabled c = true ->
  NoDup (resolved ops (run (init c t0) ops)) ->
  incl (resolved ops (run (init c t0) ops)) (granted 0 (run (init c t0) ops)) /\
  flying (final (init c t0) ops) =
    Z.of_nat (length (granted 0 (run (init c t0) ops))) -
    Z.of_nat (length (resolved ops (run (init c t0) ops))) /\
  0 <= flying (final (init c t0) ops).
Proof. exact conservation_wf_core. Qed.

(* 3'. The same for concurrent calls: threads are single calls made of the atomic
      actions listed in Conc.v; for every set of calls and every schedule, flying is
      the number of Allow threads that have returned a promise minus the number of
      Pass/Fail threads that have performed their decrement; with at most one
      resolver per promise it is never negative. *)
Theorem flying_conservation_interleaved : forall c t0 calls sched,
  flying (fst (crun (start c t0 calls) sched)) =
  countb is_granted (snd (crun (start c t0 calls) sched)) -
  countb has_decremented (snd (crun (start c t0 calls) sched)).
Proof. exact conc_conservation_core. Qed.

Theorem flying_nonneg_interleaved : forall c t0 calls sched,
  NoDup (targets calls) ->
  0 <= flying (fst (crun (start c t0 calls) sched)).
Proof. exact conc_nonneg_core. Qed.

(* 1'. Theorem 1 for concurrent calls: for every set of calls and every schedule, an
      Allow thread that returns ErrServiceOverloaded
      - read a CPU value at or above the threshold, or some Allow thread has (already)
        returned ErrServiceOverloaded and some Allow thread whose CPU reading was at or
        above the threshold has executed its overloadTime.Set with a clock reading [tj]
        less than coolOffDuration before this thread's clock reading; and
      - read an in-flight count [tfl] and an average [tavg] above 10% of the capacity
        computed from the maxPass / minRt it read ([reg_capacity]).
      Each value was the value of the shared state at the thread's own read action and
      may be stale at the time of the verdict. *)
Theorem shed_only_if_hot_and_loaded_interleaved : forall c t0 calls sched i t now cpu1 cpu2,
  nth_error (snd (crun (start c t0 calls) sched)) i = Some t ->
  tcall t = CAllow now cpu1 cpu2 -> tres t = Some RShed ->
  (cthreshold c <= cpu1 \/
   (shed_thread (snd (crun (start c t0 calls) sched)) /\
    exists tj, over_thread (cthreshold c) (snd (crun (start c t0 calls) sched)) tj /\
               now - tj < coolOffDuration)) /\
  (overloadFactorLowerBound * reg_capacity (window_scale c) t < inject_Z (tfl t))%Q /\
  (overloadFactorLowerBound * reg_capacity (window_scale c) t < tavg t)%Q.
Proof. exact conc_shed_only_core. Qed.

(* 2'. Theorem 2 for concurrent calls: for every set of calls and every schedule, an Allow
      thread that has returned, whose CPU reading was at or above the threshold (outside
      the NaN corner) and which read an in-flight count and an average above the full
      capacity computed from the maxPass / minRt it read, has returned
      ErrServiceOverloaded. *)
Theorem shed_when_saturated_interleaved : forall c t0 calls sched i t now cpu1 cpu2 r,
  nth_error (snd (crun (start c t0 calls) sched)) i = Some t ->
  tcall t = CAllow now cpu1 cpu2 -> tres t = Some r ->
  cthreshold c <= cpu1 ->
  ~ (cthreshold c = cpuMax /\ cpu2 = cpuMax) ->
  (reg_capacity (window_scale c) t < inject_Z (tfl t))%Q ->
  (reg_capacity (window_scale c) t < tavg t)%Q ->
  r = RShed.
Proof. exact conc_saturated_core. Qed.

(* 4'. Theorem 4 for concurrent calls: under every schedule, an Allow thread whose read
      of the in-flight count returned 0 (or less) is not shed.  ([tfl] is only written
      by highThru's load of flying; a thread that never got there is not shed either.) *)
Theorem idle_never_sheds_interleaved : forall c t0 calls sched i t now cpu1 cpu2,
  nth_error (snd (crun (start c t0 calls) sched)) i = Some t ->
  tcall t = CAllow now cpu1 cpu2 -> tfl t <= 0 -> tres t <> Some RShed.
Proof. exact conc_idle_core. Qed.

(* 4. With nothing in flight no request is shed (capacity >= 1). *)
Theorem idle_never_sheds : forall c t0 pre now cpu1 cpu2,
  cenabled c = true ->
  flying (final (init c t0) pre) <= 0 ->
  snd (step (final (init c t0) pre) (OAllow now cpu1 cpu2)) = RAdmit.
Proof. exact idle_core. Qed.

(* 5. A disabled shedder (load.Disable(): NewAdaptiveShedder and therefore every
      ShedderGroup member is a nopShedder) never sheds. *)
Theorem disabled_never_sheds : forall c t0 ops,
  cenabled c = false ->
  Forall (fun r => r <> RShed) (run (init c t0) ops).
Proof. intros c t0 ops H. apply disabled_core. exact H. Qed.

(* 6. The capacity estimate: with [h] the completed passes (completion time, latency
      ms) of the history, at non-decreasing times not after [now],
        capacity = max(1, maxPass * minRt * windowScale)
      where maxPass / minRt are folded over exactly the buckets named by the shared
      window theorem (Lib/RollingWindowProofs.reduce_visits_last_size_intervals): one
      bucket per interval index from idx(now)-buckets+1 up to idx(now)-1 (or the index
      of the last pass if that is earlier), the current interval excluded. *)
Theorem capacity_def : forall c t0 ops now,
  cenabled c = true -> 1 <= cbuckets c -> 0 < bucket_duration c ->
  rw_mono t0 (passes (init c t0) ops) ->
  rw_last_time t0 (passes (init c t0) ops) <= now ->
  capacity (final (init c t0) ops) now =
  at_least
    (inject_Z (max_pass_of (rw_reduce_spec (Z.to_nat (cbuckets c)) (bucket_duration c) t0 true
                                           (pass_marks (passes (init c t0) ops)) now)) *
     inject_Z (min_rt_of (rw_reduce_spec (Z.to_nat (cbuckets c)) (bucket_duration c) t0 true
                                         (passes (init c t0) ops) now)) *
     window_scale c)%Q 1%Q.
Proof. exact capacity_def_core. Qed.

(*    maxPass is the peak per-bucket pass count (at least 1) ... *)
Theorem capacity_peak : forall bs,
  1 <= max_pass_of bs /\ Forall (fun b => bsum b <= max_pass_of bs) bs /\
  (max_pass_of bs = 1 \/ Exists (fun b => bsum b = max_pass_of bs) bs).
Proof. exact max_pass_of_char. Qed.

Theorem capacity_peak_counts : forall t0 iv h i,
  bsum (rw_vals_at t0 iv (pass_marks h) i) = Z.of_nat (length (rw_vals_at t0 iv h i)).
Proof. exact marks_bucket. Qed.

(*    ... and minRt the minimum over non-empty buckets of the rounded average latency
      (at most defaultMinRt). *)
Theorem capacity_min_latency : forall bs,
  min_rt_of bs <= defaultMinRt /\
  Forall (fun b => b <> [] -> min_rt_of bs <= bavg b) bs /\
  (min_rt_of bs = defaultMinRt \/ Exists (fun b => b <> [] /\ bavg b = min_rt_of bs) bs).
Proof. exact min_rt_of_char. Qed.

Theorem capacity_at_least_one : forall s now, (1 <= capacity s now)%Q.
Proof. exact max_flight_ge_1. Qed.

(* ------------------------------------------------------------------ *)
(* 7. The callers named in the anchors (C02/Wrap.v): rest SheddingHandler and zrpc
      UnarySheddingInterceptor.  "Each let-in request counts as in flight from Allow until
      its promise is resolved once":
      for every verdict of Allow and everything the wrapped handler can do (write no code,
      several codes, a body, panic; return any error), a let-in request runs the handler
      once and resolves its promise exactly once; a shed request resolves nothing. *)
Theorem wrapper_resolves_exactly_once : forall v,
  (forall o,
     (v = VGrant -> wr_runs (rest_wrap v o) = 1 /\ wr_pass (rest_wrap v o) + wr_fail (rest_wrap v o) = 1) /\
     (v = VShed -> wr_pass (rest_wrap v o) + wr_fail (rest_wrap v o) = 0)) /\
  (forall o,
     (v = VGrant -> wr_runs (rpc_wrap v o) = 1 /\ wr_pass (rpc_wrap v o) + wr_fail (rpc_wrap v o) = 1) /\
     (v = VShed -> wr_pass (rpc_wrap v o) + wr_fail (rpc_wrap v o) = 0)).
Proof. intros v. split; intros o; [apply rest_once|apply rpc_once]. Qed.

(*    A shed request does not run the handler and gets the overload answer
      (503 / codes.ResourceExhausted). *)
Theorem shed_request_not_run :
  (forall o, wr_runs (rest_wrap VShed o) = 0 /\ wr_visible (rest_wrap VShed o) = VisStatus overloadStatus /\
             wr_panics (rest_wrap VShed o) = false) /\
  (forall o, wr_runs (rpc_wrap VShed o) = 0 /\ wr_visible (rpc_wrap VShed o) = VisExhausted /\
             wr_panics (rpc_wrap VShed o) = false).
Proof. split; [exact rest_shed|exact rpc_shed]. Qed.

(*    Fail exactly for the overload-class outcomes (last status written = 503;
      errors.Is(err, context.DeadlineExceeded)), Pass otherwise; the zRPC handler's
      result is returned unchanged. *)
Theorem wrapper_fail_iff_overload_outcome :
  (forall o, wr_fail (rest_wrap VGrant o) = 1 <-> last_code (ro_codes o) = overloadStatus) /\
  (forall o, wr_fail (rpc_wrap VGrant o) = 1 <-> (o = GDeadline \/ o = GWrappedDeadline)) /\
  (forall o, wr_visible (rpc_wrap VGrant o) = VisRpc o).
Proof. split; [exact rest_fail_iff|split; [exact rpc_fail_iff|exact rpc_transparent]]. Qed.

(*    Against the shedder model: any sequence of wrapped requests (arrival time, CPU
      readings, completion time, resolution chosen by the wrapper) leaves nothing in flight. *)
Theorem wrapped_requests_leave_nothing_in_flight : forall c t0 qs,
  cenabled c = true -> Forall (fun q => q_res q <> ResNone) qs ->
  flying (serve_all (init c t0) qs) = 0.
Proof. intros c t0 qs H Hq. rewrite (serve_all_flying qs (init c t0) H Hq). reflexivity. Qed.

(* 8. ShedderGroup: two GetShedder calls return the same shedder iff their keys are equal
      (instances named by the index of the first call with that key). *)
Theorem group_one_shedder_per_key : forall keys k1 k2, In k1 keys -> In k2 keys ->
  (first_index k1 keys 0 = first_index k2 keys 0 <-> k1 = k2).
Proof. exact group_same_iff. Qed.

(* ------------------------------------------------------------------ *)
(* 9. History level, with nothing in the hypotheses but the history itself.

      The moving average the shedder keeps is the exponential moving average (beta = flyingBeta) of
      the in-flight count sampled at EVERY resolution - Pass and Fail alike - and the in-flight count
      is admissions minus resolutions: both are functions of the list of results ([hist_avg]). *)
Theorem avg_flying_is_moving_average : forall c t0 ops,
  cenabled c = true ->
  (flying (final (init c t0) ops), avgFlying (final (init c t0) ops)) = hist_avg 0 0%Q (run (init c t0) ops).
Proof. exact hist_avg_init. Qed.

(*    "When the CPU is overloaded and both the in-flight count and its moving average exceed the full
      capacity estimate, Allow does shed" - for the k-th operation of EVERY history: in flight =
      promises handed out before it minus promises resolved before it (each at most once), average =
      [hist_avg] of the earlier results, capacity = the estimate of capacity_def at that moment. *)
Theorem shed_when_saturated_in_history : forall c t0 ops k now cpu1 cpu2,
  cenabled c = true ->
  nth_error ops k = Some (OAllow now cpu1 cpu2) ->
  let pre := firstn k ops in
  let rs := run (init c t0) pre in
  NoDup (resolved pre rs) ->
  cthreshold c <= cpu1 ->
  ~ (cthreshold c = cpuMax /\ cpu2 = cpuMax) ->
  (capacity (final (init c t0) pre) now
   < inject_Z (Z.of_nat (length (granted 0 rs)) - Z.of_nat (length (resolved pre rs))))%Q ->
  (capacity (final (init c t0) pre) now < snd (hist_avg 0 0%Q rs))%Q ->
  nth_error (run (init c t0) ops) k = Some RShed.
Proof. exact saturated_history_core. Qed.

(*    "Allow returns ErrServiceOverloaded only if ..." for the k-th operation of every history: the
      witnesses (an earlier shed, an earlier overloaded Allow less than coolOffDuration before) are
      operations with a smaller index; in flight and its average as above. *)
Theorem shed_only_if_hot_and_loaded_in_history : forall c t0 ops k now cpu1 cpu2,
  cenabled c = true ->
  nth_error ops k = Some (OAllow now cpu1 cpu2) ->
  nth_error (run (init c t0) ops) k = Some RShed ->
  let pre := firstn k ops in
  let rs := run (init c t0) pre in
  (cthreshold c <= cpu1 \/
   ((exists i, (i < k)%nat /\ nth_error (run (init c t0) ops) i = Some RShed) /\
    (exists j tj cj cj2, (j < k)%nat /\ nth_error ops j = Some (OAllow tj cj cj2) /\
                         cthreshold c <= cj /\ now - tj < coolOffDuration))) /\
  (overloadFactorLowerBound * capacity (final (init c t0) pre) now
   < inject_Z (count RAdmit rs - count RDone rs))%Q /\
  (overloadFactorLowerBound * capacity (final (init c t0) pre) now < snd (hist_avg 0 0%Q rs))%Q.
Proof. exact shed_only_history_core. Qed.

(*    "Each let-in request counts as in flight from Allow until its promise is resolved once", with the
      once-ness as a hypothesis on the callers alone ([res_ids]: the promises named by the Pass / Fail
      operations of the history; no result appears in the hypothesis): for every interleaving of the requests'
      operations, flying = promises handed out - promises resolved, only handed-out promises are resolved, and
      flying is never negative.  Without the hypothesis the conclusion is false
      (Pinned.double_resolution_breaks_conservation_refuted). *)
Theorem flying_counts_open_requests : forall c t0 ops,
  cenabled c = true -> NoDup (res_ids ops) ->
  let rs := run (init c t0) ops in
  flying (final (init c t0) ops) =
    Z.of_nat (length (granted 0 rs)) - Z.of_nat (length (resolved ops rs)) /\
  incl (resolved ops rs) (granted 0 rs) /\
  0 <= flying (final (init c t0) ops).
Proof. exact open_requests_core. Qed.

(*    Concurrent resolutions: for every set of concurrent calls and every schedule, the moving average is the fold
      of the samples of the Pass / Fail threads in the order in which they performed their sampling action (= got
      the spin lock) - [sample_log] -, each sample being the value the thread's own atomic decrement returned, and
      there is exactly one sample per resolution that is past that action: no completion is ever lost, however
      many other threads are on avgFlying in between (Pinned.try_lock_drops_samples_refuted is the TryLock
      variant).  Applied to the prefix of a schedule that ends where an Allow thread reads the average, this is the
      [tavg] of Props.shed_when_saturated_interleaved. *)
Theorem every_resolution_contributes_one_sample : forall c t0 calls sched,
  let m := crun (start c t0 calls) sched in
  avgFlying (fst m) = fold_left next_avg (sample_log (start c t0 calls) sched) 0%Q /\
  Z.of_nat (length (sample_log (start c t0 calls) sched)) = countb has_sampled (snd m).
Proof. exact one_sample_per_resolution_core. Qed.

(* 10. windowScale, as a formula in the configuration: (buckets per second) / (milliseconds per second)
      = 10^6 / bucket duration in ns, in exact rationals - for every bucket duration, whether or not it
      divides one second (Pinned.truncated_window_scale_sheds_below_ten_percent_refuted is the
      integer-division variant). *)
Theorem window_scale_is_buckets_per_second_over_1000 : forall c, 0 < bucket_duration c ->
  (window_scale c == inject_Z (nsPerSecond / millisecondsPerSecond) / inject_Z (bucket_duration c))%Q /\
  (window_scale c * inject_Z millisecondsPerSecond * inject_Z (bucket_duration c) == inject_Z nsPerSecond)%Q.
Proof. exact window_scale_formula. Qed.

(* 11. The reference computation Check.prop_ok judges the implementation with is the model's:
      from the bare list of completed passes (interval index of the completion time, latency in ms),
      newest first - no ring buffer -
        Check.ref_peak_min = (maxPass(), minRt())  and
        max(1, peak x minimum latency x 10^6 / bucket duration) = maxFlight()
      on every history with non-decreasing pass times. *)
Theorem reference_peak_and_latency_are_the_windows : forall c t0 ops now,
  cenabled c = true -> 1 <= cbuckets c -> 0 < bucket_duration c ->
  rw_mono t0 (passes (init c t0) ops) ->
  rw_last_time t0 (passes (init c t0) ops) <= now ->
  ref_peak_min c t0 now (ref_passes t0 (bucket_duration c) (passes (init c t0) ops)) =
  (max_pass (final (init c t0) ops) now, min_rt (final (init c t0) ops) now).
Proof. exact ref_peak_min_core. Qed.

Theorem reference_capacity_is_capacity : forall c t0 ops now,
  cenabled c = true -> 1 <= cbuckets c -> 0 < bucket_duration c ->
  rw_mono t0 (passes (init c t0) ops) ->
  rw_last_time t0 (passes (init c t0) ops) <= now ->
  (at_least (ref_raw c (ref_peak_min c t0 now (ref_passes t0 (bucket_duration c) (passes (init c t0) ops)))) 1
   == capacity (final (init c t0) ops) now)%Q.
Proof. exact ref_capacity_core. Qed.

(* ------------------------------------------------------------------ *)
(* 12. "... or was at an Allow within the preceding second WHILE SHEDDING WAS ALREADY IN PROGRESS", with the strong
      reading of "in progress" (round 4).  A shedding episode starts with a shed request and ends at the first Allow
      that reads a CPU below the threshold at least coolOffDuration after the last Allow that read it at or above.
      [episode th (0, false) ops results] computes, from the operations and their results ALONE,
        (clock reading of the last Allow whose CPU reading was at or above the threshold - 0 if none -, episode open).
      For every configuration and history this pair is exactly what the shedder keeps in overloadTime /
      droppedRecently ... *)
Theorem episode_is_the_cool_off_state : forall c t0 ops,
  cenabled c = true ->
  (overloadTime (final (init c t0) ops), droppedRecently (final (init c t0) ops)) =
  episode (cthreshold c) (0, false) ops (run (init c t0) ops).
Proof. exact episode_init. Qed.

(*    ... and the k-th operation of any history is shed only if its own CPU reading is at or above the threshold, or an
      episode is open after the first k operations and the last overloaded Allow is less than coolOffDuration old.
      A CPU spike that sheds nothing does not open an episode; an episode closed by a cool Allow stays closed until the
      next shed (Pinned.fast_path_keeps_episode_open_refuted: the variant that skips the bookkeeping when idle;
      Pinned.mark_dropped_extends_cool_off_refuted: the variant whose sheds extend the cool-off). *)
Theorem shed_only_if_episode_in_progress : forall c t0 ops k now cpu1 cpu2,
  cenabled c = true ->
  nth_error ops k = Some (OAllow now cpu1 cpu2) ->
  nth_error (run (init c t0) ops) k = Some RShed ->
  let e := episode (cthreshold c) (0, false) (firstn k ops) (firstn k (run (init c t0) ops)) in
  cthreshold c <= cpu1 \/ (snd e = true /\ fst e <> 0 /\ now - fst e < coolOffDuration).
Proof. exact shed_only_episode_core. Qed.

(*    Check.prop_ok judges observed histories with [hot_ref] of the [episode] of the observed verdicts: that clause is
      the statement above, and the model's own run of any history meets it. *)
Theorem judge_hot_clause_is_the_episode_statement :
  (forall th e now c1, hot_ref th e now c1 = true <->
     (th <= c1 \/ (snd e = true /\ fst e <> 0 /\ now - fst e < coolOffDuration))) /\
  (forall c t0 ops k now cpu1 cpu2,
     cenabled c = true -> nth_error ops k = Some (OAllow now cpu1 cpu2) ->
     nth_error (run (init c t0) ops) k = Some RShed ->
     hot_ref (cthreshold c)
             (episode (cthreshold c) (0, false) (firstn k ops) (firstn k (run (init c t0) ops))) now cpu1 = true).
Proof. split; [exact hot_ref_spec|exact shed_only_hot_ref_core]. Qed.

(*    The hot half is an equivalence: after any history, systemOverloaded() || stillHot() answers true exactly when the
      CPU reading is at or above the threshold or an episode is open and not yet cooled off. *)
Theorem hot_iff_overloaded_or_episode_open : forall c t0 pre now cpu1,
  cenabled c = true ->
  let e := episode (cthreshold c) (0, false) pre (run (init c t0) pre) in
  snd (hot_check (final (init c t0) pre) now cpu1) = true <->
  (cthreshold c <= cpu1 \/ (snd e = true /\ fst e <> 0 /\ now - fst e < coolOffDuration)).
Proof. exact episode_open_means_hot. Qed.

(* ------------------------------------------------------------------ *)
(* 13. The ORDER of the configuration calls (C02/World.v; round 4).  A history of the process is any list of
        XDisable | XNew opts t0 | XGroup opts | XGet g key t0 | XOp k op
      (load.Disable(), NewAdaptiveShedder, NewShedderGroup, group.GetShedder(key), Allow / Pass / Fail on shedder k).
      Whatever the order,
      (a) every shedder lives the single-shedder history of its own operations, started from the initial state of its
          birth certificate (options, clock, value of load.enabled when it was built): nothing is shared between
          shedders, and every theorem above applies to each of them; *)
Theorem every_shedder_lives_its_own_history : forall evs k o t0 en,
  nth_error (wcerts (wfinal w0 evs)) k = Some (o, t0, en) ->
  nth_error (wshedders (wfinal w0 evs)) k =
    Some (final (init (cfg_of o en) t0) (proj k evs (wrun w0 evs))) /\
  projr k evs (wrun w0 evs) = run (init (cfg_of o en) t0) (proj k evs (wrun w0 evs)).
Proof. exact world_projection_core. Qed.

(*    (b) the shedder built by the p-th event has the options of that call - for GetShedder: the options its group was
          given, whenever that was - and is enabled iff no Disable() stands before p: for a group member what counts is
          the moment of the first GetShedder of its key, NOT the moment of NewShedderGroup
          (Pinned.group_decides_at_construction_sheds_after_disable_refuted is the variant that decides early); *)
Theorem birth_certificate : forall evs p k,
  nth_error (wrun w0 evs) p = Some (YMade k) ->
  exists o t0, nth_error (wcerts (wfinal w0 evs)) k =
                 Some (o, t0, negb (existsb is_disable (firstn p evs))) /\
               made_by evs p o t0.
Proof. exact birth_certificate_core. Qed.

(*    (c) "a disabled shedder never sheds", over histories that contain the Disable event at ANY position: a shedder
          built (event p) after a Disable() (event i < p) never sheds, whatever stands before, between and after; *)
Theorem disabled_never_sheds_wherever_disable_stands : forall evs i p k m o,
  nth_error evs i = Some XDisable -> (i < p)%nat ->
  nth_error (wrun w0 evs) p = Some (YMade k) ->
  nth_error evs m = Some (XOp k o) ->
  nth_error (wrun w0 evs) m <> Some (YRes RShed).
Proof. exact disabled_world_core. Qed.

(*    (d) one built while no Disable() has happened is a live adaptive shedder (its history is an ENABLED single-shedder
          history: it does shed when saturated), even if Disable() is called later, in the middle of its traffic; *)
Theorem built_before_disable_stays_live : forall evs p k,
  nth_error (wrun w0 evs) p = Some (YMade k) ->
  existsb is_disable (firstn p evs) = false ->
  exists o t0, made_by evs p o t0 /\
    projr k evs (wrun w0 evs) = run (init (cfg_of o true) t0) (proj k evs (wrun w0 evs)).
Proof. exact enabled_world_core. Qed.

(*    (e) the certificates depend on the configuration calls alone (Check.world_ok computes them from the configuration
          calls of an executed scenario and compares them with what each observed history is judged with). *)
Theorem certificates_ignore_traffic : forall evs,
  wcerts (wfinal w0 evs) = wcerts (wfinal w0 (filter is_config evs)).
Proof. exact certs_ignore_traffic. Qed.

(* ------------------------------------------------------------------ *)
(* 14. The wrappers over REQUEST HISTORIES with overlapping requests (C02/ProofsWrapHist.v; round 4).  A history is any
      list of  HStart now cpu1 cpu2 o  (a request arrives; its handler, if it runs, is going to do [o]: status codes /
      error / panic) and  HEnd r now  (the handler of the request started by event r ends), in any order.  [hrun] is what
      SheddingHandler / UnarySheddingInterceptor make of it.  For EVERY such history:
      - the Allow / Pass / Fail history handed to the shedder names every promise at most once - the hypothesis of
        flying_counts_open_requests is met by construction;
      - the shedder's in-flight count is the number of let-in requests whose handler has not ended;
      - a let-in request whose handler is still running has not been resolved; one whose handler has ended - normally or by
        a panic - has been resolved, by exactly one operation: [resolve_op], which is Fail for the overload class (REST: last
        status written = 503; zRPC: errors.Is(err, context.DeadlineExceeded)) and Pass for every other outcome. *)
Theorem overlapping_wrapped_requests : forall c t0 evs s st ops, cenabled c = true ->
  hrun (init c t0) [] evs = (s, st, ops) ->
  s = final (init c t0) ops /\ NoDup (res_ids ops) /\
  flying s = Z.of_nat (count_open st) /\
  (forall r id o, nth_error st r = Some (ROpen id o) -> ~ In id (res_ids ops)) /\
  (forall r id o, nth_error st r = Some (RClosed id o) ->
     In id (res_ids ops) /\ exists now, In (resolve_op o id now) ops).
Proof. exact wrapped_histories_core. Qed.

Theorem wrapper_resolution_class : forall o id now,
  (wout_overload_class o = true -> resolve_op o id now = OFail id) /\
  (wout_overload_class o = false -> resolve_op o id now = OPass id now).
Proof. exact resolve_op_class. Qed.

Theorem all_handlers_ended_nothing_in_flight : forall c t0 evs s st ops, cenabled c = true ->
  hrun (init c t0) [] evs = (s, st, ops) -> count_open st = 0%nat -> flying s = 0.
Proof. exact all_ended_nothing_in_flight. Qed.

Print Assumptions shed_only_if_hot_and_loaded.
Print Assumptions shed_when_saturated.
Print Assumptions flying_conservation_wf.
Print Assumptions flying_nonneg_interleaved.
Print Assumptions capacity_def.
Print Assumptions shed_only_if_hot_and_loaded_interleaved.
Print Assumptions shed_when_saturated_interleaved.
Print Assumptions idle_never_sheds_interleaved.
Print Assumptions wrapper_resolves_exactly_once.
Print Assumptions wrapped_requests_leave_nothing_in_flight.
Print Assumptions avg_flying_is_moving_average.
Print Assumptions shed_when_saturated_in_history.
Print Assumptions shed_only_if_hot_and_loaded_in_history.
Print Assumptions flying_counts_open_requests.
Print Assumptions every_resolution_contributes_one_sample.
Print Assumptions window_scale_is_buckets_per_second_over_1000.
Print Assumptions reference_peak_and_latency_are_the_windows.
Print Assumptions reference_capacity_is_capacity.
Print Assumptions episode_is_the_cool_off_state.
Print Assumptions shed_only_if_episode_in_progress.
Print Assumptions judge_hot_clause_is_the_episode_statement.
Print Assumptions hot_iff_overloaded_or_episode_open.
Print Assumptions every_shedder_lives_its_own_history.
Print Assumptions birth_certificate.
Print Assumptions disabled_never_sheds_wherever_disable_stands.
Print Assumptions built_before_disable_stays_live.
Print Assumptions certificates_ignore_traffic.
Print Assumptions overlapping_wrapped_requests.
Print Assumptions all_handlers_ended_nothing_in_flight.

(* ------------------------------------------------------------------ *)
(* The hypotheses are satisfiable by concrete, non-trivial histories.    *)

Definition B : Z := 1000000000000.
Definition ms : Z := 1000000.
Definition cfg1 : config := default_config.   (* 5 s window, 50 buckets, threshold 900 *)

(* 20 requests granted at B, 10 of them pass after 5 ms; 150 ms later the CPU is at 950 *)
Definition hist1 : list op :=
  repeat (OAllow B 0 0) 20 ++ map (fun i => OPass i (B + 5 * ms)) [0;1;2;3;4;5;6;7;8;9].

Example ex_state : let s := final (init cfg1 B) hist1 in
  flying s = 10 /\ max_pass s (B + 150 * ms) = 10 /\ min_rt s (B + 150 * ms) = 5 /\
  Qeq (capacity s (B + 150 * ms)) 1.
Proof. vm_compute. repeat split; reflexivity. Qed.

(* shed because overloaded and saturated (hypotheses of theorem 2 hold, so does its conclusion) *)
Example ex_saturated : let s := final (init cfg1 B) hist1 in
  cthreshold cfg1 <= 950 /\
  (capacity s (B + 150 * ms) < inject_Z (flying s))%Q /\
  (capacity s (B + 150 * ms) < avgFlying s)%Q /\
  snd (step s (OAllow (B + 150 * ms) 950 950)) = RShed.
Proof. vm_compute. repeat split; try reflexivity; discriminate. Qed.

(* shed while cooling off: CPU back to 0 half a second later, still shed (right disjunct of theorem 1);
   after the full second it is granted *)
Example ex_cooling_off :
  run (init cfg1 B) (hist1 ++ [OAllow (B + 150 * ms) 950 950; OAllow (B + 650 * ms) 0 0;
                               OAllow (B + 1149 * ms) 0 0; OAllow (B + 1150 * ms) 0 0])
  = repeat RAdmit 20 ++ repeat RDone 10 ++ [RShed; RShed; RShed; RAdmit].
Proof. vm_compute. reflexivity. Qed.

(* overloaded but not loaded: granted (the lower-bound conjunct matters) *)
Example ex_overloaded_idle :
  run (init cfg1 B) [OAllow B 1000 1000; OFail 0; OAllow (B + 1) 1000 1000]
  = [RAdmit; RDone; RAdmit].
Proof. vm_compute. reflexivity. Qed.

(* well-formedness of theorem 3 is met by hist1, and flying counts the open promises *)
Example ex_wf : NoDup (resolved hist1 (run (init cfg1 B) hist1)) /\
  length (granted 0 (run (init cfg1 B) hist1)) = 20%nat /\
  length (resolved hist1 (run (init cfg1 B) hist1)) = 10%nat.
Proof.
  vm_compute. split; [|split; reflexivity].
  repeat (constructor; [cbn; intuition discriminate|]). constructor.
Qed.

(* capacity_def's hypotheses hold for hist1 *)
Example ex_capacity_hyps :
  1 <= cbuckets cfg1 /\ 0 < bucket_duration cfg1 /\
  rw_monob B (passes (init cfg1 B) hist1) = true /\
  rw_last_time B (passes (init cfg1 B) hist1) <= B + 150 * ms.
Proof. vm_compute. repeat split; try reflexivity; discriminate. Qed.

(* the interleaving semantics, run one call after the other, is the sequential model:
   two Allows, a Pass and a Fail *)
Example ex_conc_sequential :
  let calls := [CAllow B 0 0; CAllow B 0 0; CPass 0 (B + 5 * ms); CFail 1; CAllow (B + 150 * ms) 950 950] in
  let sched := (repeat 0 10 ++ repeat 1 10 ++ repeat 2 10 ++ repeat 3 10 ++ repeat 4 10)%nat in
  let m := crun (start cfg1 B calls) sched in
  let s := final (init cfg1 B) [OAllow B 0 0; OAllow B 0 0; OPass 0 (B + 5 * ms); OFail 1;
                                OAllow (B + 150 * ms) 950 950] in
  flying (fst m) = flying s /\ Qeq (avgFlying (fst m)) (avgFlying s) /\
  passCounter (fst m) = passCounter s /\ rtCounter (fst m) = rtCounter s /\
  map tres (snd m) = [Some RAdmit; Some RAdmit; Some RDone; Some RDone; Some RAdmit].
Proof. vm_compute. repeat split; reflexivity. Qed.

(* an interleaving in which a stale read matters: both Allows read flying = 0 before
   either increments; both are granted; conservation holds all the same *)
Example ex_conc_interleaved :
  let calls := [CAllow B 1000 1000; CAllow B 1000 1000; CFail 0; CFail 1] in
  let sched := [0;1;0;1;0;1;0;1;0;1;0;1;2;3;3;2;2;3]%nat in
  let m := crun (start cfg1 B calls) sched in
  flying (fst m) = 0 /\ map tres (snd m) = [Some RAdmit; Some RAdmit; Some RDone; Some RDone].
Proof. vm_compute. split; reflexivity. Qed.

(* a concurrent Allow that is shed (hypotheses of theorem 1' are met) *)
Example ex_conc_shed :
  let calls := map (fun _ => CAllow B 0 0) (seq 0 12) ++ map (fun i => CFail i) (seq 0 6)
               ++ [CAllow (B + 1) 1000 1000] in
  let sched := (concat (map (fun i => repeat i 10) (seq 0 12)) ++ concat (map (fun i => repeat i 3) (seq 12 6))
                ++ repeat 18 10)%nat in
  let m := crun (start cfg1 B calls) sched in
  option_map tres (nth_error (snd m) 18) = Some (Some RShed) /\ flying (fst m) = 6.
Proof. vm_compute. split; reflexivity. Qed.

(* a concurrent Allow meeting the hypotheses of theorem 2': 12 requests let in, 6 passed
   after 5 ms; 150 ms later the CPU reads 950 *)
Example ex_conc_saturated :
  let calls := map (fun _ => CAllow B 0 0) (seq 0 12) ++ map (fun i => CPass i (B + 5 * ms)) (seq 0 6)
               ++ [CAllow (B + 150 * ms) 950 950] in
  let sched := (concat (map (fun i => repeat i 10) (seq 0 12)) ++ concat (map (fun i => repeat i 4) (seq 12 6))
                ++ repeat 18 10)%nat in
  let m := crun (start cfg1 B calls) sched in
  match nth_error (snd m) 18 with
  | Some t => cthreshold cfg1 <= 950 /\
              (reg_capacity (window_scale cfg1) t < inject_Z (tfl t))%Q /\
              (reg_capacity (window_scale cfg1) t < tavg t)%Q /\
              tres t = Some RShed /\ tfl t = 6 /\ tmp t = 6 /\ trt t = 5
  | None => False
  end.
Proof. vm_compute. repeat split; try reflexivity; discriminate. Qed.

(* wrappers: a handler that writes 500 then 503 and panics is resolved once, with Fail, and the
   panic propagates; one that writes nothing is resolved with Pass *)
Example ex_wrap_rest :
  rest_wrap VGrant (mkRO [500; 503] true) = mkWR 1 0 1 (VisStatus 500) true /\
  rest_wrap VGrant (mkRO [] false) = mkWR 1 1 0 (VisStatus 200) false /\
  rpc_wrap VGrant GPanic = mkWR 1 1 0 (VisRpc GPanic) true /\
  rpc_wrap VGrant GWrappedDeadline = mkWR 1 0 1 (VisRpc GWrappedDeadline) false.
Proof. repeat split. Qed.

(* wrapped requests against the shedder: 3 requests, the third one is shed while the first two... *)
Example ex_serve :
  let qs := [mkReq B 0 0 (B + 5 * ms) ResPass; mkReq (B + 1) 950 950 (B + 9 * ms) ResFail;
             mkReq (B + 2) 0 0 (B + 7 * ms) ResPass] in
  flying (serve_all (init cfg1 B) qs) = 0 /\ nextId (serve_all (init cfg1 B) qs) = 6.
Proof. vm_compute. split; reflexivity. Qed.

(* the history-level theorems' hypotheses hold for hist1 followed by an overloaded Allow (index 30) *)
Example ex_history_saturated :
  let ops := hist1 ++ [OAllow (B + 150 * ms) 950 950] in
  let pre := firstn 30 ops in
  let rs := run (init cfg1 B) pre in
  nth_error ops 30 = Some (OAllow (B + 150 * ms) 950 950) /\
  length (granted 0 rs) = 20%nat /\ length (resolved pre rs) = 10%nat /\
  fst (hist_avg 0 0%Q rs) = 10 /\
  (capacity (final (init cfg1 B) pre) (B + 150 * ms) < snd (hist_avg 0 0%Q rs))%Q /\
  nth_error (run (init cfg1 B) ops) 30 = Some RShed.
Proof. vm_compute. repeat split; reflexivity. Qed.

(* the reference computation on hist1: 10 passes of 5 ms in interval 0, read in interval 1 *)
Example ex_reference :
  ref_passes B (bucket_duration cfg1) (passes (init cfg1 B) hist1) = repeat (0, 5) 10 /\
  ref_peak_min cfg1 B (B + 150 * ms) (repeat (0, 5) 10) = (10, 5) /\
  Qeq (ref_scale cfg1) (1 # 100).
Proof. vm_compute. repeat split; reflexivity. Qed.

(* a bucket duration that does not divide one second: 600 ms -> windowScale = 1/600 *)
Example ex_scale_600ms : Qeq (window_scale (mkCfg 3000000000 5 900 true)) (1 # 600).
Proof. vm_compute. reflexivity. Qed.

(* overlapping requests: three let in, the second finishes first (Fail), then the first (Pass): each named once *)
Example ex_open_requests :
  let ops := [OAllow B 0 0; OAllow B 0 0; OAllow (B + 1) 0 0; OFail 1; OPass 0 (B + 5 * ms)] in
  NoDup (res_ids ops) /\ flying (final (init cfg1 B) ops) = 1.
Proof. split; [|reflexivity]. repeat (constructor; [cbn; intuition discriminate|]). constructor. Qed.

(* three resolutions sampling in the order 2, 0, 1 (thread 5 gets the lock first): the log shows that order *)
Example ex_sample_order :
  let calls := [CAllow B 0 0; CAllow B 0 0; CAllow B 0 0; CFail 0; CFail 1; CFail 2] in
  let sched := (repeat 0 10 ++ repeat 1 10 ++ repeat 2 10 ++ [3; 4; 5; 5; 3; 4])%nat in
  sample_log (start cfg1 B calls) sched = [0; 2; 1] /\
  countb has_sampled (snd (crun (start cfg1 B calls) sched)) = 3.
Proof. vm_compute. split; reflexivity. Qed.

(* an episode that opens, is closed by a cool Allow after the cool-off, and is not re-opened by a spike that sheds
   nothing: hist1, a shed at +150 ms, the in-flight requests failed, a cool Allow 1.2 s later (closes the episode; the
   request fails), a spike at +3 s with nothing in flight (let in), a cool Allow 0.5 s after the spike (let in) *)
Example ex_episode :
  let ops := hist1 ++ [OAllow (B + 150 * ms) 950 950] ++ map (fun i => OFail i) [10;11;12;13;14;15;16;17;18;19]
             ++ [OAllow (B + 1350 * ms) 0 0; OFail 41; OAllow (B + 3000 * ms) 1000 1000; OAllow (B + 3500 * ms) 0 0] in
  let rs := run (init cfg1 B) ops in
  episode 900 (0, false) (firstn 31 ops) (firstn 31 rs) = (B + 150 * ms, true) /\
  episode 900 (0, false) (firstn 42 ops) (firstn 42 rs) = (B + 150 * ms, false) /\
  episode 900 (0, false) ops rs = (B + 3000 * ms, false) /\
  nth_error rs 30 = Some RShed /\ nth_error rs 43 = Some RAdmit /\ nth_error rs 44 = Some RAdmit.
Proof. vm_compute. repeat split; reflexivity. Qed.

(* the order of the configuration calls: a group, a member, Disable(), a second member of the same group, a directly built
   shedder: shedder 0 is live (certificate true), 1 and 2 are not; asking for key 7 again gives shedder 0 *)
Example ex_world :
  let g := mkOpts 2000000000 4 500 in
  let evs := [XGroup g; XGet 0 7 B; XDisable; XGet 0 8 B; XNew (mkOpts 1000000000 10 900) B; XGet 0 7 (B + 5)] in
  wrun w0 evs = [YNone; YMade 0; YNone; YMade 1; YMade 2; YSame 0] /\
  wcerts (wfinal w0 evs) = [(g, B, true); (g, B, false); (mkOpts 1000000000 10 900, B, false)].
Proof. vm_compute. split; reflexivity. Qed.

(* ... the live member, saturated, sheds; the one built after Disable() does not, under the same traffic *)
Example ex_world_traffic :
  let g := mkOpts 2000000000 4 500 in
  let burst k := repeat (XOp k (OAllow (B + 1) 1000 1000)) 20 ++ map (fun i => XOp k (OFail (Z.of_nat i))) (seq 0 10)
                 ++ [XOp k (OAllow (B + 2) 1000 1000)] in
  let evs := [XGroup g; XGet 0 7 B; XDisable; XGet 0 8 B] ++ burst 0%nat ++ burst 1%nat in
  nth_error (wrun w0 evs) 34 = Some (YRes RShed) /\ nth_error (wrun w0 evs) 65 = Some (YRes RAdmit).
Proof. vm_compute. split; reflexivity. Qed.

(* three overlapping wrapped requests: a REST handler that writes 500 then 503 and panics, a zRPC handler that times out,
   a REST handler that writes nothing; they end in the order 2, 0, then a stray HEnd for 2 again (nothing happens);
   request 1 is still running: one in flight, promises 0 and 2 resolved once each (Fail, Pass) *)
Example ex_wrapped_history :
  let evs := [HStart B 0 0 (WoRest (mkRO [500; 503] true)); HStart B 0 0 (WoRpc GDeadline);
              HStart (B + 1) 0 0 (WoRest (mkRO [] false)); HEnd 2 (B + 5 * ms); HEnd 0 (B + 6 * ms); HEnd 2 (B + 7 * ms)] in
  let '(s, st, ops) := hrun (init cfg1 B) [] evs in
  ops = [OAllow B 0 0; OAllow B 0 0; OAllow (B + 1) 0 0; OPass 2 (B + 5 * ms); OFail 0] /\
  count_open st = 1%nat /\ flying s = 1.
Proof. vm_compute. repeat split; reflexivity. Qed.
