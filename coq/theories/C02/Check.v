(* C02 — correspondence / property evaluation on histories observed on the
   implementation.  Executable only. *)
From Coq Require Import List ZArith QArith Qabs Bool.
From GZ Require Export Lib.CheckLib Lib.RollingWindow C02.Model C02.Wrap C02.Conc C02.World.
Import ListNotations.
Open Scope Z_scope.

(* what the executor observed for one operation *)
Inductive oobs :=
| OA (shed : bool) (fl mp rt am ae cm ce : Z)
    (* Allow: verdict; flying after; maxPass() and minRt() just before;
       avgFlying after = am * 2^ae; maxFlight() just before = cm * 2^ce *)
| OR (done : bool) (fl am ae : Z)
    (* Pass / Fail: a promise existed; flying after; avgFlying after *)
| OSkip
| ORD (done : bool) (fl am ae : Z)
    (* Pass / Fail started while another goroutine holds avgFlyingLock: past its decrement (flying after),
       its sample for the moving average still to come *)
| OFold
    (* the lock is given back: the waiting resolutions fold their samples in, in SOME order *)
| OMark.
    (* forced schedules: a call that was parked at the drop log line performs droppedRecently.Set(true) and returns *)
    (* a place-holder that keeps the operation indices aligned (forced-schedule cases: the
       operations that start an Allow or let a dropper return are not Allow / Pass / Fail events) *)

Record scase := mkCase
  { ccfg : config; ct0 : Z;
    csame : bool;   (* ShedderGroup.GetShedder returned the same shedder twice (true when not via a group) *)
    cnop : bool;    (* the constructor returned a nopShedder *)
    cwb : bool;     (* white-box run: maxPass / minRt / maxFlight / windowScale were observed
                       (false for the runs through the REST / zRPC wrappers) *)
    cws : Z * Z;    (* the constructor's windowScale = fst * 2^snd *)
    cops : list (op * oobs) }.

Definition two30 : Q := inject_Z (2 ^ 30).
Definition slack : Q := (1 + / two30)%Q.

Definition dyadic (m e : Z) : Q :=
  if 0 <=? e then inject_Z (m * 2 ^ e) else Qmake m (Z.to_pos (2 ^ (- e))).

Definition qmax (a b : Q) : Q := if q_ltb a b then b else a.

(* |a-b| <= 2^-30 * max(|a|,|b|): a float64 comparison of a and b cannot be trusted *)
Definition near_rel (a b : Q) : bool :=
  Qle_bool (Qabs (a - b) * two30)%Q (qmax (Qabs a) (Qabs b)).

Fixpoint is_pow2 (p : positive) : bool :=
  match p with xH => true | xO p' => is_pow2 p' | xI _ => false end.
Definition pow2den (q : Q) : bool := is_pow2 (Qden (Qred q)).

(* maxFlight * factor is computed without rounding by the float64 code *)
Definition m_exact (s : state) (now : Z) (f : Q) : bool :=
  pow2den f && (pow2den (sscale s) || q_ltb (raw_flight s now * slack)%Q 1%Q).

Definition near (s : state) (now cpu2 : Z) : bool :=
  match overload_factor (sthreshold s) cpu2 with
  | None => false
  | Some f =>
    let m := (max_flight s now * f)%Q in
    near_rel m (avgFlying s) || (negb (m_exact s now f) && near_rel m (inject_Z (flying s)))
  end.

Definition avg_close (a : Q) (am ae : Z) : bool :=
  Qle_bool (Qabs (a - dyadic am ae) * two30)%Q (Qabs a + 1)%Q.

(* a float64 that went through a handful of roundings: relative error far below 2^-30 *)
Definition rel_close (a : Q) (m e : Z) : bool :=
  Qle_bool (Qabs (a - dyadic m e) * two30)%Q (Qabs a).

Definition is_done (r : res) : bool := match r with RDone => true | _ => false end.
Definition is_grant (r : res) : bool := match r with RAdmit => true | _ => false end.

(* the model reproduces what the implementation did; a near-tie decision is
   skipped and the model follows the implementation's verdict from there *)
Fixpoint agree_loop (wb : bool) (s : state) (l : list (op * oobs)) : bool :=
  match l with
  | [] => true
  | (o, ob) :: l' =>
    if senabled s then
      match o, ob with
      | OAllow now c1 c2, OA shed fl mp rt am ae cm ce =>
        let '(s1, h) := hot_check s now c1 in
        let d := h && high_thru s1 now c2 in
        let nr := h && near s1 now c2 in
        let v := if nr then shed else d in
        let s3 := bump (fst (allow_finish s1 now v)) in
        (nr || eqb d shed)
        && (negb wb || ((mp =? max_pass s now) && (rt =? min_rt s now) && rel_close (max_flight s now) cm ce))
        && (fl =? flying s3) && avg_close (avgFlying s3) am ae && agree_loop wb s3 l'
      | OPass _ _, OR done fl am ae | OFail _, OR done fl am ae =>
        let '(s', r) := step s o in
        eqb done (is_done r) && (fl =? flying s') && avg_close (avgFlying s') am ae
        && agree_loop wb s' l'
      | _, _ => false
      end
    else
      let '(s', r) := step s o in
      match ob with
      | OA shed _ _ _ _ _ _ _ => negb shed && is_grant r
      | OR done _ _ _ => eqb done (is_done r)
      | OSkip | ORD _ _ _ _ | OFold | OMark => false
      end && agree_loop wb s' l'
  end.

Definition s_agrees (c : scase) : bool :=
  eqb (cnop c) (negb (cenabled (ccfg c))) && csame c
  && (cnop c || negb (cwb c) || rel_close (window_scale (ccfg c)) (fst (cws c)) (snd (cws c)))
  && agree_loop (cwb c) (init (ccfg c) (ct0 c)) (cops c).

(* ------------------------------------------------------------------ *)
(* The property on the observed history, with a reference computation of the
   capacity that does not use the rolling-window model: completed passes are a
   list of (time, latency ms); the bucket of a pass is the index of the
   interval of the t0-aligned grid it falls in; the window at [now] is the
   [size-1] intervals before the current one. *)

Record acc := mkAcc
  { aidx : Z;                (* index of the next operation *)
    aadm : list (Z * Z);     (* granted: (id, start) *)
    apass : list (Z * Z);    (* completed passes: (grid index of the time, latency ms) *)
    afl : Z;                 (* #granted - #resolutions *)
    aep : Z * bool;          (* [episode]: (clock of the last Allow whose CPU reading was >= threshold, 0 if none;
                                shedding in progress) - from the operations and the observed verdicts alone *)
    aavg : Q;                (* the moving average of flying, RECOMPUTED from the history (not the observed avgFlying) *)
    alast : Z }.             (* time of the previous clock reading *)

(* the moving average, recomputed: every resolution folds the new in-flight count in *)
Definition ref_avg (a : Q) (fl : Z) : Q := Qred (a * flyingBeta + inject_Z fl * (1 - flyingBeta))%Q.

Definition grid (t0 iv t : Z) : Z := (t - t0) / iv.

(* [ps]: completed passes as (grid index of the completion time, latency ms) *)
Definition bucket_stats (i : Z) (ps : list (Z * Z)) : Z * Z :=
  fold_left (fun a p => if fst p =? i then (fst a + 1, snd a + snd p) else a)
            ps (0, 0).

Fixpoint zrange (lo : Z) (n : nat) : list Z :=
  match n with O => [] | S k => lo :: zrange (lo + 1) k end.

(* (peak per-bucket pass count, min average latency), with the code's defaults *)
Definition ref_peak_min (c : config) (t0 now : Z) (ps : list (Z * Z)) : Z * Z :=
  let cur := grid t0 (bucket_duration c) now in
  fold_left (fun a i =>
               let '(n, sm) := bucket_stats i ps in
               (Z.max (fst a) n,
                if 0 <? n then Z.min (snd a) (round_div sm n) else snd a))
            (zrange (cur - cbuckets c + 1) (Z.to_nat (cbuckets c - 1)))
            (1, defaultMinRt).

Definition ref_scale (c : config) : Q := (inject_Z 1000000 / inject_Z (bucket_duration c))%Q.

Definition ref_raw (c : config) (pm : Z * Z) : Q :=
  (inject_Z (fst pm) * inject_Z (snd pm) * ref_scale c)%Q.

(* the float64 capacity equals the exact one *)
Definition ref_exact (c : config) (raw : Q) : bool :=
  pow2den (ref_scale c) || q_ltb (raw * slack)%Q 1%Q.

Definition op_time (o : op) : option Z :=
  match o with OAllow t _ _ | OPass _ t => Some t | OFail _ => None end.

Fixpoint monotone (last : Z) (l : list (op * oobs)) : bool :=
  match l with
  | [] => true
  | (o, _) :: l' =>
    match op_time o with
    | Some t => (last <=? t) && monotone t l'
    | None => monotone last l'
    end
  end.

(* "shedding in progress", from the history alone: an episode starts with a shed request and ends at the first
   Allow that reads a CPU below the threshold at least coolOffDuration after the last Allow that read it at or
   above (C02/ProofsEpisode.v: this is what the shedder keeps in overloadTime / droppedRecently, for every history) *)
Definition is_shed (r : res) : bool := match r with RShed => true | _ => false end.

Definition episode_step (th : Z) (e : Z * bool) (o : op) (r : res) : Z * bool :=
  match o with
  | OAllow now c1 _ =>
    if th <=? c1 then (now, snd e || is_shed r)
    else
      let ended := snd e && negb (fst e =? 0) && (coolOffDuration <=? now - fst e) in
      (fst e, (if ended then false else snd e) || is_shed r)
  | OPass _ _ | OFail _ => e
  end.

Fixpoint episode (th : Z) (e : Z * bool) (ops : list op) (rs : list res) : Z * bool :=
  match ops, rs with
  | o :: ops', r :: rs' => episode th (episode_step th e o r) ops' rs'
  | _, _ => e
  end.

(* may an Allow at [now] with checker reading [c1] be shed at all? *)
Definition hot_ref (th : Z) (e : Z * bool) (now c1 : Z) : bool :=
  (th <=? c1) || (snd e && negb (fst e =? 0) && (now - fst e <? coolOffDuration)).

Definition check_allow (excl wb : bool) (c : config) (t0 : Z) (mono : bool) (a : acc) (avglo : Q)
           (now c1 c2 : Z) (shed : bool) (fl cm ce : Z) : bool :=
  let th := cthreshold c in
  let raw := ref_raw c (ref_peak_min c t0 now (apass a)) in
  let cap := at_least raw 1%Q in
  let fb := inject_Z (afl a) in
  let lb := (overloadFactorLowerBound * cap)%Q in
  let over := th <=? c1 in
  (* shed only if hot and loaded *)
  (if shed then
     hot_ref th (aep a) now c1
     && (0 <? afl a)
     && (negb mono ||
         ((if ref_exact c raw then q_ltb lb fb else q_ltb lb (fb * slack)%Q)
          && q_ltb lb (aavg a * slack)%Q))
   else true)
  (* shed when saturated; [excl]: with the hypothesis that excludes the NaN corner
     cpuThreshold = cpuMax = CPU reading (known finding nan-factor-threshold-eq-cpumax) *)
  && (if mono && over && q_ltb (cap * slack)%Q fb && q_ltb (cap * slack)%Q avglo
         && negb (excl && (th =? cpuMax) && (c2 =? cpuMax))
      then shed else true)
  (* the capacity estimate the code computed just before this Allow is the property's: peak per-bucket
     pass count x minimum average latency (ms) over the completed buckets of the window, scaled from
     per-bucket to per-second (x 10^6 ns-per-ms / bucket duration in ns), at least 1 *)
  && (negb wb || negb mono || rel_close cap cm ce)
  (* conservation *)
  && (fl =? (if shed then afl a else afl a + 1)).

(* [aavg a] / [lo]: the largest / smallest moving average the history permits (they differ only after
   resolutions whose samples were folded in while the lock was contended: the order is the lock's);
   [pend]: the samples still to come.  "Shed only if" is judged with the largest, "does shed" with the smallest. *)
Fixpoint insert_z (x : Z) (l : list Z) : list Z :=
  match l with [] => [x] | y :: l' => if x <=? y then x :: l else y :: insert_z x l' end.
Definition sort_z (l : list Z) : list Z := fold_right insert_z [] l.

Fixpoint prop_loop (excl wb : bool) (c : config) (t0 : Z) (mono : bool) (a : acc) (lo : Q) (pend : list Z)
         (l : list (op * oobs)) : bool :=
  match l with
  | [] => true
  | (o, ob) :: l' =>
    match o, ob with
    | _, OSkip =>
      prop_loop excl wb c t0 mono
           (mkAcc (aidx a + 1) (aadm a) (apass a) (afl a) (aep a) (aavg a) (alast a)) lo pend l'
    | _, OMark =>
      prop_loop excl wb c t0 mono
           (mkAcc (aidx a + 1) (aadm a) (apass a) (afl a) (fst (aep a), true) (aavg a) (alast a)) lo pend l'
    | _, OFold =>
      (* largest: small samples first; smallest: large samples first (the last sample weighs most) *)
      let up := sort_z pend in
      prop_loop excl wb c t0 mono
           (mkAcc (aidx a + 1) (aadm a) (apass a) (afl a) (aep a)
                  (fold_left ref_avg up (aavg a)) (alast a))
           (fold_left ref_avg (rev up) lo) [] l'
    | OPass id now, ORD done fl am ae =>
      let st := prom_start id (aadm a) in
      let ok := match st with Some _ => done | None => negb done end in
      let fl' := if done then afl a - 1 else afl a in
      ok && (fl =? fl')
      && prop_loop excl wb c t0 mono
           (mkAcc (aidx a + 1) (aadm a)
                  (match st with
                   | Some start => if done then (grid t0 (bucket_duration c) now, ceil_ms (now - start)) :: apass a else apass a
                   | None => apass a end)
                  fl' (aep a) (aavg a) now) lo (if done then fl' :: pend else pend) l'
    | OFail id, ORD done fl am ae =>
      let st := prom_start id (aadm a) in
      let ok := match st with Some _ => done | None => negb done end in
      let fl' := if done then afl a - 1 else afl a in
      ok && (fl =? fl')
      && prop_loop excl wb c t0 mono
           (mkAcc (aidx a + 1) (aadm a) (apass a) fl' (aep a) (aavg a) (alast a))
           lo (if done then fl' :: pend else pend) l'
    | OAllow now c1 c2, OA shed fl _ _ am ae cm ce =>
      check_allow excl wb c t0 mono a lo now c1 c2 shed fl cm ce
      && prop_loop excl wb c t0 mono
           (mkAcc (aidx a + 1)
                  (if shed then aadm a else (aidx a, now) :: aadm a)
                  (apass a)
                  (if shed then afl a else afl a + 1)
                  (episode_step (cthreshold c) (aep a) (OAllow now c1 c2) (if shed then RShed else RAdmit))
                  (aavg a) now) lo pend l'
    | OPass id now, OR done fl am ae =>
      let st := prom_start id (aadm a) in
      let ok := match st with Some _ => done | None => negb done end in
      let fl' := if done then afl a - 1 else afl a in
      ok && (fl =? fl')
      && prop_loop excl wb c t0 mono
           (mkAcc (aidx a + 1) (aadm a)
                  (match st with
                   | Some start => if done then (grid t0 (bucket_duration c) now, ceil_ms (now - start)) :: apass a else apass a
                   | None => apass a end)
                  fl' (aep a) (if done then ref_avg (aavg a) fl' else aavg a) now)
           (if done then ref_avg lo fl' else lo) pend l'
    | OFail id, OR done fl am ae =>
      let st := prom_start id (aadm a) in
      let ok := match st with Some _ => done | None => negb done end in
      let fl' := if done then afl a - 1 else afl a in
      ok && (fl =? fl')
      && prop_loop excl wb c t0 mono
           (mkAcc (aidx a + 1) (aadm a) (apass a) fl' (aep a) (if done then ref_avg (aavg a) fl' else aavg a) (alast a))
           (if done then ref_avg lo fl' else lo) pend l'
    | _, _ => false
    end
  end.

Definition never_shed (l : list (op * oobs)) : bool :=
  forallb (fun x => match snd x with OA shed _ _ _ _ _ _ _ => negb shed | _ => true end) l.

Definition prop_gen (excl : bool) (c : scase) : bool :=
  if cenabled (ccfg c) then
    if cnop c then never_shed (cops c)
    else csame c
         && prop_loop excl (cwb c) (ccfg c) (ct0 c) (monotone (ct0 c) (cops c))
                      (mkAcc 0 [] [] 0 (0, false) 0%Q (ct0 c)) 0%Q [] (cops c)
  else
    (* built after load.Disable(): whatever was built, it never sheds (that a nopShedder was built is
       compared by [s_agrees]) *)
    never_shed (cops c).

(* ------------------------------------------------------------------ *)
(* wrappers (rest SheddingHandler, zrpc UnarySheddingInterceptor) and ShedderGroup *)

Inductive wreq :=
| WRestNoShedder (o : rest_outcome)      (* SheddingHandler(nil, ...): the handler is used as it is *)
| WRest (v : verdict) (o : rest_outcome)
| WRpc (v : verdict) (o : rpc_outcome).

(* observed with a recording Shedder: handler runs, Allow / Pass / Fail calls, caller-visible
   result, whether a panic reached the caller *)
Inductive wobs := WO (runs allows passes fails : Z) (vis : visible) (panics : bool).

Definition rpc_eqb (a b : rpc_outcome) : bool :=
  match a, b with
  | GOk, GOk | GErr, GErr | GDeadline, GDeadline | GWrappedDeadline, GWrappedDeadline
  | GStatusDeadline, GStatusDeadline | GPanic, GPanic
  | GOverloaded, GOverloaded | GExhausted, GExhausted | GCanceled, GCanceled
  | GPanicOverloaded, GPanicOverloaded => true
  | _, _ => false
  end.

Definition vis_eqb (a b : visible) : bool :=
  match a, b with
  | VisStatus x, VisStatus y => x =? y
  | VisRpc x, VisRpc y => rpc_eqb x y
  | VisExhausted, VisExhausted => true
  | _, _ => false
  end.

Definition wrap_model (q : wreq) : wrap_result :=
  match q with
  | WRestNoShedder o => mkWR 1 0 0 (VisStatus (first_code (ro_codes o))) (ro_panics o)
  | WRest v o => rest_wrap v o | WRpc v o => rpc_wrap v o
  end.

Definition w_allows (q : wreq) : Z := match q with WRestNoShedder _ => 0 | _ => 1 end.

Definition w_agrees (l : list (wreq * wobs)) : bool :=
  forallb (fun x =>
             let m := wrap_model (fst x) in
             match snd x with
             | WO runs allows passes fails vis pn =>
               (runs =? wr_runs m) && (allows =? w_allows (fst x)) && (passes =? wr_pass m) && (fails =? wr_fail m)
               && vis_eqb vis (wr_visible m) && eqb pn (wr_panics m)
             end) l.

(* the wrapper contract, judged on the observation alone *)
Definition w_prop_one (q : wreq) (ob : wobs) : bool :=
  match ob with
  | WO runs allows passes fails vis pn =>
    match q with
    | WRestNoShedder _ => allows =? 0
    | _ => allows =? 1
    end &&
    match q with
    | WRestNoShedder o =>
      (runs =? 1) && (passes =? 0) && (fails =? 0) && eqb pn (ro_panics o)
      && vis_eqb vis (VisStatus (hd 200 (ro_codes o)))
    | WRest VShed _ =>
      (runs =? 0) && (passes =? 0) && (fails =? 0) && vis_eqb vis (VisStatus 503) && negb pn
    | WRpc VShed _ =>
      (runs =? 0) && (passes =? 0) && (fails =? 0) && vis_eqb vis VisExhausted && negb pn
    | WRest VGrant o =>
      let over := last (ro_codes o) 200 =? 503 in
      (runs =? 1) && (passes + fails =? 1) && (0 <=? passes) && (0 <=? fails)
      && eqb (fails =? 1) over && eqb pn (ro_panics o)
      && vis_eqb vis (VisStatus (hd 200 (ro_codes o)))
    | WRpc VGrant o =>
      let over := match o with GDeadline | GWrappedDeadline => true | _ => false end in
      (runs =? 1) && (passes + fails =? 1) && (0 <=? passes) && (0 <=? fails)
      && eqb (fails =? 1) over && eqb pn (rpc_eqb o GPanic || rpc_eqb o GPanicOverloaded)
      && vis_eqb vis (VisRpc o)
    end
  end.

Definition w_prop (l : list (wreq * wobs)) : bool := forallb (fun x => w_prop_one (fst x) (snd x)) l.

(* ShedderGroup: per GetShedder(key)+Allow call, (index of the first call that returned the same
   instance, in-flight count of that instance afterwards) *)
Definition g_agrees (keys : list Z) (obs : list (Z * Z)) : bool := pairs_eqb (group_run [] keys) obs.

Fixpoint g_counts (seen : list Z) (ids : list (Z * Z)) : bool :=
  match ids with
  | [] => true
  | (i, fl) :: rest =>
    (fl =? Z.of_nat (length (filter (Z.eqb i) (seen ++ [i])))) && g_counts (seen ++ [i]) rest
  end.

Definition g_prop (keys : list Z) (obs : list (Z * Z)) : bool :=
  (Nat.eqb (length keys) (length obs)) &&
  (let l := combine keys (map fst obs) in
   forallb (fun p => forallb (fun q => eqb (fst p =? fst q) (snd p =? snd q)) l) l)
  && g_counts [] obs.

(* ------------------------------------------------------------------ *)
(* The wrappers in front of ONE long-lived REAL adaptive shedder, requests overlapping:
   [WStart] sends a request through SheddingHandler / UnarySheddingInterceptor (its handler blocks
   until released), [WFinish r] releases the handler of the request started by the r-th operation,
   which then produces its outcome (status codes / error / panic); the wrapper's deferred function
   resolves the promise.  Observed through a forwarding Shedder (which of Pass / Fail the wrapper
   called, how often) and by reading the shedder's flying / avgFlying fields. *)
Inductive wout := WoRest (o : rest_outcome) | WoRpc (o : rpc_outcome).
Inductive wrop :=
| WStart (now cpu : Z) (o : wout)
| WFinish (r now : Z).
Inductive wrobs :=
| WSO (shed : bool) (allows runs : Z) (vis : visible) (fl am ae : Z)
    (* start: the request came straight back; Allow calls made by the wrapper; handler entries; the answer if it came back; flying, avgFlying *)
| WFO (done : bool) (passes fails : Z) (vis : visible) (pn : bool) (fl am ae : Z).
    (* finish: the request was waiting in its handler; Pass / Fail calls on its promise; answer;
       a panic reached the caller; flying, avgFlying *)

Definition wout_resolution (o : wout) : resolution :=
  match o with WoRest o => rest_resolution o | WoRpc o => rpc_resolution o end.
Definition wout_wrap (v : verdict) (o : wout) : wrap_result :=
  match o with WoRest o => rest_wrap v o | WoRpc o => rpc_wrap v o end.
Definition wout_overload_class (o : wout) : bool :=
  match o with
  | WoRest o => last (ro_codes o) 200 =? 503
  | WoRpc o => match o with GDeadline | GWrappedDeadline => true | _ => false end
  end.
Definition wout_panics (o : wout) : bool :=
  match o with WoRest o => ro_panics o | WoRpc o => rpc_eqb o GPanic || rpc_eqb o GPanicOverloaded end.
Definition wout_visible (o : wout) : visible :=
  match o with WoRest o => VisStatus (hd 200 (ro_codes o)) | WoRpc o => VisRpc o end.
Definition wout_overload_answer (o : wout) : visible :=
  match o with WoRest _ => VisStatus 503 | WoRpc _ => VisExhausted end.

(* the start operation a finish refers to *)
Definition wr_start (all : list (wrop * wrobs)) (r : Z) : option (wout * bool) :=
  if r <? 0 then None else
  match nth_error all (Z.to_nat r) with
  | Some (WStart _ _ o, WSO shed _ _ _ _ _ _) => Some (o, shed)
  | _ => None
  end.

(* the history of Allow / Pass / Fail on the shedder; [by_model]: the resolution is the one the
   wrapper model prescribes, otherwise the one that was observed *)
Definition wr_core (by_model : bool) (all : list (wrop * wrobs)) (x : wrop * wrobs) : option (op * oobs) :=
  match x with
  | (WStart now cpu _, WSO shed _ _ _ fl am ae) => Some (OAllow now cpu cpu, OA shed fl 0 0 am ae 0 0)
  | (WFinish r now, WFO done p f _ _ fl am ae) =>
    let rs := if by_model then match wr_start all r with Some (o, _) => wout_resolution o | None => ResNone end
              else if (p =? 1) && (f =? 0) then ResPass
              else if (p =? 0) && (f =? 1) then ResFail else ResNone in
    match rs with
    | ResPass => Some (OPass r now, OR done fl am ae)
    | ResFail => Some (OFail r, OR done fl am ae)
    | ResNone => if done then None else Some (OPass r now, OR false fl am ae)
    end
  | _ => None
  end.

Fixpoint all_some {A} (l : list (option A)) : option (list A) :=
  match l with
  | [] => Some []
  | None :: _ => None
  | Some x :: l' => match all_some l' with Some r => Some (x :: r) | None => None end
  end.

Definition wr_scase (by_model : bool) (c : config) (t0 : Z) (l : list (wrop * wrobs)) : option scase :=
  match all_some (map (wr_core by_model l) l) with
  | Some ops => Some (mkCase c t0 true false false (0, 0) ops)
  | None => None
  end.

(* the wrapper model reproduces every per-request observation *)
Definition wr_model_one (all : list (wrop * wrobs)) (x : wrop * wrobs) : bool :=
  match x with
  | (WStart _ _ o, WSO shed allows runs vis _ _ _) =>
    (allows =? 1) &&
    if shed then let m := wout_wrap VShed o in (runs =? wr_runs m) && vis_eqb vis (wr_visible m)
    else runs =? wr_runs (wout_wrap VGrant o)
  | (WFinish r _, WFO done p f vis pn _ _ _) =>
    match wr_start all r with
    | Some (o, shed) =>
      eqb done (negb shed) &&
      (if done then let m := wout_wrap VGrant o in
                    (p =? wr_pass m) && (f =? wr_fail m) && vis_eqb vis (wr_visible m) && eqb pn (wr_panics m)
       else (p =? 0) && (f =? 0))
    | None => false
    end
  | _ => false
  end.

(* the wrapper contract, judged on the observation alone: a shed request does not run its handler
   and gets the overload answer; a let-in request runs it once and, when it ends - normally or by a
   panic - its promise is resolved exactly once, with Fail exactly for the overload-class outcomes;
   the handler's own answer / panic reaches the caller unchanged *)
Definition wr_contract_one (all : list (wrop * wrobs)) (x : wrop * wrobs) : bool :=
  match x with
  | (WStart _ _ o, WSO shed allows runs vis _ _ _) =>
    (allows =? 1) &&
    if shed then (runs =? 0) && vis_eqb vis (wout_overload_answer o) else runs =? 1
  | (WFinish r _, WFO done p f vis pn _ _ _) =>
    match wr_start all r with
    | Some (o, shed) =>
      eqb done (negb shed) &&
      (if done then (p + f =? 1) && (0 <=? p) && (0 <=? f) && eqb (f =? 1) (wout_overload_class o)
                    && eqb pn (wout_panics o) && vis_eqb vis (wout_visible o)
       else (p =? 0) && (f =? 0))
    | None => false
    end
  | _ => false
  end.

Definition wr_agrees (c : config) (t0 : Z) (l : list (wrop * wrobs)) : bool :=
  forallb (wr_model_one l) l &&
  match wr_scase true c t0 l with Some sc => s_agrees sc | None => false end.

Definition wr_prop (excl : bool) (c : config) (t0 : Z) (l : list (wrop * wrobs)) : bool :=
  forallb (wr_contract_one l) l &&
  match wr_scase false c t0 l with Some sc => prop_gen excl sc | None => false end.

(* ------------------------------------------------------------------ *)
(* OVERLAPPING Allow calls under a forced schedule (harness/overlay/load/verif_c02_conc_test.go).
   A call is parked where the code under test calls out: P1 = inside systemOverloadChecker (before the
   call has read anything), P2 = at the drop log line (after the decision, before droppedRecently.Set
   and the return).  [KEnter] starts a call (parks at P1); [KDecide tid] releases it with the clock and
   CPU readings it is going to see and lets it run to its return or to P2; [KFinish tid] lets a parked
   dropper return.  [KAllow] / [KPass] / [KFail] are whole calls.  Promise ids name the index of the
   [KAllow] or of the [KDecide]. *)
Inductive cop :=
| KAllow (now c1 c2 : Z) | KPass (id now : Z) | KFail (id : Z)
| KEnter | KDecide (tid now c1 c2 : Z) | KFinish (tid : Z)
| KHold | KRelease.
  (* [KHold]: another goroutine takes avgFlyingLock; the [KPass] / [KFail] that follow run on their own
     goroutines, get past their decrement and wait for the lock; [KRelease]: the lock is given back and
     they fold their samples in, in the order in which they happen to get the lock *)
Inductive cobs :=
| KA (shed : bool) (fl mp rt am ae cm ce : Z)   (* KAllow; KDecide: shed = parked at the drop log line *)
| KR (done : bool) (fl am ae : Z)                (* KPass / KFail *)
| KN (ok : bool) (fl am ae : Z).                 (* KEnter: parked in the checker; KFinish: has returned ErrServiceOverloaded *)

(* -- agrees: the interleaving model (Conc.v) under the same schedule.  Thread i = operation i. -- *)
Definition k_thread (ops : list cop) (id : Z) : nat :=
  if id <? 0 then length ops else
  match nth_error ops (Z.to_nat id) with
  | Some (KDecide tid _ _ _) => if tid <? 0 then length ops else Z.to_nat tid
  | _ => Z.to_nat id
  end.

Fixpoint k_decide_of (i : Z) (ops : list cop) : option (Z * Z * Z) :=
  match ops with
  | [] => None
  | KDecide tid now c1 c2 :: ops' => if tid =? i then Some (now, c1, c2) else k_decide_of i ops'
  | _ :: ops' => k_decide_of i ops'
  end.

Definition k_call (ops : list cop) (i : nat) (o : cop) : call :=
  match o with
  | KAllow now c1 c2 => CAllow now c1 c2
  | KEnter => match k_decide_of (Z.of_nat i) ops with
              | Some (now, c1, c2) => CAllow now c1 c2
              | None => CAllow 0 0 0
              end
  | KPass id now => CPass (k_thread ops id) now
  | KFail id => CFail (k_thread ops id)
  | KDecide _ _ _ _ | KFinish _ | KHold | KRelease => CFail (length ops)      (* no such thread: never moves *)
  end.

Fixpoint k_calls (ops : list cop) (i : nat) (l : list cop) : list call :=
  match l with [] => [] | o :: l' => k_call ops i o :: k_calls ops (S i) l' end.

(* run thread [tid] until it has returned (or, with [stop8], until it stands before the drop action) *)
Fixpoint run_seg (fuel : nat) (m : machine) (tid : nat) (stop8 : bool) : machine :=
  match fuel with
  | O => m
  | S f =>
    match nth_error (snd m) tid with
    | Some t => if (pc_done <=? tpc t)%nat || (stop8 && (tpc t =? 8)%nat) then m
                else run_seg f (cstep m tid) tid stop8
    | None => m
    end
  end.

Definition thr_at (m : machine) (tid : nat) : thread :=
  match nth_error (snd m) tid with Some t => t | None => fresh (CFail 0) end.
Definition res_is (t : thread) (r : res) : bool :=
  match tres t, r with
  | Some RAdmit, RAdmit | Some RShed, RShed | Some RDone, RDone | Some RNoop, RNoop => true
  | _, _ => false
  end.

(* all orders in which the waiting resolutions can get the lock *)
Fixpoint inserts {A} (x : A) (l : list A) : list (list A) :=
  match l with
  | [] => [[x]]
  | y :: l' => (x :: l) :: map (cons y) (inserts x l')
  end.
Fixpoint perms {A} (l : list A) : list (list A) :=
  match l with [] => [[]] | x :: l' => concat (map (inserts x) (perms l')) end.

(* [pend]: Some ts while the lock is held by the executor - the resolver threads that are past their
   decrement, waiting for the lock *)
Fixpoint k_agree (m : machine) (pend : option (list nat)) (i : nat) (l : list (cop * cobs)) : bool :=
  match l with
  | [] => true
  | (o, ob) :: l' =>
    let sh := fst m in
    match o, ob with
    | KAllow now c1 c2, KA shed fl mp rt am ae cm ce =>
      let m' := run_seg 14 m i false in
      let '(s1, h) := hot_check sh now c1 in
      if h && near s1 now c2 && negb (eqb shed (res_is (thr_at m' i) RShed)) then true   (* near-tie: not compared further *)
      else eqb shed (res_is (thr_at m' i) RShed) && (pc_done <=? tpc (thr_at m' i))%nat
           && (mp =? max_pass sh now) && (rt =? min_rt sh now) && rel_close (max_flight sh now) cm ce
           && (fl =? flying (fst m')) && avg_close (avgFlying (fst m')) am ae && k_agree m' pend (S i) l'
    | KDecide tid now c1 c2, KA shed fl mp rt am ae cm ce =>
      let t := if tid <? 0 then length (snd m) else Z.to_nat tid in
      let m' := run_seg 14 m t true in
      let parked := (tpc (thr_at m' t) =? 8)%nat in
      let '(s1, h) := hot_check sh now c1 in
      if h && near s1 now c2 && negb (eqb shed parked) then true
      else eqb shed parked && (parked || res_is (thr_at m' t) RAdmit)
           && (mp =? max_pass sh now) && (rt =? min_rt sh now) && rel_close (max_flight sh now) cm ce
           && (fl =? flying (fst m')) && avg_close (avgFlying (fst m')) am ae && k_agree m' pend (S i) l'
    | KEnter, KN ok fl am ae =>
      ok && (fl =? flying sh) && avg_close (avgFlying sh) am ae && k_agree m pend (S i) l'
    | KFinish tid, KN ok fl am ae =>
      let t := if tid <? 0 then length (snd m) else Z.to_nat tid in
      let m' := run_seg 14 m t false in
      eqb ok (res_is (thr_at m' t) RShed)
      && (fl =? flying (fst m')) && avg_close (avgFlying (fst m')) am ae && k_agree m' pend (S i) l'
    | KPass _ _, KR done fl am ae | KFail _, KR done fl am ae =>
      match pend with
      | None =>
        let m' := run_seg 14 m i false in
        eqb done (res_is (thr_at m' i) RDone)
        && (fl =? flying (fst m')) && avg_close (avgFlying (fst m')) am ae && k_agree m' pend (S i) l'
      | Some ts =>
        (* one action: the atomic decrement; then the thread waits for the lock *)
        let m' := cstep m i in
        let moved := (tpc (thr_at m' i) =? 1)%nat in
        eqb done moved
        && (fl =? flying (fst m')) && avg_close (avgFlying (fst m')) am ae
        && k_agree m' (Some (if moved then ts ++ [i] else ts)) (S i) l'
      end
    | KHold, KN ok fl am ae =>
      ok && (fl =? flying sh) && avg_close (avgFlying sh) am ae
      && k_agree m (Some match pend with Some ts => ts | None => [] end) (S i) l'
    | KRelease, KN ok fl am ae =>
      let ts := match pend with Some ts => ts | None => [] end in
      (* some order of the waiting threads reproduces the average that was observed *)
      let ms := map (fun p => fold_left (fun m t => run_seg 14 m t false) p m) (perms ts) in
      match find (fun m' => avg_close (avgFlying (fst m')) am ae) ms with
      | Some m' =>
        ok && (fl =? flying (fst m')) && forallb (fun t => res_is (thr_at m' t) RDone) ts
        && k_agree m' None (S i) l'
      | None => false
      end
    | _, _ => false
    end
  end.

Definition k_agrees (c : config) (t0 : Z) (ws : Z * Z) (l : list (cop * cobs)) : bool :=
  let ops := map fst l in
  rel_close (window_scale c) (fst ws) (snd ws)
  && k_agree (start c t0 (k_calls ops 0 ops)) None 0 l.

(* -- prop: the property's own counts.  Under a forced schedule every call takes its decision in one
   uninterrupted segment ([KAllow], [KDecide]); ordered by these segments the calls form a history of
   Allow / Pass / Fail events in which "in flight" = promises handed out - promises resolved is what the
   executor counted (never what the shedder believes): the sequential judge applies to it as it is.
   A dropper that is still parked before droppedRecently.Set(true) only makes the shedder shed LESS than
   the history permits (the "only if" direction never needs it, the "does shed" direction needs CPU >=
   threshold NOW). -- *)
(* in-flight = promises handed out - promises resolved, counted from the verdicts alone; the shedder's own
   counter (compared with the interleaving model in [k_agree]) plays no part in the judgement *)
Fixpoint k_core (held : bool) (afl : Z) (l : list (cop * cobs)) : option (list (op * oobs)) :=
  match l with
  | [] => Some []
  | x :: l' =>
    let '(held', afl', y) :=
      match x with
      | (KAllow now c1 c2, KA shed _ mp rt am ae cm ce) | (KDecide _ now c1 c2, KA shed _ mp rt am ae cm ce) =>
        let a := if shed then afl else afl + 1 in (held, a, Some (OAllow now c1 c2, OA shed a mp rt am ae cm ce))
      | (KPass id now, KR done _ am ae) =>
        let a := if done then afl - 1 else afl in
        (held, a, Some (OPass id now, if held then ORD done a am ae else OR done a am ae))
      | (KFail id, KR done _ am ae) =>
        let a := if done then afl - 1 else afl in
        (held, a, Some (OFail id, if held then ORD done a am ae else OR done a am ae))
      | (KEnter, KN _ _ _ _) => (held, afl, Some (OFail (-1), OSkip))
      | (KFinish _, KN _ _ _ _) => (held, afl, Some (OFail (-1), OMark))
      | (KHold, KN _ _ _ _) => (true, afl, Some (OFail (-1), OSkip))
      | (KRelease, KN _ _ _ _) => (false, afl, Some (OFail (-1), OFold))
      | _ => (held, afl, None)
      end in
    match y, k_core held' afl' l' with
    | Some z, Some r => Some (z :: r)
    | _, _ => None
    end
  end.

Definition k_prop (excl : bool) (c : config) (t0 : Z) (ws : Z * Z) (l : list (cop * cobs)) : bool :=
  match k_core false 0 l with
  | Some ops => prop_gen excl (mkCase c t0 true false true ws ops)
  | None => false
  end.

Inductive case :=
| CShed (c : scase)
| CConc (c : config) (t0 : Z) (ws : Z * Z) (l : list (cop * cobs))
| CMulti (l : list scase)     (* several shedders of one process, operations interleaved, Disable() in between *)
| CWorld (evs : list wev) (l : list scase)
    (* the same with the ORDER of the configuration calls made explicit: [evs] = the Disable / NewAdaptiveShedder /
       NewShedderGroup / GetShedder calls of the scenario in the order in which they were made, [l] = the shedders
       in the order in which they were built; the configuration, start clock and enabled flag each history is
       judged with must be the birth certificate the world model (C02/World.v) issues for that order *)
| CWReal (c : config) (t0 : Z) (l : list (wrop * wrobs))
| CWrap (l : list (wreq * wobs))
| CGroup (keys : list Z) (obs : list (Z * Z)).

Definition cert_matches (ct : cert) (sc : scase) : bool :=
  let '(o, t0, en) := ct in
  (owindow o =? cwindow (ccfg sc)) && (obuckets o =? cbuckets (ccfg sc)) && (othreshold o =? cthreshold (ccfg sc))
  && eqb en (cenabled (ccfg sc)) && (t0 =? ct0 sc).

Fixpoint certs_match (cs : list cert) (l : list scase) : bool :=
  match cs, l with
  | [], [] => true
  | ct :: cs', sc :: l' => cert_matches ct sc && certs_match cs' l'
  | _, _ => false
  end.

Definition world_ok (evs : list wev) (l : list scase) : bool :=
  forallb is_config evs && certs_match (wcerts (wfinal w0 evs)) l.

Definition agrees (c : case) : bool :=
  match c with
  | CShed c => s_agrees c | CMulti l => forallb s_agrees l | CWorld evs l => world_ok evs l && forallb s_agrees l | CWReal c t0 l => wr_agrees c t0 l
  | CConc c t0 ws l => k_agrees c t0 ws l
  | CWrap l => w_agrees l | CGroup k o => g_agrees k o
  end.

(* the property at full strength (every configuration) *)
Definition prop_ok (c : case) : bool :=
  match c with
  | CShed c => prop_gen false c | CMulti l => forallb (prop_gen false) l
  | CWorld evs l => world_ok evs l && forallb (prop_gen false) l | CWReal c t0 l => wr_prop false c t0 l
  | CConc c t0 ws l => k_prop false c t0 ws l
  | CWrap l => w_prop l | CGroup k o => g_prop k o
  end.
(* the property with shed_when_saturated's excluding hypothesis (Props.shed_when_saturated);
   used only to recognise the known finding: prop_ok fails, prop_ok_excl holds *)
Definition prop_ok_excl (c : case) : bool :=
  match c with
  | CShed c => prop_gen true c | CMulti l => forallb (prop_gen true) l
  | CWorld evs l => world_ok evs l && forallb (prop_gen true) l | CWReal c t0 l => wr_prop true c t0 l
  | CConc c t0 ws l => k_prop true c t0 ws l
  | CWrap l => w_prop l | CGroup k o => g_prop k o
  end.

(* diagnostics: the model's own run *)
Fixpoint model_loop (s : state) (ops : list op) : list (res * Z * Z * Z) :=
  match ops with
  | [] => []
  | o :: ops' =>
    let now := match op_time o with Some t => t | None => 0 end in
    let '(s', r) := step s o in
    (r, flying s', max_pass s now, min_rt s now) :: model_loop s' ops'
  end.

Definition model_obs (c : case) :=
  match c with
  | CShed c => (model_loop (init (ccfg c) (ct0 c)) (map fst (cops c)), [], [])
  | CConc c t0 ws l =>
    let ops := map fst l in
    (map (fun t => (match tres t with Some r => r | None => RNoop end, tfl t, tmp t, trt t))
         (snd (fold_left (fun m i => run_seg 14 m i false) (seq 0 (length ops)) (start c t0 (k_calls ops 0 ops)))), [], [])
  | CMulti l | CWorld _ l => (concat (map (fun c => model_loop (init (ccfg c) (ct0 c)) (map fst (cops c))) l), [], [])
  | CWReal c t0 l =>
    (match wr_scase true c t0 l with Some sc => model_loop (init c t0) (map fst (cops sc)) | None => [] end, [], [])
  | CWrap l => ([], map (fun x => wrap_model (fst x)) l, [])
  | CGroup k _ => ([], [], group_run [] k)
  end.
