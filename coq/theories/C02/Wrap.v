(* C02 — the callers of the shedder named in the anchors, as small functions
   (definitions only; proofs in C02/ProofsWrap.v):

   rest/handler/sheddinghandler.go  SheddingHandler(shedder, metrics)(next)
     promise, err := shedder.Allow()
     err != nil: WriteHeader(503); return                       (next is not called)
     cw := NewWithCodeResponseWriter(w)   (cw.Code starts at 200, every WriteHeader stores its code)
     defer { cw.Code == 503 ? promise.Fail() : promise.Pass() }  (runs also when next panics)
     next.ServeHTTP(cw, r)

   zrpc/internal/serverinterceptors/sheddinginterceptor.go  UnarySheddingInterceptor
     promise, err = shedder.Allow()
     err != nil: return nil, status.Error(codes.ResourceExhausted, ...)   (handler not called)
     defer { errors.Is(err, context.DeadlineExceeded) ? promise.Fail() : promise.Pass() }
     return handler(ctx, req)      (a panic leaves the named result err = nil)

   core/load/sheddergroup.go  GetShedder(key): one shedder per key (ResourceManager). *)
From Coq Require Import List ZArith Bool.
From GZ Require Import Lib.RollingWindow C02.Model.
Import ListNotations.
Open Scope Z_scope.

Inductive verdict := VGrant | VShed.     (* what shedder.Allow() answered *)

(* what the wrapped handler does *)
Record rest_outcome := mkRO
  { ro_codes : list Z;     (* the codes it passes to WriteHeader, in order (may be empty) *)
    ro_panics : bool }.

Inductive rpc_outcome :=
| GOk                 (* nil error *)
| GErr                (* an error that is not a deadline *)
| GDeadline           (* context.DeadlineExceeded *)
| GWrappedDeadline    (* fmt.Errorf("...: %w", context.DeadlineExceeded) *)
| GStatusDeadline     (* status.Error(codes.DeadlineExceeded, ...): not errors.Is context.DeadlineExceeded *)
| GPanic
  (* outcomes that collide with the shedder's own values: the let-in request itself ends with ... *)
| GOverloaded         (* load.ErrServiceOverloaded (a downstream shedder said no) *)
| GExhausted          (* status.Error(codes.ResourceExhausted, ...): the very answer a shed request gets *)
| GCanceled           (* context.Canceled *)
| GPanicOverloaded.   (* panic(load.ErrServiceOverloaded) *)

Inductive resolution := ResNone | ResPass | ResFail.

(* caller-visible result *)
Inductive visible :=
| VisStatus (code : Z)          (* REST: status of the response (first WriteHeader, 200 if none) *)
| VisRpc (o : rpc_outcome)      (* zRPC: the handler's own result, unchanged *)
| VisExhausted.                 (* zRPC: codes.ResourceExhausted *)

Record wrap_result := mkWR
  { wr_runs : Z;              (* how many times the wrapped handler ran *)
    wr_pass : Z;              (* promise.Pass() calls *)
    wr_fail : Z;              (* promise.Fail() calls *)
    wr_visible : visible;
    wr_panics : bool }.       (* the handler's panic propagates to the caller *)

Definition overloadStatus : Z := 503.   (* http.StatusServiceUnavailable *)

Definition last_code (codes : list Z) : Z := last codes 200.
Definition first_code (codes : list Z) : Z := hd 200 codes.

Definition rest_resolution (o : rest_outcome) : resolution :=
  if last_code (ro_codes o) =? overloadStatus then ResFail else ResPass.

Definition rpc_resolution (o : rpc_outcome) : resolution :=
  match o with
  | GDeadline | GWrappedDeadline => ResFail
  | _ => ResPass
  end.

Definition count_res (want r : resolution) : Z :=
  match want, r with
  | ResPass, ResPass | ResFail, ResFail => 1
  | _, _ => 0
  end.

Definition rest_wrap (v : verdict) (o : rest_outcome) : wrap_result :=
  match v with
  | VShed => mkWR 0 0 0 (VisStatus overloadStatus) false
  | VGrant =>
    let r := rest_resolution o in
    mkWR 1 (count_res ResPass r) (count_res ResFail r) (VisStatus (first_code (ro_codes o))) (ro_panics o)
  end.

Definition rpc_wrap (v : verdict) (o : rpc_outcome) : wrap_result :=
  match v with
  | VShed => mkWR 0 0 0 VisExhausted false
  | VGrant =>
    let r := rpc_resolution o in
    mkWR 1 (count_res ResPass r) (count_res ResFail r) (VisRpc o)
         (match o with GPanic | GPanicOverloaded => true | _ => false end)
  end.

(* ---- a wrapped request against the shedder model ---- *)
(* the request arrives at [now] (CPU readings cpu1 / cpu2), its handler finishes at [fin];
   [rs] is how the wrapper resolves the promise if one was handed out *)
Definition serve (s : state) (now cpu1 cpu2 fin : Z) (rs : resolution) : state * res :=
  let id := nextId s in
  let '(s1, r) := step s (OAllow now cpu1 cpu2) in
  match r, rs with
  | RAdmit, ResPass => (fst (step s1 (OPass id fin)), r)
  | RAdmit, ResFail => (fst (step s1 (OFail id)), r)
  | _, _ => (s1, r)
  end.

Record request := mkReq { q_now : Z; q_cpu1 : Z; q_cpu2 : Z; q_fin : Z; q_res : resolution }.

Definition serve_all (s : state) (qs : list request) : state :=
  fold_left (fun s q => fst (serve s (q_now q) (q_cpu1 q) (q_cpu2 q) (q_fin q) (q_res q))) qs s.

(* ---- ShedderGroup: the instance handed out for each GetShedder(key) call, named by the
   index of the first call with that key; and the in-flight count of that instance when every
   call is followed by an Allow that is let in ---- *)
Fixpoint first_index (k : Z) (keys : list Z) (i : Z) : Z :=
  match keys with
  | [] => i
  | k' :: ks => if k' =? k then i else first_index k ks (i + 1)
  end.

Fixpoint group_run (seen keys : list Z) : list (Z * Z) :=
  match keys with
  | [] => []
  | k :: ks =>
    let seen' := seen ++ [k] in
    (first_index k seen' 0, Z.of_nat (length (filter (Z.eqb k) seen'))) :: group_run seen' ks
  end.
