(* C02 — proofs about the interleaving semantics (C02/Conc.v): in-flight
   conservation holds after every schedule of every set of concurrent calls. *)
From Coq Require Import List ZArith QArith Bool Lia Arith.
From GZ Require Import Lib.RollingWindow C02.Model C02.Conc C02.Proofs.
Import ListNotations.
Open Scope Z_scope.

Definition b2z (b : bool) : Z := if b then 1 else 0.

Lemma upd_nth_length : forall {A} (l : list A) i x, length (upd_nth i x l) = length l.
Proof.
  induction l as [|y l IH]; intros [|i] x; cbn; auto.
Qed.

Lemma countb_upd : forall {A} (f : A -> bool) (l : list A) i t t',
  nth_error l i = Some t ->
  countb f (upd_nth i t' l) = countb f l - b2z (f t) + b2z (f t').
Proof.
  intros A f. unfold countb.
  induction l as [|y l IH]; intros [|i] t t' H; cbn in H; try discriminate.
  - inversion H; subst. cbn [upd_nth filter].
    destruct (f t), (f t'); cbn [length b2z]; lia.
  - cbn [upd_nth filter]. specialize (IH i t t' H).
    destruct (f y); cbn [length]; lia.
Qed.

Lemma map_upd_nth : forall {A B} (g : A -> B) (l : list A) i t t',
  nth_error l i = Some t -> g t' = g t -> map g (upd_nth i t' l) = map g l.
Proof.
  intros A B g. induction l as [|y l IH]; intros [|i] t t' H E; cbn in H; try discriminate.
  - inversion H; subst. cbn. rewrite E. reflexivity.
  - cbn. f_equal. eapply IH; eauto.
Qed.

Lemma Forall_upd_nth : forall {A} (P : A -> Prop) (l : list A) i x,
  Forall P l -> P x -> Forall P (upd_nth i x l).
Proof.
  intros A P. induction l as [|y l IH]; intros [|i] x H Hx; cbn; auto;
    inversion H; subst; constructor; auto.
Qed.

(* thread-local well-formedness: an Allow has no result before it finishes; a
   Pass / Fail never carries a promise *)
Definition lwf (t : thread) : Prop :=
  match tcall t with
  | CAllow _ _ _ => (tpc t <= 9)%nat -> tres t = None
  | _ => tres t <> Some RAdmit
  end.

Lemma fresh_lwf : forall c, lwf (fresh c).
Proof. intros [now c1 c2|p now|p]; cbn; auto; discriminate. Qed.

Lemma allow_act_cases : forall sh t now c1 c2 sh' t',
  tres t = None -> (tpc t <= 9)%nat ->
  allow_act sh t now c1 c2 = (sh', t') ->
  tcall t' = tcall t /\ senabled sh' = senabled sh /\
  ((tres t' = None /\ flying sh' = flying sh /\ (tpc t' <= 9)%nat) \/
   (tres t' = Some RShed /\ flying sh' = flying sh /\ tpc t' = 10%nat) \/
   (tres t' = Some RAdmit /\ flying sh' = flying sh + 1 /\ tpc t' = 10%nat)).
Proof.
  intros sh t now c1 c2 sh' t' Hn Hle. unfold allow_act, pc_done.
  destruct (tpc t) as [|[|[|[|[|[|[|[|[|[|n]]]]]]]]]] eqn:Epc; try lia;
    repeat match goal with
           | |- context [match overload_factor ?a ?b with _ => _ end] => destruct (overload_factor a b)
           | |- context [if ?b then _ else _] => destruct b
           end;
    intros H; inversion H; subst; clear H;
    cbn [tcall tres tpc at_pc flying senabled set_overload set_dropped set_flying];
    rewrite ?Hn; (split; [reflexivity|]); (split; [reflexivity|]);
    first [ left; repeat split; auto; lia
          | right; left; repeat split; auto; lia
          | right; right; repeat split; auto; lia ].
Qed.

Lemma resolve_act_cases : forall sh t st pn sh' t',
  tres t <> Some RAdmit ->
  resolve_act sh t st pn = (sh', t') ->
  tcall t' = tcall t /\ senabled sh' = senabled sh /\ tres t' <> Some RAdmit /\
  ((tpc t = 0%nat /\ tpc t' = 1%nat /\ flying sh' = flying sh - 1) \/
   ((1 <= tpc t)%nat /\ (1 <= tpc t')%nat /\ flying sh' = flying sh)).
Proof.
  intros sh t st pn sh' t' Hn. unfold resolve_act, pc_done.
  destruct (tpc t) as [|[|[|[|n]]]] eqn:Epc; destruct pn;
    intros H; inversion H; subst; clear H;
    cbn [tcall tres tpc at_pc flying senabled set_windows set_flying];
    (split; [reflexivity|]); (split; [reflexivity|]); (split; [try exact Hn; try discriminate|]);
    first [ left; repeat split; auto; lia | right; repeat split; auto; lia ].
Qed.

(* one action: call unchanged, local well-formedness kept, and flying moves
   exactly with "was granted" / "has decremented" of the acting thread *)
Lemma act_effect : forall sh ths t sh' t', lwf t -> act sh ths t = (sh', t') ->
  tcall t' = tcall t /\ lwf t' /\ senabled sh' = senabled sh /\
  flying sh' - flying sh =
    (b2z (is_granted t') - b2z (is_granted t)) - (b2z (has_decremented t') - b2z (has_decremented t)) /\
  (is_granted t = true -> is_granted t' = true) /\
  (has_decremented t = true -> has_decremented t' = true) /\
  (has_decremented t' = true -> has_decremented t = true \/
     exists p, target (tcall t) = Some p /\ promise_of ths p <> None).
Proof.
  intros sh ths t sh' t' Hl Hact.
  assert (Hsame : (sh', t') = (sh, t) ->
     tcall t' = tcall t /\ lwf t' /\ senabled sh' = senabled sh /\
     flying sh' - flying sh =
       (b2z (is_granted t') - b2z (is_granted t)) - (b2z (has_decremented t') - b2z (has_decremented t)) /\
     (is_granted t = true -> is_granted t' = true) /\
     (has_decremented t = true -> has_decremented t' = true) /\
     (has_decremented t' = true -> has_decremented t = true \/
        exists p, target (tcall t) = Some p /\ promise_of ths p <> None)).
  { intros E. inversion E; subst. repeat split; auto; lia. }
  unfold act in Hact.
  destruct (tcall t) as [now c1 c2|p now|p] eqn:Ec.
  - (* Allow *)
    assert (Hd : forall t1, tcall t1 = tcall t -> has_decremented t1 = false).
    { intros t1 E1. unfold has_decremented. rewrite E1, Ec. reflexivity. }
    destruct (le_lt_dec (tpc t) 9) as [Hle|Hgt].
    + assert (Hn : tres t = None) by (unfold lwf in Hl; rewrite Ec in Hl; auto).
      destruct (allow_act_cases _ _ _ _ _ _ _ Hn Hle Hact) as (Hc & He & Hcases).
      rewrite (Hd t eq_refl), (Hd t' Hc).
      assert (Ha : is_granted t = false) by (unfold is_granted; rewrite Hn; reflexivity).
      rewrite Ha.
      split; [congruence|]. split.
      { unfold lwf. rewrite Hc, Ec. intros Hp.
        destruct Hcases as [(Hr & _)|[(_ & _ & Hp')|(_ & _ & Hp')]]; [exact Hr|lia|lia]. }
      split; [exact He|].
      unfold is_granted.
      destruct Hcases as [(Hr & Hf & _)|[(Hr & Hf & _)|(Hr & Hf & _)]]; rewrite Hr; cbn [b2z];
        (split; [lia|]); (split; [discriminate|]); (split; discriminate).
    + apply Hsame. rewrite <- Hact. unfold allow_act.
      destruct (tpc t) as [|[|[|[|[|[|[|[|[|[|n]]]]]]]]]]; try lia; reflexivity.
  - (* Pass *)
    destruct (promise_of ths p) as [st|] eqn:Ep; [|apply Hsame; congruence].
    assert (Hn : tres t <> Some RAdmit) by (unfold lwf in Hl; rewrite Ec in Hl; exact Hl).
    destruct (resolve_act_cases _ _ _ _ _ _ Hn Hact) as (Hc & He & Hn' & Hcases).
    assert (Ha : forall t1, tres t1 <> Some RAdmit -> is_granted t1 = false).
    { intros t1 H1. unfold is_granted. destruct (tres t1) as [[]|]; congruence. }
    rewrite (Ha t Hn), (Ha t' Hn').
    split; [congruence|]. split; [unfold lwf; rewrite Hc, Ec; exact Hn'|]. split; [exact He|].
    unfold has_decremented. rewrite Hc, Ec. cbn [target].
    destruct Hcases as [(H0 & H1 & Hf)|(H0 & H1 & Hf)].
    + rewrite H0, H1. cbn. split; [lia|]. split; [discriminate|]. split; [reflexivity|].
      intros _. right. exists p. split; [reflexivity|congruence].
    + replace (1 <=? tpc t)%nat with true by (symmetry; apply Nat.leb_le; lia).
      replace (1 <=? tpc t')%nat with true by (symmetry; apply Nat.leb_le; lia).
      cbn. split; [lia|]. repeat split; auto.
  - (* Fail *)
    destruct (promise_of ths p) as [st|] eqn:Ep; [|apply Hsame; congruence].
    assert (Hn : tres t <> Some RAdmit) by (unfold lwf in Hl; rewrite Ec in Hl; exact Hl).
    destruct (resolve_act_cases _ _ _ _ _ _ Hn Hact) as (Hc & He & Hn' & Hcases).
    assert (Ha : forall t1, tres t1 <> Some RAdmit -> is_granted t1 = false).
    { intros t1 H1. unfold is_granted. destruct (tres t1) as [[]|]; congruence. }
    rewrite (Ha t Hn), (Ha t' Hn').
    split; [congruence|]. split; [unfold lwf; rewrite Hc, Ec; exact Hn'|]. split; [exact He|].
    unfold has_decremented. rewrite Hc, Ec. cbn [target].
    destruct Hcases as [(H0 & H1 & Hf)|(H0 & H1 & Hf)].
    + rewrite H0, H1. cbn. split; [lia|]. split; [discriminate|]. split; [reflexivity|].
      intros _. right. exists p. split; [reflexivity|congruence].
    + replace (1 <=? tpc t)%nat with true by (symmetry; apply Nat.leb_le; lia).
      replace (1 <=? tpc t')%nat with true by (symmetry; apply Nat.leb_le; lia).
      cbn. split; [lia|]. repeat split; auto.
Qed.

(* ------------------------------------------------------------------ *)
(* the invariant of every reachable machine state                       *)

Definition cinv (m : machine) : Prop :=
  Forall lwf (snd m) /\
  flying (fst m) = countb is_granted (snd m) - countb has_decremented (snd m).

Lemma nth_error_Forall : forall {A} (P : A -> Prop) l i x,
  Forall P l -> nth_error l i = Some x -> P x.
Proof.
  intros A P l i x H E. rewrite Forall_forall in H. apply H. eapply nth_error_In; eauto.
Qed.

Lemma cstep_inv : forall m tid, cinv m -> cinv (cstep m tid).
Proof.
  intros [sh ths] tid [Hl Hf]. unfold cstep. cbn [fst snd] in *.
  destruct (nth_error ths tid) as [t|] eqn:E; [|split; assumption].
  destruct (act sh ths t) as [sh' t'] eqn:Ea.
  destruct (act_effect _ _ _ _ _ (nth_error_Forall _ _ _ _ Hl E) Ea) as (Hc & Hl' & _ & Hd & _).
  split; cbn [fst snd].
  - apply Forall_upd_nth; assumption.
  - rewrite (countb_upd is_granted ths tid t t' E), (countb_upd has_decremented ths tid t t' E). lia.
Qed.

Lemma crun_inv : forall sched m, cinv m -> cinv (crun m sched).
Proof.
  induction sched as [|tid sched IH]; intros m H; [exact H|].
  cbn [crun fold_left]. apply IH. apply cstep_inv. exact H.
Qed.

Lemma start_counts : forall calls,
  countb is_granted (map fresh calls) = 0 /\ countb has_decremented (map fresh calls) = 0.
Proof.
  unfold countb. induction calls as [|c calls [IH1 IH2]]; [split; reflexivity|].
  cbn [map filter]. unfold is_granted at 1, has_decremented at 1. cbn [fresh tres tpc tcall].
  destruct (target c); cbn; auto.
Qed.

Lemma start_inv : forall c t0 calls, cinv (start c t0 calls).
Proof.
  intros c t0 calls. split; cbn [start fst snd].
  - rewrite Forall_forall. intros t Ht. apply in_map_iff in Ht. destruct Ht as [cl [E _]].
    subst t. apply fresh_lwf.
  - destruct (start_counts calls) as [H1 H2]. rewrite H1, H2. reflexivity.
Qed.

(* in-flight conservation, for every set of concurrent calls and every schedule *)
Lemma conc_conservation_core : forall c t0 calls sched,
  flying (fst (crun (start c t0 calls) sched)) =
  countb is_granted (snd (crun (start c t0 calls) sched)) -
  countb has_decremented (snd (crun (start c t0 calls) sched)).
Proof.
  intros. apply (crun_inv sched (start c t0 calls)). apply start_inv.
Qed.

(* ------------------------------------------------------------------ *)
(* with at most one resolver per promise, flying never goes negative     *)

Definition cinv2 (calls : list call) (m : machine) : Prop :=
  map tcall (snd m) = calls /\
  forall i t, nth_error (snd m) i = Some t -> has_decremented t = true ->
    exists p, target (tcall t) = Some p /\ promise_of (snd m) p <> None.

Lemma nth_error_upd_eq : forall {A} (l : list A) i x t,
  nth_error l i = Some t -> nth_error (upd_nth i x l) i = Some x.
Proof.
  induction l as [|y l IH]; intros [|i] x t H; cbn in *; try discriminate; eauto.
Qed.

Lemma nth_error_upd_neq : forall {A} (l : list A) i j x,
  i <> j -> nth_error (upd_nth i x l) j = nth_error l j.
Proof.
  induction l as [|y l IH]; intros [|i] [|j] x H; cbn; auto; try lia.
Qed.

Lemma promise_stable : forall ths tid t t' p,
  nth_error ths tid = Some t -> tcall t' = tcall t ->
  (is_granted t = true -> is_granted t' = true) ->
  promise_of ths p <> None -> promise_of (upd_nth tid t' ths) p <> None.
Proof.
  intros ths tid t t' p E Hc Ha Hp. unfold promise_of in *.
  destruct (Nat.eq_dec tid p) as [->|Hne].
  - rewrite (nth_error_upd_eq _ _ _ _ E). rewrite E in Hp. rewrite Hc.
    destruct (tcall t); try congruence.
    assert (Hx : is_granted t = true).
    { unfold is_granted. destruct (tres t) as [[]|]; congruence. }
    apply Ha in Hx. unfold is_granted in Hx. destruct (tres t') as [[]|]; congruence.
  - rewrite nth_error_upd_neq by exact Hne. exact Hp.
Qed.

Lemma cstep_inv2 : forall calls m tid, cinv m -> cinv2 calls m -> cinv2 calls (cstep m tid).
Proof.
  intros calls [sh ths] tid [Hl _] [Hm Hd]. unfold cstep. cbn [fst snd] in *.
  destruct (nth_error ths tid) as [t|] eqn:E; [|split; assumption].
  destruct (act sh ths t) as [sh' t'] eqn:Ea.
  destruct (act_effect _ _ _ _ _ (nth_error_Forall _ _ _ _ Hl E) Ea)
    as (Hc & _ & _ & _ & Hadm & _ & Hdec).
  split; cbn [fst snd].
  - rewrite (map_upd_nth tcall ths tid t t' E Hc). exact Hm.
  - intros i ti Hi Hdi.
    destruct (Nat.eq_dec tid i) as [->|Hne].
    + rewrite (nth_error_upd_eq _ _ _ _ E) in Hi. inversion Hi; subst ti.
      destruct (Hdec Hdi) as [Hold|(p & Hp & Hpr)].
      * destruct (Hd i t E Hold) as (p & Hp & Hpr). exists p. rewrite Hc. split; [exact Hp|].
        eapply promise_stable; eauto.
      * exists p. rewrite Hc. split; [exact Hp|]. eapply promise_stable; eauto.
    + rewrite nth_error_upd_neq in Hi by exact Hne.
      destruct (Hd i ti Hi Hdi) as (p & Hp & Hpr). exists p. split; [exact Hp|].
      eapply promise_stable; eauto.
Qed.

Lemma crun_inv2 : forall calls sched m, cinv m -> cinv2 calls m -> cinv2 calls (crun m sched).
Proof.
  induction sched as [|tid sched IH]; intros m H H2; [exact H2|].
  cbn [crun fold_left]. apply IH; [apply cstep_inv; exact H|apply cstep_inv2; assumption].
Qed.

Lemma start_inv2 : forall c t0 calls, cinv2 calls (start c t0 calls).
Proof.
  intros c t0 calls. split; cbn [start snd].
  - rewrite map_map. cbn [fresh tcall]. apply map_id.
  - intros i t Hi Hd. exfalso.
    apply nth_error_In in Hi. apply in_map_iff in Hi. destruct Hi as [cl [E _]]. subst t.
    unfold has_decremented in Hd. cbn [fresh tcall tpc] in Hd. destruct (target cl); discriminate.
Qed.

(* counting *)
Definition dummy : thread := fresh (CFail 0).

Lemma filter_map_length : forall {A B} (g : B -> bool) (h : A -> B) (l : list A),
  length (filter g (map h l)) = length (filter (fun x => g (h x)) l).
Proof.
  intros A B g h. induction l as [|x l IH]; [reflexivity|].
  cbn [map filter]. destruct (g (h x)); cbn [length]; rewrite IH; reflexivity.
Qed.

Lemma filter_seq_length : forall (f : thread -> bool) (l : list thread),
  length (filter (fun i => f (nth i l dummy)) (seq 0 (length l))) = length (filter f l).
Proof.
  intros f. induction l as [|x l IH]; [reflexivity|].
  change (seq 0 (length (x :: l))) with (0%nat :: seq 1 (length l)).
  rewrite <- seq_shift. cbn [filter nth].
  destruct (f x); cbn [length]; rewrite filter_map_length; [f_equal|]; exact IH.
Qed.

Fixpoint dec_targets (ths : list thread) : list nat :=
  match ths with
  | [] => []
  | t :: ths' =>
    if has_decremented t then
      match target (tcall t) with Some p => p :: dec_targets ths' | None => dec_targets ths' end
    else dec_targets ths'
  end.

Lemma dec_targets_length : forall ths, length (dec_targets ths) = length (filter has_decremented ths).
Proof.
  induction ths as [|t ths IH]; [reflexivity|].
  cbn [dec_targets filter]. destruct (has_decremented t) eqn:E; [|exact IH].
  unfold has_decremented in E. destruct (target (tcall t)); [|discriminate].
  cbn [length]. rewrite IH. reflexivity.
Qed.

Lemma dec_targets_in : forall ths p, In p (dec_targets ths) -> In p (targets (map tcall ths)).
Proof.
  induction ths as [|t ths IH]; intros p H; [exact H|].
  cbn [dec_targets map targets] in *.
  destruct (has_decremented t); destruct (target (tcall t)); cbn in *; intuition.
Qed.

Lemma dec_targets_nodup : forall ths, NoDup (targets (map tcall ths)) -> NoDup (dec_targets ths).
Proof.
  induction ths as [|t ths IH]; intros H; [constructor|].
  cbn [dec_targets map targets] in *.
  destruct (target (tcall t)) as [p|].
  - inversion H; subst. destruct (has_decremented t); [|auto].
    constructor; [|auto]. intros Hin. apply dec_targets_in in Hin. contradiction.
  - destruct (has_decremented t); auto.
Qed.

Lemma dec_targets_sound : forall ths p, In p (dec_targets ths) ->
  exists i t, nth_error ths i = Some t /\ has_decremented t = true /\ target (tcall t) = Some p.
Proof.
  induction ths as [|t ths IH]; intros p H; [destruct H|].
  cbn [dec_targets] in H.
  destruct (has_decremented t) eqn:Ed.
  - destruct (target (tcall t)) as [q|] eqn:Et.
    + destruct H as [->|H].
      * exists 0%nat, t. auto.
      * destruct (IH p H) as (i & ti & Hi & Hx). exists (S i), ti. auto.
    + destruct (IH p H) as (i & ti & Hi & Hx). exists (S i), ti. auto.
  - destruct (IH p H) as (i & ti & Hi & Hx). exists (S i), ti. auto.
Qed.

Lemma conc_nonneg_core : forall c t0 calls sched,
  NoDup (targets calls) ->
  0 <= flying (fst (crun (start c t0 calls) sched)).
Proof.
  intros c t0 calls sched Hnd.
  pose proof (crun_inv sched _ (start_inv c t0 calls)) as [_ Hf].
  pose proof (crun_inv2 calls sched _ (start_inv c t0 calls) (start_inv2 c t0 calls)) as [Hm Hd].
  set (m := crun (start c t0 calls) sched) in *. set (ths := snd m) in *.
  rewrite Hf. unfold countb.
  rewrite <- dec_targets_length, <- (filter_seq_length is_granted ths).
  assert (Hincl : incl (dec_targets ths)
                       (filter (fun i => is_granted (nth i ths dummy)) (seq 0 (length ths)))).
  { intros p Hp. destruct (dec_targets_sound _ _ Hp) as (i & t & Hi & Hdec & Ht).
    destruct (Hd i t Hi Hdec) as (p' & Ht' & Hpr). rewrite Ht in Ht'. inversion Ht'; subst p'.
    unfold promise_of in Hpr. destruct (nth_error ths p) as [tp|] eqn:Ep; [|congruence].
    apply filter_In. split.
    - apply in_seq. split; [lia|]. cbn. apply nth_error_Some. congruence.
    - rewrite (nth_error_nth _ _ _ Ep). unfold is_granted.
      destruct (tcall tp); try congruence. destruct (tres tp) as [[]|]; congruence. }
  assert (Hnd' : NoDup (dec_targets ths)).
  { apply dec_targets_nodup. replace (map tcall ths) with calls by (symmetry; exact Hm). exact Hnd. }
  pose proof (NoDup_incl_length Hnd' Hincl). lia.
Qed.

(* ------------------------------------------------------------------ *)
(* a concurrent Allow sheds only on what it read: the in-flight count and the
   average it read exceed 10% of the capacity computed from the window contents
   it read (all of them possibly stale)                                  *)

Definition reg_capacity (scale : Q) (t : thread) : Q :=
  at_least (inject_Z (tmp t) * inject_Z (trt t) * scale) 1.

Definition shed_regs_ok (scale : Q) (t : thread) : Prop :=
  match tcall t with
  | CAllow _ _ _ =>
    tpc t = 8%nat \/ tres t = Some RShed ->
    (overloadFactorLowerBound * reg_capacity scale t < inject_Z (tfl t))%Q /\
    (overloadFactorLowerBound * reg_capacity scale t < tavg t)%Q
  | _ => True
  end.

Lemma bound_lower : forall A f x,
  (1 <= A)%Q -> (overloadFactorLowerBound <= f)%Q -> (A * f < x)%Q ->
  (overloadFactorLowerBound * A < x)%Q.
Proof.
  intros A f x HA Hf Hx. eapply Qle_lt_trans; [|exact Hx].
  rewrite (Qmult_comm A f). apply Qmult_le_compat_r; [exact Hf|].
  eapply Qle_trans; [|exact HA]. discriminate.
Qed.

Lemma allow_act_regs : forall sh t now c1 c2 sh' t',
  tcall t = CAllow now c1 c2 -> tres t = None -> (tpc t <= 9)%nat ->
  shed_regs_ok (sscale sh) t ->
  allow_act sh t now c1 c2 = (sh', t') ->
  sscale sh' = sscale sh /\ shed_regs_ok (sscale sh) t'.
Proof.
  intros sh t now c1 c2 sh' t' Ec Hn Hle Hok. unfold allow_act, pc_done.
  destruct (tpc t) as [|[|[|[|[|[|[|[|[|[|n]]]]]]]]]] eqn:Epc; try lia.
  8: { (* pc 7: the decision *)
    destruct (overload_factor (sthreshold sh) c2) as [f|] eqn:Ef.
    - match goal with |- context [if ?b then _ else _] => destruct b eqn:Eb end;
        intros H; injection H as <- <-; (split; [reflexivity|]);
        unfold shed_regs_ok; cbn [tcall tpc tres at_pc tfl tavg tmp trt]; rewrite Ec.
      + intros _. apply andb_true_iff in Eb. destruct Eb as [E1 E2].
        apply q_ltb_lt in E1. apply q_ltb_lt in E2.
        unfold reg_bound in E1, E2. cbn [tfl tavg tmp trt at_pc] in E1, E2.
        destruct (factor_range _ _ _ Ef) as [Hf _].
        unfold reg_capacity. cbn [tfl tavg tmp trt].
        pose proof (at_least_ge (inject_Z (tmp t) * inject_Z (trt t) * sscale sh) 1) as HA.
        split; eapply bound_lower; eauto.
      + intros [Hx|Hx]; [discriminate|congruence].
    - intros H; injection H as <- <-. split; [reflexivity|].
      unfold shed_regs_ok. cbn [tcall tpc tres at_pc]. rewrite Ec.
      intros [Hx|Hx]; [discriminate|congruence]. }
  8: { (* pc 8: the verdict is returned, registers unchanged *)
    intros H; injection H as <- <-. split; [reflexivity|].
    unfold shed_regs_ok in *. cbn [tcall tpc tres tfl tavg tmp trt]. rewrite Ec in *.
    intros _. unfold reg_capacity in *. cbn [tmp trt]. apply Hok. left. exact Epc. }
  all: repeat match goal with
              | |- context [if ?b then _ else _] => destruct b
              end;
    intros H; injection H as <- <-; (split; [reflexivity|]);
    unfold shed_regs_ok; cbn [tcall tpc tres at_pc]; rewrite Ec;
    (intros [Hx|Hx]; [discriminate|congruence]).
Qed.

Lemma resolve_act_scale : forall sh t st pn sh' t',
  resolve_act sh t st pn = (sh', t') -> sscale sh' = sscale sh /\ tcall t' = tcall t.
Proof.
  intros sh t st pn sh' t'. unfold resolve_act.
  destruct (tpc t) as [|[|[|[|n]]]]; destruct pn; intros H; injection H as <- <-; split; reflexivity.
Qed.

Lemma act_regs : forall sh ths t sh' t',
  lwf t -> shed_regs_ok (sscale sh) t -> act sh ths t = (sh', t') ->
  sscale sh' = sscale sh /\ shed_regs_ok (sscale sh) t'.
Proof.
  intros sh ths t sh' t' Hl Hok Hact. unfold act in Hact.
  destruct (tcall t) as [now c1 c2|p now|p] eqn:Ec.
  - destruct (le_lt_dec (tpc t) 9) as [Hle|Hgt].
    + assert (Hn : tres t = None) by (unfold lwf in Hl; rewrite Ec in Hl; auto).
      eapply allow_act_regs; eauto.
    + assert (E : (sh', t') = (sh, t)).
      { rewrite <- Hact. unfold allow_act.
        destruct (tpc t) as [|[|[|[|[|[|[|[|[|[|n]]]]]]]]]]; try lia; reflexivity. }
      injection E as -> ->. split; [reflexivity|exact Hok].
  - destruct (promise_of ths p) as [st|].
    + destruct (resolve_act_scale _ _ _ _ _ _ Hact) as [Hs Hc]. split; [exact Hs|].
      unfold shed_regs_ok. rewrite Hc, Ec. exact I.
    + injection Hact as <- <-. split; [reflexivity|exact Hok].
  - destruct (promise_of ths p) as [st|].
    + destruct (resolve_act_scale _ _ _ _ _ _ Hact) as [Hs Hc]. split; [exact Hs|].
      unfold shed_regs_ok. rewrite Hc, Ec. exact I.
    + injection Hact as <- <-. split; [reflexivity|exact Hok].
Qed.

Definition cinv3 (scale : Q) (m : machine) : Prop :=
  sscale (fst m) = scale /\ Forall (shed_regs_ok scale) (snd m).

Lemma cstep_inv3 : forall scale m tid, cinv m -> cinv3 scale m -> cinv3 scale (cstep m tid).
Proof.
  intros scale [sh ths] tid [Hl _] [Hs Hr]. unfold cstep. cbn [fst snd] in *.
  destruct (nth_error ths tid) as [t|] eqn:E; [|split; assumption].
  destruct (act sh ths t) as [sh' t'] eqn:Ea. subst scale.
  destruct (act_regs _ _ _ _ _ (nth_error_Forall _ _ _ _ Hl E) (nth_error_Forall _ _ _ _ Hr E) Ea)
    as [Hs' Hr'].
  split; cbn [fst snd]; [exact Hs'|]. apply Forall_upd_nth; assumption.
Qed.

Lemma crun_inv3 : forall scale sched m, cinv m -> cinv3 scale m -> cinv3 scale (crun m sched).
Proof.
  induction sched as [|tid sched IH]; intros m H H3; [exact H3|].
  cbn [crun fold_left]. apply IH; [apply cstep_inv; exact H|apply cstep_inv3; assumption].
Qed.

Lemma start_inv3 : forall c t0 calls, cinv3 (window_scale c) (start c t0 calls).
Proof.
  intros c t0 calls. split; [reflexivity|]. cbn [start snd].
  rewrite Forall_forall. intros t Ht. apply in_map_iff in Ht. destruct Ht as [cl [E _]]. subst t.
  unfold shed_regs_ok. cbn [fresh tcall tpc tres]. destruct cl; auto.
  intros [Hx|Hx]; discriminate.
Qed.

Lemma conc_shed_only_loaded_core : forall c t0 calls sched i t now cpu1 cpu2,
  nth_error (snd (crun (start c t0 calls) sched)) i = Some t ->
  tcall t = CAllow now cpu1 cpu2 -> tres t = Some RShed ->
  (overloadFactorLowerBound * reg_capacity (window_scale c) t < inject_Z (tfl t))%Q /\
  (overloadFactorLowerBound * reg_capacity (window_scale c) t < tavg t)%Q.
Proof.
  intros c t0 calls sched i t now cpu1 cpu2 Hi Hc Hr.
  destruct (crun_inv3 (window_scale c) sched _ (start_inv c t0 calls) (start_inv3 c t0 calls)) as [_ Hall].
  pose proof (nth_error_Forall _ _ _ _ Hall Hi) as Hok.
  unfold shed_regs_ok in Hok. rewrite Hc in Hok. apply Hok. right. exact Hr.
Qed.
