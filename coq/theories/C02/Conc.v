(* C02 — interleaving semantics of concurrent Allow / Pass / Fail calls on one
   adaptive shedder (definitions only; proofs in C02/ProofsConc.v).

   A thread is one call; it runs the atomic actions of that call in program
   order, keeping what it read in registers.  One action = one access to shared
   state in adaptiveshedder.go: an atomic load/store/add (flying, overloadTime,
   droppedRecently), the spin-locked read or update of avgFlying, one
   RollingWindow.Reduce or Add (under the window's RWMutex).  A schedule is the
   list of thread indices that take the next step; values read earlier may be
   stale by the time they are used.

   Allow(now, cpu1, cpu2)                                  pc
     systemOverloaded(): cpu1 >= threshold ? overloadTime.Set(now)   0
     stillHot(): droppedRecently.True()                               1
                 overloadTime.Load(), compare with now                2
                 droppedRecently.Set(false)  (cool-off expired)       3
     highThru(): read avgFlying                                       4
                 passCounter.Reduce (maxPass)                         5
                 rtCounter.Reduce (minRt)                             6
                 overloadFactor (cpu2), atomic.LoadInt64(&flying)     7
     shed:  droppedRecently.Set(true); return ErrServiceOverloaded    8
     grant: atomic.AddInt64(&flying, 1); return promise               9
   Pass(p, now)     (p = the thread whose Allow returned the promise)
     atomic.AddInt64(&flying, -1)                                     0
     avgFlying = avgFlying*beta + flying'*(1-beta)                    1
     rtCounter.Add(ceil ms)                                           2
     passCounter.Add(1)                                               3
   Fail(p): the first two actions of Pass.
   A Pass/Fail thread can only move once thread p has returned a promise (the
   caller holds the promise only then).  Every clock reading of one call is the
   call's [now]. *)
From Coq Require Import List ZArith QArith Bool.
From GZ Require Import Lib.RollingWindow C02.Model.
Import ListNotations.
Open Scope Z_scope.

Inductive call :=
| CAllow (now cpu1 cpu2 : Z)
| CPass (p : nat) (now : Z)
| CFail (p : nat).

Record thread := mkT
  { tcall : call;
    tpc : nat;
    tot : Z;             (* overloadTime as read by stillHot *)
    tavg : Q;            (* avgFlying as read by highThru *)
    tmp : Z;             (* maxPass() *)
    trt : Z;             (* minRt() *)
    tfl : Z;             (* flying as read by highThru / as returned by AddInt64 *)
    tres : option res }.

Definition fresh (c : call) : thread := mkT c 0 0 0%Q 0 0 0 None.

Definition at_pc (t : thread) (pc : nat) : thread :=
  mkT (tcall t) pc (tot t) (tavg t) (tmp t) (trt t) (tfl t) (tres t).

Definition pc_done : nat := 10.

(* the bound highThru compares with, from the thread's registers *)
Definition reg_bound (scale : Q) (t : thread) (f : Q) : Q :=
  (at_least (inject_Z (tmp t) * inject_Z (trt t) * scale) 1 * f)%Q.

Definition allow_act (sh : state) (t : thread) (now cpu1 cpu2 : Z) : state * thread :=
  match tpc t with
  | 0%nat => if sthreshold sh <=? cpu1 then (set_overload sh now, at_pc t 4)
             else (sh, at_pc t 1)
  | 1%nat => if droppedRecently sh then (sh, at_pc t 2) else (sh, at_pc t 9)
  | 2%nat => let ot := overloadTime sh in
             let t' := mkT (tcall t) 0 ot (tavg t) (tmp t) (trt t) (tfl t) (tres t) in
             if ot =? 0 then (sh, at_pc t' 9)
             else if now - ot <? coolOffDuration then (sh, at_pc t' 4)
             else (sh, at_pc t' 3)
  | 3%nat => (set_dropped sh false, at_pc t 9)
  | 4%nat => (sh, mkT (tcall t) 5 (tot t) (avgFlying sh) (tmp t) (trt t) (tfl t) (tres t))
  | 5%nat => (sh, mkT (tcall t) 6 (tot t) (tavg t) (max_pass sh now) (trt t) (tfl t) (tres t))
  | 6%nat => (sh, mkT (tcall t) 7 (tot t) (tavg t) (tmp t) (min_rt sh now) (tfl t) (tres t))
  | 7%nat => let t' := mkT (tcall t) 0 (tot t) (tavg t) (tmp t) (trt t) (flying sh) (tres t) in
             match overload_factor (sthreshold sh) cpu2 with
             | None => (sh, at_pc t' 9)
             | Some f =>
               if q_ltb (reg_bound (sscale sh) t' f) (tavg t') &&
                  q_ltb (reg_bound (sscale sh) t' f) (inject_Z (tfl t'))
               then (sh, at_pc t' 8) else (sh, at_pc t' 9)
             end
  | 8%nat => (set_dropped sh true,
              mkT (tcall t) pc_done (tot t) (tavg t) (tmp t) (trt t) (tfl t) (Some RShed))
  | 9%nat => (set_flying sh (flying sh + 1) (avgFlying sh),
              mkT (tcall t) pc_done (tot t) (tavg t) (tmp t) (trt t) (tfl t) (Some RAdmit))
  | _ => (sh, t)
  end.

(* the promise of Allow thread [p]: Some start once it has been returned *)
Definition promise_of (ths : list thread) (p : nat) : option Z :=
  match nth_error ths p with
  | Some tp =>
    match tcall tp, tres tp with
    | CAllow now _ _, Some RAdmit => Some now
    | _, _ => None
    end
  | None => None
  end.

Definition resolve_act (sh : state) (t : thread) (start : Z) (pass_now : option Z) : state * thread :=
  match tpc t with
  | 0%nat => (set_flying sh (flying sh - 1) (avgFlying sh),
              mkT (tcall t) 1 (tot t) (tavg t) (tmp t) (trt t) (flying sh - 1) (tres t))
  | 1%nat => (set_flying sh (flying sh) (next_avg (avgFlying sh) (tfl t)),
              match pass_now with
              | Some _ => at_pc t 2
              | None => mkT (tcall t) pc_done (tot t) (tavg t) (tmp t) (trt t) (tfl t) (Some RDone)
              end)
  | 2%nat => match pass_now with
             | Some now => (set_windows sh (passCounter sh) (rw_add (rtCounter sh) now (ceil_ms (now - start))),
                            at_pc t 3)
             | None => (sh, t)
             end
  | 3%nat => match pass_now with
             | Some now => (set_windows sh (rw_add (passCounter sh) now 1) (rtCounter sh),
                            mkT (tcall t) pc_done (tot t) (tavg t) (tmp t) (trt t) (tfl t) (Some RDone))
             | None => (sh, t)
             end
  | _ => (sh, t)
  end.

Definition act (sh : state) (ths : list thread) (t : thread) : state * thread :=
  match tcall t with
  | CAllow now cpu1 cpu2 => allow_act sh t now cpu1 cpu2
  | CPass p now =>
    match promise_of ths p with
    | Some start => resolve_act sh t start (Some now)
    | None => (sh, t)          (* the caller does not hold the promise yet *)
    end
  | CFail p =>
    match promise_of ths p with
    | Some start => resolve_act sh t start None
    | None => (sh, t)
    end
  end.

Fixpoint upd_nth {A} (i : nat) (x : A) (l : list A) : list A :=
  match l, i with
  | [], _ => []
  | _ :: l', O => x :: l'
  | y :: l', S i' => y :: upd_nth i' x l'
  end.

Definition machine : Type := state * list thread.

Definition cstep (m : machine) (tid : nat) : machine :=
  match nth_error (snd m) tid with
  | None => m
  | Some t => let '(sh', t') := act (fst m) (snd m) t in (sh', upd_nth tid t' (snd m))
  end.

Definition crun (m : machine) (sched : list nat) : machine := fold_left cstep sched m.

Definition start (c : config) (t0 : Z) (calls : list call) : machine :=
  (init c t0, map fresh calls).

(* the promise a call resolves *)
Definition target (c : call) : option nat :=
  match c with CPass p _ | CFail p => Some p | CAllow _ _ _ => None end.

Fixpoint targets (calls : list call) : list nat :=
  match calls with
  | [] => []
  | c :: cs => match target c with Some p => p :: targets cs | None => targets cs end
  end.

(* observers *)
Definition is_granted (t : thread) : bool :=
  match tres t with Some RAdmit => true | _ => false end.
Definition has_decremented (t : thread) : bool :=
  match target (tcall t) with Some _ => (1 <=? tpc t)%nat | None => false end.
Definition countb {A} (f : A -> bool) (l : list A) : Z := Z.of_nat (length (filter f l)).
