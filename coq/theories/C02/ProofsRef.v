(* C02 — the reference computations used by Check.prop_ok are not an unproved oracle:
   on every history with non-decreasing pass times,

     Check.ref_peak_min (peak per-bucket pass count, minimum rounded average latency, computed
     from the bare list of completed passes (grid index, latency) without any ring buffer)
         = (maxPass(), minRt()) of the model's two rolling windows, and
     Check.ref_scale = the model's windowScale, hence
     max(1, peak x min latency x 10^6 / bucket duration) = the model's maxFlight();

   and the in-flight count / moving average that prop_ok recomputes are the ones of
   ProofsHist.hist_avg (the same fold, shown here on the nose). *)
From Coq Require Import List ZArith QArith Bool Lia.
From GZ Require Import Lib.RollingWindow Lib.RollingWindowSpec Lib.RollingWindowProofs
     C02.Model C02.Proofs C02.ProofsHist C02.Check.
Import ListNotations.
Open Scope Z_scope.

(* what prop_loop accumulates in [apass] for a chronological list of passes (time, latency) *)
Definition ref_passes (t0 iv : Z) (h : list (Z * Z)) : list (Z * Z) :=
  rev (map (fun p => (grid t0 iv (fst p), snd p)) h).

Lemma fold_left_snoc : forall {A B} (f : A -> B -> A) l x a, fold_left f (l ++ [x]) a = f (fold_left f l a) x.
Proof. intros. rewrite fold_left_app. reflexivity. Qed.

Lemma bsum_app : forall l1 l2, bsum (l1 ++ l2) = bsum l1 + bsum l2.
Proof.
  unfold bsum. induction l1 as [|x l1 IH]; intros l2; [reflexivity|].
  cbn [app fold_right]. rewrite IH. lia.
Qed.

Lemma vals_at_cons : forall t0 iv p h i,
  rw_vals_at t0 iv (p :: h) i = (if rw_idx t0 iv (fst p) =? i then [snd p] else []) ++ rw_vals_at t0 iv h i.
Proof.
  intros. unfold rw_vals_at. cbn [filter]. destruct (rw_idx t0 iv (fst p) =? i); reflexivity.
Qed.

(* per-bucket statistics of the reference = (count, sum) of the values of that interval *)
Lemma bucket_stats_vals : forall t0 iv h i,
  bucket_stats i (ref_passes t0 iv h) =
  (Z.of_nat (length (rw_vals_at t0 iv h i)), bsum (rw_vals_at t0 iv h i)).
Proof.
  intros t0 iv h i. induction h as [|p h IH]; [reflexivity|].
  unfold ref_passes, bucket_stats in *. cbn [map rev]. rewrite fold_left_snoc, IH.
  rewrite vals_at_cons. cbn [fst snd]. unfold grid, rw_idx.
  destruct ((fst p - t0) / iv =? i); cbn [app length].
  - rewrite Nat2Z.inj_succ. change ([snd p] ++ rw_vals_at t0 iv h i) with (snd p :: rw_vals_at t0 iv h i).
    unfold bsum. cbn [fold_right]. f_equal; lia.
  - reflexivity.
Qed.

(* the pair fold of ref_peak_min = the two folds of the model, bucket by bucket *)
Definition pm_step (t0 iv : Z) (ps : list (Z * Z)) (a : Z * Z) (i : Z) : Z * Z :=
  let '(n, sm) := bucket_stats i ps in
  (Z.max (fst a) n, if 0 <? n then Z.min (snd a) (round_div sm n) else snd a).

Lemma pm_fold_split : forall t0 iv h is a1 a2,
  fold_left (pm_step t0 iv (ref_passes t0 iv h)) is (a1, a2) =
  (fold_left (fun r b => Z.max r (bsum b)) (map (rw_vals_at t0 iv (pass_marks h)) is) a1,
   fold_left (fun r b => if bcount b <=? 0 then r else Z.min r (round_div (bsum b) (bcount b)))
             (map (rw_vals_at t0 iv h) is) a2).
Proof.
  intros t0 iv h is. induction is as [|i is IH]; intros a1 a2; [reflexivity|].
  cbn [fold_left map]. unfold pm_step at 2. rewrite bucket_stats_vals. cbn [fst snd].
  rewrite IH. rewrite marks_bucket. unfold bcount.
  destruct (rw_vals_at t0 iv h i) as [|v vs]; [reflexivity|].
  cbn [length]. rewrite Nat2Z.inj_succ.
  destruct (Z.ltb_spec 0 (Z.succ (Z.of_nat (length vs)))); [|lia].
  destruct (Z.leb_spec (Z.succ (Z.of_nat (length vs))) 0); [lia|]. reflexivity.
Qed.

(* the two index ranges *)
Lemma check_zrange_spec : forall n lo, Check.zrange lo n = RollingWindowSpec.zrange lo (lo + Z.of_nat n - 1).
Proof.
  induction n as [|n IH]; intros lo.
  - rewrite zrange_nil by lia. reflexivity.
  - cbn [Check.zrange]. rewrite zrange_cons by lia. f_equal. rewrite IH. f_equal. lia.
Qed.

Lemma zrange_split : forall n lo m hi, Z.to_nat (m + 1 - lo) = n -> lo <= m + 1 -> m <= hi ->
  RollingWindowSpec.zrange lo hi = RollingWindowSpec.zrange lo m ++ RollingWindowSpec.zrange (m + 1) hi.
Proof.
  induction n as [|n IH]; intros lo m hi Hn Hlo Hhi.
  - assert (lo = m + 1) by lia. subst lo. rewrite (zrange_nil (m + 1) m) by lia. reflexivity.
  - rewrite (zrange_cons lo hi) by lia. rewrite (zrange_cons lo m) by lia.
    cbn [app]. f_equal. apply IH; lia.
Qed.

(* empty buckets change neither fold *)
Lemma max_fold_empties : forall bs a, 0 <= a -> Forall (fun b => b = []) bs ->
  fold_left (fun r b => Z.max r (bsum b)) bs a = a.
Proof.
  induction bs as [|b bs IH]; intros a Ha Hall; [reflexivity|].
  inversion Hall as [|? ? Hb Hbs]; subst. cbn [fold_left bsum fold_right].
  rewrite Z.max_l by lia. apply IH; assumption.
Qed.

Lemma min_fold_empties : forall bs a, Forall (fun b => b = []) bs ->
  fold_left (fun r b => if bcount b <=? 0 then r else Z.min r (round_div (bsum b) (bcount b))) bs a = a.
Proof.
  induction bs as [|b bs IH]; intros a Hall; [reflexivity|].
  inversion Hall as [|? ? Hb Hbs]; subst. cbn [fold_left]. apply IH; assumption.
Qed.

Lemma vals_empty_after_last : forall t0 iv h lo hi, 0 < iv -> rw_mono t0 h ->
  rw_idx t0 iv (rw_last_time t0 h) < lo ->
  Forall (fun b => b = []) (map (rw_vals_at t0 iv h) (RollingWindowSpec.zrange lo hi)).
Proof.
  intros t0 iv h lo hi Hiv Hm Hl. apply Forall_forall. intros b Hb.
  apply in_map_iff in Hb. destruct Hb as (i & Hi & Hin). subst b.
  destruct (mono_bounds h t0 Hm) as [_ Hall].
  apply (vals_at_above t0 iv h (rw_last_time t0 h) i Hiv Hall).
  unfold RollingWindowSpec.zrange in Hin. apply in_map_iff in Hin. destruct Hin as (j & Hj & _). lia.
Qed.

(* folding over all of idx(now)-size+1 .. idx(now)-1 = folding over the part up to the last add *)
Lemma folds_over_spec_range : forall t0 iv h lo hi,
  0 < iv -> rw_mono t0 h ->
  let l := rw_idx t0 iv (rw_last_time t0 h) in
  max_pass_of (map (rw_vals_at t0 iv (pass_marks h)) (RollingWindowSpec.zrange lo hi)) =
  max_pass_of (map (rw_vals_at t0 iv (pass_marks h)) (RollingWindowSpec.zrange lo (Z.min l hi))) /\
  min_rt_of (map (rw_vals_at t0 iv h) (RollingWindowSpec.zrange lo hi)) =
  min_rt_of (map (rw_vals_at t0 iv h) (RollingWindowSpec.zrange lo (Z.min l hi))).
Proof.
  intros t0 iv h lo hi Hiv Hm l.
  destruct (Z.le_gt_cases hi l) as [Hle|Hgt]; [rewrite Z.min_r by lia; split; reflexivity|].
  rewrite Z.min_l by lia.
  set (m := Z.max l (lo - 1)).
  assert (Hsame : RollingWindowSpec.zrange lo l = RollingWindowSpec.zrange lo m).
  { unfold m. destruct (Z.le_gt_cases (lo - 1) l); [rewrite Z.max_l by lia; reflexivity|].
    rewrite Z.max_r by lia. rewrite !zrange_nil by lia. reflexivity. }
  rewrite Hsame.
  destruct (Z.le_gt_cases m hi) as [Hmh|Hmh].
  - rewrite (zrange_split (Z.to_nat (m + 1 - lo)) lo m hi eq_refl) by (unfold m; lia).
    rewrite !map_app. unfold max_pass_of, min_rt_of. rewrite !fold_left_app. split.
    + apply max_fold_empties.
      * pose proof (max_fold (map (rw_vals_at t0 iv (pass_marks h)) (RollingWindowSpec.zrange lo m)) 1) as (H1 & _). lia.
      * apply vals_empty_after_last; [exact Hiv|apply marks_mono; exact Hm|].
        rewrite marks_last. fold l. unfold m. lia.
    + apply min_fold_empties. apply vals_empty_after_last; [exact Hiv|exact Hm|]. fold l. unfold m. lia.
  - (* hi < lo - 1: both ranges are empty *)
    assert (hi < lo) by (unfold m in Hmh; lia).
    rewrite (zrange_nil lo hi) by lia. rewrite (zrange_nil lo m) by (unfold m in *; lia). split; reflexivity.
Qed.

(* ---- the reference peak / minimum latency are the model's maxPass / minRt ---- *)
Lemma ref_peak_min_core : forall c t0 ops now,
  cenabled c = true -> 1 <= cbuckets c -> 0 < bucket_duration c ->
  rw_mono t0 (passes (init c t0) ops) ->
  rw_last_time t0 (passes (init c t0) ops) <= now ->
  ref_peak_min c t0 now (ref_passes t0 (bucket_duration c) (passes (init c t0) ops)) =
  (max_pass (final (init c t0) ops) now, min_rt (final (init c t0) ops) now).
Proof.
  intros c t0 ops now Hen Hb Hiv Hm Hl.
  set (h := passes (init c t0) ops) in *. set (iv := bucket_duration c) in *.
  unfold max_pass, min_rt.
  destruct (windows_final ops (init c t0) Hen) as (Hp & Hr & _). fold h in Hp, Hr.
  rewrite Hp, Hr. cbn [init passCounter rtCounter]. fold iv.
  rewrite !reduce_visits_last_size_intervals; try assumption; try lia;
    [|apply marks_mono; exact Hm|rewrite marks_last; exact Hl].
  unfold rw_reduce_spec, rw_upper. rewrite marks_last.
  unfold ref_peak_min. fold iv. unfold grid. fold (rw_idx t0 iv now).
  set (n := rw_idx t0 iv now).
  change (fun (a : Z * Z) (i : Z) =>
            let '(n0, sm) := bucket_stats i (ref_passes t0 iv h) in
            (Z.max (fst a) n0, if 0 <? n0 then Z.min (snd a) (round_div sm n0) else snd a))
    with (pm_step t0 iv (ref_passes t0 iv h)).
  rewrite pm_fold_split, check_zrange_spec.
  replace (n - cbuckets c + 1 + Z.of_nat (Z.to_nat (cbuckets c - 1)) - 1) with (n - 1) by lia.
  rewrite Z2Nat.id by lia.
  destruct (folds_over_spec_range t0 iv h (n - cbuckets c + 1) (n - 1) Hiv Hm) as [H1 H2].
  unfold max_pass_of, min_rt_of in *. rewrite H1, H2. reflexivity.
Qed.

Lemma ref_scale_core : forall c, 0 < bucket_duration c -> (ref_scale c == window_scale c)%Q.
Proof.
  intros c H. destruct (window_scale_formula c H) as [E _]. rewrite E. reflexivity.
Qed.

Lemma at_least_proper : forall x y l, (x == y)%Q -> (at_least x l == at_least y l)%Q.
Proof.
  intros x y l E. unfold at_least, q_ltb.
  assert (Hb : Qle_bool l x = Qle_bool l y).
  { destruct (Qle_bool l x) eqn:E1; destruct (Qle_bool l y) eqn:E2; try reflexivity.
    - apply Qle_bool_iff in E1. rewrite E in E1. apply Qle_bool_iff in E1. congruence.
    - apply Qle_bool_iff in E2. rewrite <- E in E2. apply Qle_bool_iff in E2. congruence. }
  rewrite Hb. destruct (Qle_bool l y); cbn; [exact E|reflexivity].
Qed.

(* ---- the reference capacity is the model's capacity ---- *)
Lemma ref_capacity_core : forall c t0 ops now,
  cenabled c = true -> 1 <= cbuckets c -> 0 < bucket_duration c ->
  rw_mono t0 (passes (init c t0) ops) ->
  rw_last_time t0 (passes (init c t0) ops) <= now ->
  (at_least (ref_raw c (ref_peak_min c t0 now (ref_passes t0 (bucket_duration c) (passes (init c t0) ops)))) 1
   == capacity (final (init c t0) ops) now)%Q.
Proof.
  intros c t0 ops now Hen Hb Hiv Hm Hl.
  rewrite (ref_peak_min_core c t0 ops now Hen Hb Hiv Hm Hl).
  unfold capacity, max_flight, raw_flight, ref_raw. cbn [fst snd].
  destruct (windows_final ops (init c t0) Hen) as (_ & _ & Hs). rewrite Hs. cbn [init sscale].
  apply at_least_proper. rewrite (ref_scale_core c Hiv). reflexivity.
Qed.

(* ---- the in-flight count and the moving average recomputed by prop_loop are hist_avg ---- *)
Lemma ref_avg_is_next_avg : forall a fl, ref_avg a fl = next_avg a fl.
Proof. reflexivity. Qed.
