(* C02 — interleaving semantics: shed_when_saturated and idle_never_sheds for every
   set of concurrent calls and every schedule, stated on the values the thread read. *)
From Coq Require Import List ZArith QArith Bool Lia Arith.
From GZ Require Import Lib.RollingWindow C02.Model C02.Conc C02.Proofs C02.ProofsConc C02.ProofsConcHot.
Import ListNotations.
Open Scope Z_scope.

(* highThru answered "no" on the thread's registers *)
Definition decided_no (th : Z) (scale : Q) (t : thread) (cpu2 : Z) : Prop :=
  match overload_factor th cpu2 with
  | None => True
  | Some f => ~ ((reg_bound scale t f < tavg t)%Q /\ (reg_bound scale t f < inject_Z (tfl t))%Q)
  end.

(* what is known of an Allow thread: its result is a verdict, and if its CPU reading was
   at or above the threshold it went 0 -> 4 -> ... -> 7 and returned a promise only after
   highThru said no *)
Definition sat_ok (th : Z) (scale : Q) (t : thread) : Prop :=
  match tcall t with
  | CAllow _ c1 c2 =>
    (tres t = None \/ tres t = Some RShed \/ tres t = Some RAdmit) /\
    (th <= c1 ->
     (tpc t = 0 \/ 4 <= tpc t)%nat /\
     (tpc t = 9%nat \/ tres t = Some RAdmit -> decided_no th scale t c2))
  | _ => True
  end.

Lemma act_consts : forall sh ths t sh' t', act sh ths t = (sh', t') ->
  sthreshold sh' = sthreshold sh /\ sscale sh' = sscale sh.
Proof.
  intros sh ths t sh' t'. unfold act.
  destruct (tcall t) as [now c1 c2|p now|p].
  - unfold allow_act.
    destruct (tpc t) as [|[|[|[|[|[|[|[|[|[|n]]]]]]]]]];
      repeat match goal with
             | |- context [match overload_factor ?a ?b with _ => _ end] => destruct (overload_factor a b)
             | |- context [if ?b then _ else _] => destruct b
             end;
      intros H; injection H as <- <-; split; reflexivity.
  - destruct (promise_of ths p); [|intros H; injection H as <- <-; split; reflexivity].
    unfold resolve_act. destruct (tpc t) as [|[|[|[|n]]]]; intros H; injection H as <- <-; split; reflexivity.
  - destruct (promise_of ths p); [|intros H; injection H as <- <-; split; reflexivity].
    unfold resolve_act. destruct (tpc t) as [|[|[|[|n]]]]; intros H; injection H as <- <-; split; reflexivity.
Qed.

Lemma allow_act_sat : forall sh t now c1 c2 sh' t',
  tres t = None -> (tpc t <= 9)%nat -> sthreshold sh <= c1 ->
  (tpc t = 0 \/ 4 <= tpc t)%nat ->
  (tpc t = 9%nat -> decided_no (sthreshold sh) (sscale sh) t c2) ->
  allow_act sh t now c1 c2 = (sh', t') ->
  (tpc t' = 0 \/ 4 <= tpc t')%nat /\
  (tpc t' = 9%nat \/ tres t' = Some RAdmit -> decided_no (sthreshold sh) (sscale sh) t' c2).
Proof.
  intros sh t now c1 c2 sh' t' Hn Hle Hc Hpc Hdec. unfold allow_act, pc_done.
  destruct (tpc t) as [|[|[|[|[|[|[|[|[|[|n]]]]]]]]]] eqn:Epc; try lia.
  - (* 0 *)
    destruct (Z.leb_spec (sthreshold sh) c1) as [_|Hx]; [|lia].
    intros H; injection H as <- <-. cbn [tpc tres at_pc]. rewrite Hn.
    split; [lia|]. intros [Hx|Hx]; [lia|discriminate].
  - (* 4 *)
    intros H; injection H as <- <-. cbn [tpc tres]. rewrite Hn.
    split; [lia|]. intros [Hx|Hx]; [lia|discriminate].
  - (* 5 *)
    intros H; injection H as <- <-. cbn [tpc tres]. rewrite Hn.
    split; [lia|]. intros [Hx|Hx]; [lia|discriminate].
  - (* 6 *)
    intros H; injection H as <- <-. cbn [tpc tres]. rewrite Hn.
    split; [lia|]. intros [Hx|Hx]; [lia|discriminate].
  - (* 7: the decision *)
    destruct (overload_factor (sthreshold sh) c2) as [f|] eqn:Ef.
    + match goal with |- context [if ?b then _ else _] => destruct b eqn:Eb end;
        intros H; injection H as <- <-; cbn [tpc tres at_pc]; rewrite Hn.
      * split; [lia|]. intros [Hx|Hx]; [lia|discriminate].
      * split; [lia|]. intros _. unfold decided_no. rewrite Ef.
        intros [H1 H2]. apply q_ltb_lt in H1. apply q_ltb_lt in H2.
        unfold reg_bound, at_pc in *. cbn [tavg tmp trt tfl] in *.
        rewrite H1, H2 in Eb. discriminate.
    + intros H; injection H as <- <-; cbn [tpc tres at_pc]; rewrite Hn.
      split; [lia|]. intros _. unfold decided_no. rewrite Ef. exact I.
  - (* 8 *)
    intros H; injection H as <- <-. cbn [tpc tres].
    split; [lia|]. intros [Hx|Hx]; [lia|discriminate].
  - (* 9 *)
    intros H; injection H as <- <-. cbn [tpc tres].
    split; [lia|]. intros _.
    specialize (Hdec eq_refl). unfold decided_no, reg_bound in *. cbn [tavg tmp trt tfl]. exact Hdec.
Qed.

Lemma act_sat : forall sh ths t sh' t',
  lwf t -> sat_ok (sthreshold sh) (sscale sh) t -> act sh ths t = (sh', t') ->
  sat_ok (sthreshold sh) (sscale sh) t'.
Proof.
  intros sh ths t sh' t' Hl Hok Hact. unfold act in Hact.
  destruct (tcall t) as [now c1 c2|p now|p] eqn:Ec.
  - destruct (le_lt_dec (tpc t) 9) as [Hle|Hgt].
    + assert (Hn : tres t = None) by (unfold lwf in Hl; rewrite Ec in Hl; auto).
      destruct (allow_act_cases _ _ _ _ _ _ _ Hn Hle Hact) as (Hc & _ & Hcases).
      unfold sat_ok in *. rewrite Hc, Ec. rewrite Ec in Hok. destruct Hok as [_ Hs].
      split.
      * destruct Hcases as [(Hr & _)|[(Hr & _)|(Hr & _)]]; auto.
      * intros Hth. destruct (Hs Hth) as [Hp Hd].
        eapply allow_act_sat; eauto.
    + assert (E : (sh', t') = (sh, t)).
      { rewrite <- Hact. unfold allow_act.
        destruct (tpc t) as [|[|[|[|[|[|[|[|[|[|n]]]]]]]]]]; try lia; reflexivity. }
      injection E as -> ->. exact Hok.
  - destruct (promise_of ths p) as [st|].
    + destruct (resolve_act_scale _ _ _ _ _ _ Hact) as [_ Hc].
      unfold sat_ok. rewrite Hc, Ec. exact I.
    + injection Hact as <- <-. exact Hok.
  - destruct (promise_of ths p) as [st|].
    + destruct (resolve_act_scale _ _ _ _ _ _ Hact) as [_ Hc].
      unfold sat_ok. rewrite Hc, Ec. exact I.
    + injection Hact as <- <-. exact Hok.
Qed.

Definition sinv (th : Z) (scale : Q) (m : machine) : Prop :=
  sthreshold (fst m) = th /\ sscale (fst m) = scale /\ Forall (sat_ok th scale) (snd m).

Lemma cstep_sinv : forall th scale m tid, cinv m -> sinv th scale m -> sinv th scale (cstep m tid).
Proof.
  intros th scale [sh ths] tid [Hl _] (Hth & Hsc & Hall). unfold cstep. cbn [fst snd] in *.
  destruct (nth_error ths tid) as [t|] eqn:E; [|repeat split; assumption].
  destruct (act sh ths t) as [sh' t'] eqn:Ea. subst th scale.
  destruct (act_consts _ _ _ _ _ Ea) as [Hth' Hsc'].
  pose proof (act_sat _ _ _ _ _ (nth_error_Forall _ _ _ _ Hl E) (nth_error_Forall _ _ _ _ Hall E) Ea) as Hs.
  unfold sinv. cbn [fst snd]. split; [exact Hth'|]. split; [exact Hsc'|].
  apply Forall_upd_nth; assumption.
Qed.

Lemma crun_sinv : forall th scale sched m, cinv m -> sinv th scale m -> sinv th scale (crun m sched).
Proof.
  induction sched as [|tid sched IH]; intros m H S; [exact S|].
  cbn [crun fold_left]. apply IH; [apply cstep_inv; exact H|apply cstep_sinv; assumption].
Qed.

Lemma start_sinv : forall c t0 calls, sinv (cthreshold c) (window_scale c) (start c t0 calls).
Proof.
  intros c t0 calls. split; [reflexivity|]. split; [reflexivity|]. cbn [start snd].
  rewrite Forall_forall. intros t Ht. apply in_map_iff in Ht. destruct Ht as [cl [E _]]. subst t.
  unfold sat_ok. cbn [fresh tcall tpc tres]. destruct cl; auto.
  split; [left; reflexivity|]. intros _. split; [left; reflexivity|].
  intros [Hx|Hx]; discriminate.
Qed.

(* shed_when_saturated for every set of concurrent calls and every schedule: an Allow
   thread that has returned, whose CPU reading was at or above the threshold and whose
   registers (flying and avgFlying as it read them) exceed the capacity computed from the
   maxPass / minRt it read, has returned ErrServiceOverloaded *)
Lemma conc_saturated_core : forall c t0 calls sched i t now cpu1 cpu2 r,
  nth_error (snd (crun (start c t0 calls) sched)) i = Some t ->
  tcall t = CAllow now cpu1 cpu2 -> tres t = Some r ->
  cthreshold c <= cpu1 ->
  ~ (cthreshold c = cpuMax /\ cpu2 = cpuMax) ->
  (reg_capacity (window_scale c) t < inject_Z (tfl t))%Q ->
  (reg_capacity (window_scale c) t < tavg t)%Q ->
  r = RShed.
Proof.
  intros c t0 calls sched i t now cpu1 cpu2 r Hi Hc Hr Hth Hnan Hfl Havg.
  destruct (crun_sinv (cthreshold c) (window_scale c) sched _ (start_inv c t0 calls) (start_sinv c t0 calls))
    as (_ & _ & Hall).
  pose proof (nth_error_Forall _ _ _ _ Hall Hi) as Hok.
  unfold sat_ok in Hok. rewrite Hc in Hok. destruct Hok as [Hres Hs].
  destruct Hres as [Hx|[Hx|Hx]]; [congruence|congruence|].
  exfalso. destruct (Hs Hth) as [_ Hd]. specialize (Hd (or_intror Hx)).
  unfold decided_no in Hd. destruct (factor_defined _ _ Hnan) as [f Hf]. rewrite Hf in Hd.
  destruct (factor_range _ _ _ Hf) as [_ Hhi].
  assert (Hle : (reg_bound (window_scale c) t f <= reg_capacity (window_scale c) t)%Q).
  { unfold reg_bound, reg_capacity.
    pose proof (at_least_ge (inject_Z (tmp t) * inject_Z (trt t) * window_scale c) 1) as H1.
    set (A := at_least (inject_Z (tmp t) * inject_Z (trt t) * window_scale c) 1) in *.
    rewrite <- (Qmult_1_r A) at 2. rewrite !(Qmult_comm A).
    apply Qmult_le_compat_r; [exact Hhi|]. eapply Qle_trans; [|exact H1]. discriminate. }
  apply Hd. split; eapply Qle_lt_trans; eauto.
Qed.

(* idle_never_sheds for every schedule: a thread that was shed read a positive in-flight
   count (equivalently: a thread that read flying <= 0 is never shed) *)
Lemma conc_idle_core : forall c t0 calls sched i t now cpu1 cpu2,
  nth_error (snd (crun (start c t0 calls) sched)) i = Some t ->
  tcall t = CAllow now cpu1 cpu2 -> tfl t <= 0 -> tres t <> Some RShed.
Proof.
  intros c t0 calls sched i t now cpu1 cpu2 Hi Hc Hidle Hr.
  destruct (conc_shed_only_loaded_core c t0 calls sched i t now cpu1 cpu2 Hi Hc Hr) as [Hfl _].
  pose proof (at_least_ge (inject_Z (tmp t) * inject_Z (trt t) * window_scale c) 1) as H1.
  fold (reg_capacity (window_scale c) t) in H1.
  assert (H0 : (0 < overloadFactorLowerBound * reg_capacity (window_scale c) t)%Q).
  { apply Qmult_lt_0_compat; [reflexivity|]. eapply Qlt_le_trans; [|exact H1]. reflexivity. }
  assert (Hz : (inject_Z (tfl t) <= 0)%Q).
  { change 0%Q with (inject_Z 0). rewrite <- Zle_Qle. exact Hidle. }
  apply (Qlt_irrefl 0). eapply Qlt_le_trans; [exact H0|].
  eapply Qle_trans; [apply Qlt_le_weak; exact Hfl|exact Hz].
Qed.
