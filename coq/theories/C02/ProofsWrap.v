(* C02 — proofs about the wrappers (C02/Wrap.v). *)
From Coq Require Import List ZArith Bool Lia.
From GZ Require Import Lib.RollingWindow C02.Model C02.Proofs C02.Wrap.
Import ListNotations.
Open Scope Z_scope.

Lemma count_res_total : forall r, r <> ResNone -> count_res ResPass r + count_res ResFail r = 1.
Proof. intros [] H; try reflexivity. congruence. Qed.

Lemma rest_resolution_some : forall o, rest_resolution o <> ResNone.
Proof. intros o. unfold rest_resolution. destruct (_ =? _); discriminate. Qed.

Lemma rpc_resolution_some : forall o, rpc_resolution o <> ResNone.
Proof. intros []; discriminate. Qed.

(* every let-in request runs the handler once and resolves its promise exactly once,
   whatever the handler does (writes nothing, several codes, panics); a shed one resolves nothing *)
Lemma rest_once : forall v o,
  (v = VGrant -> wr_runs (rest_wrap v o) = 1 /\ wr_pass (rest_wrap v o) + wr_fail (rest_wrap v o) = 1) /\
  (v = VShed -> wr_pass (rest_wrap v o) + wr_fail (rest_wrap v o) = 0).
Proof.
  intros [] o; split; intros H; try discriminate; cbn.
  - split; [reflexivity|]. apply count_res_total. apply rest_resolution_some.
  - reflexivity.
Qed.

Lemma rpc_once : forall v o,
  (v = VGrant -> wr_runs (rpc_wrap v o) = 1 /\ wr_pass (rpc_wrap v o) + wr_fail (rpc_wrap v o) = 1) /\
  (v = VShed -> wr_pass (rpc_wrap v o) + wr_fail (rpc_wrap v o) = 0).
Proof.
  intros [] o; split; intros H; try discriminate; cbn.
  - split; [reflexivity|]. apply count_res_total. apply rpc_resolution_some.
  - reflexivity.
Qed.

Lemma rest_shed : forall o,
  wr_runs (rest_wrap VShed o) = 0 /\ wr_visible (rest_wrap VShed o) = VisStatus overloadStatus /\
  wr_panics (rest_wrap VShed o) = false.
Proof. intros. repeat split. Qed.

Lemma rpc_shed : forall o,
  wr_runs (rpc_wrap VShed o) = 0 /\ wr_visible (rpc_wrap VShed o) = VisExhausted /\
  wr_panics (rpc_wrap VShed o) = false.
Proof. intros. repeat split. Qed.

(* which way: Fail exactly for the overload-class outcomes *)
Lemma rest_fail_iff : forall o,
  wr_fail (rest_wrap VGrant o) = 1 <-> last_code (ro_codes o) = overloadStatus.
Proof.
  intros o. cbn. unfold rest_resolution.
  destruct (Z.eqb_spec (last_code (ro_codes o)) overloadStatus); cbn; split; intros; auto; try lia; congruence.
Qed.

Lemma rpc_fail_iff : forall o,
  wr_fail (rpc_wrap VGrant o) = 1 <-> (o = GDeadline \/ o = GWrappedDeadline).
Proof.
  intros []; cbn; split; intros H; auto; try lia; destruct H; discriminate.
Qed.

(* the handler's own result reaches the caller unchanged *)
Lemma rpc_transparent : forall o, wr_visible (rpc_wrap VGrant o) = VisRpc o.
Proof. reflexivity. Qed.

(* ------------------------------------------------------------------ *)
(* wrapped requests against the shedder model                           *)

Lemma step_allow_prom : forall s now c1 c2 s1,
  senabled s = true -> step s (OAllow now c1 c2) = (s1, RAdmit) ->
  senabled s1 = true /\ prom_start (nextId s) (proms s1) = Some now.
Proof.
  intros s now c1 c2 s1 Hen. unfold step, step0. rewrite Hen.
  destruct (allow s now c1 c2) as [s' r] eqn:Ea.
  destruct (allow_state _ _ _ _ _ _ Ea) as (He & _ & _ & _ & _ & _ & _ & Hcase & _).
  intros H. injection H as <- ->. cbn [bump senabled proms].
  split; [congruence|].
  destruct Hcase as [(Hr & _)|(_ & _ & Hp & _)]; [discriminate|].
  rewrite Hp. unfold prom_start. cbn [find fst snd]. rewrite Z.eqb_refl. reflexivity.
Qed.

Lemma resolve_done : forall s id st fin,
  senabled s = true -> prom_start id (proms s) = Some st ->
  snd (step s (OPass id fin)) = RDone /\ snd (step s (OFail id)) = RDone.
Proof.
  intros s id st fin Hen Hp. unfold step, step0, pass, fail. rewrite Hen, Hp. split; reflexivity.
Qed.

Lemma serve_flying : forall s now c1 c2 fin rs,
  senabled s = true -> rs <> ResNone ->
  flying (fst (serve s now c1 c2 fin rs)) = flying s /\ senabled (fst (serve s now c1 c2 fin rs)) = true.
Proof.
  intros s now c1 c2 fin rs Hen Hrs. unfold serve.
  pose proof (step_flying s (OAllow now c1 c2) Hen) as Hf.
  pose proof (step_enabled s (OAllow now c1 c2)) as He.
  destruct (step s (OAllow now c1 c2)) as [s1 r] eqn:E. cbn [fst snd] in *.
  assert (Hres : r = RShed \/ r = RAdmit).
  { assert (r = snd (step s (OAllow now c1 c2))) by (rewrite E; reflexivity). subst r.
    rewrite step_allow_snd by exact Hen. apply allow_res. }
  destruct Hres as [->| ->].
  - cbn [fst]. split; [lia|congruence].
  - destruct (step_allow_prom _ _ _ _ _ Hen E) as [He1 Hp].
    destruct (resolve_done s1 (nextId s) now fin He1 Hp) as [Hd1 Hd2].
    destruct rs; [congruence| |]; cbn [fst].
    + rewrite step_flying by exact He1. rewrite Hd1. rewrite step_enabled. split; [lia|exact He1].
    + rewrite step_flying by exact He1. rewrite Hd2. rewrite step_enabled. split; [lia|exact He1].
Qed.

Lemma serve_all_flying : forall qs s,
  senabled s = true -> Forall (fun q => q_res q <> ResNone) qs ->
  flying (serve_all s qs) = flying s.
Proof.
  induction qs as [|q qs IH]; intros s Hen Hall; [reflexivity|].
  inversion Hall; subst. unfold serve_all. cbn [fold_left].
  destruct (serve_flying s (q_now q) (q_cpu1 q) (q_cpu2 q) (q_fin q) (q_res q) Hen H1) as [Hf He].
  fold (serve_all (fst (serve s (q_now q) (q_cpu1 q) (q_cpu2 q) (q_fin q) (q_res q))) qs).
  rewrite IH by assumption. exact Hf.
Qed.

(* ------------------------------------------------------------------ *)
(* ShedderGroup                                                         *)

Lemma first_index_sound : forall keys k i, In k keys ->
  i <= first_index k keys i /\ nth_error keys (Z.to_nat (first_index k keys i - i)) = Some k.
Proof.
  induction keys as [|k' ks IH]; intros k i Hin; [destruct Hin|].
  cbn [first_index]. destruct (Z.eqb_spec k' k) as [->|Hne].
  - split; [lia|]. rewrite Z.sub_diag. reflexivity.
  - destruct Hin as [Hx|Hin]; [congruence|].
    destruct (IH k (i + 1) Hin) as [Hle Hn]. split; [lia|].
    replace (Z.to_nat (first_index k ks (i + 1) - i)) with (S (Z.to_nat (first_index k ks (i + 1) - (i + 1)))) by lia.
    exact Hn.
Qed.

Lemma group_same_iff : forall keys k1 k2, In k1 keys -> In k2 keys ->
  (first_index k1 keys 0 = first_index k2 keys 0 <-> k1 = k2).
Proof.
  intros keys k1 k2 H1 H2. split; [|intros ->; reflexivity].
  intros E. destruct (first_index_sound keys k1 0 H1) as [_ N1].
  destruct (first_index_sound keys k2 0 H2) as [_ N2]. rewrite E in N1. congruence.
Qed.
