(* C02 — "shedding was already in progress", as a function of the history alone.

   The property lets a request be shed under a CPU reading below the threshold only when the CPU
   "was [at or above the threshold] at an Allow within the preceding second while shedding was already
   in progress".  The weak reading (Props.shed_only_if_hot_and_loaded_in_history) is "some earlier
   request was shed".  The code means more: a shedding episode starts with a shed request and ENDS at
   the first Allow that reads a CPU below the threshold at least coolOffDuration after the last Allow
   that read it at or above (stillHot() resets droppedRecently there).  [episode] computes, from the
   operations and their results alone,
     (the clock reading of the last Allow whose CPU reading was at or above the threshold, 0 if none;
      whether an episode is open),
   ([episode], [episode_step] and [hot_ref] are defined in C02/Check.v: prop_ok judges observed histories with them.)
   [episode_core] shows that this is exactly what the shedder keeps in overloadTime / droppedRecently
   after every history, and [shed_only_episode_core] is direction 1 of the property with the strong
   reading, for the k-th operation of every history. *)
From Coq Require Import List ZArith QArith Bool Lia.
From GZ Require Import Lib.RollingWindow C02.Model C02.Proofs C02.ProofsHist C02.Check.
Import ListNotations.
Open Scope Z_scope.

Lemma step_episode : forall s o, senabled s = true ->
  (overloadTime (fst (step s o)), droppedRecently (fst (step s o))) =
  episode_step (sthreshold s) (overloadTime s, droppedRecently s) o (snd (step s o)).
Proof.
  intros s o Hen. unfold step, step0. rewrite Hen.
  destruct o as [now c1 c2|id now|id].
  - unfold allow, should_drop, hot_check, system_overloaded, still_hot, episode_step. cbn [fst snd].
    destruct (Z.leb_spec (sthreshold s) c1) as [Hth|Hth].
    + cbn [set_overload]. unfold allow_finish. cbn [andb].
      destruct (high_thru _ now c2); cbn; rewrite ?orb_true_r, ?orb_false_r; reflexivity.
    + destruct (droppedRecently s) eqn:Ed; cbn [negb andb].
      * destruct (Z.eqb_spec (overloadTime s) 0) as [E0|E0]; cbn [negb andb].
        -- unfold allow_finish. cbn. rewrite Ed. reflexivity.
        -- destruct (Z.ltb_spec (now - overloadTime s) coolOffDuration) as [Hc|Hc];
           destruct (Z.leb_spec coolOffDuration (now - overloadTime s)) as [Hc'|Hc']; try lia.
           ++ unfold allow_finish. cbn [andb].
              destruct (high_thru s now c2); cbn; rewrite ?Ed; reflexivity.
           ++ unfold allow_finish. cbn. reflexivity.
      * unfold allow_finish. cbn. rewrite Ed. reflexivity.
  - unfold pass. destruct (prom_start id (proms s)); reflexivity.
  - unfold fail. destruct (prom_start id (proms s)); reflexivity.
Qed.

Lemma episode_core : forall ops s, senabled s = true ->
  (overloadTime (final s ops), droppedRecently (final s ops)) =
  episode (sthreshold s) (overloadTime s, droppedRecently s) ops (run s ops).
Proof.
  induction ops as [|o ops IH]; intros s Hen; [reflexivity|].
  cbn [final run]. pose proof (step_episode s o Hen) as Hs.
  destruct (step s o) as [s' r] eqn:E. cbn [fst snd] in *.
  assert (Hen' : senabled s' = true).
  { pose proof (step_enabled s o) as H. rewrite E in H. cbn in H. congruence. }
  assert (Hth' : sthreshold s' = sthreshold s).
  { pose proof (step_threshold s o) as H. rewrite E in H. exact H. }
  cbn [episode]. rewrite IH by exact Hen'. rewrite Hth', Hs. reflexivity.
Qed.

Lemma episode_init : forall c t0 ops, cenabled c = true ->
  (overloadTime (final (init c t0) ops), droppedRecently (final (init c t0) ops)) =
  episode (cthreshold c) (0, false) ops (run (init c t0) ops).
Proof. intros c t0 ops H. rewrite (episode_core ops (init c t0) H). reflexivity. Qed.

(* direction 1 with the strong reading: the k-th operation of a history is shed only if its own CPU reading
   is at or above the threshold, or an episode is open after the first k operations and the last Allow
   that read the CPU at or above the threshold did so less than coolOffDuration ago *)
Lemma shed_only_episode_core : forall c t0 ops k now cpu1 cpu2,
  cenabled c = true ->
  nth_error ops k = Some (OAllow now cpu1 cpu2) ->
  nth_error (run (init c t0) ops) k = Some RShed ->
  let e := episode (cthreshold c) (0, false) (firstn k ops) (firstn k (run (init c t0) ops)) in
  cthreshold c <= cpu1 \/ (snd e = true /\ fst e <> 0 /\ now - fst e < coolOffDuration).
Proof.
  intros c t0 ops k now cpu1 cpu2 Hen Hk Hshed e.
  assert (Hs : snd (step (final (init c t0) (firstn k ops)) (OAllow now cpu1 cpu2)) = RShed).
  { pose proof (run_nth k ops (init c t0) _ Hk) as Hn. rewrite Hn in Hshed.
    injection Hshed as Hx. exact Hx. }
  assert (Hen' : senabled (final (init c t0) (firstn k ops)) = true) by (rewrite final_enabled; exact Hen).
  rewrite step_allow_snd in Hs by exact Hen'.
  apply allow_shed_iff in Hs. destruct Hs as [Hhot _].
  rewrite final_threshold in Hhot. cbn [init sthreshold] in Hhot.
  pose proof (episode_init c t0 (firstn k ops) Hen) as He.
  rewrite run_firstn in He. fold e in He.
  destruct Hhot as [H|(Hd & Ho & Hc)]; [left; exact H|right].
  assert (E1 : fst e = overloadTime (final (init c t0) (firstn k ops))) by (rewrite <- He; reflexivity).
  assert (E2 : snd e = droppedRecently (final (init c t0) (firstn k ops))) by (rewrite <- He; reflexivity).
  rewrite E1, E2. auto.
Qed.

(* the converse for the "hot" half: when an episode is open (and the cool-off is not over) or the CPU reading is
   at or above the threshold, and the in-flight count and its average exceed the whole capacity, Allow sheds *)
Lemma episode_open_means_hot : forall c t0 pre now cpu1,
  cenabled c = true ->
  let e := episode (cthreshold c) (0, false) pre (run (init c t0) pre) in
  snd (hot_check (final (init c t0) pre) now cpu1) = true <->
  (cthreshold c <= cpu1 \/ (snd e = true /\ fst e <> 0 /\ now - fst e < coolOffDuration)).
Proof.
  intros c t0 pre now cpu1 Hen e.
  pose proof (episode_init c t0 pre Hen) as He. fold e in He.
  destruct (hot_check (final (init c t0) pre) now cpu1) as [s1 h] eqn:E.
  destruct (hot_check_spec _ _ _ _ _ E) as (_ & _ & _ & _ & _ & _ & _ & _ & _ & Hh & _).
  rewrite final_threshold in Hh. cbn [init sthreshold] in Hh. cbn [snd].
  assert (E1 : fst e = overloadTime (final (init c t0) pre)) by (rewrite <- He; reflexivity).
  assert (E2 : snd e = droppedRecently (final (init c t0) pre)) by (rewrite <- He; reflexivity).
  rewrite E1, E2. exact Hh.
Qed.

(* what Check.check_allow asks of a shed request: exactly the "hot" half of the property *)
Lemma hot_ref_spec : forall th e now c1,
  hot_ref th e now c1 = true <->
  (th <= c1 \/ (snd e = true /\ fst e <> 0 /\ now - fst e < coolOffDuration)).
Proof.
  intros th e now c1. unfold hot_ref.
  rewrite orb_true_iff, !andb_true_iff, negb_true_iff, Z.leb_le, Z.eqb_neq, Z.ltb_lt. tauto.
Qed.

(* the judge's clause is the model's: on the model's own run of any history, the k-th operation is shed only
   if [hot_ref] holds of the episode computed from the first k operations and their results *)
Lemma shed_only_hot_ref_core : forall c t0 ops k now cpu1 cpu2,
  cenabled c = true ->
  nth_error ops k = Some (OAllow now cpu1 cpu2) ->
  nth_error (run (init c t0) ops) k = Some RShed ->
  hot_ref (cthreshold c) (episode (cthreshold c) (0, false) (firstn k ops) (firstn k (run (init c t0) ops))) now cpu1 = true.
Proof.
  intros c t0 ops k now cpu1 cpu2 Hen Hk Hs. apply hot_ref_spec.
  exact (shed_only_episode_core c t0 ops k now cpu1 cpu2 Hen Hk Hs).
Qed.
