(* C02 — history-level forms of the theorems.

   - the moving average kept by the shedder IS the exponential moving average of the in-flight
     count sampled at every resolution (Pass and Fail alike), as a function of the results of
     the history alone ([hist_avg]);
   - the two directions of the property for the k-th operation of ANY history, with the
     in-flight count expressed as "promises handed out minus promises resolved" and the
     average expressed by [hist_avg] - nothing in the hypotheses mentions the shedder's
     internal fields;
   - the per-bucket -> per-second scaling (windowScale) as a formula in the configuration. *)
From Coq Require Import List ZArith QArith Bool Lia.
From GZ Require Import Lib.RollingWindow C02.Model C02.Proofs.
Import ListNotations.
Open Scope Z_scope.

(* ---- the in-flight count and its moving average, from the results alone ---- *)
Fixpoint hist_avg (fl : Z) (a : Q) (rs : list res) : Z * Q :=
  match rs with
  | [] => (fl, a)
  | RAdmit :: rs' => hist_avg (fl + 1) a rs'
  | RDone :: rs' => hist_avg (fl - 1) (next_avg a (fl - 1)) rs'
  | _ :: rs' => hist_avg fl a rs'
  end.

Lemma step_avg : forall s o, senabled s = true ->
  avgFlying (fst (step s o)) =
  match snd (step s o) with RDone => next_avg (avgFlying s) (flying s - 1) | _ => avgFlying s end.
Proof.
  intros s o H. unfold step, step0. rewrite H.
  destruct o as [now c1 c2|id now|id].
  - destruct (allow s now c1 c2) as [s' r] eqn:Ea.
    destruct (allow_state _ _ _ _ _ _ Ea) as (_ & _ & _ & _ & _ & _ & Ha & Hcase & _).
    cbn. destruct Hcase as [(Hr & _)|(Hr & _)]; subst r; exact Ha.
  - unfold pass. destruct (prom_start id (proms s)); cbn; reflexivity.
  - unfold fail. destruct (prom_start id (proms s)); cbn; reflexivity.
Qed.

Lemma hist_avg_core : forall ops s, senabled s = true ->
  (flying (final s ops), avgFlying (final s ops)) = hist_avg (flying s) (avgFlying s) (run s ops).
Proof.
  induction ops as [|o ops IH]; intros s H; [reflexivity|].
  cbn [final run].
  pose proof (step_flying s o H) as Hf. pose proof (step_avg s o H) as Ha.
  pose proof (step_enabled s o) as He.
  destruct (step s o) as [s' r]. cbn [fst snd] in *.
  rewrite IH by congruence. rewrite Hf, Ha.
  destruct r; cbn [hist_avg]; rewrite ?Z.add_0_r; reflexivity.
Qed.

Lemma hist_avg_init : forall c t0 ops, cenabled c = true ->
  (flying (final (init c t0) ops), avgFlying (final (init c t0) ops)) = hist_avg 0 0%Q (run (init c t0) ops).
Proof. intros c t0 ops H. apply (hist_avg_core ops (init c t0)). exact H. Qed.

(* ---- prefixes ---- *)
Lemma run_firstn : forall k ops s, run s (firstn k ops) = firstn k (run s ops).
Proof.
  induction k as [|k IH]; intros ops s; [reflexivity|].
  destruct ops as [|o ops]; [reflexivity|].
  cbn [firstn run]. destruct (step s o) as [s' r] eqn:E. cbn [firstn]. rewrite IH. reflexivity.
Qed.

Lemma run_nth : forall k ops s o, nth_error ops k = Some o ->
  nth_error (run s ops) k = Some (snd (step (final s (firstn k ops)) o)).
Proof.
  induction k as [|k IH]; intros ops s o H; destruct ops as [|o' ops]; try discriminate.
  - cbn in H. inversion H; subst. cbn [run firstn final]. destruct (step s o); reflexivity.
  - cbn [nth_error] in H. cbn [run firstn final].
    destruct (step s o') as [s' r] eqn:E. cbn [nth_error fst].
    apply IH. exact H.
Qed.

Lemma nth_firstn_lt : forall {A} k (l : list A) i, (i < k)%nat -> nth_error (firstn k l) i = nth_error l i.
Proof.
  induction k as [|k IH]; intros l i H; [lia|].
  destruct l as [|x l]; [reflexivity|]. destruct i as [|i]; [reflexivity|].
  cbn [firstn nth_error]. apply IH. lia.
Qed.

(* ---- direction 2 of the property, for the k-th operation of any history ----
   [pre] = the operations before it, [rs] = their results;
   in flight   = promises handed out - promises resolved (each at most once),
   its average = the moving average of that count over the resolutions,
   capacity    = the code's estimate at [now] (Props.capacity_def says what it is). *)
Lemma saturated_history_core : forall c t0 ops k now cpu1 cpu2,
  cenabled c = true ->
  nth_error ops k = Some (OAllow now cpu1 cpu2) ->
  let pre := firstn k ops in
  let rs := run (init c t0) pre in
  NoDup (resolved pre rs) ->
  cthreshold c <= cpu1 ->
  ~ (cthreshold c = cpuMax /\ cpu2 = cpuMax) ->
  (capacity (final (init c t0) pre) now
   < inject_Z (Z.of_nat (length (granted 0 rs)) - Z.of_nat (length (resolved pre rs))))%Q ->
  (capacity (final (init c t0) pre) now < snd (hist_avg 0 0%Q rs))%Q ->
  nth_error (run (init c t0) ops) k = Some RShed.
Proof.
  intros c t0 ops k now cpu1 cpu2 Hen Hk pre rs Hnd Hc Hnan Hfl Havg.
  rewrite (run_nth k ops (init c t0) _ Hk). f_equal. fold pre.
  destruct (conservation_wf_core c t0 pre Hen Hnd) as (_ & Hcons & _). fold rs in Hcons.
  pose proof (hist_avg_init c t0 pre Hen) as Hh. fold rs in Hh.
  apply shed_when_saturated_core; try assumption.
  - rewrite Hcons. exact Hfl.
  - replace (avgFlying (final (init c t0) pre)) with (snd (hist_avg 0 0%Q rs)); [exact Havg|].
    rewrite <- Hh. reflexivity.
Qed.

(* ---- direction 1, for the k-th operation of any history ---- *)
Lemma shed_only_history_core : forall c t0 ops k now cpu1 cpu2,
  cenabled c = true ->
  nth_error ops k = Some (OAllow now cpu1 cpu2) ->
  nth_error (run (init c t0) ops) k = Some RShed ->
  let pre := firstn k ops in
  let rs := run (init c t0) pre in
  (cthreshold c <= cpu1 \/
   ((exists i, (i < k)%nat /\ nth_error (run (init c t0) ops) i = Some RShed) /\
    (exists j tj cj cj2, (j < k)%nat /\ nth_error ops j = Some (OAllow tj cj cj2) /\
                         cthreshold c <= cj /\ now - tj < coolOffDuration))) /\
  (overloadFactorLowerBound * capacity (final (init c t0) pre) now
   < inject_Z (count RAdmit rs - count RDone rs))%Q /\
  (overloadFactorLowerBound * capacity (final (init c t0) pre) now < snd (hist_avg 0 0%Q rs))%Q.
Proof.
  intros c t0 ops k now cpu1 cpu2 Hen Hk Hshed pre rs.
  assert (Hs : snd (step (final (init c t0) pre) (OAllow now cpu1 cpu2)) = RShed).
  { pose proof (run_nth k ops (init c t0) _ Hk) as Hn. rewrite Hn in Hshed.
    injection Hshed as Hx. exact Hx. }
  clear Hshed.
  destruct (shed_only_core c t0 pre now cpu1 cpu2 Hen Hs) as (Hhot & Hfl & Havg).
  pose proof (hist_avg_init c t0 pre Hen) as Hh. fold rs in Hh.
  split; [|split].
  - destruct Hhot as [Hc|[(i & Hi) (j & tj & cj & cj2 & Hj & Hcj & Htj)]]; [left; exact Hc|right].
    assert (Hlen : (length pre <= k)%nat) by (unfold pre; apply firstn_le_length).
    split.
    + exists i. fold rs in Hi.
      assert (Hik : (i < length rs)%nat) by (apply nth_error_Some; congruence).
      unfold rs in Hik. rewrite run_length in Hik.
      assert (Hi' : (i < k)%nat) by lia.
      split; [exact Hi'|].
      unfold rs, pre in Hi. rewrite run_firstn in Hi.
      rewrite nth_firstn_lt in Hi by exact Hi'. exact Hi.
    + exists j, tj, cj, cj2.
      assert (Hjk : (j < length pre)%nat) by (apply nth_error_Some; congruence).
      assert (Hj' : (j < k)%nat) by lia.
      split; [exact Hj'|]. split; [|split; assumption].
      unfold pre in Hj. rewrite nth_firstn_lt in Hj by exact Hj'. exact Hj.
  - pose proof (conservation_core pre (init c t0) Hen) as Hc. cbn [init flying] in Hc. fold rs in Hc.
    rewrite Z.add_0_l in Hc. rewrite <- Hc. exact Hfl.
  - replace (snd (hist_avg 0 0%Q rs)) with (avgFlying (final (init c t0) pre)); [exact Havg|].
    rewrite <- Hh. reflexivity.
Qed.

(* ---- windowScale: buckets per second / milliseconds per second = 10^6 / bucket duration ---- *)
Lemma window_scale_formula : forall c, 0 < bucket_duration c ->
  (window_scale c == inject_Z (nsPerSecond / millisecondsPerSecond) / inject_Z (bucket_duration c))%Q /\
  (window_scale c * inject_Z millisecondsPerSecond * inject_Z (bucket_duration c) == inject_Z nsPerSecond)%Q.
Proof.
  intros c H. unfold window_scale.
  assert (Hb : ~ (inject_Z (bucket_duration c) == 0)%Q).
  { intros E. unfold Qeq in E. cbn in E. lia. }
  split.
  - change (nsPerSecond / millisecondsPerSecond) with 1000000.
    change nsPerSecond with 1000000000. change millisecondsPerSecond with 1000.
    field. exact Hb.
  - change nsPerSecond with 1000000000. change millisecondsPerSecond with 1000.
    field. exact Hb.
Qed.

(* ---- "resolved once" as a hypothesis on the CALLER alone ----
   [res_ids ops]: the promise named by every Pass / Fail operation of the history, in order.  If no
   promise is named twice (what SheddingHandler and the zRPC interceptor guarantee: one deferred
   resolution per Allow - Props.wrapper_resolves_exactly_once), then whatever the interleaving of
   the requests' Allow and Pass / Fail operations, flying is the number of promises handed out and
   not yet resolved, and it is never negative. *)
Fixpoint res_ids (ops : list op) : list Z :=
  match ops with
  | [] => []
  | OPass id _ :: ops' | OFail id :: ops' => id :: res_ids ops'
  | _ :: ops' => res_ids ops'
  end.

Lemma resolved_in_ids : forall ops rs x, In x (resolved ops rs) -> In x (res_ids ops).
Proof.
  induction ops as [|o ops IH]; intros rs x H; [destruct rs; contradiction|].
  destruct rs as [|r rs]; [destruct o; contradiction|].
  destruct o as [now c1 c2|id now|id]; destruct r; cbn [resolved res_ids] in *;
    try (apply IH in H; auto; right; exact H);
    try (destruct H as [H|H]; [left; exact H|right; eapply IH; exact H]);
    try (right; eapply IH; exact H); try (eapply IH; exact H).
Qed.

Lemma resolved_nodup : forall ops rs, NoDup (res_ids ops) -> NoDup (resolved ops rs).
Proof.
  induction ops as [|o ops IH]; intros rs H; [destruct rs; constructor|].
  destruct rs as [|r rs]; [destruct o; constructor|].
  destruct o as [now c1 c2|id now|id]; cbn [res_ids] in H.
  - destruct r; cbn [resolved]; apply IH; exact H.
  - inversion H as [|? ? Hn Hd]; subst.
    destruct r; cbn [resolved]; try (apply IH; exact Hd).
    constructor; [|apply IH; exact Hd]. intros Hx. apply Hn. eapply resolved_in_ids; exact Hx.
  - inversion H as [|? ? Hn Hd]; subst.
    destruct r; cbn [resolved]; try (apply IH; exact Hd).
    constructor; [|apply IH; exact Hd]. intros Hx. apply Hn. eapply resolved_in_ids; exact Hx.
Qed.

Lemma open_requests_core : forall c t0 ops,
  cenabled c = true -> NoDup (res_ids ops) ->
  let rs := run (init c t0) ops in
  flying (final (init c t0) ops) =
    Z.of_nat (length (granted 0 rs)) - Z.of_nat (length (resolved ops rs)) /\
  incl (resolved ops rs) (granted 0 rs) /\
  0 <= flying (final (init c t0) ops).
Proof.
  intros c t0 ops Hen Hnd rs.
  destruct (conservation_wf_core c t0 ops Hen (resolved_nodup ops rs Hnd)) as (H1 & H2 & H3).
  repeat split; assumption.
Qed.
