(* C18 — pkcs5Unpadding as it was at the pinned commit (before fix 8f753d7,
   KNOWN_FINDINGS F16-unpad-empty), kept to document the two defects it had.  Each is
   refuted by a concrete input evaluated with vm_compute. *)
From Coq Require Import List ZArith Bool Lia.
From GZ Require Import C18.Model.
Import ListNotations.
Open Scope Z_scope.

(* length := len(src); unpadding := int(src[length-1])   -- index -1 on empty input
   if unpadding >= length || unpadding > blockSize { return nil, ErrPaddingSize } *)
Definition pinned_unpad (l : list Z) : res :=
  match l with
  | [] => Panic
  | _ => let n := len l in
         let u := last l 0 in
         if (u >=? n) || (u >? bs) then Err else Ok (firstn (Z.to_nat (n - u)) l)
  end.

Definition pinned_ecb_decrypt (aes_ok : Z -> bool) (D : Z -> list Z -> list Z) (key : Z) (src : list Z) : res :=
  if aes_ok key then pinned_unpad (crypt_blocks (D key) src) else Err.

(* "round-tripping any payload" failed for the empty payload: its padding is one full block
   of 16s, and unpadding == length was rejected *)
Theorem pinned_empty_payload_roundtrip_refuted : exists p, pinned_unpad (pad p) <> Ok p.
Proof. exists []. vm_compute. discriminate. Qed.

(* a panic reachable from a request: ciphertext that base64-decodes to zero bytes (body
   "\n": the decoder skips CR/LF) made pkcs5Unpadding index src[-1] *)
Theorem pinned_unpad_panics_refuted : exists l, pinned_unpad l = Panic.
Proof. exists []. reflexivity. Qed.

Theorem pinned_decrypt_panics_refuted :
  exists ct, pinned_ecb_decrypt (fun _ => true) (fun _ b => b) 0 ct = Panic.
Proof. exists []. vm_compute. reflexivity. Qed.

(* the repaired function on the same inputs *)
Example fixed_on_witnesses : unpad (pad []) = Ok [] /\ unpad [] = Err.
Proof. vm_compute. split; reflexivity. Qed.

(* ------------------------------------------------------------------------- *)
(* Pinned variants of seeded changes that the check detects (seeded/C18-3, seeded/C18-1). *)
From GZ Require Import C18.Server.

(* seeded/C18-3: engine.signatureVerifier takes the private keys from ONE engine-wide map
   fingerprint -> decrypter, filled by every signature group (a fingerprint that is already
   there is kept: the first one wins) and handed, by reference, to all of them.  So every
   signature group verifies against the union of all groups' keys. *)
Definition pinned_shared_keys (gs : list group) : list (Z * Z) :=
  (* find_key lets the LAST entry win, the shared map keeps the FIRST: reverse *)
  rev (flat_map (fun g => match g_sig g with Some sc => sg_keys sc | None => [] end) gs).

Definition pinned_share (gs : list group) (b : bound) : bound :=
  match b_ver b with
  | VSig sc => mkBound (b_route b) (b_jwt b) (VSig (mkSig (sg_strict sc) (pinned_shared_keys gs) (sg_tol sc)))
  | _ => b
  end.

Definition pinned_bind_shared (key_ok : Z -> bool) (gs : list group) : list bound :=
  map (pinned_share gs) (fst (bind key_ok gs [])).

(* two strict groups: A (route 1) accepts fingerprint 1 -> key 1, B (route 2) fingerprint 2 -> key 2 *)
Definition pin_secret := mkSecret (Some 3) 1 (Some 500) (Some 0).
Definition pin_rsa (kid sc : Z) : option cs_secret :=
  if ((kid =? 1) && (sc =? 1)) || ((kid =? 2) && (sc =? 2)) then Some pin_secret else None.
Definition pin_cmac (k : Z) (c : content) : Z :=
  let '(a, b, p, q, d) := c in k + 10 * a + 100 * b + 1000 * p + 10000 * q + 100000 * d.
Definition pin_groups :=
  [ mkGroup None (Some (mkSig true [(1, 1)] 10)) [(3, 1)];
    mkGroup None (Some (mkSig true [(2, 2)] 10)) [(3, 2)] ].
(* a request to A's route carrying B's credentials: fingerprint 2, secret encrypted to key 2 *)
Definition pin_req :=
  mkSreq 0 CMissing 505 (mkReq 3 1 1 None (mkHdr (Some 2) (Some 2) (Some (pin_cmac 3 (1, 3, 1, 1, 9)))) 0 []) [].
Definition pin_serve (tab : list bound) :=
  snd (serve false (fun _ _ _ => 0) pin_rsa pin_cmac (fun _ => 9) (fun _ => true) (fun _ b => b) (fun _ b => b)
             (fun b => b) (fun b => Some b) 1024 tab [] pin_req).

(* with the shared map A's handler runs for B's key; the modelled engine answers 403 *)
Theorem pinned_shared_decrypters_refuted :
  o_ran (s_out (pin_serve (pinned_bind_shared (fun _ => true) pin_groups))) = true /\
  find_key 2 [(1, 1)] = None /\
  s_out (pin_serve (fst (bind (fun _ => true) pin_groups []))) = mkHout false 403 [] [] false.
Proof. vm_compute. repeat split; reflexivity. Qed.

(* seeded/C18-1: TokenParser remembers (secret, raw token) pairs that verified once and returns
   them again without re-checking signature or time claims. *)
Section PinnedCache.
  Variable mac : alg -> Z -> Z -> Z.

  Definition tok_key (t : token) : Z * Z := (tinput t, match tsig t with Some s => s | None => -1 end).

  Definition cache_hit (cache : list (Z * (Z * Z))) (k : Z) (t : token) : bool :=
    existsb (fun e => (fst e =? k) && (fst (snd e) =? fst (tok_key t)) && (snd (snd e) =? snd (tok_key t))) cache.

  (* one secret, for brevity *)
  Definition pinned_cached_parse (cache : list (Z * (Z * Z))) (k now : Z) (t : token) : list (Z * (Z * Z)) * bool :=
    if cache_hit cache k t then (cache, true)
    else if parse1 mac now k t then ((k, tok_key t) :: cache, true) else (cache, false).

  Fixpoint pinned_cached_run (cache : list (Z * (Z * Z))) (k : Z) (reqs : list (Z * token)) : list bool :=
    match reqs with
    | [] => []
    | (now, t) :: reqs' => let '(c', ok) := pinned_cached_parse cache k now t in ok :: pinned_cached_run c' k reqs'
    end.
End PinnedCache.

(* the same token, first while valid, then after its exp: the cached parser accepts both, the
   modelled one rejects the second *)
Theorem pinned_token_cache_refuted :
  let mac := fun (a : alg) (k i : Z) => k + 10 * i in
  let t := mkToken HS256 7 (Some (mac HS256 1 7)) [(2, VNum 2000)] in
  pinned_cached_run mac [] 1 [(1000, t); (3000, t)] = [true; true] /\
  map jran (run_jwt mac [] (mkJcfg 1 None) [(1000, CToken t); (3000, CToken t)]) = [true; false].
Proof. vm_compute. split; reflexivity. Qed.

(* seeded/C18-4: ParseToken parses once and lets a key func choose between secret and
   prevSecret — also when NO previous secret is configured: then prevSecret is the empty
   string and the zero-length key (identifier [empty_key], which anybody can sign with)
   becomes a candidate. *)
Section PinnedEmptyPrev.
  Variable mac : alg -> Z -> Z -> Z.
  Definition empty_key : Z := 0.

  Definition pinned_candidates (c : jcfg) : list Z :=
    match jprev c with Some p => [jsecret c; p] | None => [jsecret c; empty_key] end.

  Definition pinned_choose_parse (c : jcfg) (now : Z) (t : token) : bool :=
    existsb (fun k => parse1 mac now k t) (pinned_candidates c).
End PinnedEmptyPrev.

Theorem pinned_empty_prev_secret_refuted :
  let mac := fun (a : alg) (k i : Z) => 1 + k + 10 * i in
  let c := mkJcfg 5 None in
  let forged := mkToken HS256 7 (Some (mac HS256 empty_key 7)) [(2, VNum 2000)] in
  pinned_choose_parse mac c 1000 forged = true /\
  ~ In empty_key (secrets c) /\
  jran (snd (authorize mac [] c 1000 (CToken forged))) = false.
Proof.
  split; [vm_compute; reflexivity|]. split; [|vm_compute; reflexivity].
  cbn. intros [X|[]]. discriminate.
Qed.

(* seeded/C18-5: the time window computed on machine durations.  skew := now.Sub(time.Unix(t, 0))
   is an int64 number of NANOSECONDS that SATURATES at the ends of the range; the hand-written
   absolute value negates a negative skew in int64, where -(minimum) is the minimum again.  So a
   timestamp more than ~292 years ahead gives skew = minimum, "abs" leaves it negative, and a
   negative number is below every tolerance. *)
Definition min_dur : Z := - 2 ^ 63.
Definition max_dur : Z := 2 ^ 63 - 1.
Definition sat_dur (x : Z) : Z := if x <? min_dur then min_dur else if max_dur <? x then max_dur else x.
(* two's complement negation *)
Definition neg64 (x : Z) : Z := if x =? min_dur then min_dur else - x.
Definition pinned_skew_ok (now tol t : Z) : bool :=
  let skew := sat_dur ((now - t) * 1000000000) in
  let a := if skew <? 0 then neg64 skew else skew in
  negb (tol * 1000000000 <? a).

(* what the modelled (and today's) code decides, in Z *)
Definition model_window_ok (now tol t : Z) : bool := negb ((t + tol <? now) || (now + tol <? t)).

Lemma model_window_is_abs : forall now tol t, model_window_ok now tol t = true <-> Z.abs (now - t) <= tol.
Proof.
  intros. unfold model_window_ok. rewrite negb_true_iff, orb_false_iff, !Z.ltb_ge. lia.
Qed.

Theorem pinned_saturating_skew_refuted :
  exists now tol t, pinned_skew_ok now tol t = true /\ ~ Z.abs (now - t) <= tol /\ model_window_ok now tol t = false.
Proof.
  exists 1790000000, 5, 20000000000. split; [vm_compute; reflexivity|]. split; [|vm_compute; reflexivity].
  intros H. apply model_window_is_abs in H. vm_compute in H. discriminate.
Qed.

(* the same witnesses the seed names: milliseconds instead of seconds, 2^40, 2^62 — all accepted by
   the pinned variant; a timestamp in the far past, or within 290 years ahead, is not *)
Example pinned_saturating_skew_examples :
  map (pinned_skew_ok 1790000000 5) [1790000000000; 2 ^ 40; 2 ^ 62; 0; -(2 ^ 62); 1790000000 + 290 * 31536000; 1790000006]
  = [true; true; true; false; false; false; false] /\
  map (model_window_ok 1790000000 5) [1790000000000; 2 ^ 40; 2 ^ 62; 0; -(2 ^ 62); 1790000005; 1790000006]
  = [false; false; false; false; false; true; false].
Proof. vm_compute. split; reflexivity. Qed.

(* seeded/C18-6: the response writer encrypts and SENDS full 32 KiB chunks as they fill, each
   piece base64-encoded separately.  ECB blocks are independent, so the ciphertext is the same —
   but base64 works in groups of 3 bytes: the encoding of a concatenation is the concatenation of
   the encodings only when the first piece is a whole number of groups; otherwise '=' padding
   lands in the middle and the body is no longer one base64 document.  32768 is not a multiple of 3. *)
Definition b64pad : Z := 64.                  (* the '=' character; sextets are 0..63 *)

Fixpoint b64 (l : list Z) : list Z :=
  match l with
  | a :: b :: c :: r => [a / 4; (a mod 4) * 16 + b / 16; (b mod 16) * 4 + c / 64; c mod 64] ++ b64 r
  | [a; b] => [a / 4; (a mod 4) * 16 + b / 16; (b mod 16) * 4; b64pad]
  | [a] => [a / 4; (a mod 4) * 16; b64pad; b64pad]
  | [] => []
  end.

(* whole groups first: piecewise encoding is the encoding *)
Lemma b64_app_groups : forall n x y, length x = (3 * n)%nat -> b64 (x ++ y) = b64 x ++ b64 y.
Proof.
  induction n as [|n IH]; intros x y L.
  - destruct x; [reflexivity|cbn in L; discriminate].
  - destruct x as [|a [|b [|c x]]]; cbn in L; try lia.
    change ((a :: b :: c :: x) ++ y) with (a :: b :: c :: (x ++ y)).
    cbn [b64]. rewrite (IH x y) by lia. rewrite <- app_assoc. reflexivity.
Qed.

(* a piece that is not a whole number of groups ends in '=' ... *)
Lemma b64_partial_ends_in_pad : forall n x,
  (length x = 3 * n + 1 \/ length x = 3 * n + 2)%nat -> last (b64 x) 0 = b64pad.
Proof.
  induction n as [|n IH]; intros x L.
  - destruct x as [|a [|b [|c x]]]; cbn in L; try lia; reflexivity.
  - destruct x as [|a [|b [|c x]]]; cbn in L; try lia.
    cbn [b64]. specialize (IH x ltac:(lia)).
    destruct (b64 x) as [|s r] eqn:Bx.
    + destruct x as [|a' [|b' [|c' x']]]; cbn in L, Bx; try lia; discriminate.
    + change ([a / 4; (a mod 4) * 16 + b / 16; (b mod 16) * 4 + c / 64; c mod 64] ++ s :: r)
        with (a / 4 :: (a mod 4) * 16 + b / 16 :: (b mod 16) * 4 + c / 64 :: c mod 64 :: s :: r).
      cbn [last]. cbn [last] in IH. exact IH.
Qed.

(* ... so followed by anything it puts '=' in the middle, while the encoding of the whole has
   padding only at the very end: piecewise base64 is refuted *)
Theorem pinned_piecewise_base64_refuted :
  exists x y, b64 x ++ b64 y <> b64 (x ++ y) /\ In b64pad (b64 x) /\ ~ In b64pad (b64 (x ++ y)).
Proof.
  exists [1; 2], [3]. vm_compute. split; [discriminate|]. split; [right; right; right; left; reflexivity|].
  intros [H|[H|[H|[H|[]]]]]; discriminate.
Qed.

(* the chunk size of the seeded change leaves a partial group *)
Example chunk_size_is_not_a_multiple_of_three : (32768 mod 3 = 2) /\ (32768 mod 16 = 0) /\ (98304 mod 3 = 0).
Proof. vm_compute. repeat split; reflexivity. Qed.

(* seeded/C18-9: VerifySignature base64-DECODES the presented signature (StdEncoding, not Strict)
   and compares bytes.  The lenient decoder ignores the unused low bits of the last significant
   character of a padded quantum: for a MAC whose length is 2 modulo 3 (32 bytes: 44 characters, one
   '=') the third character of the last quantum carries 2 discarded bits, so THREE other texts
   decode to the same bytes. *)
Definition b64_dec_quantum_lenient (q : list Z) : option (list Z) :=
  match q with
  | [a; b; c; d] =>
    if d =? b64pad then
      if c =? b64pad then Some [a * 4 + b / 16]
      else Some [a * 4 + b / 16; (b mod 16) * 16 + c / 4]            (* c mod 4 is dropped *)
    else Some [a * 4 + b / 16; (b mod 16) * 16 + c / 4; (c mod 4) * 64 + d]
  | _ => None
  end.

(* compare decoded bytes (pinned) vs compare texts (the code) on the last quantum of a signature *)
Definition pinned_sig_equal (presented expected : list Z) : bool :=
  match b64_dec_quantum_lenient presented, b64_dec_quantum_lenient expected with
  | Some x, Some y => if list_eq_dec Z.eq_dec x y then true else false
  | _, _ => false
  end.
Definition text_equal (presented expected : list Z) : bool :=
  if list_eq_dec Z.eq_dec presented expected then true else false.

(* every 2-byte tail [x; y]: the three neighbours of its third character are accepted by the
   pinned comparison and are different texts *)
Theorem pinned_decode_then_compare_refuted : forall x y k,
  0 <= x < 256 -> 0 <= y < 256 -> 1 <= k <= 3 ->
  let good := b64 [x; y] in
  let forged := [x / 4; (x mod 4) * 16 + y / 16; (y mod 16) * 4 + k; b64pad] in
  pinned_sig_equal forged good = true /\ text_equal forged good = false /\
  b64_dec_quantum_lenient good = Some [x; y].
Proof.
  intros x y k Hx Hy Hk good forged. subst good forged. cbn [b64].
  assert (P : b64pad =? b64pad = true) by reflexivity.
  assert (C1 : ((y mod 16) * 4 + k =? b64pad) = false).
  { apply Z.eqb_neq. unfold b64pad. pose proof (Z.mod_pos_bound y 16 ltac:(lia)). lia. }
  assert (C0 : ((y mod 16) * 4 =? b64pad) = false).
  { apply Z.eqb_neq. unfold b64pad. pose proof (Z.mod_pos_bound y 16 ltac:(lia)). lia. }
  assert (Q1 : ((y mod 16) * 4 + k) / 4 = y mod 16).
  { pose proof (Z.mod_pos_bound y 16 ltac:(lia)).
    replace ((y mod 16) * 4 + k) with (k + (y mod 16) * 4) by lia. rewrite Z.div_add by lia.
    rewrite Z.div_small by lia. lia. }
  assert (Q0 : ((y mod 16) * 4) / 4 = y mod 16) by (apply Z.div_mul; lia).
  assert (B1 : (x / 4) * 4 + ((x mod 4) * 16 + y / 16) / 16 = x).
  { pose proof (Z.mod_pos_bound x 4 ltac:(lia)).
    assert (y / 16 < 16) by (apply Z.div_lt_upper_bound; lia).
    assert (0 <= y / 16) by (apply Z.div_pos; lia).
    replace ((x mod 4) * 16 + y / 16) with (y / 16 + (x mod 4) * 16) by lia.
    rewrite Z.div_add by lia. rewrite (Z.div_small (y / 16)) by lia.
    pose proof (Z.div_mod x 4 ltac:(lia)). lia. }
  assert (B2 : (((x mod 4) * 16 + y / 16) mod 16) * 16 + y mod 16 = y).
  { assert (y / 16 < 16) by (apply Z.div_lt_upper_bound; lia).
    assert (0 <= y / 16) by (apply Z.div_pos; lia).
    replace ((x mod 4) * 16 + y / 16) with (y / 16 + (x mod 4) * 16) by lia.
    rewrite Z.mod_add by lia. rewrite (Z.mod_small (y / 16)) by lia.
    pose proof (Z.div_mod y 16 ltac:(lia)). lia. }
  split; [|split].
  - unfold pinned_sig_equal, b64_dec_quantum_lenient. rewrite P, C1, C0, Q1, Q0.
    destruct (list_eq_dec Z.eq_dec _ _) as [_|N]; [reflexivity|exfalso; apply N; reflexivity].
  - unfold text_equal. destruct (list_eq_dec Z.eq_dec _ _) as [E|_]; [|reflexivity].
    exfalso. inversion E. lia.
  - unfold b64_dec_quantum_lenient. rewrite P, C0, Q0, B1, B2. reflexivity.
Qed.

(* the coordinator's witness, in sextets: a tail "...fiQ=" has the accepted neighbours "fiR=", "fiS=", "fiT=" *)
Example pinned_three_neighbours :
  map (fun c => pinned_sig_equal [31; 34; c; b64pad] [31; 34; 16; b64pad]) [16; 17; 18; 19; 20] = [true; true; true; true; false] /\
  map (fun c => text_equal [31; 34; c; b64pad] [31; 34; 16; b64pad]) [16; 17; 18; 19; 20] = [true; false; false; false; false].
Proof. vm_compute. split; reflexivity. Qed.

(* ---- seeded/C18-10: "don't answer CORS preflight requests with 401 on jwt routes" -------------
   Authorize lets a request that LOOKS like a CORS preflight (method OPTIONS, non-empty Origin and
   Access-Control-Request-Method headers) straight through to the next handler, before the token
   is parsed.  OPTIONS is an ordinary route method when the server has no CORS router in front, so
   a protected OPTIONS route runs without any credential.  The variant looks at the two inputs the
   real gate ignores (Props.gate_independent_of_method_and_headers). *)
Definition pinned_is_preflight (q : hreq) : bool :=
  (hq_method q =? m_options) && has_header h_origin q && has_header h_acrm q.

Definition pinned_preflight_authorize (mac : alg -> Z -> Z -> Z) (h : history) (c : jcfg) (q : hreq) : history * jresult :=
  if pinned_is_preflight q then (h, mkJres true 200 []) else authorize_req mac h c q.

(* for every mac, secret configuration and counter state: a request with NO token at all runs the handler,
   while the modelled gate answers it 401; and with another method, or without one of the two headers,
   the variant is the gate *)
Theorem pinned_preflight_bypass_refuted : forall mac h c now,
  let q := mkHreq m_options [(h_origin, 7); (h_acrm, 8)] now CMissing in
  jran (snd (pinned_preflight_authorize mac h c q)) = true /\
  snd (authorize_req mac h c q) = unauthorized.
Proof. intros mac h c now. cbn. split; reflexivity. Qed.

Lemma pinned_preflight_elsewhere_is_the_gate : forall mac h c q,
  hq_method q <> m_options \/ has_header h_origin q = false \/ has_header h_acrm q = false ->
  pinned_preflight_authorize mac h c q = authorize_req mac h c q.
Proof.
  intros mac h c q H. unfold pinned_preflight_authorize, pinned_is_preflight.
  destruct H as [H|[H|H]].
  - apply Z.eqb_neq in H. rewrite H. reflexivity.
  - rewrite H, andb_false_r. reflexivity.
  - rewrite H, andb_false_r. reflexivity.
Qed.

(* ---- seeded/C18-2: "no need to hash the body of bodiless requests" -----------------------------
   computeBodySignature returns the digest of the EMPTY body whenever ContentLength <= 0, also for a
   body of unknown length (chunked, ContentLength = -1).  A header correctly signed for an empty
   body is then accepted with any chunked body appended. *)
Definition pinned_digest_body (r : cs_req) : list Z := if r_clen r <=? 0 then [] else r_body r.

Definition pinned_bodiless_handler (rsa_dec : Z -> Z -> option cs_secret) (cmac : Z -> content -> Z) (sha : list Z -> Z)
           (strict : bool) (decs : list (Z * Z)) (tol now : Z) (r : cs_req) : bool :=
  (* the gate's decision is taken on the request whose body, for the digest, is [pinned_digest_body r] *)
  match fst (cs_gate true rsa_dec cmac sha strict decs tol now
                     (mkReq (r_method r) (r_path r) (r_query r) (r_xuri r) (r_hdr r) (r_clen r) (pinned_digest_body r))) with
  | ActReject => false
  | _ => true
  end.

Definition pin_sha (b : list Z) : Z := match b with [] => 9 | x :: _ => 100 + x end.

(* POST (3) to path 1 / query 1 with ContentLength = -1 and body "A...": the signature is the MAC over the digest of
   the EMPTY body.  The variant lets it through; the modelled handler answers 403, and so it does for every
   content length when the digests differ (the signature is not the MAC of the body sent). *)
Theorem pinned_bodiless_digest_refuted :
  let sig_empty := pin_cmac 3 (1, 3, 1, 1, pin_sha []) in
  let r := mkReq 3 1 1 None (mkHdr (Some 1) (Some 1) (Some sig_empty)) (-1) [65; 66; 67] in
  pinned_bodiless_handler pin_rsa pin_cmac pin_sha true [(1, 1)] 10 505 r = true /\
  cs_handler true pin_rsa pin_cmac pin_sha (fun _ => true) (fun _ b => b) (fun _ b => b) (fun b => b) (fun b => Some b)
             true [(1, 1)] 10 505 1024 r [] = mkHout false 403 [] [] false.
Proof. vm_compute. split; reflexivity. Qed.

(* ---- seeded/C18-8: the claims map comes from a pool and is not cleared when a token is REJECTED -----
   A rejected token whose payload decodes leaves its claims in the pooled map; the next accepted token
   is decoded into the same map, so the handler sees the rejected token's claims it does not itself carry. *)
Section PinnedPool.
  Variable mac : alg -> Z -> Z -> Z.

  (* decoding INTO a map that still has entries: the new token's claims win, the rest stays *)
  Definition decode_into (pool : list (Z * cval)) (t : token) : list (Z * cval) :=
    tclaims t ++ filter (fun kv => negb (existsb (fun kv' => fst kv' =? fst kv) (tclaims t))) pool.

  (* one secret; returns the pool left behind and what the handler saw (None: rejected) *)
  Definition pinned_pooled_authorize (pool : list (Z * cval)) (k now : Z) (cr : cred)
    : list (Z * cval) * option (list (Z * cval)) :=
    match cr with
    | CToken t =>
      let m := decode_into pool t in
      if parse1 mac now k t then ([], Some (deliver (mkToken (talg t) (tinput t) (tsig t) m)))   (* Release clears *)
      else (m, None)                                                                             (* not cleared *)
    | _ => (pool, None)
    end.
End PinnedPool.

Theorem pinned_pooled_claims_refuted :
  let mac := fun (a : alg) (k i : Z) => 1 + k + 10 * i in
  let forged := mkToken HS256 7 (Some 0) [(2, VNum 2000); (20, VOther 1)] in          (* claim 20 = "admin", bad signature *)
  let good := mkToken HS256 8 (Some (mac HS256 5 8)) [(2, VNum 2000); (10, VNum 7)] in
  let '(pool, seen1) := pinned_pooled_authorize mac [] 5 1000 (CToken forged) in
  let '(_, seen2) := pinned_pooled_authorize mac pool 5 1000 (CToken good) in
  seen1 = None /\ seen2 = Some [(10, VNum 7); (20, VOther 1)] /\
  map jctx (run_jwt mac [] (mkJcfg 5 None) [(1000, CToken forged); (1000, CToken good)]) = [[]; [(10, VNum 7)]].
Proof. vm_compute. repeat split; reflexivity. Qed.

(* ---- seeded/C18-11: the router hands the route's chain a request whose URL.Path is the CLEANED path ----
   ("handlers were seeing /static/../admin/x").  The signature verifier in that chain then signs over the
   cleaned path: a header signed for path 1 verifies for every spelling the router cleans to 1. *)
Definition with_path (p : Z) (q : sreq) : sreq :=
  mkSreq (q_jnow q) (q_cred q) (q_now q)
         (mkReq (r_method (q_cs q)) p (r_query (q_cs q)) (r_xuri (q_cs q)) (r_hdr (q_cs q)) (r_clen (q_cs q)) (r_body (q_cs q)))
         (q_resp q).

(* the router of the variant: look up under the cleaned path, serve the request REWRITTEN to it *)
Definition pinned_serve_cleaned (clean : Z -> Z) (tab : list bound) (q : sreq) :=
  snd (serve_recv false (fun _ _ _ => 0) pin_rsa pin_cmac (fun _ => 9) (fun _ => true) (fun _ b => b) (fun _ b => b)
                  (fun b => b) (fun b => Some b) false clean 1024 tab [] (with_path (clean (r_path (q_cs q))) q)).

(* one strict group, route POST (3) on path 1; path 2 is an alias the router cleans to 1 ("/1/").
   The request goes to path 2 with a signature made for path 1. *)
Definition pin_clean (p : Z) : Z := if p =? 2 then 1 else p.
Definition pin_alias_groups := [ mkGroup None (Some (mkSig true [(1, 1)] 10)) [(3, 1)] ].
Definition pin_alias_req :=
  mkSreq 0 CMissing 505 (mkReq 3 2 1 None (mkHdr (Some 1) (Some 1) (Some (pin_cmac 3 (1, 3, 1, 1, 9)))) 0 []) [].

Theorem pinned_router_cleans_then_verifies_refuted :
  let tab := fst (bind (fun _ => true) pin_alias_groups []) in
  (* the variant runs the handler for the alias *)
  o_ran (s_out (pinned_serve_cleaned pin_clean tab pin_alias_req)) = true /\
  (* the modelled server finds the same route and answers 403: the signature does not cover path 2 *)
  s_out (snd (serve_recv false (fun _ _ _ => 0) pin_rsa pin_cmac (fun _ => 9) (fun _ => true) (fun _ b => b) (fun _ b => b)
                         (fun b => b) (fun b => Some b) false pin_clean 1024 tab [] pin_alias_req))
    = mkHout false 403 [] [] false /\
  (* and for the canonical spelling both run it *)
  o_ran (s_out (pinned_serve_cleaned pin_clean tab (with_path 1 pin_alias_req))) = true /\
  o_ran (s_out (snd (serve_recv false (fun _ _ _ => 0) pin_rsa pin_cmac (fun _ => 9) (fun _ => true) (fun _ b => b) (fun _ b => b)
                                (fun b => b) (fun b => Some b) false pin_clean 1024 tab [] (with_path 1 pin_alias_req)))) = true.
Proof. vm_compute. repeat split; reflexivity. Qed.
