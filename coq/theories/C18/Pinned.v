(* C18 — pkcs5Unpadding as it was at the pinned commit (before fix 8f753d7,
   KNOWN_FINDINGS F16-unpad-empty), kept to document the two defects it had.  Each is
   refuted by a concrete input evaluated with vm_compute. *)
From Coq Require Import List ZArith Bool.
From GZ Require Import C18.Model.
Import ListNotations.
Open Scope Z_scope.

(* length := len(src); unpadding := int(src[length-1])   -- index -1 on empty input
   if unpadding >= length || unpadding > blockSize { return nil, ErrPaddingSize } *)
Definition pinned_unpad (l : list Z) : res :=
  match l with
  | [] => Panic
  | _ => let n := len l in
         let u := last l 0 in
         if (u >=? n) || (u >? bs) then Err else Ok (firstn (Z.to_nat (n - u)) l)
  end.

Definition pinned_ecb_decrypt (aes_ok : Z -> bool) (D : Z -> list Z -> list Z) (key : Z) (src : list Z) : res :=
  if aes_ok key then pinned_unpad (crypt_blocks (D key) src) else Err.

(* "round-tripping any payload" failed for the empty payload: its padding is one full block
   of 16s, and unpadding == length was rejected *)
Theorem pinned_empty_payload_roundtrip_refuted : exists p, pinned_unpad (pad p) <> Ok p.
Proof. exists []. vm_compute. discriminate. Qed.

(* a panic reachable from a request: ciphertext that base64-decodes to zero bytes (body
   "\n": the decoder skips CR/LF) made pkcs5Unpadding index src[-1] *)
Theorem pinned_unpad_panics_refuted : exists l, pinned_unpad l = Panic.
Proof. exists []. reflexivity. Qed.

Theorem pinned_decrypt_panics_refuted :
  exists ct, pinned_ecb_decrypt (fun _ => true) (fun _ b => b) 0 ct = Panic.
Proof. exists []. vm_compute. reflexivity. Qed.

(* the repaired function on the same inputs *)
Example fixed_on_witnesses : unpad (pad []) = Ok [] /\ unpad [] = Err.
Proof. vm_compute. split; reflexivity. Qed.
