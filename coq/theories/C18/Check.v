(* C18 — correspondence / property evaluation on requests observed on the
   implementation.  Executable only.  The abstract cryptography of Model.v is
   instantiated by finite tables computed by the harness with Go's own crypto. *)
From Coq Require Import List ZArith Bool.
From GZ Require Export Lib.CheckLib C18.Model C18.Header.
Import ListNotations.
Open Scope Z_scope.

Definition alg_id (a : alg) : Z :=
  match a with HS256 => 1 | HS384 => 2 | HS512 => 3 | ANone => 4 | AAsym => 5 | AUnknown => 6 end.

Definition alg_eqb (a b : alg) : bool := alg_id a =? alg_id b.

(* ---- JWT ------------------------------------------------------------------ *)

Definition mactab := list ((Z * Z * Z) * Z).     (* (alg, key, input) -> tag; tags are >= 1 *)

Fixpoint lookup3 (a k i : Z) (t : mactab) : option Z :=
  match t with
  | [] => None
  | ((a', k', i'), v) :: t' => if (a =? a') && (k =? k') && (i =? i') then Some v else lookup3 a k i t'
  end.

Definition tab_mac (t : mactab) (a : alg) (k i : Z) : Z :=
  match lookup3 (alg_id a) k i t with Some v => v | None => -1 end.

Record jobs := mkJobs { ob_ran : bool; ob_status : Z; ob_ctx : list (Z * cval); ob_panic : bool }.

Definition kv_eqb (a b : Z * cval) : bool := (fst a =? fst b) && cval_eqb (snd a) (snd b).

Definition jres_eqb (r : jresult) (o : jobs) : bool :=
  Bool.eqb (jran r) (ob_ran o) && (jstatus r =? ob_status o) &&
  list_eqb kv_eqb (jctx r) (ob_ctx o) && negb (ob_panic o).

(* the harness supplied a tag for every (HS alg, configured secret, input) the model may ask for *)
Definition tab_complete (t : mactab) (c : jcfg) (cr : cred) : bool :=
  match cr with
  | CToken tk =>
    if is_hs (talg tk) then
      forallb (fun k => match lookup3 (alg_id (talg tk)) k (tinput tk) t with Some v => 1 <=? v | None => false end)
              (secrets c)
    else true
  | _ => true
  end.

(* the property read directly on one observation: the handler ran only for a token whose
   signature is the HMAC under the current or previous secret with an HS method and whose
   time claims hold now, and then saw exactly the non-registered claims; otherwise 401 *)
Definition jwt_valid_spec (t : mactab) (c : jcfg) (now : Z) (cr : cred) : bool :=
  match cr with
  | CToken tk =>
    match talg tk with
    | HS256 | HS384 | HS512 =>
      match tsig tk with
      | Some s =>
        existsb (fun k => match lookup3 (alg_id (talg tk)) k (tinput tk) t with Some v => s =? v | None => false end)
                (secrets c)
      | None => false
      end
    | _ => false
    end &&
    match lookup k_exp (tclaims tk) with None => true | Some (VNum e) => now <? e | Some _ => false end &&
    match lookup k_iat (tclaims tk) with None => true | Some (VNum e) => e <=? now | Some _ => false end &&
    match lookup k_nbf (tclaims tk) with None => true | Some (VNum e) => e <=? now | Some _ => false end
  | _ => false
  end.

Definition nonstd_claims (cr : cred) : list (Z * cval) :=
  match cr with
  | CToken tk => filter (fun kv => ((fst kv <? 1) || (7 <? fst kv)) &&
                                  match snd kv with VNull => false | _ => true end) (tclaims tk)
  | _ => []
  end.

Definition jwt_prop1 (t : mactab) (c : jcfg) (rq : Z * cred) (o : jobs) : bool :=
  negb (ob_panic o) &&
  if ob_ran o then
    jwt_valid_spec t c (fst rq) (snd rq) && list_eqb kv_eqb (ob_ctx o) (nonstd_claims (snd rq))
  else (ob_status o =? 401) && match ob_ctx o with [] => true | _ => false end.

Fixpoint forall2b {A B} (f : A -> B -> bool) (l1 : list A) (l2 : list B) : bool :=
  match l1, l2 with
  | [], [] => true
  | x :: l1', y :: l2' => f x y && forall2b f l1' l2'
  | _, _ => false
  end.

(* ---- content security / cryption ------------------------------------------ *)

Definition bytes_eqb := list_eqb Z.eqb.

Definition blocktab := list (list Z * list Z).

Fixpoint lookup_block (b : list Z) (t : blocktab) : option (list Z) :=
  match t with
  | [] => None
  | (b', v) :: t' => if bytes_eqb b b' then Some v else lookup_block b t'
  end.

(* a block the harness did not tabulate maps to a non-byte marker and can never agree *)
Definition tab_block (t : blocktab) (_ : Z) (b : list Z) : list Z :=
  match lookup_block b t with Some v => v | None => [-1] end.

Definition ctab := list ((Z * content) * Z).      (* (key, signed content) -> tag *)

Definition content_eqb (a b : content) : bool :=
  let '(a1, a2, a3, a4, a5) := a in
  let '(b1, b2, b3, b4, b5) := b in
  (a1 =? b1) && (a2 =? b2) && (a3 =? b3) && (a4 =? b4) && (a5 =? b5).

Fixpoint lookup_c (k : Z) (c : content) (t : ctab) : option Z :=
  match t with
  | [] => None
  | ((k', c'), v) :: t' => if (k =? k') && content_eqb c c' then Some v else lookup_c k c t'
  end.

Definition tab_cmac (t : ctab) (k : Z) (c : content) : Z :=
  match lookup_c k c t with Some v => v | None => -1 end.

(* base64 is abstract: an encoded text is represented by a marker followed by the bytes it
   encodes; the harness decodes the wire text with encoding/base64 *)
Definition b64_marker : Z := -2.
Definition enc_b64 (l : list Z) : list Z := b64_marker :: l.

Record cs_obs := mkCsObs
  { c_ran : bool; c_status : Z; c_code : Z;
    c_seen : list Z;
    c_respraw : list Z;                 (* response body bytes as sent *)
    c_respdec : option (list Z);        (* base64-decoded by the harness *)
    c_respplain : option (list Z);      (* decrypted by the harness' own AES + unpadding *)
    c_panic : bool;
    c_codec_enc : res;                  (* codec.EcbEncrypt(key, body) *)
    c_codec_dec : res;                  (* codec.EcbDecrypt(key, that) *)
    c_raw_dec : option res }.           (* codec.EcbDecrypt(key, base64-decoded wire body) *)

Record cs_case := mkCs
  { x_crypt : bool;                                   (* LimitCryptionHandler alone *)
    x_sig : bool;                                     (* the route has the signature verifier (rest.WithSignature) *)
    x_codeobs : bool;                                 (* the callback code was observed *)
    x_jwt : option (jcfg * mactab * Z * cred);        (* the JWT gate in front *)
    x_strict : bool; x_decs : list Z; x_tol : Z; x_now : Z; x_limit : Z;
    x_req : cs_req; x_resp : list Z;
    x_key : Z;                                        (* key of the stand-alone cryption handler *)
    x_rsa : option cs_secret;                         (* the header's secret under the header's fingerprint *)
    x_tags : ctab;
    x_digest : Z;
    x_aesok : bool;
    x_etab : blocktab; x_dtab : blocktab;
    x_b64 : option (list Z);                          (* base64-decoding of the wire body *)
    x_plain : list Z;                                 (* the body the client meant *)
    x_honest_enc : bool;                              (* sent as base64(AES-ECB(pad plain)) under the key of the secret *)
    x_obs : cs_obs }.

Definition x_rsa_dec (c : cs_case) (fp sc : Z) : option cs_secret :=
  match h_fp (r_hdr (x_req c)), h_secret (r_hdr (x_req c)) with
  | Some fp', Some sc' => if (fp =? fp') && (sc =? sc') then x_rsa c else None
  | _, _ => None
  end.

Definition model_cs (c : cs_case) : hout :=
  let aes := fun _ : Z => x_aesok c in
  let E := tab_block (x_etab c) in
  let D := tab_block (x_dtab c) in
  let b64d := fun _ : list Z => x_b64 c in
  if x_crypt c then
    crypt_handler aes E D enc_b64 b64d (x_limit c) (x_key c) (r_clen (x_req c)) (r_body (x_req c)) (x_resp c)
  else
    if negb (x_sig c) then
      (* a route with the JWT option only, or a public route *)
      match x_jwt c with
      | Some (jc, mt, jnow, cr) =>
        if jran (snd (authorize (tab_mac mt) [] jc jnow cr))
        then mkHout true 200 (r_body (x_req c)) (x_resp c) false
        else mkHout false 401 [] [] false
      | None => mkHout true 200 (r_body (x_req c)) (x_resp c) false
      end
    else
    match x_jwt c with
    | Some (jc, mt, jnow, cr) =>
      chain_handler (tab_mac mt) (x_rsa_dec c) (tab_cmac (x_tags c)) (fun _ => x_digest c) aes E D enc_b64 b64d
                    jc jnow cr (x_strict c) (x_decs c) (x_tol c) (x_now c) (x_limit c) (x_req c) (x_resp c)
    | None =>
      cs_handler (x_rsa_dec c) (tab_cmac (x_tags c)) (fun _ => x_digest c) aes E D enc_b64 b64d
                 (x_strict c) (x_decs c) (x_tol c) (x_now c) (x_limit c) (x_req c) (x_resp c)
    end.

Definition model_code (c : cs_case) : Z :=
  if x_crypt c || negb (x_sig c) then -1 else
  match snd (cs_gate (x_rsa_dec c) (tab_cmac (x_tags c)) (fun _ => x_digest c)
                     (x_strict c) (x_decs c) (x_tol c) (x_now c) (x_req c)) with
  | Some cd => code_z cd
  | None => -1
  end.

Definition resp_match (m : list Z) (o : cs_obs) : bool :=
  match m with
  | k :: m' => if k =? b64_marker then opt_eqb bytes_eqb (Some m') (c_respdec o)
               else bytes_eqb m (c_respraw o)
  | [] => bytes_eqb [] (c_respraw o)
  end.

Definition res_eqb (a b : res) : bool :=
  match a, b with
  | Ok x, Ok y => bytes_eqb x y
  | Err, Err => true
  | Panic, Panic => true
  | _, _ => false
  end.

Definition model_codec (c : cs_case) : res * res * option res :=
  let aes := fun _ : Z => x_aesok c in
  let E := tab_block (x_etab c) in
  let D := tab_block (x_dtab c) in
  let e := ecb_encrypt aes E 0 (x_plain c) in
  (e, match e with Ok ct => ecb_decrypt aes D 0 ct | _ => Err end,
   match x_b64 c with Some ct => Some (ecb_decrypt aes D 0 ct) | None => None end).

Definition agrees_cs (c : cs_case) : bool :=
  let m := model_cs c in
  let o := x_obs c in
  Bool.eqb (o_ran m) (c_ran o) && Bool.eqb (o_panic m) (c_panic o) &&
  (o_panic m || ((o_status m =? c_status o) && bytes_eqb (o_seen m) (c_seen o) && resp_match (o_resp m) o)) &&
  (if x_codeobs c then
     match x_jwt c with
     | Some (jc, mt, jnow, cr) =>
       if jran (snd (authorize (tab_mac mt) [] jc jnow cr)) then model_code c =? c_code o else c_code o =? -1
     | None => model_code c =? c_code o
     end
   else true) &&
  let '(e, d, r) := model_codec c in
  res_eqb e (c_codec_enc o) && res_eqb d (c_codec_dec o) && opt_eqb res_eqb r (c_raw_dec o).

(* the credential, read off the request by the specification (not by cs_gate): every
   attribute present, fingerprint configured, secret decrypts under that key, timestamp
   within tolerance, and the signature is the MAC, under the secret's key, of exactly
   (timestamp, method, URL path, URL query, digest of the body sent) *)
Definition signed_spec (c : cs_case) : bool :=
  let r := x_req c in
  match h_fp (r_hdr r), h_secret (r_hdr r), h_sig (r_hdr r) with
  | Some fp, Some _, Some sg =>
    memz fp (x_decs c) &&
    match x_rsa c with
    | Some sec =>
      match sk_key sec, sk_tsval sec with
      | Some key, Some ts =>
        (x_now c - x_tol c <=? ts) && (ts <=? x_now c + x_tol c) &&
        match lookup_c key (sk_tsid sec, r_method r, r_path r, r_query r, x_digest c) (x_tags c) with
        | Some tag => sg =? tag
        | None => false
        end
      | _, _ => false
      end
    | None => false
    end
  | _, _, _ => false
  end.

Definition secret_type (c : cs_case) : option Z :=
  match x_rsa c with Some sec => sk_ctype sec | None => None end.

(* does the request go through body decryption according to the property's text:
   stand-alone cryption handler, or a validly signed request of type 1 *)
Definition must_decrypt (c : cs_case) : bool :=
  x_honest_enc c && x_aesok c &&
  (* within the configured size limit, length known, and no X-Request-Uri pointing elsewhere *)
  ((x_limit c <=? 0) || (r_clen (x_req c) <=? x_limit c)) &&
  match r_xuri (x_req c) with
  | Some (p, q) => (p =? r_path (x_req c)) && (q =? r_query (x_req c))
  | None => true
  end &&
  (x_crypt c || (negb (x_crypt c) && x_sig c && signed_spec c && opt_eqb Z.eqb (secret_type c) (Some 1)
                 && checked (r_method (x_req c)))) &&
  match x_jwt c with Some (jc, mt, jnow, cr) => jwt_valid_spec mt jc jnow cr | None => true end.

Definition prop_cs (c : cs_case) : bool :=
  let o := x_obs c in
  negb (c_panic o) &&
  (* gates *)
  (if c_ran o then
     (if x_crypt c then true else if x_sig c && x_strict c then signed_spec c else true) &&
     match x_jwt c with Some (jc, mt, jnow, cr) => jwt_valid_spec mt jc jnow cr | None => true end
   else true) &&
  (* encrypted body in, encrypted response out *)
  (if must_decrypt c then
     c_ran o && bytes_eqb (c_seen o) (x_plain c) &&
     match x_resp c with
     | [] => bytes_eqb (c_respraw o) []
     | _ => opt_eqb bytes_eqb (c_respplain o) (Some (x_resp c))
     end
   else true) &&
  (* codec round trip of any payload under a usable key *)
  (if x_aesok c then res_eqb (c_codec_dec o) (Ok (x_plain c)) else true).

(* ---- cases ----------------------------------------------------------------- *)

(* ---- httpx.ParseHeader ------------------------------------------------------ *)

Definition pair_bytes_eqb (a b : list Z * list Z) : bool := bytes_eqb (fst a) (fst b) && bytes_eqb (snd a) (snd b).

(* the model's final map equals the Go map (given as key/value pairs in any order) *)
Definition agrees_hdr (raw : list Z) (obs : list (list Z * list Z)) : bool :=
  forallb (fun kv => opt_eqb bytes_eqb (hget (fst kv) (parse_header raw)) (Some (snd kv))) obs &&
  forallb (fun kv => existsb (fun o => bytes_eqb (fst kv) (fst o)) obs) (parse_header raw).

(* directly on the observed map: every entry is, verbatim, a trimmed ';'-field "k=v" cut at
   its first '=', namely the last such field for k; and every well-formed field's key is there *)
Definition field_kv (f : list Z) : option (list Z * list Z) := cut_eq (trim f).
Definition last_for (k : list Z) (fs : list (list Z)) : option (list Z) :=
  fold_left (fun acc f => match field_kv f with
                          | Some (k', v) => if bytes_eqb k k' then Some v else acc
                          | None => acc
                          end) fs None.
Definition prop_hdr (raw : list Z) (obs : list (list Z * list Z)) : bool :=
  let fs := split_on 59 raw in
  forallb (fun kv => opt_eqb bytes_eqb (last_for (fst kv) fs) (Some (snd kv))) obs &&
  forallb (fun f => match field_kv f with
                    | Some (k, _) => existsb (fun o => bytes_eqb k (fst o)) obs
                    | None => true
                    end) fs.

Inductive case :=
| CJwt (c : jcfg) (t : mactab) (reqs : list (Z * cred)) (obs : list jobs)
| CCs (c : cs_case)
| CHdr (raw : list Z) (obs : list (list Z * list Z)).

Definition agrees (c : case) : bool :=
  match c with
  | CJwt jc t reqs obs =>
    forallb (fun rq => tab_complete t jc (snd rq)) reqs &&
    forall2b jres_eqb (run_jwt (tab_mac t) [] jc reqs) obs
  | CCs x => agrees_cs x
  | CHdr raw obs => agrees_hdr raw obs
  end.

Definition prop_ok (c : case) : bool :=
  match c with
  | CJwt jc t reqs obs => forall2b (jwt_prop1 t jc) reqs obs
  | CCs x => prop_cs x
  | CHdr raw obs => prop_hdr raw obs
  end.

Inductive mobs :=
| MJwt (l : list jresult)
| MCs (h : hout) (code : Z) (codec : res * res * option res)
| MHdr (l : list (list Z * list Z)).

Definition model_obs (c : case) : mobs :=
  match c with
  | CJwt jc t reqs _ => MJwt (run_jwt (tab_mac t) [] jc reqs)
  | CCs x => MCs (model_cs x) (model_code x) (model_codec x)
  | CHdr raw _ => MHdr (parse_header raw)
  end.
