(* C18 — correspondence / property evaluation on requests observed on the
   implementation.  Executable only.  The abstract cryptography of Model.v is
   instantiated by finite tables computed by the harness with Go's own crypto. *)
From Coq Require Import List ZArith Bool.
From GZgen Require Import C18Consts.
From GZ Require Export Lib.CheckLib C18.Model C18.Header C18.Server.
Import ListNotations.
Open Scope Z_scope.

Definition alg_id (a : alg) : Z :=
  match a with HS256 => 1 | HS384 => 2 | HS512 => 3 | ANone => 4 | AAsym => 5 | AUnknown => 6 end.

Definition alg_eqb (a b : alg) : bool := alg_id a =? alg_id b.

(* ---- JWT ------------------------------------------------------------------ *)

Definition mactab := list ((Z * Z * Z) * Z).     (* (alg, key, input) -> tag; tags are >= 1 *)

Fixpoint lookup3 (a k i : Z) (t : mactab) : option Z :=
  match t with
  | [] => None
  | ((a', k', i'), v) :: t' => if (a =? a') && (k =? k') && (i =? i') then Some v else lookup3 a k i t'
  end.

Definition tab_mac (t : mactab) (a : alg) (k i : Z) : Z :=
  match lookup3 (alg_id a) k i t with Some v => v | None => -1 end.

(* [ob_err]: the error the UnauthorizedCallback was called with, as the jwt.ValidationError bit
   set (-1: no token in request; 0: callback not called; -9: no callback installed).
   [ob_cbstatus]: the status the callback itself wrote (0: none; then the middleware's 401 stands) *)
Record jobs := mkJobs { ob_ran : bool; ob_status : Z; ob_ctx : list (Z * cval); ob_panic : bool;
                        ob_err : Z; ob_cbstatus : Z }.

Definition kv_eqb (a b : Z * cval) : bool := (fst a =? fst b) && cval_eqb (snd a) (snd b).

Definition jres_eqb (re : jresult * Z) (o : jobs) : bool :=
  let '(r, e) := re in
  Bool.eqb (jran r) (ob_ran o) &&
  ((if jran r then 200 else if ob_cbstatus o =? 0 then jstatus r else ob_cbstatus o) =? ob_status o) &&
  list_eqb kv_eqb (jctx r) (ob_ctx o) && negb (ob_panic o) &&
  ((ob_err o =? -9) || (ob_err o =? e)).

(* the harness supplied a tag for every (HS alg, configured secret, input) the model may ask for *)
Definition tab_complete (t : mactab) (c : jcfg) (cr : cred) : bool :=
  match cr with
  | CToken tk =>
    if is_hs (talg tk) then
      forallb (fun k => match lookup3 (alg_id (talg tk)) k (tinput tk) t with Some v => 1 <=? v | None => false end)
              (secrets c)
    else true
  | _ => true
  end.

(* the property read directly on one observation: the handler ran only for a token whose
   signature is the HMAC under the current or previous secret with an HS method and whose
   time claims hold now, and then saw exactly the non-registered claims; otherwise 401 *)
Definition jwt_valid_spec (t : mactab) (c : jcfg) (now : Z) (cr : cred) : bool :=
  match cr with
  | CToken tk =>
    match talg tk with
    | HS256 | HS384 | HS512 =>
      match tsig tk with
      | Some s =>
        existsb (fun k => match lookup3 (alg_id (talg tk)) k (tinput tk) t with Some v => s =? v | None => false end)
                (secrets c)
      | None => false
      end
    | _ => false
    end &&
    match lookup k_exp (tclaims tk) with None => true | Some (VNum e) => now <? e | Some _ => false end &&
    match lookup k_iat (tclaims tk) with None => true | Some (VNum e) => e <=? now | Some _ => false end &&
    match lookup k_nbf (tclaims tk) with None => true | Some (VNum e) => e <=? now | Some _ => false end
  | _ => false
  end.

Definition nonstd_claims (cr : cred) : list (Z * cval) :=
  match cr with
  | CToken tk => filter (fun kv => ((fst kv <? 1) || (7 <? fst kv)) &&
                                  match snd kv with VNull => false | _ => true end) (tclaims tk)
  | _ => []
  end.

Definition jwt_prop1 (t : mactab) (c : jcfg) (rq : Z * cred) (o : jobs) : bool :=
  negb (ob_panic o) &&
  if ob_ran o then
    jwt_valid_spec t c (fst rq) (snd rq) && list_eqb kv_eqb (ob_ctx o) (nonstd_claims (snd rq))
  else (ob_status o =? (if ob_cbstatus o =? 0 then 401 else ob_cbstatus o)) &&
       match ob_ctx o with [] => true | _ => false end &&
       (* a callback, when installed, is told about every rejection *)
       negb (ob_err o =? 0).

Fixpoint forall2b {A B} (f : A -> B -> bool) (l1 : list A) (l2 : list B) : bool :=
  match l1, l2 with
  | [], [] => true
  | x :: l1', y :: l2' => f x y && forall2b f l1' l2'
  | _, _ => false
  end.

(* ---- content security / cryption ------------------------------------------ *)

Definition bytes_eqb := list_eqb Z.eqb.

Definition blocktab := list (list Z * list Z).

Fixpoint lookup_block (b : list Z) (t : blocktab) : option (list Z) :=
  match t with
  | [] => None
  | (b', v) :: t' => if bytes_eqb b b' then Some v else lookup_block b t'
  end.

(* a block the harness did not tabulate maps to a non-byte marker and can never agree *)
Definition tab_block (t : blocktab) (_ : Z) (b : list Z) : list Z :=
  match lookup_block b t with Some v => v | None => [-1] end.

Definition ctab := list ((Z * content) * Z).      (* (key, signed content) -> tag *)

Definition content_eqb (a b : content) : bool :=
  let '(a1, a2, a3, a4, a5) := a in
  let '(b1, b2, b3, b4, b5) := b in
  (a1 =? b1) && (a2 =? b2) && (a3 =? b3) && (a4 =? b4) && (a5 =? b5).

Fixpoint lookup_c (k : Z) (c : content) (t : ctab) : option Z :=
  match t with
  | [] => None
  | ((k', c'), v) :: t' => if (k =? k') && content_eqb c c' then Some v else lookup_c k c t'
  end.

Definition tab_cmac (t : ctab) (k : Z) (c : content) : Z :=
  match lookup_c k c t with Some v => v | None => -1 end.

(* base64 is abstract: an encoded text is represented by a marker followed by the bytes it
   encodes; the harness decodes the wire text with encoding/base64 *)
Definition b64_marker : Z := -2.
Definition enc_b64 (l : list Z) : list Z := b64_marker :: l.

Record cs_obs := mkCsObs
  { c_ran : bool; c_status : Z; c_code : Z;
    c_seen : list Z;
    c_respraw : list Z;                 (* response body bytes as sent *)
    c_respdec : option (list Z);        (* base64-decoded by the harness *)
    c_respplain : option (list Z);      (* decrypted by the harness' own AES + unpadding *)
    c_panic : bool;
    c_codec_enc : res;                  (* codec.EcbEncrypt(key, body) *)
    c_codec_dec : res;                  (* codec.EcbDecrypt(key, that) *)
    c_raw_dec : option res;             (* codec.EcbDecrypt(key, base64-decoded wire body) *)
    c_hdrout : bool;                    (* the response header set by the route handler reached the client *)
    c_codecx : bool;                    (* EcbEncryptBase64 / EcbDecryptBase64 / NewECB*.CryptBlocks / BlockSize behave like
                                           EcbEncrypt / EcbDecrypt (compared by the harness) *)
    c_mwran : bool }.                   (* a server.Use middleware ran (= c_ran when none is installed) *)

Record cs_case := mkCs
  { x_crypt : bool;                                   (* LimitCryptionHandler alone *)
    x_sig : bool;                                     (* the route has the signature verifier (rest.WithSignature) *)
    x_codeobs : bool;                                 (* the callback code was observed *)
    x_jwt : option (jcfg * mactab * Z * cred);        (* the JWT gate in front *)
    x_strict : bool; x_decs : list (Z * Z); x_tol : Z; x_now : Z; x_limit : Z;
    x_req : cs_req; x_resp : list Z;
    x_key : Z;                                        (* key of the stand-alone cryption handler *)
    x_rsa : option cs_secret;                         (* the plaintext of the header's secret ... *)
    x_rsakeys : list Z;                               (* ... under these private keys (tried by the harness with crypto/rsa) *)
    x_tags : ctab;
    x_digest : Z;
    x_aesok : bool;
    x_etab : blocktab; x_dtab : blocktab;
    x_b64 : option (list Z);                          (* base64-decoding of the wire body *)
    x_plain : list Z;                                 (* the body the client meant *)
    x_honest_enc : bool;                              (* sent as base64(AES-ECB(pad plain)) under the key of the secret *)
    x_cors : bool;                                    (* eng: the server has rest.WithCors and the request went through the CORS router *)
    x_obs : cs_obs }.

(* the CORS router answers every OPTIONS request itself (204), before routing *)
Definition cors_pre (c : cs_case) : bool := x_cors c && (r_method (x_req c) =? m_options).

Definition x_rsa_dec (c : cs_case) (kid sc : Z) : option cs_secret :=
  match h_secret (r_hdr (x_req c)) with
  | Some sc' => if (sc =? sc') && memz kid (x_rsakeys c) then x_rsa c else None
  | None => None
  end.

(* the specification's own reading of "the key configured for this fingerprint": the last
   entry of the group's PrivateKeys with that fingerprint *)
Definition spec_key (fp : Z) (keys : list (Z * Z)) : option Z :=
  fold_left (fun acc fk => if fp =? fst fk then Some (snd fk) else acc) keys None.

Definition model_cs (c : cs_case) : hout :=
  let aes := fun _ : Z => x_aesok c in
  let E := tab_block (x_etab c) in
  let D := tab_block (x_dtab c) in
  let b64d := fun _ : list Z => x_b64 c in
  if cors_pre c then mkHout false 204 [] [] false else
  if x_crypt c then
    crypt_handler unknown_length_fix aes E D enc_b64 b64d (x_limit c) (x_key c) (r_clen (x_req c)) (r_body (x_req c)) (x_resp c)
  else
    if negb (x_sig c) then
      (* a route with the JWT option only, or a public route *)
      match x_jwt c with
      | Some (jc, mt, jnow, cr) =>
        if jran (snd (authorize (tab_mac mt) [] jc jnow cr))
        then mkHout true 200 (r_body (x_req c)) (x_resp c) false
        else mkHout false 401 [] [] false
      | None => mkHout true 200 (r_body (x_req c)) (x_resp c) false
      end
    else
    match x_jwt c with
    | Some (jc, mt, jnow, cr) =>
      chain_handler unknown_length_fix (tab_mac mt) (x_rsa_dec c) (tab_cmac (x_tags c)) (fun _ => x_digest c) aes E D enc_b64 b64d
                    jc jnow cr (x_strict c) (x_decs c) (x_tol c) (x_now c) (x_limit c) (x_req c) (x_resp c)
    | None =>
      cs_handler unknown_length_fix (x_rsa_dec c) (tab_cmac (x_tags c)) (fun _ => x_digest c) aes E D enc_b64 b64d
                 (x_strict c) (x_decs c) (x_tol c) (x_now c) (x_limit c) (x_req c) (x_resp c)
    end.

Definition model_code (c : cs_case) : Z :=
  if x_crypt c || negb (x_sig c) || cors_pre c then -1 else
  match snd (cs_gate unknown_length_fix (x_rsa_dec c) (tab_cmac (x_tags c)) (fun _ => x_digest c)
                     (x_strict c) (x_decs c) (x_tol c) (x_now c) (x_req c)) with
  | Some cd => code_z cd
  | None => -1
  end.

Definition resp_match (m : list Z) (o : cs_obs) : bool :=
  match m with
  | k :: m' => if k =? b64_marker then opt_eqb bytes_eqb (Some m') (c_respdec o)
               else bytes_eqb m (c_respraw o)
  | [] => bytes_eqb [] (c_respraw o)
  end.

Definition res_eqb (a b : res) : bool :=
  match a, b with
  | Ok x, Ok y => bytes_eqb x y
  | Err, Err => true
  | Panic, Panic => true
  | _, _ => false
  end.

Definition model_codec (c : cs_case) : res * res * option res :=
  let aes := fun _ : Z => x_aesok c in
  let E := tab_block (x_etab c) in
  let D := tab_block (x_dtab c) in
  let e := ecb_encrypt aes E 0 (x_plain c) in
  (e, match e with Ok ct => ecb_decrypt aes D 0 ct | _ => Err end,
   match x_b64 c with Some ct => Some (ecb_decrypt aes D 0 ct) | None => None end).

Definition agrees_cs (c : cs_case) : bool :=
  let m := model_cs c in
  let o := x_obs c in
  Bool.eqb (o_ran m) (c_ran o) && Bool.eqb (o_panic m) (c_panic o) && Bool.eqb (o_ran m) (c_mwran o) &&
  (o_panic m || ((o_status m =? c_status o) && bytes_eqb (o_seen m) (c_seen o) && resp_match (o_resp m) o)) &&
  (if x_codeobs c then
     match x_jwt c with
     | Some (jc, mt, jnow, cr) =>
       if jran (snd (authorize (tab_mac mt) [] jc jnow cr)) || cors_pre c then model_code c =? c_code o else c_code o =? -1
     | None => model_code c =? c_code o
     end
   else true) &&
  let '(e, d, r) := model_codec c in
  res_eqb e (c_codec_enc o) && res_eqb d (c_codec_dec o) && opt_eqb res_eqb r (c_raw_dec o).

(* the credential, read off the request by the specification (not by cs_gate): every
   attribute present, fingerprint configured, secret decrypts under that key, timestamp
   within tolerance, and the signature is the MAC, under the secret's key, of exactly
   (timestamp, method, URL path, URL query, digest of the body sent) *)
Definition signed_spec (c : cs_case) : bool :=
  let r := x_req c in
  match h_fp (r_hdr r), h_secret (r_hdr r), h_sig (r_hdr r) with
  | Some fp, Some _, Some sg =>
    match spec_key fp (x_decs c) with Some kid => memz kid (x_rsakeys c) | None => false end &&
    match x_rsa c with
    | Some sec =>
      match sk_key sec, sk_tsval sec with
      | Some key, Some ts =>
        (x_now c - x_tol c <=? ts) && (ts <=? x_now c + x_tol c) &&
        match lookup_c key (sk_tsid sec, r_method r, r_path r, r_query r, x_digest c) (x_tags c) with
        | Some tag => sg =? tag
        | None => false
        end
      | _, _ => false
      end
    | None => false
    end
  | _, _, _ => false
  end.

Definition secret_type (c : cs_case) : option Z :=
  match x_rsa c with Some sec => sk_ctype sec | None => None end.

(* does the request go through body decryption according to the property's text:
   stand-alone cryption handler, or a validly signed request of type 1 *)
Definition must_decrypt (c : cs_case) : bool :=
  x_honest_enc c && x_aesok c &&
  (* within the configured size limit, and no X-Request-Uri pointing elsewhere *)
  ((x_limit c <=? 0) ||
   ((if r_clen (x_req c) <? 0 then len (r_body (x_req c)) else r_clen (x_req c)) <=? x_limit c)) &&
  match r_xuri (x_req c) with
  | Some (p, q) => (p =? r_path (x_req c)) && (q =? r_query (x_req c))
  | None => true
  end &&
  (x_crypt c || (negb (x_crypt c) && x_sig c && signed_spec c && opt_eqb Z.eqb (secret_type c) (Some 1)
                 && checked (r_method (x_req c)))) &&
  match x_jwt c with Some (jc, mt, jnow, cr) => jwt_valid_spec mt jc jnow cr | None => true end.

Definition prop_cs (c : cs_case) : bool :=
  let o := x_obs c in
  negb (c_panic o) && c_codecx o &&
  (* what the handler puts in the response header goes out, whatever writer the gate wrapped around *)
  (if c_ran o then c_hdrout o else true) &&
  (* gates: neither the route handler nor a middleware registered with server.Use runs without the credential *)
  (if c_ran o || c_mwran o then
     (if x_crypt c then true else if x_sig c && x_strict c then signed_spec c else true) &&
     match x_jwt c with Some (jc, mt, jnow, cr) => jwt_valid_spec mt jc jnow cr | None => true end
   else true) &&
  (* encrypted body in, encrypted response out *)
  (if must_decrypt c then
     c_ran o && bytes_eqb (c_seen o) (x_plain c) &&
     match x_resp c with
     | [] => bytes_eqb (c_respraw o) []
     | _ => opt_eqb bytes_eqb (c_respplain o) (Some (x_resp c))
     end
   else true) &&
  (* codec round trip of any payload under a usable key *)
  (if x_aesok c then res_eqb (c_codec_dec o) (Ok (x_plain c)) else true).

(* ---- cases ----------------------------------------------------------------- *)

(* ---- httpx.ParseHeader ------------------------------------------------------ *)

Definition pair_bytes_eqb (a b : list Z * list Z) : bool := bytes_eqb (fst a) (fst b) && bytes_eqb (snd a) (snd b).

(* the model's final map equals the Go map (given as key/value pairs in any order) *)
Definition agrees_hdr (raw : list Z) (obs : list (list Z * list Z)) : bool :=
  forallb (fun kv => opt_eqb bytes_eqb (hget (fst kv) (parse_header raw)) (Some (snd kv))) obs &&
  forallb (fun kv => existsb (fun o => bytes_eqb (fst kv) (fst o)) obs) (parse_header raw).

(* directly on the observed map: every entry is, verbatim, a trimmed ';'-field "k=v" cut at
   its first '=', namely the last such field for k; and every well-formed field's key is there *)
Definition field_kv (f : list Z) : option (list Z * list Z) := cut_eq (trim f).
Definition last_for (k : list Z) (fs : list (list Z)) : option (list Z) :=
  fold_left (fun acc f => match field_kv f with
                          | Some (k', v) => if bytes_eqb k k' then Some v else acc
                          | None => acc
                          end) fs None.
Definition prop_hdr (raw : list Z) (obs : list (list Z * list Z)) : bool :=
  let fs := split_on 59 raw in
  forallb (fun kv => opt_eqb bytes_eqb (last_for (fst kv) fs) (Some (snd kv))) obs &&
  forallb (fun f => match field_kv f with
                    | Some (k, _) => existsb (fun o => bytes_eqb k (fst o)) obs
                    | None => true
                    end) fs.

(* ---- token.TokenParser driven directly ------------------------------------------- *)

(* one call: (secret, prevSecret) of this call, clock, credential; observed error code *)
Definition tp_call := (jcfg * Z * cred)%type.

(* the property on one call, read on the observation: a token is returned (code 0) only for
   a credential valid under the secrets of THIS call *)
Definition tp_prop1 (t : mactab) (c : tp_call) (e : Z) : bool :=
  let '(jc, now, cr) := c in
  if e =? 0 then jwt_valid_spec t jc now cr else true.

(* ---- a rest.Server with several route groups ---------------------------------------- *)

Fixpoint lookup2 {A} (a b : Z) (t : list ((Z * Z) * A)) : option A :=
  match t with
  | [] => None
  | ((a', b'), v) :: t' => if (a =? a') && (b =? b') then Some v else lookup2 a b t'
  end.

Fixpoint lookup_bytes {A} (b : list Z) (t : list (list Z * A)) : option A :=
  match t with
  | [] => None
  | (b', v) :: t' => if bytes_eqb b b' then Some v else lookup_bytes b t'
  end.

Fixpoint lookup_kb (k : Z) (b : list Z) (t : list ((Z * list Z) * list Z)) : option (list Z) :=
  match t with
  | [] => None
  | ((k', b'), v) :: t' => if (k =? k') && bytes_eqb b b' then Some v else lookup_kb k b t'
  end.

Record srv_tabs := mkTabs
  { t_mac : mactab;
    t_rsa : list ((Z * Z) * cs_secret);          (* (private key, ciphertext) -> plaintext, where it decrypts *)
    t_cmac : ctab;
    t_sha : list (list Z * Z);                   (* body -> digest id *)
    t_aes : list Z;                              (* keys aes.NewCipher accepts *)
    t_e : list ((Z * list Z) * list Z);          (* (key, block) -> AES block *)
    t_d : list ((Z * list Z) * list Z);
    t_b64 : list (list Z * list Z) }.            (* wire body -> its base64 decoding, where it decodes *)

Definition tabs_rsa (t : srv_tabs) (kid sc : Z) : option cs_secret := lookup2 kid sc (t_rsa t).
Definition tabs_sha (t : srv_tabs) (b : list Z) : Z := match lookup_bytes b (t_sha t) with Some d => d | None => -1 end.
Definition tabs_aes (t : srv_tabs) (k : Z) : bool := memz k (t_aes t).
Definition tabs_e (t : srv_tabs) (k : Z) (b : list Z) : list Z := match lookup_kb k b (t_e t) with Some v => v | None => [-1] end.
Definition tabs_d (t : srv_tabs) (k : Z) (b : list Z) : list Z := match lookup_kb k b (t_d t) with Some v => v | None => [-1] end.
Definition tabs_b64 (t : srv_tabs) (w : list Z) : option (list Z) := lookup_bytes w (t_b64 t).

Record srv_obs := mkSObs
  { so_ran : bool; so_route : option route; so_status : Z; so_seen : list Z;
    so_respraw : list Z; so_respdec : option (list Z);
    so_uerr : Z;                                   (* -9: no unauthorized callback installed *)
    so_mwran : bool;                               (* the server.Use middleware ran *)
    so_ctxok : bool;                               (* the handler's context held exactly the token's non-registered claims,
                                                      before and after other requests were served (harness comparison) *)
    so_outer : Z;                                  (* status seen by a middleware OUTSIDE the gates (-1: none installed) *)
    so_panic : bool }.

Record srv_case := mkSrv
  { v_limit : Z;
    v_keyok : list Z;                              (* key files codec.NewRsaDecrypter can load *)
    v_groups : list group;
    v_tabs : srv_tabs;
    v_bindok : bool;                               (* observed: Start got past bindRoutes *)
    v_cors : bool;                                 (* rest.WithCors, and the requests went through the CORS router *)
    v_clean : list (Z * Z);                        (* received path -> path.Clean of it, where they differ (computed by the
                                                      generator's own implementation of Go's path.Clean) *)
    v_reqs : list (sreq * nat * srv_obs) }.        (* request, index of the group it is aimed at, observation *)

Definition srv_clean (c : srv_case) (p : Z) : Z := match lookup p (v_clean c) with Some p' => p' | None => p end.

Definition model_srv (c : srv_case) : bool * list sout :=
  let t := v_tabs c in
  run_server_recv unknown_length_fix (fun k => memz k (v_keyok c)) (tab_mac (t_mac t)) (tabs_rsa t) (tab_cmac (t_cmac t)) (tabs_sha t)
             (tabs_aes t) (tabs_e t) (tabs_d t) enc_b64 (tabs_b64 t)
             (v_cors c) (srv_clean c) (v_limit c) (v_groups c) (map (fun x => fst (fst x)) (v_reqs c)).

Definition resp_match2 (m raw : list Z) (dec : option (list Z)) : bool :=
  match m with
  | k :: m' => if k =? b64_marker then opt_eqb bytes_eqb (Some m') dec else bytes_eqb m raw
  | [] => bytes_eqb [] raw
  end.

Definition route_opt_eqb := opt_eqb route_eqb.

Definition sout_eqb (m : sout) (o : srv_obs) : bool :=
  let h := s_out m in
  Bool.eqb (o_ran h) (so_ran o) && negb (so_panic o) && negb (o_panic h) &&
  (o_status h =? so_status o) && bytes_eqb (o_seen h) (so_seen o) &&
  (* the router's own 404 / 405 pages are not part of the model *)
  ((o_status h =? 404) || (o_status h =? 405) || resp_match2 (o_resp h) (so_respraw o) (so_respdec o)) &&
  route_opt_eqb (s_route m) (so_route o) &&
  Bool.eqb (o_ran h) (so_mwran o) &&
  ((so_outer o =? -1) || (so_outer o =? o_status h)) &&
  ((so_uerr o =? -9) || (so_uerr o =? s_uerr m)).

Definition agrees_srv (c : srv_case) : bool :=
  let '(ok, outs) := model_srv c in
  Bool.eqb ok (v_bindok c) && forall2b sout_eqb outs (map snd (v_reqs c)).

(* the specification, per GROUP and read on the observation: the signature must verify under
   the keys configured for the group the route was registered in *)
Definition signed_spec_srv (t : srv_tabs) (sc : sigcfg) (now : Z) (r : cs_req) : bool :=
  match h_fp (r_hdr r), h_secret (r_hdr r), h_sig (r_hdr r) with
  | Some fp, Some sct, Some sg =>
    match spec_key fp (sg_keys sc) with
    | Some kid =>
      match lookup2 kid sct (t_rsa t) with
      | Some sec =>
        match sk_key sec, sk_tsval sec, lookup_bytes (r_body r) (t_sha t) with
        | Some key, Some ts, Some dig =>
          (now - sg_tol sc <=? ts) && (ts <=? now + sg_tol sc) &&
          match lookup_c key (sk_tsid sec, r_method r, r_path r, r_query r, dig) (t_cmac t) with
          | Some tag => sg =? tag
          | None => false
          end
        | _, _, _ => false
        end
      | None => false
      end
    | None => false
    end
  | _, _, _ => false
  end.

Definition prop_srv1 (c : srv_case) (x : sreq * nat * srv_obs) : bool :=
  let '(q, gi, o) := x in
  let t := v_tabs c in
  negb (so_panic o) &&
  (* what a middleware in front of the gates records is what the client gets; the claims in the handler's
     context are its own token's, also after other requests went through the same gate *)
  ((so_outer o =? -1) || (so_outer o =? so_status o)) && (if so_ran o then so_ctxok o else true) &&
  match nth_error (v_groups c) gi with
  | None => false
  | Some g =>
    let jwt_ok := match g_jwt g with
                  | Some jc => jwt_valid_spec (t_mac t) jc (q_jnow q) (q_cred q)
                  | None => true
                  end in
    let sig_ok := match g_sig g with
                  | Some sc => if sg_strict sc && checked (r_method (q_cs q))
                               then signed_spec_srv t sc (q_now q) (q_cs q) else true
                  | None => true
                  end in
    (* the route the router finds for the request: under the CLEANED path; everything else is judged on the
       request as received *)
    let routed_ok := existsb (route_eqb (routed (srv_clean c) q)) (g_routes g) in
    (if so_ran o || so_mwran o then
       (* only the handler registered for this very route (the one the router finds under the cleaned path, in
          the group the request was aimed at), and only with credentials that are valid for ITS OWN group's
          configuration *)
       routed_ok &&
       route_opt_eqb (so_route o) (if so_ran o then Some (routed (srv_clean c) q) else None) && jwt_ok && sig_ok
     else
       (* a request the CORS router answers itself (OPTIONS behind rest.WithCors), or one whose spelling of path or
          method the router does not map onto the route (404 / 405), never reaches the gate *)
       let reaches := negb (v_cors c && (r_method (q_cs q) =? m_options)) && routed_ok in
       (if negb jwt_ok && v_bindok c && reaches then so_status o =? 401 else true) &&
       negb ((so_uerr o =? 0) && negb jwt_ok && v_bindok c && reaches))
  end.

Definition prop_srv (c : srv_case) : bool := forallb (prop_srv1 c) (v_reqs c).

(* ---- payload sizes of the cryption round trip ------------------------------------- *)

(* The payloads are (seed, length) pairs expanded by the executor; AES and base64 act on them as
   whole-payload oracles, so what the model predicts is what the round-trip theorems say for EVERY
   payload (ProofsCheck.big_model_is_crypt_handler): within the size limit the handler runs, reads
   the plaintext, and the response decrypts — by an independent client — to what was written. *)
Record big_case := mkBig
  { g_cs : bool;                 (* behind strict content security (signed, type 1) instead of the stand-alone handler *)
    g_chunked : bool;            (* unknown length *)
    g_limit : Z; g_reqlen : Z; g_resplen : Z;
    g_wirelen : Z;               (* observed: length of the base64 text sent *)
    g_ran : bool; g_status : Z;
    g_seenok : bool;             (* the handler read exactly the plaintext *)
    g_respok : bool;             (* client-side decode + decrypt of the response = what the handler wrote *)
    g_panic : bool }.

(* pkcs5Padding, base64.StdEncoding: lengths *)
Definition padded_len (n : Z) : Z := (n / 16 + 1) * 16.
Definition b64_len (n : Z) : Z := 4 * ((n + 2) / 3).
Definition big_wire_len (c : big_case) : Z := b64_len (padded_len (g_reqlen c)).
Definition big_exceeds (limit wirelen : Z) : bool := (0 <? limit) && (limit <? wirelen).
(* does the body get decrypted at all: always with a length; without one only with the repair *)
Definition big_decrypts (c : big_case) : bool := negb (g_chunked c) || unknown_length_fix.

Definition agrees_big (c : big_case) : bool :=
  (g_wirelen c =? big_wire_len c) && negb (g_panic c) &&
  if big_exceeds (g_limit c) (g_wirelen c) then negb (g_ran c) && (g_status c =? 400)
  else g_ran c && (g_status c =? 200) && Bool.eqb (g_seenok c) (big_decrypts c) && g_respok c.

Definition prop_big (c : big_case) : bool :=
  negb (g_panic c) &&
  if big_exceeds (g_limit c) (g_wirelen c) || negb (big_decrypts c) then true
  else g_ran c && g_seenok c && g_respok c.

Inductive case :=
| CBig (c : big_case)
| CJwt (c : jcfg) (t : mactab) (reqs : list hreq) (obs : list jobs)      (* whole requests: method, other headers, clock, credential *)
| CTp (rs : bool) (t : mactab) (calls : list tp_call) (obs : list Z)
| CSrv (c : srv_case)
| CCs (c : cs_case)
| CHdr (raw : list Z) (obs : list (list Z * list Z)).

Definition agrees (c : case) : bool :=
  match c with
  | CJwt jc t reqs obs =>
    forallb (fun rq => tab_complete t jc (hq_cred rq)) reqs &&
    forall2b jres_eqb (run_jwt_req (tab_mac t) [] jc reqs) obs
  | CTp rs t calls obs =>
    forallb (fun cl => tab_complete t (fst (fst cl)) (snd cl)) calls &&
    list_eqb Z.eqb (run_parser (tab_mac t) rs [] calls) obs
  | CSrv x => agrees_srv x
  | CBig x => agrees_big x
  | CCs x => agrees_cs x
  | CHdr raw obs => agrees_hdr raw obs
  end.

Definition prop_ok (c : case) : bool :=
  match c with
  | CJwt jc t reqs obs => forall2b (fun q => jwt_prop1 t jc (hq_core q)) reqs obs
  | CTp _ t calls obs => forall2b (tp_prop1 t) calls obs
  | CSrv x => prop_srv x
  | CBig x => prop_big x
  | CCs x => prop_cs x
  | CHdr raw obs => prop_hdr raw obs
  end.

Inductive mobs :=
| MJwt (l : list (jresult * Z))
| MTp (l : list Z)
| MSrv (r : bool * list sout)
| MBig (wirelen : Z) (exceeds decrypts : bool)
| MCs (h : hout) (code : Z) (codec : res * res * option res)
| MHdr (l : list (list Z * list Z)).

Definition model_obs (c : case) : mobs :=
  match c with
  | CJwt jc t reqs _ => MJwt (run_jwt_req (tab_mac t) [] jc reqs)
  | CTp rs t calls _ => MTp (run_parser (tab_mac t) rs [] calls)
  | CSrv x => MSrv (model_srv x)
  | CBig x => MBig (big_wire_len x) (big_exceeds (g_limit x) (big_wire_len x)) (big_decrypts x)
  | CCs x => MCs (model_cs x) (model_code x) (model_codec x)
  | CHdr raw _ => MHdr (parse_header raw)
  end.
