(* C18 — authentication gates.  Executable decision models only (no proofs here).

   Cryptography is abstract: [mac], [rsa_dec], [sha], the block permutation [E]/[D]
   and the base64 codec are Section variables (instantiated in Check.v by finite
   tables computed by the harness with Go's own crypto).  Keys, tags, inputs,
   paths, ... are opaque identifiers (Z); bodies are lists of bytes (Z in 0..255).

   Transcribed from
     rest/token/tokenparser.go        ParseToken / doParseToken / incrementCount / loadCount
     rest/handler/authhandler.go      Authorize / unauthorized
     golang-jwt/jwt/v4 (trusted)      ParseWithClaims: alg lookup, Method.Verify, MapClaims.Valid
     rest/internal/security/contentsecurity.go   ParseContentSecurity / VerifySignature / getPathQuery
     rest/handler/contentsecurityhandler.go      LimitContentSecurityHandler / handleVerificationFailure
     rest/handler/cryptionhandler.go  LimitCryptionHandler / decryptBody / flush
     core/codec/aesecb.go             pkcs5Padding / pkcs5Unpadding / CryptBlocks / EcbEncrypt / EcbDecrypt *)
From Coq Require Import List ZArith Bool.
Import ListNotations.
Open Scope Z_scope.

Fixpoint lookup {A} (k : Z) (l : list (Z * A)) : option A :=
  match l with
  | [] => None
  | (k', v) :: l' => if k =? k' then Some v else lookup k l'
  end.

Definition memz (k : Z) (l : list Z) : bool := existsb (Z.eqb k) l.

(* ------------------------------------------------------------------------- *)
(* JWT                                                                        *)

(* header "alg" as jwt/v4 resolves it: the three HMAC methods, "none", any of the
   registered asymmetric methods (RS/PS/ES/EdDSA), or not resolvable (missing,
   non-string, unregistered name: "signing method (alg) is unavailable") *)
Inductive alg := HS256 | HS384 | HS512 | ANone | AAsym | AUnknown.

Definition is_hs (a : alg) : bool :=
  match a with HS256 | HS384 | HS512 => true | _ => false end.

(* a claim value: an integral JSON number, JSON null, or anything else (identified) *)
Inductive cval := VNum (z : Z) | VNull | VOther (id : Z).

Definition cval_eqb (a b : cval) : bool :=
  match a, b with
  | VNum x, VNum y => x =? y
  | VOther x, VOther y => x =? y
  | VNull, VNull => true
  | _, _ => false
  end.

(* a token that splits into three segments whose first two decode to JSON objects:
   resolved alg, the signing input (header-segment "." payload-segment, identified),
   the decoded signature segment (None: not base64url), and the claims object.
   Claim names are identified; the registered names have fixed identifiers. *)
Record token := mkToken
  { talg : alg; tinput : Z; tsig : option Z; tclaims : list (Z * cval) }.

Inductive cred :=
| CMissing                 (* no Authorization header / empty *)
| CMalformed               (* segment count, base64 or JSON failure *)
| CToken (t : token).

Definition k_aud := 1.
Definition k_exp := 2.
Definition k_jti := 3.
Definition k_iat := 4.
Definition k_iss := 5.
Definition k_nbf := 6.
Definition k_sub := 7.
(* authhandler.go: the seven names that are not copied into the context *)
Definition is_std (k : Z) : bool := (1 <=? k) && (k <=? 7).

Inductive tclaim := TAbsent | TNum (z : Z) | TBad.

Definition time_claim (k : Z) (t : token) : tclaim :=
  match lookup k (tclaims t) with
  | None => TAbsent
  | Some (VNum z) => TNum z
  | Some _ => TBad                    (* not a number: Verify* returns false *)
  end.

(* MapClaims.Valid with json.Number claims (WithJSONNumber): exp: now < exp;
   iat: now >= iat; nbf: now >= nbf; each only when present *)
Definition exp_ok (now : Z) (t : token) : bool :=
  match time_claim k_exp t with TAbsent => true | TNum e => now <? e | TBad => false end.
Definition iat_ok (now : Z) (t : token) : bool :=
  match time_claim k_iat t with TAbsent => true | TNum i => i <=? now | TBad => false end.
Definition nbf_ok (now : Z) (t : token) : bool :=
  match time_claim k_nbf t with TAbsent => true | TNum n => n <=? now | TBad => false end.
Definition time_ok (now : Z) (t : token) : bool :=
  exp_ok now t && iat_ok now t && nbf_ok now t.

Record jcfg := mkJcfg { jsecret : Z; jprev : option Z }.   (* None: len(prevSecret) = 0 *)

Definition secrets (c : jcfg) : list Z :=
  match jprev c with Some p => [jsecret c; p] | None => [jsecret c] end.

Definition history := list (Z * Z).       (* TokenParser.history: secret -> hit count *)

Definition load_count (h : history) (k : Z) : Z :=
  match lookup k h with Some c => c | None => 0 end.

Fixpoint bump (k : Z) (h : history) : history :=
  match h with
  | [] => [(k, 1)]
  | (k', c) :: h' => if k =? k' then (k', c + 1) :: h' else (k', c) :: bump k h'
  end.

Record jresult := mkJres { jran : bool; jstatus : Z; jctx : list (Z * cval) }.

Definition unauthorized : jresult := mkJres false 401 [].

(* context.WithValue(ctx, k, v) for every non-registered claim; a null claim is stored as
   a nil value, which ctx.Value cannot tell from an absent key *)
Definition is_null (v : cval) : bool := match v with VNull => true | _ => false end.

Definition deliver (t : token) : list (Z * cval) :=
  filter (fun kv => negb (is_std (fst kv)) && negb (is_null (snd kv))) (tclaims t).

Section JWT.
  Variable mac : alg -> Z -> Z -> Z.          (* method, key, signing input -> tag *)

  (* SigningMethodHMAC.Verify; every other method fails on a []byte key
     (none: NoneSignatureTypeDisallowedError; RS/PS/ES/EdDSA: ErrInvalidKeyType) *)
  Definition sig_ok (k : Z) (t : token) : bool :=
    is_hs (talg t) &&
    match tsig t with
    | Some s => s =? mac (talg t) k (tinput t)
    | None => false
    end.

  (* doParseToken succeeded with this secret *)
  Definition parse1 (now k : Z) (t : token) : bool := sig_ok k t && time_ok now t.

  (* incrementCount: when the reset period is over ([rs]; tp.resetTime is never advanced, so
     once over it stays over) the whole history is dropped before the hit is counted *)
  Definition count_hit (rs : bool) (k : Z) (h : history) : history :=
    bump k (if rs then [] else h).

  (* ParseToken: order by hit counters, count the secret that verified *)
  Definition parse_token (rs : bool) (h : history) (c : jcfg) (now : Z) (t : token) : history * bool :=
    match jprev c with
    | Some p =>
      let '(first, second) :=
        if load_count h (jsecret c) >? load_count h p then (jsecret c, p) else (p, jsecret c) in
      if parse1 now first t then (count_hit rs first h, true)
      else if parse1 now second t then (count_hit rs second h, true)
      else (h, false)
    | None => (h, parse1 now (jsecret c) t)
    end.

  (* the error of one doParseToken, as the bit set of jwt.ValidationError.Errors
     (0 = no error; -1 = request.ErrNoTokenInRequest, which is not a ValidationError):
     Malformed = 1, Unverifiable = 2 (alg missing / not registered), SignatureInvalid = 4
     (returned before the claims are looked at), Expired = 16, IssuedAt = 32, NotValidYet = 128 *)
  Definition err1 (now k : Z) (cr : cred) : Z :=
    match cr with
    | CMissing => -1
    | CMalformed => 1
    | CToken t =>
      match talg t with
      | AUnknown => 2
      | _ => if sig_ok k t then
               (if exp_ok now t then 0 else 16) + (if iat_ok now t then 0 else 32) + (if nbf_ok now t then 0 else 128)
             else 4
      end
    end.

  (* the error ParseToken returns (handed to the unauthorized callback): with two secrets it
     is the error of the SECOND attempt, so it shows which secret was tried first *)
  Definition parse_err (h : history) (c : jcfg) (now : Z) (cr : cred) : Z :=
    match jprev c with
    | Some p =>
      let '(first, second) :=
        if load_count h (jsecret c) >? load_count h p then (jsecret c, p) else (p, jsecret c) in
      if err1 now first cr =? 0 then 0 else err1 now second cr
    | None => err1 now (jsecret c) cr
    end.

  (* Authorize *)
  Definition authorize_rs (rs : bool) (h : history) (c : jcfg) (now : Z) (cr : cred) : history * jresult :=
    match cr with
    | CToken t =>
      let '(h', ok) := parse_token rs h c now t in
      if ok then (h', mkJres true 200 (deliver t)) else (h', unauthorized)
    | _ => (h, unauthorized)
    end.

  (* handler.Authorize creates its parser with the default reset period (24 h) *)
  Definition authorize := authorize_rs false.

  Fixpoint run_jwt (h : history) (c : jcfg) (reqs : list (Z * cred)) : list jresult :=
    match reqs with
    | [] => []
    | (now, cr) :: reqs' =>
      let '(h', r) := authorize h c now cr in r :: run_jwt h' c reqs'
    end.

  (* one TokenParser driven directly: every call brings its own (secret, prevSecret); the
     observation is the error code (0 = token returned) *)
  Fixpoint run_parser (rs : bool) (h : history) (calls : list (jcfg * Z * cred)) : list Z :=
    match calls with
    | [] => []
    | (c, now, cr) :: calls' =>
      let e := parse_err h c now cr in
      let h' := fst (authorize_rs rs h c now cr) in
      e :: run_parser rs h' calls'
    end.

  (* the Authorize middleware with an UnauthorizedCallback: the error it is called with
     (0: not called) next to the result *)
  Fixpoint run_jwt_err (h : history) (c : jcfg) (reqs : list (Z * cred)) : list (jresult * Z) :=
    match reqs with
    | [] => []
    | (now, cr) :: reqs' =>
      let '(h', r) := authorize h c now cr in (r, parse_err h c now cr) :: run_jwt_err h' c reqs'
    end.
End JWT.

(* The WHOLE request as the Authorize middleware receives it: besides the clock and the
   credential (the Authorization header) also the HTTP method and every other header field,
   as (name id, value id) pairs in the order sent.  Well-known names have fixed identifiers
   (tools/props/c18.py numbers them the same way); everything else is interned per case.
   handler.Authorize reads neither: [authorize_req] does not look at them, and that this is
   so for EVERY method and header list is stated in Props.v
   (gate_independent_of_method_and_headers); Pinned.v has the variant that does look. *)
Definition m_options : Z := 100001.       (* "OPTIONS" *)
Definition h_origin : Z := 1.             (* "Origin" *)
Definition h_acrm : Z := 2.               (* "Access-Control-Request-Method" *)

Record hreq := mkHreq
  { hq_method : Z; hq_headers : list (Z * Z); hq_now : Z; hq_cred : cred }.

Definition hq_core (q : hreq) : Z * cred := (hq_now q, hq_cred q).

(* Header.Get(name) <> "" : some field of that name with a non-empty value (value id 0 = "") *)
Definition has_header (name : Z) (q : hreq) : bool :=
  existsb (fun nv => (fst nv =? name) && negb (snd nv =? 0)) (hq_headers q).

Definition authorize_req (mac : alg -> Z -> Z -> Z) (h : history) (c : jcfg) (q : hreq) : history * jresult :=
  authorize mac h c (hq_now q) (hq_cred q).

(* one middleware instance, a sequence of whole requests; next to each result the error the
   unauthorized callback is called with (0: not called) *)
Fixpoint run_jwt_req (mac : alg -> Z -> Z -> Z) (h : history) (c : jcfg) (reqs : list hreq) : list (jresult * Z) :=
  match reqs with
  | [] => []
  | q :: reqs' =>
    let '(h', r) := authorize_req mac h c q in
    (r, parse_err mac h c (hq_now q) (hq_cred q)) :: run_jwt_req mac h' c reqs'
  end.

(* ------------------------------------------------------------------------- *)
(* PKCS#5/7 padding and ECB (core/codec/aesecb.go), block size 16             *)

Definition bs : Z := 16.
Definition bsn : nat := 16.

Definition len (l : list Z) : Z := Z.of_nat (length l).

Inductive res := Ok (l : list Z) | Err | Panic.

(* pkcs5Padding *)
Definition pad (l : list Z) : list Z :=
  let p := bs - (len l) mod bs in l ++ repeat p (Z.to_nat p).

(* pkcs5Unpadding with the repair of pending/C18-unpad-empty.diff (empty input is an
   error, a full block of padding is accepted) *)
Definition unpad (l : list Z) : res :=
  match l with
  | [] => Err
  | _ => let n := len l in
         let u := last l 0 in
         if (u >? n) || (u >? bs) then Err else Ok (firstn (Z.to_nat (n - u)) l)
  end.

Fixpoint ecb_go (fuel : nat) (f : list Z -> list Z) (l : list Z) : list Z :=
  match fuel with
  | O => []
  | S fuel' =>
    match l with
    | [] => []
    | _ => f (firstn bsn l) ++ ecb_go fuel' f (skipn bsn l)
    end
  end.

(* CryptBlocks: input that is not a whole number of blocks is only logged and the
   zero-initialised destination is returned *)
Definition crypt_blocks (f : list Z -> list Z) (l : list Z) : list Z :=
  if (len l) mod bs =? 0 then ecb_go (length l) f l else repeat 0 (length l).

Section CRYPT.
  Variable ulfix : bool.                            (* the unknown-length repair is in the tree *)
  Variable aes_ok : Z -> bool.                      (* aes.NewCipher accepts the key *)
  Variable E D : Z -> list Z -> list Z.             (* key -> block -> block *)
  Variable b64enc : list Z -> list Z.
  Variable b64dec : list Z -> option (list Z).

  Definition ecb_encrypt (key : Z) (src : list Z) : res :=
    if aes_ok key then Ok (crypt_blocks (E key) (pad src)) else Err.

  Definition ecb_decrypt (key : Z) (src : list Z) : res :=
    if aes_ok key then unpad (crypt_blocks (D key) src) else Err.

  (* what came out of the gate for one request *)
  Record hout := mkHout
    { o_ran : bool;              (* the route handler was called *)
      o_status : Z;
      o_seen : list Z;           (* body the route handler read *)
      o_resp : list Z;           (* response body on the wire *)
      o_panic : bool }.

  (* cryptionResponseWriter.flush after a handler that wrote status 200 and [resp] *)
  Definition flush (key : Z) (resp : list Z) : list Z :=
    match resp with
    | [] => []
    | _ => match ecb_encrypt key resp with Ok c => b64enc c | _ => [] end
    end.

  (* base64-decode, decrypt, hand the plaintext to the route handler *)
  Definition decrypt_and_serve (key : Z) (content resp : list Z) : hout :=
    match b64dec content with
    | None => mkHout false 400 [] [] false
    | Some ct =>
      match ecb_decrypt key ct with
      | Ok p => mkHout true 200 p (flush key resp) false
      | Err => mkHout false 400 [] [] false
      | Panic => mkHout false 0 [] [] true
      end
    end.

  (* LimitCryptionHandler around a route handler that reads the whole body and answers
     200 with [resp]; [clen] = r.ContentLength, [wire] = the bytes of the body.
     [ulfix] (regenerated from the source, coq/gen/C18Consts.v: unknown_length_fix) tells whether
     the tree has the repair pending/C18-unknown-length.diff: without it every request with
     ContentLength <= 0 is passed through untouched; with it only ContentLength = 0 is, and a
     body of unknown length (-1, chunked) is read up to the limit and decrypted like any other
     (an empty one is passed through) *)
  Definition crypt_handler (limit key clen : Z) (wire resp : list Z) : hout :=
    if (if ulfix then clen =? 0 else clen <=? 0) then mkHout true 200 wire (flush key resp) false
    else if 0 <? clen then
      if (0 <? limit) && (limit <? clen) then mkHout false 400 [] [] false
      else if len wire <? clen then mkHout false 400 [] [] false       (* io.ReadFull: fewer bytes than announced *)
      else decrypt_and_serve key (firstn (Z.to_nat clen) wire) resp       (* exactly ContentLength bytes are read *)
    else
      if (0 <? limit) && (limit <? len wire) then mkHout false 400 [] [] false
      else match wire with
           | [] => mkHout true 200 [] (flush key resp) false
           | _ => decrypt_and_serve key wire resp
           end.
End CRYPT.

(* ------------------------------------------------------------------------- *)
(* Content security                                                           *)

(* the decrypted "secret" attribute: key=<base64>; time=<ts>; type=<n> *)
Record cs_secret := mkSecret
  { sk_key : option Z;        (* None: the key text is not base64 *)
    sk_tsid : Z;              (* the timestamp text, identified *)
    sk_tsval : option Z;      (* strconv.ParseInt of it *)
    sk_ctype : option Z }.    (* strconv.Atoi of type *)

(* attributes of X-Content-Security; None = absent or empty *)
Record cs_header := mkHdr { h_fp : option Z; h_secret : option Z; h_sig : option Z }.

Record cs_req := mkReq
  { r_method : Z; r_path : Z; r_query : Z;
    r_xuri : option (Z * Z);          (* parsed X-Request-Uri header: (path, query) *)
    r_hdr : cs_header;
    r_clen : Z;                       (* ContentLength *)
    r_body : list Z }.

(* DELETE = 1, GET = 2, POST = 3, PUT = 4; every other method has an id >= 5 *)
Definition checked (m : Z) : bool := (1 <=? m) && (m <=? 4).

Inductive cs_code := CodePass | CodeInvalidHeader | CodeWrongTime | CodeInvalidToken.

Definition code_z (c : cs_code) : Z :=
  match c with CodePass => 0 | CodeInvalidHeader => 1 | CodeWrongTime => 2 | CodeInvalidToken => 3 end.

(* the string that is signed: timestamp \n method \n path \n query \n hex(sha256(body)) *)
Definition content := (Z * Z * Z * Z * Z)%type.

(* decrypters[fingerprint] = decrypter, in the order of SignatureConf.PrivateKeys: for a
   repeated fingerprint the last entry wins *)
Fixpoint find_key (fp : Z) (decs : list (Z * Z)) : option Z :=
  match decs with
  | [] => None
  | (f, k) :: decs' =>
    match find_key fp decs' with
    | Some k' => Some k'
    | None => if fp =? f then Some k else None
    end
  end.

Section CS.
  Variable ulfix : bool.
  Variable rsa_dec : Z -> Z -> option cs_secret.  (* private key, ciphertext -> parsed plaintext *)
  Variable cmac : Z -> content -> Z.              (* HmacBase64 *)
  Variable sha : list Z -> Z.
  Variable aes_ok : Z -> bool.
  Variable E D : Z -> list Z -> list Z.
  Variable b64enc : list Z -> list Z.
  Variable b64dec : list Z -> option (list Z).

  (* ParseContentSecurity: (key, secret, type, signature).  [decs] is the route group's own
     map fingerprint -> private key (engine.signatureVerifier builds one per group) *)
  Definition parse_cs (decs : list (Z * Z)) (r : cs_req) : option (Z * cs_secret * Z * Z) :=
    match h_fp (r_hdr r), h_secret (r_hdr r), h_sig (r_hdr r) with
    | Some fp, Some sc, Some sg =>
      match find_key fp decs with
      | Some kid =>
        match rsa_dec kid sc with
        | Some sec =>
          match sk_key sec, sk_ctype sec with
          | Some key, Some ct => Some (key, sec, ct, sg)
          | _, _ => None
          end
        | None => None
        end
      | None => None
      end
    | _, _, _ => None
    end.

  (* getPathQuery: the X-Request-Uri header wins over the request URL *)
  Definition path_query (r : cs_req) : Z * Z :=
    match r_xuri r with Some pq => pq | None => (r_path r, r_query r) end.

  Definition sign_content (sec : cs_secret) (r : cs_req) : content :=
    (sk_tsid sec, r_method r, fst (path_query r), snd (path_query r), sha (r_body r)).

  (* VerifySignature *)
  Definition verify (now tol : Z) (r : cs_req) (key : Z) (sec : cs_secret) (sg : Z) : cs_code :=
    match sk_tsval sec with
    | None => CodeInvalidHeader
    | Some ts =>
      if (ts + tol <? now) || (now + tol <? ts) then CodeWrongTime
      else if sg =? cmac key (sign_content sec r) then CodePass
      else CodeInvalidToken
    end.

  Inductive cs_action :=
  | ActReject                 (* strict: 403, next not called *)
  | ActNext                   (* next.ServeHTTP with the request as it is *)
  | ActCrypt (key : Z).       (* LimitCryptionHandler(limit, key)(next) *)

  Definition on_failure (strict : bool) : cs_action := if strict then ActReject else ActNext.

  (* LimitContentSecurityHandler with the default callback; also the code handed to callbacks *)
  Definition cs_gate (strict : bool) (decs : list (Z * Z)) (tol now : Z) (r : cs_req) : cs_action * option cs_code :=
    if checked (r_method r) then
      match parse_cs decs r with
      | None => (on_failure strict, Some CodeInvalidHeader)
      | Some (key, sec, ct, sg) =>
        match verify now tol r key sec sg with
        | CodePass => (if (if ulfix then negb (r_clen r =? 0) else 0 <? r_clen r) && (ct =? 1)
                       then ActCrypt key else ActNext, None)
        | c => (on_failure strict, Some c)
        end
      end
    else (ActNext, None).

  Definition cs_handler (strict : bool) (decs : list (Z * Z)) (tol now limit : Z) (r : cs_req) (resp : list Z) : hout :=
    match fst (cs_gate strict decs tol now r) with
    | ActReject => mkHout false 403 [] [] false
    | ActNext => mkHout true 200 (r_body r) resp false
    | ActCrypt key => crypt_handler ulfix aes_ok E D b64enc b64dec limit key (r_clen r) (r_body r) resp
    end.
End CS.

(* engine.appendAuthHandler: Authorize first, then the signature verifier *)
Section CHAIN.
  Variable ulfix : bool.
  Variable mac : alg -> Z -> Z -> Z.
  Variable rsa_dec : Z -> Z -> option cs_secret.
  Variable cmac : Z -> content -> Z.
  Variable sha : list Z -> Z.
  Variable aes_ok : Z -> bool.
  Variable E D : Z -> list Z -> list Z.
  Variable b64enc : list Z -> list Z.
  Variable b64dec : list Z -> option (list Z).

  Definition chain_handler (jc : jcfg) (jnow : Z) (cr : cred)
             (strict : bool) (decs : list (Z * Z)) (tol now limit : Z) (r : cs_req) (resp : list Z) : hout :=
    if jran (snd (authorize mac [] jc jnow cr)) then
      cs_handler ulfix rsa_dec cmac sha aes_ok E D b64enc b64dec strict decs tol now limit r resp
    else mkHout false 401 [] [] false.
End CHAIN.
