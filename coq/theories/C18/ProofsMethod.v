(* C18 — the gates judged over the WHOLE request: HTTP method and every other header field
   are inputs of the request ([hreq]); the JWT gate's decision and answer are the same for
   every method and every list of other headers; behind a CORS router the OPTIONS method
   never reaches a route, and everything else is gated exactly as without it. *)
From Coq Require Import List ZArith Bool Lia.
From GZ Require Import C18.Model C18.Proofs C18.Server C18.ProofsServer.
Import ListNotations.
Open Scope Z_scope.

Section METHOD.
  Variable mac : alg -> Z -> Z -> Z.

  (* two requests with the same clock and the same credential get the same answer and leave
     the same hit counters, whatever their methods and other headers are *)
  Lemma authorize_req_ignores : forall h c q1 q2,
    hq_now q1 = hq_now q2 -> hq_cred q1 = hq_cred q2 ->
    authorize_req mac h c q1 = authorize_req mac h c q2.
  Proof. intros h c q1 q2 N C. unfold authorize_req. rewrite N, C. reflexivity. Qed.

  (* in particular: replace the method and the other headers by anything *)
  Lemma authorize_req_any_method : forall h c m1 hs1 m2 hs2 now cr,
    authorize_req mac h c (mkHreq m1 hs1 now cr) = authorize_req mac h c (mkHreq m2 hs2 now cr).
  Proof. intros. apply authorize_req_ignores; reflexivity. Qed.

  Lemma authorize_req_ran : forall h c q,
    jran (snd (authorize_req mac h c q)) = true <-> Accepts mac c (hq_now q) (hq_cred q).
  Proof. intros h c q. unfold authorize_req. apply authorize_ran. Qed.

  Lemma authorize_req_result : forall h c q,
    let r := snd (authorize_req mac h c q) in
    (jran r = false -> r = unauthorized) /\
    (forall t, hq_cred q = CToken t -> jran r = true -> jstatus r = 200 /\ jctx r = deliver t).
  Proof. intros h c q. unfold authorize_req. apply authorize_result. Qed.

  (* sequences of whole requests through one middleware instance *)
  Definition HReqOk (c : jcfg) (q : hreq) (re : jresult * Z) : Prop :=
    (jran (fst re) = true <-> Accepts mac c (hq_now q) (hq_cred q)) /\
    (jran (fst re) = false -> fst re = unauthorized) /\
    (forall t, hq_cred q = CToken t -> jran (fst re) = true -> jstatus (fst re) = 200 /\ jctx (fst re) = deliver t).

  Lemma run_jwt_req_ok : forall c reqs h, Forall2 (HReqOk c) reqs (run_jwt_req mac h c reqs).
  Proof.
    intros c reqs. induction reqs as [|q reqs IH]; intros h; cbn [run_jwt_req].
    - constructor.
    - pose proof (authorize_req_ran h c q) as A.
      pose proof (authorize_req_result h c q) as B.
      destruct (authorize_req mac h c q) as [h' r]. cbn [snd] in A, B.
      constructor; [|apply IH].
      unfold HReqOk. cbn [fst]. destruct B as [B1 B2]. auto.
  Qed.

  (* the run over whole requests is the run over (clock, credential) pairs: methods and other
     headers of the whole sequence are irrelevant, also for the hit counters in between *)
  Lemma run_jwt_req_core : forall c reqs h,
    run_jwt_req mac h c reqs = run_jwt_err mac h c (map hq_core reqs).
  Proof.
    intros c reqs. induction reqs as [|q reqs IH]; intros h; cbn [run_jwt_req run_jwt_err map]; [reflexivity|].
    unfold authorize_req, hq_core at 1.
    destruct (authorize mac h c (hq_now q) (hq_cred q)) as [h' r]. rewrite IH. reflexivity.
  Qed.

  Lemma run_jwt_req_ignores : forall c reqs1 reqs2 h,
    map hq_core reqs1 = map hq_core reqs2 ->
    run_jwt_req mac h c reqs1 = run_jwt_req mac h c reqs2.
  Proof. intros c reqs1 reqs2 h E. rewrite !run_jwt_req_core, E. reflexivity. Qed.
End METHOD.

(* ---- a server behind a CORS router ------------------------------------------- *)

Section CORS.
  Variable ulfix : bool.
  Variable key_ok : Z -> bool.
  Variable mac : alg -> Z -> Z -> Z.
  Variable rsa_dec : Z -> Z -> option cs_secret.
  Variable cmac : Z -> content -> Z.
  Variable sha : list Z -> Z.
  Variable aes_ok : Z -> bool.
  Variable E D : Z -> list Z -> list Z.
  Variable b64enc : list Z -> list Z.
  Variable b64dec : list Z -> option (list Z).

  Notation bind := (bind key_ok).
  Notation serve := (serve ulfix mac rsa_dec cmac sha aes_ok E D b64enc b64dec).
  Notation serve_cors := (serve_cors ulfix mac rsa_dec cmac sha aes_ok E D b64enc b64dec).
  Notation serve_all_cors := (serve_all_cors ulfix mac rsa_dec cmac sha aes_ok E D b64enc b64dec).
  Notation serve_all := (serve_all ulfix mac rsa_dec cmac sha aes_ok E D b64enc b64dec).

  (* whenever the CORS router lets a handler run, the plain router would have given the very
     same answer *)
  Lemma serve_cors_ran_is_serve : forall cors limit tab st q st' o,
    serve_cors cors limit tab st q = (st', o) -> o_ran (s_out o) = true ->
    serve limit tab st q = (st', o).
  Proof.
    intros cors limit tab st q st' o H Ran. unfold Server.serve_cors in H. destruct cors; [|exact H].
    destruct (r_method (q_cs q) =? m_options).
    - inversion H; subst o. cbn in Ran. discriminate.
    - unfold Server.serve. destruct (find_bound (q_route q) tab) as [b|]; [exact H|].
      inversion H; subst o. cbn in Ran. discriminate.
  Qed.

  (* THE GATE, with or without the CORS option, for every method *)
  Theorem serve_cors_gate : forall cors limit gs st q st' o,
    serve_cors cors limit (fst (bind gs [])) st q = (st', o) ->
    o_ran (s_out o) = true ->
    exists g, owner (q_route q) gs = Some g /\ s_route o = Some (q_route q) /\
              ValidFor key_ok mac rsa_dec cmac sha g q.
  Proof.
    intros cors limit gs st q st' o H Ran.
    eapply serve_gate. eapply serve_cors_ran_is_serve; eassumption. exact Ran.
  Qed.

  Theorem serve_all_cors_gate : forall cors limit gs qs st,
    Forall2 (GateOk key_ok mac rsa_dec cmac sha gs) qs (serve_all_cors cors limit (fst (bind gs [])) st qs).
  Proof.
    intros cors limit gs qs. induction qs as [|q qs IH]; intros st; cbn [Server.serve_all_cors].
    - constructor.
    - destruct (serve_cors cors limit (fst (bind gs [])) st q) as [st' o] eqn:S.
      constructor; [|apply IH].
      intros Ran. eapply serve_cors_gate; eauto.
  Qed.

  (* behind the CORS router an OPTIONS request runs nothing and is answered 204, whatever it carries *)
  Lemma cors_answers_options : forall limit tab st q,
    r_method (q_cs q) = m_options ->
    serve_cors true limit tab st q = (st, mkSout (mkHout false 204 [] [] false) None 0).
  Proof. intros limit tab st q M. unfold Server.serve_cors. rewrite M, Z.eqb_refl. reflexivity. Qed.

  (* WITHOUT the option OPTIONS is a route method like any other: the plain gate applies *)
  Lemma no_cors_is_serve : forall limit tab st q, serve_cors false limit tab st q = serve limit tab st q.
  Proof. reflexivity. Qed.

  Lemma serve_all_no_cors : forall limit tab qs st, serve_all_cors false limit tab st qs = serve_all limit tab st qs.
  Proof.
    intros limit tab qs. induction qs as [|q qs IH]; intros st; cbn [Server.serve_all_cors Server.serve_all]; [reflexivity|].
    rewrite no_cors_is_serve. destruct (serve limit tab st q) as [st' o]. rewrite IH. reflexivity.
  Qed.

  (* a route of a JWT group, any method that reaches the router: a token that is not valid for
     that group's secrets gets 401 and nothing runs *)
  Theorem serve_cors_jwt_rejects : forall cors limit gs st q st' o g jc,
    snd (bind gs []) = true ->
    (cors = true -> r_method (q_cs q) <> m_options) ->
    owner (q_route q) gs = Some g -> g_jwt g = Some jc ->
    ~ Accepts mac jc (q_jnow q) (q_cred q) ->
    serve_cors cors limit (fst (bind gs [])) st q = (st', o) ->
    s_out o = mkHout false 401 [] [] false /\ s_route o = None.
  Proof.
    intros cors limit gs st q st' o g jc Ok NM O J NA H.
    assert (S : serve limit (fst (bind gs [])) st q = (st', o)).
    { unfold Server.serve_cors in H. destruct cors; [|exact H].
      destruct (r_method (q_cs q) =? m_options) eqn:M; [apply Z.eqb_eq in M; exfalso; exact (NM eq_refl M)|].
      unfold Server.serve. rewrite (bind_find_exact key_ok gs [] (q_route q) Ok) in *. cbn [find_bound] in *.
      rewrite O in *. exact H. }
    eapply serve_jwt_rejects; eauto.
  Qed.
  (* ---- the router cleans the path for the lookup, the gates see the request as received ---- *)

  Notation serve_recv := (serve_recv ulfix mac rsa_dec cmac sha aes_ok E D b64enc b64dec).
  Notation serve_all_recv := (serve_all_recv ulfix mac rsa_dec cmac sha aes_ok E D b64enc b64dec).
  Notation serve_bound := (serve_bound ulfix mac rsa_dec cmac sha aes_ok E D b64enc b64dec).

  Lemma serve_recv_id : forall cors limit tab st q,
    serve_recv cors (fun p => p) limit tab st q = serve_cors cors limit tab st q.
  Proof.
    intros cors limit tab st q. unfold Server.serve_recv, Server.serve_cors, Server.serve, routed, q_route.
    destruct cors; cbn [andb]; [destruct (r_method (q_cs q) =? m_options); reflexivity|reflexivity].
  Qed.

  (* the gate with a cleaning router: the route that ran is the one the CLEANED path names, it
     belongs to group g, and the credentials of the request AS RECEIVED are valid for g *)
  Theorem serve_recv_gate : forall cors clean limit gs st q st' o,
    serve_recv cors clean limit (fst (bind gs [])) st q = (st', o) ->
    o_ran (s_out o) = true ->
    exists g, owner (routed clean q) gs = Some g /\ s_route o = Some (routed clean q) /\
              ValidFor key_ok mac rsa_dec cmac sha g q.
  Proof.
    intros cors clean limit gs st q st' o H Ran. unfold Server.serve_recv in H.
    destruct (cors && (r_method (q_cs q) =? m_options)).
    { inversion H; subst o. cbn in Ran. discriminate. }
    destruct (find_bound (routed clean q) (fst (bind gs []))) as [b|] eqn:F.
    - apply bind_find in F. destruct F as [F|(_ & g & O & Bg & NV)]; [cbn in F; discriminate|].
      subst b. exists g. split; [exact O|]. eapply serve_bound_ran; eauto.
    - inversion H; subst o. cbn in Ran. discriminate.
  Qed.

  Definition GateOkR (clean : Z -> Z) (gs : list group) (q : sreq) (o : sout) : Prop :=
    o_ran (s_out o) = true ->
    exists g, owner (routed clean q) gs = Some g /\ s_route o = Some (routed clean q) /\
              ValidFor key_ok mac rsa_dec cmac sha g q.

  Theorem serve_all_recv_gate : forall cors clean limit gs qs st,
    Forall2 (GateOkR clean gs) qs (serve_all_recv cors clean limit (fst (bind gs [])) st qs).
  Proof.
    intros cors clean limit gs qs. induction qs as [|q qs IH]; intros st; cbn [Server.serve_all_recv].
    - constructor.
    - destruct (serve_recv cors clean limit (fst (bind gs [])) st q) as [st' o] eqn:S.
      constructor; [|apply IH].
      intros Ran. eapply serve_recv_gate; eauto.
  Qed.

  (* THE SIGNATURE COVERS THE PATH AS RECEIVED.  Whatever the router's cleaning maps onto the
     route: if the handler of a strict signature group ran for a verified method and the request
     has no X-Request-Uri header, the request is signed for (r_path, r_query) — the spelling the
     client sent — not for the cleaned path the route was found under. *)
  Theorem recv_signature_covers_received_path : forall cors clean limit gs st q st' o,
    serve_recv cors clean limit (fst (bind gs [])) st q = (st', o) ->
    o_ran (s_out o) = true ->
    r_xuri (q_cs q) = None ->
    exists g, owner (routed clean q) gs = Some g /\
      forall sc, g_sig g = Some sc -> sg_strict sc = true -> checked (r_method (q_cs q)) = true ->
        SignedRequest rsa_dec cmac sha (sg_keys sc) (sg_tol sc) (q_now q) (q_cs q)
                      (r_path (q_cs q), r_query (q_cs q)).
  Proof.
    intros cors clean limit gs st q st' o H Ran X.
    destruct (serve_recv_gate _ _ _ _ _ _ _ _ H Ran) as (g & O & _ & _ & V).
    exists g. split; [exact O|].
    intros sc Gs St Ck. destruct (V sc Gs St Ck) as (_ & _ & S).
    unfold path_query in S. rewrite X in S. exact S.
  Qed.
End CORS.
