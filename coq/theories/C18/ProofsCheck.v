(* C18 — the executable specifications that [prop_ok] evaluates on observed requests
   (Check.v: jwt_valid_spec, spec_key, signed_spec_srv, prop_srv1) are tied to the predicates
   the theorems of Props.v are stated with (Accepts, find_key, SignedRequest): prop_ok is not an
   unproved oracle.  The crypto functions are the finite tables of the case. *)
From Coq Require Import List ZArith Bool Lia.
From GZgen Require Import C18Consts.
From GZ Require Import Lib.CheckLib C18.Model C18.Proofs C18.ProofsCrypt C18.Server C18.ProofsServer C18.Check.
Import ListNotations.
Open Scope Z_scope.

(* ---- JWT ------------------------------------------------------------------ *)

(* identifiers handed out by the renderer are positive; -1 is "not in the table" *)
Definition sig_nonneg (cr : cred) : Prop :=
  match cr with CToken tk => forall s, tsig tk = Some s -> 0 <= s | _ => True end.

Lemma spec_time_is_time_ok : forall now tk,
  (match lookup k_exp (tclaims tk) with None => true | Some (VNum e) => now <? e | Some _ => false end &&
   (match lookup k_iat (tclaims tk) with None => true | Some (VNum e) => e <=? now | Some _ => false end &&
    match lookup k_nbf (tclaims tk) with None => true | Some (VNum e) => e <=? now | Some _ => false end))
  = time_ok now tk.
Proof.
  intros. unfold time_ok, exp_ok, iat_ok, nbf_ok, time_claim. rewrite andb_assoc.
  destruct (lookup k_exp (tclaims tk)) as [[]|]; destruct (lookup k_iat (tclaims tk)) as [[]|];
    destruct (lookup k_nbf (tclaims tk)) as [[]|]; reflexivity.
Qed.

Theorem jwt_valid_spec_iff_accepts : forall t c now cr,
  sig_nonneg cr ->
  (jwt_valid_spec t c now cr = true <-> Accepts (tab_mac t) c now cr).
Proof.
  intros t c now cr NN. unfold Accepts, Valid. destruct cr as [| |tk]; cbn [jwt_valid_spec].
  - split; [discriminate|intros (x & X & _); discriminate].
  - split; [discriminate|intros (x & X & _); discriminate].
  - rewrite <- !andb_assoc.
    rewrite spec_time_is_time_ok. rewrite andb_true_iff, time_ok_spec.
    assert (S : match talg tk with
                | HS256 | HS384 | HS512 =>
                  match tsig tk with
                  | Some s => existsb (fun k => match lookup3 (alg_id (talg tk)) k (tinput tk) t with
                                                | Some v => s =? v | None => false end) (secrets c)
                  | None => false
                  end
                | _ => false
                end = true <->
                is_hs (talg tk) = true /\ exists s, In s (secrets c) /\ Signed (tab_mac t) s tk).
    { unfold Signed, tab_mac. cbn in NN.
      destruct (tsig tk) as [sg|] eqn:TS.
      - assert (Inner : existsb (fun k => match lookup3 (alg_id (talg tk)) k (tinput tk) t with
                                          | Some v => sg =? v | None => false end) (secrets c) = true <->
                        exists s, In s (secrets c) /\
                                  Some sg = Some (match lookup3 (alg_id (talg tk)) s (tinput tk) t with Some v => v | None => -1 end)).
        { rewrite existsb_exists. split.
          - intros (k & I & M). exists k. split; [exact I|].
            destruct (lookup3 (alg_id (talg tk)) k (tinput tk) t); [|discriminate]. apply Z.eqb_eq in M. congruence.
          - intros (k & I & M). exists k. split; [exact I|].
            destruct (lookup3 (alg_id (talg tk)) k (tinput tk) t).
            + inversion M. apply Z.eqb_refl.
            + inversion M. specialize (NN sg eq_refl). lia. }
        destruct (talg tk); cbn [is_hs];
          try (rewrite Inner; split; [intros X; split; [reflexivity|exact X]|intros [_ X]; exact X]);
          (split; [discriminate|intros [X _]; discriminate]).
      - destruct (talg tk); cbn [is_hs]; split; try discriminate;
          try (intros [X _]; discriminate); intros [_ (s & _ & X)]; discriminate. }
    rewrite S. split.
    + intros [[A B] C]. exists tk. auto.
    + intros (t' & X & A & B & C). inversion X; subst t'. auto.
Qed.

(* ---- which key a fingerprint names ----------------------------------------- *)

Lemma spec_key_fold : forall fp keys acc,
  fold_left (fun a (fk : Z * Z) => if fp =? fst fk then Some (snd fk) else a) keys acc =
  match find_key fp keys with Some k => Some k | None => acc end.
Proof.
  intros fp keys. induction keys as [|[f k] keys IH]; intros acc; cbn [fold_left find_key fst snd].
  - reflexivity.
  - rewrite IH. destruct (find_key fp keys); [reflexivity|]. destruct (fp =? f); reflexivity.
Qed.

Theorem spec_key_is_find_key : forall fp keys, spec_key fp keys = find_key fp keys.
Proof.
  intros. unfold spec_key. rewrite spec_key_fold. destruct (find_key fp keys); reflexivity.
Qed.

(* ---- the per-group signature specification --------------------------------- *)

Lemma lookup_c_tab : forall k c t v, lookup_c k c t = Some v -> tab_cmac t k c = v.
Proof. intros k c t v H. unfold tab_cmac. rewrite H. reflexivity. Qed.

(* "signed" as the property's text has it — the type attribute of the secret (which only says
   whether the body is encrypted) left out *)
Definition SignedCore (rsa_dec : Z -> Z -> option cs_secret) (cmac : Z -> content -> Z) (sha : list Z -> Z)
           (decs : list (Z * Z)) (tol now : Z) (r : cs_req) (pq : Z * Z) : Prop :=
  exists fp kid sc sg sec key ts,
    h_fp (r_hdr r) = Some fp /\ find_key fp decs = Some kid /\
    h_secret (r_hdr r) = Some sc /\ h_sig (r_hdr r) = Some sg /\
    rsa_dec kid sc = Some sec /\ sk_key sec = Some key /\
    sk_tsval sec = Some ts /\ now - tol <= ts <= now + tol /\
    sg = cmac key (sk_tsid sec, r_method r, fst pq, snd pq, sha (r_body r)).

Lemma SignedRequest_core : forall rsa_dec cmac sha decs tol now r pq,
  SignedRequest rsa_dec cmac sha decs tol now r pq -> SignedCore rsa_dec cmac sha decs tol now r pq.
Proof.
  intros until pq. intros (fp&kid&sc&sg&sec&key&ct&ts&A1&A2&A3&A4&A5&A6&A7&A8&A9&A10).
  exists fp, kid, sc, sg, sec, key, ts. repeat split; auto; lia.
Qed.

(* soundness: whatever the specification accepts is signed in the sense of the theorems *)
Theorem signed_spec_srv_sound : forall t sc now r,
  signed_spec_srv t sc now r = true ->
  SignedCore (tabs_rsa t) (tab_cmac (t_cmac t)) (tabs_sha t) (sg_keys sc) (sg_tol sc) now r (r_path r, r_query r).
Proof.
  intros t sc now r H. unfold signed_spec_srv in H. unfold SignedCore.
  destruct (h_fp (r_hdr r)) as [fp|]; [|discriminate].
  destruct (h_secret (r_hdr r)) as [sct|]; [|discriminate].
  destruct (h_sig (r_hdr r)) as [sg|]; [|discriminate].
  rewrite spec_key_is_find_key in H.
  destruct (find_key fp (sg_keys sc)) as [kid|] eqn:K; [|discriminate].
  destruct (lookup2 kid sct (t_rsa t)) as [sec|] eqn:R; [|discriminate].
  destruct (sk_key sec) as [key|] eqn:SK; [|discriminate].
  destruct (sk_tsval sec) as [ts|] eqn:TS; [|discriminate].
  destruct (lookup_bytes (r_body r) (t_sha t)) as [dig|] eqn:DG; [|discriminate].
  rewrite !andb_true_iff, !Z.leb_le in H. destruct H as [[W1 W2] M].
  destruct (lookup_c key (sk_tsid sec, r_method r, r_path r, r_query r, dig) (t_cmac t)) as [tag|] eqn:LC; [|discriminate].
  apply Z.eqb_eq in M. subst sg.
  exists fp, kid, sct, tag, sec, key, ts. cbn [fst snd].
  repeat split; auto; try lia.
  unfold tabs_sha. rewrite DG. symmetry. apply lookup_c_tab. exact LC.
Qed.

(* completeness: it does not ask for more — a request signed in that sense is accepted by the
   specification, provided the harness tabulated the digest of the body and the signature is
   a proper identifier *)
Theorem signed_spec_srv_complete : forall t sc now r,
  (exists dig, lookup_bytes (r_body r) (t_sha t) = Some dig) ->
  (forall sg, h_sig (r_hdr r) = Some sg -> 0 <= sg) ->
  SignedCore (tabs_rsa t) (tab_cmac (t_cmac t)) (tabs_sha t) (sg_keys sc) (sg_tol sc) now r (r_path r, r_query r) ->
  signed_spec_srv t sc now r = true.
Proof.
  intros t sc now r (dig & DG) NN (fp&kid&sct&sg&sec&key&ts&A1&A2&A3&A4&A5&A6&A7&A8&A9).
  unfold signed_spec_srv. rewrite A1, A3, A4, spec_key_is_find_key, A2.
  unfold tabs_rsa in A5. rewrite A5, A6, A7, DG.
  replace (now - sg_tol sc <=? ts) with true by (symmetry; apply Z.leb_le; lia).
  replace (ts <=? now + sg_tol sc) with true by (symmetry; apply Z.leb_le; lia).
  cbn [andb fst snd] in *. unfold tabs_sha in A9. rewrite DG in A9. unfold tab_cmac in A9.
  destruct (lookup_c key (sk_tsid sec, r_method r, r_path r, r_query r, dig) (t_cmac t)) as [tag|].
  - subst sg. apply Z.eqb_refl.
  - specialize (NN sg A4). lia.
Qed.

(* ---- the whole per-request judgement of a server case ----------------------- *)

(* If prop_ok accepts an observation in which the handler ran, then the request's credentials
   are valid — in the sense of the theorems — for the configuration of the group the request
   was aimed at, and it is that route's handler that ran. *)
Theorem prop_srv1_sound : forall c q gi o,
  sig_nonneg (q_cred q) ->
  prop_srv1 c (q, gi, o) = true -> so_ran o = true ->
  exists g, nth_error (v_groups c) gi = Some g /\
    In (routed (srv_clean c) q) (g_routes g) /\ so_route o = Some (routed (srv_clean c) q) /\
    (forall jc, g_jwt g = Some jc -> Accepts (tab_mac (t_mac (v_tabs c))) jc (q_jnow q) (q_cred q)) /\
    (forall sc, g_sig g = Some sc -> sg_strict sc = true -> checked (r_method (q_cs q)) = true ->
       SignedCore (tabs_rsa (v_tabs c)) (tab_cmac (t_cmac (v_tabs c))) (tabs_sha (v_tabs c))
                  (sg_keys sc) (sg_tol sc) (q_now q) (q_cs q) (r_path (q_cs q), r_query (q_cs q))).
Proof.
  intros c q gi o NN H Ran. unfold prop_srv1 in H.
  apply andb_true_iff in H. destruct H as [_ H].
  destruct (nth_error (v_groups c) gi) as [g|]; [|discriminate].
  exists g. split; [reflexivity|].
  rewrite Ran in H. cbn [orb] in H.
  rewrite !andb_true_iff in H. destruct H as [[[HR Rt] J] S].
  split.
  { apply existsb_exists in HR. destruct HR as (x & I & E0). apply route_eqb_eq in E0. subst x. exact I. }
  split.
  { destruct (so_route o) as [rt|]; cbn in Rt; [|discriminate]. apply route_eqb_eq in Rt. congruence. }
  split.
  - intros jc Ej. rewrite Ej in J. apply jwt_valid_spec_iff_accepts; assumption.
  - intros sc Es St Ck. rewrite Es, St, Ck in S. cbn [andb] in S. apply signed_spec_srv_sound. exact S.
Qed.

(* ---- payload sizes ("big" cases) -------------------------------------------- *)

(* The prediction used for the big cases is what crypt_handler does with ANY honestly encrypted
   payload: over the limit -> 400 without running; else the handler runs on the plaintext and the
   response is the encryption of what it writes.  And the padded length is the closed form used
   by big_wire_len. *)
Theorem big_model_is_crypt_handler :
  forall ulfix aes_ok (E D : Z -> list Z -> list Z) b64enc b64dec,
  (forall key b, length b = bsn -> D key (E key b) = b) ->
  (forall key b, length b = bsn -> length (E key b) = bsn) ->
  (forall x, b64dec (b64enc x) = Some x) ->
  (forall x, x <> [] -> b64enc x <> []) ->
  forall limit key p c resp,
  aes_ok key = true -> ecb_encrypt aes_ok E key p = Ok c ->
  crypt_handler ulfix aes_ok E D b64enc b64dec limit key (len (b64enc c)) (b64enc c) resp =
  if big_exceeds limit (len (b64enc c)) then mkHout false 400 [] [] false
  else mkHout true 200 p (flush aes_ok E b64enc key resp) false.
Proof.
  intros ulfix aes_ok E D b64enc b64dec DE Elen B1 B2 limit key p c resp K Ec.
  unfold big_exceeds. destruct ((0 <? limit) && (limit <? len (b64enc c))) eqn:X.
  - assert (W : 0 < len (b64enc c)) by (eapply honest_wire_nonempty; eauto).
    unfold crypt_handler.
    replace (if ulfix then len (b64enc c) =? 0 else len (b64enc c) <=? 0) with false.
    2:{ symmetry. destruct ulfix; [apply Z.eqb_neq|apply Z.leb_gt]; lia. }
    replace (0 <? len (b64enc c)) with true by (symmetry; apply Z.ltb_lt; lia).
    rewrite X. reflexivity.
  - apply andb_false_iff in X.
    apply (body_roundtrip_request aes_ok E D b64enc b64dec DE Elen B1 B2 ulfix limit key p c resp K Ec).
    destruct X as [X|X]; [left; apply Z.ltb_ge in X; lia|right; apply Z.ltb_ge in X; lia].
Qed.

Theorem padded_len_is_len_pad : forall p, len (pad p) = padded_len (len p).
Proof.
  intros p. rewrite ProofsCrypt.pad_len. unfold pad_amount, padded_len, bs.
  pose proof (Z.div_mod (len p) 16 ltac:(lia)). lia.
Qed.

Print Assumptions jwt_valid_spec_iff_accepts.
Print Assumptions spec_key_is_find_key.
Print Assumptions signed_spec_srv_sound.
Print Assumptions signed_spec_srv_complete.
Print Assumptions prop_srv1_sound.
Print Assumptions big_model_is_crypt_handler.
Print Assumptions padded_len_is_len_pad.
