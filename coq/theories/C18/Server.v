(* C18 — a rest.Server with SEVERAL route groups, each with its own authentication
   configuration.  Executable model only (no proofs here).

   Transcribed from rest/engine.go:
     engine.bindRoutes         for every group, in the order of AddRoutes: bindFeaturedRoutes
     engine.bindFeaturedRoutes signatureVerifier(fr.signature) once per group (an error aborts the
                               start, the group's routes are not bound), then bindRoute per route
     engine.signatureVerifier  not enabled -> identity; no private keys: strict -> ErrSignatureConfig,
                               otherwise identity; else a FRESH map fingerprint -> decrypter built from
                               this group's PrivateKeys only (NewRsaDecrypter error -> abort)
     engine.bindRoute          chain = native middlewares, appendAuthHandler (a fresh Authorize, i.e. a
                               fresh TokenParser, per ROUTE), server.Use middlewares, route handler;
                               router.Handle fails on a (method, path) that is bound already
     router.ServeHTTP          (method, path) bound -> its chain; path bound for another method -> 405;
                               else 404

   Routes are (method id, path id) pairs matched exactly (no path variables here: the [eng]
   cases of the correspondence cover prefixes and variables on the real router). *)
From Coq Require Import List ZArith Bool.
From GZ Require Import C18.Model.
Import ListNotations.
Open Scope Z_scope.

Definition route := (Z * Z)%type.

Definition route_eqb (a b : route) : bool := (fst a =? fst b) && (snd a =? snd b).

(* rest.SignatureConf of one group: Strict, PrivateKeys as (fingerprint, key file), Expiry *)
Record sigcfg := mkSig { sg_strict : bool; sg_keys : list (Z * Z); sg_tol : Z }.

(* one AddRoutes call: WithJwt / WithJwtTransition, WithSignature, the routes *)
Record group := mkGroup { g_jwt : option jcfg; g_sig : option sigcfg; g_routes : list route }.

(* what signatureVerifier returns for a group *)
Inductive verifier := VErr | VNone | VSig (s : sigcfg).

Section SERVER.
  Variable ulfix : bool.
  Variable key_ok : Z -> bool.                       (* codec.NewRsaDecrypter loads the key file *)
  Variable mac : alg -> Z -> Z -> Z.
  Variable rsa_dec : Z -> Z -> option cs_secret.
  Variable cmac : Z -> content -> Z.
  Variable sha : list Z -> Z.
  Variable aes_ok : Z -> bool.
  Variable E D : Z -> list Z -> list Z.
  Variable b64enc : list Z -> list Z.
  Variable b64dec : list Z -> option (list Z).

  Definition sig_verifier (s : option sigcfg) : verifier :=
    match s with
    | None => VNone
    | Some sc =>
      match sg_keys sc with
      | [] => if sg_strict sc then VErr else VNone
      | _ => if forallb (fun fk => key_ok (snd fk)) (sg_keys sc) then VSig sc else VErr
      end
    end.

  (* a bound route: whose JWT option and which verifier wrap its handler *)
  Record bound := mkBound { b_route : route; b_jwt : option jcfg; b_ver : verifier }.

  Fixpoint find_bound (r : route) (tab : list bound) : option bound :=
    match tab with
    | [] => None
    | b :: tab' => if route_eqb r (b_route b) then Some b else find_bound r tab'
    end.

  (* bindRoute for the routes of one group; false = router.Handle reported a duplicate *)
  Fixpoint bind_group_routes (j : option jcfg) (v : verifier) (rs : list route) (tab : list bound)
    : list bound * bool :=
    match rs with
    | [] => (tab, true)
    | r :: rs' =>
      match find_bound r tab with
      | Some _ => (tab, false)
      | None => bind_group_routes j v rs' (tab ++ [mkBound r j v])
      end
    end.

  (* bindRoutes; false = start returned an error (what was bound before stays on the router) *)
  Fixpoint bind (gs : list group) (tab : list bound) : list bound * bool :=
    match gs with
    | [] => (tab, true)
    | g :: gs' =>
      match sig_verifier (g_sig g) with
      | VErr => (tab, false)
      | v =>
        let '(tab', ok) := bind_group_routes (g_jwt g) v (g_routes g) tab in
        if ok then bind gs' tab' else (tab', false)
      end
    end.

  (* one request: the JWT part (clock of the JWT library, credential), the content-security
     part (method and path of [q_cs] also select the route), what the route handler answers *)
  Record sreq := mkSreq { q_jnow : Z; q_cred : cred; q_now : Z; q_cs : cs_req; q_resp : list Z }.

  Definition q_route (q : sreq) : route := (r_method (q_cs q), r_path (q_cs q)).

  (* per-route TokenParser hit counters *)
  Definition jstate := list (route * history).

  Fixpoint st_get (r : route) (st : jstate) : history :=
    match st with
    | [] => []
    | (r', h) :: st' => if route_eqb r r' then h else st_get r st'
    end.

  Definition st_set (r : route) (h : history) (st : jstate) : jstate := (r, h) :: st.

  (* outcome of one request: the gate's output, the route whose handler ran, the error the
     unauthorized callback was called with (0: not called) *)
  Record sout := mkSout { s_out : hout; s_route : option route; s_uerr : Z }.

  Definition after_jwt (limit : Z) (b : bound) (q : sreq) : hout :=
    match b_ver b with
    | VSig sc => cs_handler ulfix rsa_dec cmac sha aes_ok E D b64enc b64dec
                            (sg_strict sc) (sg_keys sc) (sg_tol sc) (q_now q) limit (q_cs q) (q_resp q)
    | _ => mkHout true 200 (r_body (q_cs q)) (q_resp q) false
    end.

  Definition tag_route (r : route) (o : hout) : option route := if o_ran o then Some r else None.

  Definition serve_bound (limit : Z) (b : bound) (st : jstate) (q : sreq) : jstate * sout :=
    match b_jwt b with
    | Some jc =>
      let h := st_get (b_route b) st in
      let '(h', jr) := authorize mac h jc (q_jnow q) (q_cred q) in
      let st' := st_set (b_route b) h' st in
      if jran jr then
        let o := after_jwt limit b q in (st', mkSout o (tag_route (b_route b) o) 0)
      else (st', mkSout (mkHout false 401 [] [] false) None (parse_err mac h jc (q_jnow q) (q_cred q)))
    | None => let o := after_jwt limit b q in (st, mkSout o (tag_route (b_route b) o) 0)
    end.

  Definition path_bound (p : Z) (tab : list bound) : bool :=
    existsb (fun b => snd (b_route b) =? p) tab.

  Definition serve (limit : Z) (tab : list bound) (st : jstate) (q : sreq) : jstate * sout :=
    match find_bound (q_route q) tab with
    | Some b => serve_bound limit b st q
    | None =>
      (st, mkSout (mkHout false (if path_bound (snd (q_route q)) tab then 405 else 404) [] [] false) None 0)
    end.

  Fixpoint serve_all (limit : Z) (tab : list bound) (st : jstate) (qs : list sreq) : list sout :=
    match qs with
    | [] => []
    | q :: qs' => let '(st', o) := serve limit tab st q in o :: serve_all limit tab st' qs'
    end.

  (* the whole life of a server: AddRoutes for every group, Start (binding), requests *)
  Definition run_server (limit : Z) (gs : list group) (qs : list sreq) : bool * list sout :=
    let '(tab, ok) := bind gs [] in (ok, serve_all limit tab [] qs).

  (* rest.WithCors / WithCorsHeaders / WithCustomCors (rest/server.go, rest/internal/cors):
     the router is wrapped by corsRouter, whose middleware answers EVERY request of method
     OPTIONS with 204 before any routing (no route, no gate, no handler), and the router's
     not-allowed handler becomes cors.NotAllowedHandler: a path bound for another method
     answers 404 instead of 405.  Without the option ([cors] = false) nothing changes:
     OPTIONS is an ordinary route method. *)
  Definition serve_cors (cors : bool) (limit : Z) (tab : list bound) (st : jstate) (q : sreq) : jstate * sout :=
    if cors then
      if r_method (q_cs q) =? m_options then (st, mkSout (mkHout false 204 [] [] false) None 0)
      else
        match find_bound (q_route q) tab with
        | Some b => serve_bound limit b st q
        | None => (st, mkSout (mkHout false 404 [] [] false) None 0)
        end
    else serve limit tab st q.

  Fixpoint serve_all_cors (cors : bool) (limit : Z) (tab : list bound) (st : jstate) (qs : list sreq) : list sout :=
    match qs with
    | [] => []
    | q :: qs' => let '(st', o) := serve_cors cors limit tab st q in o :: serve_all_cors cors limit tab st' qs'
    end.

  (* THE ROUTER CLEANS, THE GATES DO NOT.  router.ServeHTTP looks the route up under
     path.Clean(r.URL.Path) ([clean]: the router's canonical spelling of a path — trailing
     slash, empty, "." and ".." segments removed) and hands the route's chain the request AS
     RECEIVED: the signature verifier signs over r.URL.Path, the spelling the client sent.
     [serve_recv] = [serve_cors] with that lookup; for [clean] = identity it is [serve_cors]. *)
  Definition routed (clean : Z -> Z) (q : sreq) : route := (r_method (q_cs q), clean (r_path (q_cs q))).

  Definition serve_recv (cors : bool) (clean : Z -> Z) (limit : Z) (tab : list bound) (st : jstate) (q : sreq)
    : jstate * sout :=
    if cors && (r_method (q_cs q) =? m_options) then (st, mkSout (mkHout false 204 [] [] false) None 0)
    else
      match find_bound (routed clean q) tab with
      | Some b => serve_bound limit b st q
      | None =>
        (st, mkSout (mkHout false (if cors then 404
                                   else if path_bound (snd (routed clean q)) tab then 405 else 404) [] [] false) None 0)
      end.

  Fixpoint serve_all_recv (cors : bool) (clean : Z -> Z) (limit : Z) (tab : list bound) (st : jstate) (qs : list sreq)
    : list sout :=
    match qs with
    | [] => []
    | q :: qs' => let '(st', o) := serve_recv cors clean limit tab st q in o :: serve_all_recv cors clean limit tab st' qs'
    end.

  Definition run_server_recv (cors : bool) (clean : Z -> Z) (limit : Z) (gs : list group) (qs : list sreq)
    : bool * list sout :=
    let '(tab, ok) := bind gs [] in (ok, serve_all_recv cors clean limit tab [] qs).

  Definition run_server_cors (cors : bool) (limit : Z) (gs : list group) (qs : list sreq) : bool * list sout :=
    let '(tab, ok) := bind gs [] in (ok, serve_all_cors cors limit tab [] qs).
End SERVER.
