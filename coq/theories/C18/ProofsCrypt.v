(* C18 — PKCS#7 padding, ECB and the cryption handler: list-level proofs. *)
From Coq Require Import List ZArith Bool Lia.
From GZ Require Import C18.Model.
Import ListNotations.
Open Scope Z_scope.

Lemma len_app : forall a b, len (a ++ b) = len a + len b.
Proof. intros. unfold len. rewrite app_length. lia. Qed.

Lemma len_repeat : forall (x : Z) n, len (repeat x n) = Z.of_nat n.
Proof. intros. unfold len. rewrite repeat_length. reflexivity. Qed.

Lemma len_nonneg : forall l, 0 <= len l.
Proof. intros. unfold len. lia. Qed.

Definition pad_amount (l : list Z) : Z := bs - (len l) mod bs.

Lemma pad_amount_range : forall l, 1 <= pad_amount l <= 16.
Proof.
  intros l. unfold pad_amount, bs.
  pose proof (Z.mod_pos_bound (len l) 16 ltac:(lia)). lia.
Qed.

Lemma pad_eq : forall l, pad l = l ++ repeat (pad_amount l) (Z.to_nat (pad_amount l)).
Proof. reflexivity. Qed.

Lemma pad_len : forall l, len (pad l) = len l + pad_amount l.
Proof.
  intros l. rewrite pad_eq, len_app, len_repeat.
  pose proof (pad_amount_range l). lia.
Qed.

Lemma pad_len_mod : forall l, len (pad l) mod bs = 0.
Proof.
  intros l. rewrite pad_len. unfold pad_amount, bs.
  pose proof (Z.div_mod (len l) 16 ltac:(lia)) as E.
  replace (len l + (16 - len l mod 16)) with ((len l / 16 + 1) * 16) by lia.
  apply Z_mod_mult.
Qed.

Lemma pad_nonempty : forall l, pad l <> [].
Proof.
  intros l H. pose proof (pad_len l) as P. rewrite H in P. change (len []) with 0 in P.
  pose proof (pad_amount_range l). pose proof (len_nonneg l). lia.
Qed.

Lemma pad_last : forall l, last (pad l) 0 = pad_amount l.
Proof.
  intros l. rewrite pad_eq. pose proof (pad_amount_range l) as R.
  destruct (Z.to_nat (pad_amount l)) as [|m] eqn:E; [lia|].
  cbn [repeat]. rewrite repeat_cons, app_assoc. apply last_last.
Qed.

Lemma unpad_nonempty : forall l, l <> [] ->
  unpad l = let n := len l in
            let u := last l 0 in
            if (u >? n) || (u >? bs) then Err else Ok (firstn (Z.to_nat (n - u)) l).
Proof. intros l H. destruct l; [congruence|reflexivity]. Qed.

(* pad then unpad is the identity on every payload (the empty one included) *)
Lemma unpad_pad : forall l, unpad (pad l) = Ok l.
Proof.
  intros l. rewrite unpad_nonempty by apply pad_nonempty.
  cbv zeta. rewrite pad_last, pad_len.
  pose proof (pad_amount_range l) as R. pose proof (len_nonneg l) as N.
  replace (pad_amount l >? len l + pad_amount l) with false by (symmetry; rewrite Z.gtb_ltb; apply Z.ltb_ge; lia).
  replace (pad_amount l >? bs) with false by (symmetry; unfold bs; rewrite Z.gtb_ltb; apply Z.ltb_ge; lia).
  cbn [orb]. f_equal.
  replace (len l + pad_amount l - pad_amount l) with (len l) by lia.
  unfold len at 1. rewrite Nat2Z.id, pad_eq, firstn_app, firstn_all, Nat.sub_diag. cbn [firstn].
  apply app_nil_r.
Qed.

(* what unpadding does with arbitrary (possibly hostile) input: it never panics and never
   returns more than it was given *)
Lemma unpad_total : forall l, unpad l <> Panic.
Proof.
  intros l. destruct l as [|x l]; [discriminate|].
  rewrite unpad_nonempty by discriminate. cbv zeta.
  destruct ((last (x :: l) 0 >? len (x :: l)) || (last (x :: l) 0 >? bs)); discriminate.
Qed.

Lemma unpad_prefix : forall l p, unpad l = Ok p -> exists q, l = p ++ q.
Proof.
  intros l p. destruct l as [|x l]; [discriminate|].
  rewrite unpad_nonempty by discriminate. cbv zeta.
  destruct ((last (x :: l) 0 >? len (x :: l)) || (last (x :: l) 0 >? bs)); [discriminate|].
  intros H. inversion H. eexists. symmetry. apply firstn_skipn.
Qed.

(* ---- ECB ------------------------------------------------------------------ *)

Lemma ecb_go_nil : forall fuel f, ecb_go fuel f [] = [].
Proof. destruct fuel; reflexivity. Qed.

Lemma ecb_go_step : forall fuel f l, l <> [] ->
  ecb_go (S fuel) f l = f (firstn bsn l) ++ ecb_go fuel f (skipn bsn l).
Proof. intros fuel f l H. destruct l; [congruence|reflexivity]. Qed.

Lemma mod_blocks : forall l, (len l) mod bs = 0 -> exists n, length l = (n * bsn)%nat.
Proof.
  intros l H. unfold bs in H. exists (Z.to_nat (len l / 16)).
  pose proof (Z.div_mod (len l) 16 ltac:(lia)) as E. rewrite H in E.
  pose proof (len_nonneg l) as N.
  assert (0 <= len l / 16) by (apply Z.div_pos; lia).
  apply Nat2Z.inj. rewrite Nat2Z.inj_mul, Z2Nat.id by lia. unfold len in *. unfold bsn.
  change (Z.of_nat 16) with 16. lia.
Qed.

Section ECB.
  Variable f g : list Z -> list Z.
  Hypothesis gf : forall b, length b = bsn -> g (f b) = b.
  Hypothesis flen : forall b, length b = bsn -> length (f b) = bsn.

  Lemma ecb_go_roundtrip : forall n l fuel1 fuel2,
    length l = (n * bsn)%nat -> (length l <= fuel1)%nat -> (length l <= fuel2)%nat ->
    length (ecb_go fuel1 f l) = length l /\ ecb_go fuel2 g (ecb_go fuel1 f l) = l.
  Proof.
    induction n as [|n IH]; intros l fuel1 fuel2 HL F1 F2.
    - destruct l; [|discriminate]. rewrite !ecb_go_nil. split; reflexivity.
    - assert (NE : l <> []) by (intros ->; discriminate).
      assert (HL' : length l = (16 + n * 16)%nat) by (rewrite HL; unfold bsn; lia).
      destruct fuel1 as [|fuel1]; [lia|].
      destruct fuel2 as [|fuel2]; [lia|].
      rewrite ecb_go_step by exact NE.
      set (b := firstn bsn l). set (rest := skipn bsn l).
      assert (Hb : length b = bsn) by (unfold b, bsn; apply firstn_length_le; lia).
      assert (Hr : length rest = (n * bsn)%nat).
      { unfold rest. rewrite skipn_length, HL'. unfold bsn. lia. }
      assert (Hr' : length rest = (n * 16)%nat) by (rewrite Hr; unfold bsn; lia).
      destruct (IH rest fuel1 fuel2 Hr) as [IL IR]; try lia.
      split.
      + rewrite app_length, flen, IL by exact Hb. unfold bsn. lia.
      + assert (NE2 : f b ++ ecb_go fuel1 f rest <> []).
        { intros X. apply (f_equal (@length Z)) in X. rewrite app_length, flen in X by exact Hb.
          unfold bsn in X. cbn in X. lia. }
        rewrite ecb_go_step by exact NE2.
        rewrite firstn_app, skipn_app, flen by exact Hb.
        rewrite Nat.sub_diag. cbn [firstn skipn].
        rewrite <- (flen b Hb) at 1 2. rewrite firstn_all, skipn_all, app_nil_r. cbn [app].
        rewrite gf by exact Hb. rewrite IR. unfold b, rest. apply firstn_skipn.
  Qed.

  Lemma crypt_blocks_roundtrip : forall l, (len l) mod bs = 0 ->
    crypt_blocks g (crypt_blocks f l) = l /\ len (crypt_blocks f l) = len l.
  Proof.
    intros l H. destruct (mod_blocks l H) as [n Hn].
    unfold crypt_blocks at 2 3. rewrite H. cbn [Z.eqb].
    destruct (ecb_go_roundtrip n l (length l) (length l) Hn (le_n _) (le_n _)) as [A B].
    assert (L : len (ecb_go (length l) f l) = len l) by (unfold len; rewrite A; reflexivity).
    split; [|exact L].
    unfold crypt_blocks. rewrite L, H. cbn [Z.eqb]. rewrite A. exact B.
  Qed.
End ECB.

(* ---- EcbEncrypt / EcbDecrypt and the handler -------------------------------- *)

Section CRYPT.
  Variable aes_ok : Z -> bool.
  Variable E D : Z -> list Z -> list Z.
  Variable b64enc : list Z -> list Z.
  Variable b64dec : list Z -> option (list Z).

  (* the block permutation: D inverts E on whole blocks, E maps blocks to blocks *)
  Hypothesis DE : forall key b, length b = bsn -> D key (E key b) = b.
  Hypothesis Elen : forall key b, length b = bsn -> length (E key b) = bsn.
  (* base64 is a codec *)
  Hypothesis b64_roundtrip : forall x, b64dec (b64enc x) = Some x.
  Hypothesis b64_nonempty : forall x, x <> [] -> b64enc x <> [].

  Lemma ecb_roundtrip_blocks : forall key l, (len l) mod bs = 0 ->
    crypt_blocks (D key) (crypt_blocks (E key) l) = l.
  Proof.
    intros key l H.
    apply (crypt_blocks_roundtrip (E key) (D key) (DE key) (Elen key) l H).
  Qed.

  Lemma ecb_decrypt_encrypt : forall key p, aes_ok key = true ->
    exists c, ecb_encrypt aes_ok E key p = Ok c /\ ecb_decrypt aes_ok D key c = Ok p /\ c <> [].
  Proof.
    intros key p K. exists (crypt_blocks (E key) (pad p)).
    unfold ecb_encrypt, ecb_decrypt. rewrite K.
    destruct (crypt_blocks_roundtrip (E key) (D key) (DE key) (Elen key) (pad p) (pad_len_mod p)) as [R L].
    split; [reflexivity|]. split.
    - rewrite R. apply unpad_pad.
    - intros X. rewrite X in L. change (len []) with 0 in L. pose proof (pad_len p). pose proof (pad_amount_range p).
      pose proof (len_nonneg p). lia.
  Qed.

  Variable ulfix : bool.
  Notation handler := (crypt_handler ulfix aes_ok E D b64enc b64dec).

  Lemma decrypt_and_serve_honest : forall key p c resp,
    aes_ok key = true -> ecb_encrypt aes_ok E key p = Ok c ->
    decrypt_and_serve aes_ok E D b64enc b64dec key (b64enc c) resp
    = mkHout true 200 p (flush aes_ok E b64enc key resp) false.
  Proof.
    intros key p c resp K Ec.
    destruct (ecb_decrypt_encrypt key p K) as (c' & E1 & E2 & NE).
    rewrite Ec in E1. inversion E1; subst c'.
    unfold decrypt_and_serve. rewrite b64_roundtrip, E2. reflexivity.
  Qed.

  Lemma honest_wire_nonempty : forall key p c,
    aes_ok key = true -> ecb_encrypt aes_ok E key p = Ok c -> 0 < len (b64enc c).
  Proof.
    intros key p c K Ec.
    destruct (ecb_decrypt_encrypt key p K) as (c' & E1 & E2 & NE).
    rewrite Ec in E1. inversion E1; subst c'.
    pose proof (b64_nonempty c NE) as X. unfold len.
    destruct (b64enc c); [congruence|cbn; lia].
  Qed.

  (* request side: an encrypted body of known length within the limit reaches the route
     handler decrypted (with or without the unknown-length repair); response side: what is
     sent decrypts to what the handler wrote *)
  Lemma body_roundtrip_request : forall limit key p c resp,
    aes_ok key = true -> ecb_encrypt aes_ok E key p = Ok c ->
    let wire := b64enc c in
    (limit <= 0 \/ len wire <= limit) ->
    handler limit key (len wire) wire resp = mkHout true 200 p (flush aes_ok E b64enc key resp) false.
  Proof.
    intros limit key p c resp K Ec wire Hl.
    assert (W : 0 < len wire) by (apply (honest_wire_nonempty key p c K Ec)).
    unfold crypt_handler.
    replace (if ulfix then len wire =? 0 else len wire <=? 0) with false.
    2:{ symmetry. destruct ulfix; [apply Z.eqb_neq|apply Z.leb_gt]; lia. }
    replace (0 <? len wire) with true by (symmetry; apply Z.ltb_lt; lia).
    replace ((0 <? limit) && (limit <? len wire)) with false.
    2:{ symmetry. apply andb_false_iff. destruct Hl; [left; apply Z.ltb_ge; lia|right; apply Z.ltb_ge; lia]. }
    replace (len wire <? len wire) with false by (symmetry; apply Z.ltb_irrefl).
    unfold len. rewrite Nat2Z.id, firstn_all.
    apply decrypt_and_serve_honest; auto.
  Qed.

  (* the same for a body of UNKNOWN length (ContentLength = -1, chunked) once the repair is in *)
  Lemma body_roundtrip_unknown_length : forall limit key p c resp,
    ulfix = true ->
    aes_ok key = true -> ecb_encrypt aes_ok E key p = Ok c ->
    let wire := b64enc c in
    (limit <= 0 \/ len wire <= limit) ->
    handler limit key (-1) wire resp = mkHout true 200 p (flush aes_ok E b64enc key resp) false.
  Proof.
    intros limit key p c resp U K Ec wire Hl.
    assert (W : 0 < len wire) by (apply (honest_wire_nonempty key p c K Ec)).
    unfold crypt_handler. rewrite U.
    change (-1 =? 0) with false. change (0 <? -1) with false. cbv iota.
    replace ((0 <? limit) && (limit <? len wire)) with false.
    2:{ symmetry. apply andb_false_iff. destruct Hl; [left; apply Z.ltb_ge; lia|right; apply Z.ltb_ge; lia]. }
    destruct wire eqn:WE; [cbn in W; lia|]. rewrite <- WE. unfold wire.
    apply decrypt_and_serve_honest; auto.
  Qed.

  Lemma body_roundtrip_response : forall key resp,
    aes_ok key = true -> resp <> [] ->
    exists c, flush aes_ok E b64enc key resp = b64enc c /\
              b64dec (b64enc c) = Some c /\ ecb_decrypt aes_ok D key c = Ok resp.
  Proof.
    intros key resp K NE.
    destruct (ecb_decrypt_encrypt key resp K) as (c & E1 & E2 & _).
    exists c. unfold flush. destruct resp; [congruence|]. rewrite E1. auto.
  Qed.

  Lemma decrypt_and_serve_no_panic : forall key content resp,
    o_panic (decrypt_and_serve aes_ok E D b64enc b64dec key content resp) = false.
  Proof.
    intros. unfold decrypt_and_serve.
    destruct (b64dec content) as [ct|]; [|reflexivity].
    destruct (ecb_decrypt aes_ok D key ct) eqn:X; try reflexivity.
    exfalso. unfold ecb_decrypt in X. destruct (aes_ok key); [|discriminate].
    apply unpad_total in X. exact X.
  Qed.

  (* no request can make the handler panic (with the repaired unpadding) *)
  Lemma handler_never_panics : forall limit key clen wire resp,
    o_panic (handler limit key clen wire resp) = false.
  Proof.
    intros. unfold crypt_handler.
    destruct (if ulfix then clen =? 0 else clen <=? 0); [reflexivity|].
    destruct (0 <? clen).
    - destruct ((0 <? limit) && (limit <? clen)); [reflexivity|].
      destruct (len wire <? clen); [reflexivity|]. apply decrypt_and_serve_no_panic.
    - destruct ((0 <? limit) && (limit <? len wire)); [reflexivity|].
      destruct wire; [reflexivity|]. apply decrypt_and_serve_no_panic.
  Qed.

  (* unknown length (chunked) WITHOUT the repair: the body is handed over as it came *)
  Lemma unknown_length_passthrough : forall limit key clen wire resp,
    ulfix = false ->
    clen <= 0 -> o_seen (handler limit key clen wire resp) = wire.
  Proof.
    intros limit key clen wire resp U H. unfold crypt_handler. rewrite U.
    replace (clen <=? 0) with true by (symmetry; apply Z.leb_le; lia).
    reflexivity.
  Qed.
End CRYPT.
