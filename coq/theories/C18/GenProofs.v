(* C18 — obligations that mention the constants regenerated from the Go sources
   (coq/gen/C18Consts.v, tools/c18consts.py).  A change of the separator, the attribute
   names, the list of registered claims, the verified methods, the cryption type, ... in
   go-zero changes the definitions below and these proofs are re-checked against it. *)
From Coq Require Import List ZArith Bool Lia.
From GZgen Require Import C18Consts.
From GZ Require Import C18.Model C18.Header C18.ProofsHeader C18.ProofsCrypt.
Import ListNotations.
Open Scope Z_scope.

Lemma separator_is_one_byte : sep_char = 59 /\ separator = [59].
Proof. split; reflexivity. Qed.

Lemma attribute_is_cut_at_first_equals : tokens_in_attribute = 2.
Proof. reflexivity. Qed.

(* Model.is_std: claim identifiers 1..7 are the registered names, in the order of the
   case list of authhandler.go (tools/props/c18.py numbers them from the same extraction) *)
Lemma registered_claims_are_is_std : forall k,
  is_std k = true <-> 1 <= k <= Z.of_nat (length registered_claims).
Proof.
  intros k. unfold is_std. rewrite andb_true_iff, !Z.leb_le. cbn. lia.
Qed.

Lemma registered_claims_distinct : NoDup registered_claims.
Proof.
  repeat (constructor; [cbn; intuition discriminate|]). constructor.
Qed.

(* Model.checked: method identifiers 1..4 are the methods of the switch in
   LimitContentSecurityHandler *)
Lemma verified_methods_are_checked : forall m,
  checked m = true <-> 1 <= m <= Z.of_nat (length verified_methods).
Proof.
  intros m. unfold checked. rewrite andb_true_iff, !Z.leb_le. cbn. lia.
Qed.

Lemma verified_methods_distinct : NoDup verified_methods.
Proof.
  repeat (constructor; [cbn; intuition discriminate|]). constructor.
Qed.

(* cs_gate hands over to the cryption handler for type = httpx.CryptionType *)
Lemma cryption_type_is_one : cryption_type = 1.
Proof. reflexivity. Qed.

(* code_z numbers the codes as the iota block does *)
Lemma signature_codes_numbering :
  length signature_codes = 4%nat /\
  map code_z [CodePass; CodeInvalidHeader; CodeWrongTime; CodeInvalidToken] = [0; 1; 2; 3].
Proof. split; reflexivity. Qed.

Lemma same_header_name_in_handler_and_parser : hdr_content_security_handler = hdr_content_security.
Proof. reflexivity. Qed.

Lemma attribute_names_distinct : NoDup [attr_key; attr_secret; attr_signature] /\ NoDup [attr_key; attr_time; attr_type].
Proof.
  split; repeat (constructor; [cbn; intuition discriminate|]); constructor.
Qed.

(* defaults used by the executor / generator *)
Lemma defaults : max_bytes = 2 ^ 20 /\ signature_expiry_default_s = 3600.
Proof. split; reflexivity. Qed.

(* Bodies of unknown length (ContentLength = -1).  The flag is read off the source on every run
   (tools/c18consts.py: the pass-through test of LimitCryptionHandler and the hand-over test of
   LimitContentSecurityHandler, which must agree).  Whatever it says today, the corresponding
   statement is proved for today's tree: without the repair the body reaches the handler as it
   came (known finding cryption-skips-unknown-length-body); with it, decrypted like any other. *)
Definition unknown_length_statement (fixed : bool) : Prop :=
  if fixed then
    forall aes_ok (E D : Z -> list Z -> list Z) b64enc b64dec,
    (forall key b, length b = bsn -> D key (E key b) = b) ->
    (forall key b, length b = bsn -> length (E key b) = bsn) ->
    (forall x, b64dec (b64enc x) = Some x) ->
    (forall x, x <> [] -> b64enc x <> []) ->
    forall limit key p c resp,
    aes_ok key = true -> ecb_encrypt aes_ok E key p = Ok c ->
    (limit <= 0 \/ len (b64enc c) <= limit) ->
    crypt_handler fixed aes_ok E D b64enc b64dec limit key (-1) (b64enc c) resp
      = mkHout true 200 p (flush aes_ok E b64enc key resp) false
  else
    forall aes_ok E D b64enc b64dec limit key wire resp,
    o_seen (crypt_handler fixed aes_ok E D b64enc b64dec limit key (-1) wire resp) = wire.

(* TODAY: the repair (commit f372be8 of /repo, pending/C18-unknown-length.diff) is in the tree.
   A tree that loses it regenerates the flag as false and this obligation breaks. *)
Lemma unknown_length_repair_is_in : unknown_length_fix = true.
Proof. reflexivity. Qed.

Theorem unknown_length_today : unknown_length_statement unknown_length_fix.
Proof.
  cbv [unknown_length_statement unknown_length_fix].
  first [ intros aes_ok E D b64enc b64dec limit key wire resp;
          apply unknown_length_passthrough; [reflexivity|lia]
        | intros aes_ok E D b64enc b64dec DE Elen B1 B2 limit key p c resp K Ec Hl;
          apply (body_roundtrip_unknown_length aes_ok E D b64enc b64dec DE Elen B1 B2 true limit key p c resp eq_refl K Ec Hl) ].
Qed.
Print Assumptions unknown_length_today.

(* httpx.ParseHeader, as applied to X-Content-Security.  The model is a total function
   (it never fails or diverges, whatever the bytes); on every input:
   (1) the assignments it makes are exactly the ';'-separated fields that, once trimmed,
       have the form k=v with no '=' in k — key and value verbatim;
   (2) the fields are those of strings.Split: joined with ';' they give the input back and
       none contains ';';
   (3) trimming removes only white space at the two ends;
   (4) reading the map gives the value of the last assignment for the key;
   (5) ParseContentSecurity's presence test passes iff key, secret and signature each have
       a last assignment with a non-empty value. *)
Theorem parse_header_total_and_exact : forall s,
  (forall k v, In (k, v) (parse_header s) <->
               exists f, In f (split_on 59 s) /\ trim f = k ++ 61 :: v /\ ~ In 61 k) /\
  (join 59 (split_on 59 s) = s /\ forall f, In f (split_on 59 s) -> ~ In 59 f) /\
  (forall f, exists a b, f = a ++ trim f ++ b /\ forallb is_space a = true /\ forallb is_space b = true) /\
  (forall k v, hget k (parse_header s) = Some v <->
               exists l1 l2, parse_header s = l1 ++ (k, v) :: l2 /\ forall v', ~ In (k, v') l2) /\
  (header_accepted s = true <->
   exists a b c, a <> [] /\ b <> [] /\ c <> [] /\
     hget attr_key (parse_header s) = Some a /\
     hget attr_secret (parse_header s) = Some b /\
     hget attr_signature (parse_header s) = Some c).
Proof.
  intros s. split; [|split; [|split; [|split]]].
  - intros k v. apply (parse_header_pairs s k v).
  - split; [apply split_join|apply split_fields_no_sep].
  - apply trim_decomp.
  - intros k v. apply hget_spec.
  - apply header_accepted_spec.
Qed.
Print Assumptions parse_header_total_and_exact.

(* non-vacuity: a header with odd spacing, a duplicated attribute (last wins), a field
   without '=' and an empty field is accepted; with an empty signature it is not *)
Example ex_header :
  let s := [32;107;101;121;61;97;59;115;101;99;114;101;116;61;98;61;99;32;59;120;59;59;
            115;105;103;110;97;116;117;114;101;61;49;59;32;115;105;103;110;97;116;117;114;101;61;50;32] in
  (* " key=a;secret=b=c ;x;;signature=1; signature=2 " *)
  header_accepted s = true /\
  attr attr_key s = Some [97] /\ attr attr_secret s = Some [98;61;99] /\ attr attr_signature s = Some [50] /\
  header_accepted [107;101;121;61;97;59;115;101;99;114;101;116;61;98;59;115;105;103;110;97;116;117;114;101;61] = false.
Proof. vm_compute. repeat split; reflexivity. Qed.
