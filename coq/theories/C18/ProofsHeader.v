(* C18 — proofs about the ParseHeader model. *)
From Coq Require Import List ZArith Bool Lia.
From GZgen Require Import C18Consts.
From GZ Require Import C18.Header.
Import ListNotations.
Open Scope Z_scope.

Lemma bytes_eq_spec : forall a b, bytes_eq a b = true <-> a = b.
Proof.
  induction a as [|x a IH]; destruct b as [|y b]; cbn; split; intros H; try discriminate; auto.
  - apply andb_true_iff in H. destruct H as [H1 H2]. apply Z.eqb_eq in H1. apply IH in H2. congruence.
  - inversion H; subst. rewrite Z.eqb_refl. cbn. apply IH. reflexivity.
Qed.

(* cut at the first '=': the key has no '=', the value is everything after it, verbatim *)
Lemma cut_eq_spec : forall f k v,
  cut_eq f = Some (k, v) <-> f = k ++ eq_char :: v /\ ~ In eq_char k.
Proof.
  induction f as [|c f IH]; intros k v; cbn [cut_eq].
  - split; [discriminate|]. intros [H _]. destruct k; discriminate.
  - destruct (c =? eq_char) eqn:E.
    + apply Z.eqb_eq in E. subst c. split.
      * intros H. inversion H; subst. split; auto.
      * intros [H N]. destruct k as [|x k].
        -- cbn in H. inversion H. reflexivity.
        -- cbn in H. inversion H; subst. exfalso. apply N. left. reflexivity.
    + apply Z.eqb_neq in E. destruct (cut_eq f) as [[k' v']|] eqn:C.
      * destruct (proj1 (IH k' v') eq_refl) as [F N]. split.
        -- intros H. inversion H; subst. split; [reflexivity|].
           intros [X|X]; [congruence|auto].
        -- intros [H N']. destruct k as [|x k]; cbn in H; inversion H; subst; [congruence|].
           assert (Q : Some (k', v') = Some (k, v)).
           { apply IH. split; auto. intros X. apply N'. right. exact X. }
           inversion Q; subst. reflexivity.
      * split; [discriminate|]. intros [H N']. destruct k as [|x k]; cbn in H; inversion H; subst; [congruence|].
        assert (Q : None = Some (k, v)).
        { apply IH. split; auto. intros X. apply N'. right. exact X. }
        discriminate.
Qed.

(* split_on is strings.Split: joining the fields with the separator gives the input back,
   and no field contains the separator *)
Fixpoint join (sep : Z) (fs : list (list Z)) : list Z :=
  match fs with
  | [] => []
  | [f] => f
  | f :: fs' => f ++ sep :: join sep fs'
  end.

Lemma split_on_nonempty : forall sep l, split_on sep l <> [].
Proof.
  intros sep l. destruct l as [|c l]; cbn; [discriminate|].
  destruct (c =? sep); [discriminate|]. destruct (split_on sep l); discriminate.
Qed.

Lemma split_join : forall sep l, join sep (split_on sep l) = l.
Proof.
  intros sep. induction l as [|c l IH]; [reflexivity|]. cbn [split_on].
  destruct (c =? sep) eqn:E.
  - apply Z.eqb_eq in E. subst c.
    pose proof (split_on_nonempty sep l) as NE.
    destruct (split_on sep l) as [|f fs] eqn:S; [congruence|].
    cbn [join app]. cbn [join] in IH. rewrite IH. reflexivity.
  - pose proof (split_on_nonempty sep l) as NE.
    destruct (split_on sep l) as [|f fs] eqn:S; [congruence|].
    destruct fs as [|g fs]; cbn [join] in *; cbn [app]; rewrite IH; reflexivity.
Qed.

Lemma split_fields_no_sep : forall sep l f, In f (split_on sep l) -> ~ In sep f.
Proof.
  intros sep. induction l as [|c l IH]; intros f H.
  - cbn in H. destruct H as [<-|[]]. auto.
  - cbn [split_on] in H. destruct (c =? sep) eqn:E.
    + destruct H as [<-|H]; [auto|apply IH; exact H].
    + apply Z.eqb_neq in E. pose proof (split_on_nonempty sep l) as NE.
      destruct (split_on sep l) as [|g gs] eqn:S; [congruence|].
      destruct H as [<-|H].
      * intros [X|X]; [congruence|]. apply (IH g); [left; reflexivity|exact X].
      * apply IH. right. exact H.
Qed.

(* every assignment comes from a field, key and value verbatim *)
Lemma parse_header_pairs : forall s k v,
  In (k, v) (parse_header s) <->
  exists f, In f (split_on sep_char s) /\ trim f = k ++ eq_char :: v /\ ~ In eq_char k.
Proof.
  intros s k v. unfold parse_header. rewrite in_flat_map. split.
  - intros (f & I & H). exists f. split; auto. unfold parse_field in H.
    destruct (cut_eq (trim f)) as [kv|] eqn:C; [|destruct H].
    destruct H as [H|[]]. subst kv. apply cut_eq_spec. exact C.
  - intros (f & I & T & N). exists f. split; auto. unfold parse_field.
    assert (C : cut_eq (trim f) = Some (k, v)) by (apply cut_eq_spec; auto).
    rewrite C. left. reflexivity.
Qed.

(* the map read-out: the last assignment for the key *)
Lemma hget_none : forall k l, hget k l = None <-> (forall v', ~ In (k, v') l).
Proof.
  intros k. induction l as [|[k' w] l IH]; cbn [hget].
  - split; [intros _ v' []|reflexivity].
  - destruct (hget k l) as [u|] eqn:G.
    + split; [discriminate|]. intros N. exfalso.
      assert (X : Some u = None) by (apply IH; intros v' I; apply (N v'); right; exact I). discriminate.
    + destruct (bytes_eq k k') eqn:B.
      * apply bytes_eq_spec in B. subst k'. split; [discriminate|].
        intros N. exfalso. apply (N w). left. reflexivity.
      * split; auto. intros _ v' [X|X].
        -- inversion X; subst. assert (bytes_eq k k = true) by (apply bytes_eq_spec; reflexivity). congruence.
        -- revert X. apply IH. reflexivity.
Qed.

Lemma hget_spec : forall k l v,
  hget k l = Some v <->
  exists l1 l2, l = l1 ++ (k, v) :: l2 /\ (forall v', ~ In (k, v') l2).
Proof.
  intros k. induction l as [|[k' w] l IH]; intros v; cbn [hget].
  - split; [discriminate|]. intros (l1 & l2 & H & _). destruct l1; discriminate.
  - destruct (hget k l) as [u|] eqn:G.
    + split.
      * intros H. inversion H; subst u. destruct (proj1 (IH v) eq_refl) as (l1 & l2 & E & N).
        exists ((k', w) :: l1), l2. subst l. split; auto.
      * intros (l1 & l2 & E & N). destruct l1 as [|p l1]; cbn in E; inversion E; subst.
        -- exfalso. apply hget_none in N. congruence.
        -- assert (Q : Some u = Some v) by (apply IH; eauto).
           congruence.
    + pose proof (proj1 (hget_none k l) G) as NoK.
      destruct (bytes_eq k k') eqn:B.
      * apply bytes_eq_spec in B. subst k'. split.
        -- intros H. inversion H; subst. exists [], l. split; auto.
        -- intros (l1 & l2 & E & N). destruct l1 as [|p l1]; cbn in E; inversion E; subst; auto.
           exfalso. apply (NoK v). apply in_or_app. right. left. reflexivity.
      * split; [discriminate|]. intros (l1 & l2 & E & N).
        destruct l1 as [|p l1]; cbn in E; inversion E; subst.
        -- assert (bytes_eq k k = true) by (apply bytes_eq_spec; reflexivity). congruence.
        -- exfalso. apply (NoK v). apply in_or_app. right. left. reflexivity.
Qed.

(* accepted by ParseContentSecurity's first test iff each of key / secret / signature has a
   last assignment with a non-empty value *)
Lemma header_accepted_spec : forall s,
  header_accepted s = true <->
  exists a b c, a <> [] /\ b <> [] /\ c <> [] /\
    hget attr_key (parse_header s) = Some a /\
    hget attr_secret (parse_header s) = Some b /\
    hget attr_signature (parse_header s) = Some c.
Proof.
  intros s. unfold header_accepted, attr.
  destruct (hget attr_key (parse_header s)) as [[|x a]|];
    destruct (hget attr_secret (parse_header s)) as [[|y b]|];
    destruct (hget attr_signature (parse_header s)) as [[|z c]|];
    split; intros H; try discriminate;
    try (destruct H as (a' & b' & c' & A & B & C & E1 & E2 & E3); congruence);
    try reflexivity.
  exists (x :: a), (y :: b), (z :: c). repeat split; auto; discriminate.
Qed.

(* trimming only removes white space, at both ends *)
Lemma ltrim_decomp : forall l, exists a, l = a ++ ltrim l /\ forallb is_space a = true.
Proof.
  induction l as [|c l IH]; cbn [ltrim].
  - exists []. auto.
  - destruct (is_space c) eqn:S.
    + destruct IH as (a & E & F). exists (c :: a). cbn. rewrite S, F. split; [f_equal; exact E|reflexivity].
    + exists []. auto.
Qed.

Lemma rtrim_decomp : forall l, exists b, l = rtrim l ++ b /\ forallb is_space b = true.
Proof.
  intros l. unfold rtrim. destruct (ltrim_decomp (rev l)) as (a & E & F).
  exists (rev a). split.
  - rewrite <- rev_app_distr, <- E, rev_involutive. reflexivity.
  - apply forallb_forall. intros x I. apply in_rev in I. rewrite forallb_forall in F. auto.
Qed.

Lemma trim_decomp : forall l, exists a b,
  l = a ++ trim l ++ b /\ forallb is_space a = true /\ forallb is_space b = true.
Proof.
  intros l. unfold trim. destruct (ltrim_decomp l) as (a & E & F).
  destruct (rtrim_decomp (ltrim l)) as (b & E' & F').
  exists a, b. split; auto. rewrite <- E'. exact E.
Qed.
