(* C18 — httpx.ParseHeader (rest/httpx/requests.go), the attribute parser applied to the
   X-Content-Security header and to the decrypted secret.  Executable model over byte
   lists; separator and attribute names come from the regenerated GZgen.C18Consts.

     fields := strings.Split(headerValue, separator)
     for each field: field = strings.TrimSpace(field); skip if empty
                     kv := strings.SplitN(field, "=", tokensInAttribute); skip if len(kv) != 2
                     ret[kv[0]] = kv[1]                       (later fields overwrite)        *)
From Coq Require Import List ZArith Bool.
From GZgen Require Import C18Consts.
Import ListNotations.
Open Scope Z_scope.

(* unicode.IsSpace on ASCII: '\t' '\n' '\v' '\f' '\r' ' ' *)
Definition is_space (c : Z) : bool := (c =? 32) || ((9 <=? c) && (c <=? 13)).

Fixpoint ltrim (l : list Z) : list Z :=
  match l with
  | c :: l' => if is_space c then ltrim l' else l
  | [] => []
  end.
Definition rtrim (l : list Z) : list Z := rev (ltrim (rev l)).
Definition trim (l : list Z) : list Z := rtrim (ltrim l).

(* strings.Split for a one-byte separator: n separators give n+1 fields *)
Fixpoint split_on (sep : Z) (l : list Z) : list (list Z) :=
  match l with
  | [] => [[]]
  | c :: l' =>
    if c =? sep then [] :: split_on sep l'
    else match split_on sep l' with
         | f :: fs => (c :: f) :: fs
         | [] => [[c]]
         end
  end.

Definition eq_char : Z := 61.

(* strings.SplitN(field, "=", 2) with the len(kv) == 2 test: cut at the first '=' *)
Fixpoint cut_eq (l : list Z) : option (list Z * list Z) :=
  match l with
  | [] => None
  | c :: l' =>
    if c =? eq_char then Some ([], l')
    else match cut_eq l' with
         | Some (k, v) => Some (c :: k, v)
         | None => None
         end
  end.

Definition sep_char : Z := match separator with [c] => c | _ => -1 end.

Definition parse_field (f : list Z) : option (list Z * list Z) := cut_eq (trim f).

(* the assignments ret[k] = v in the order they happen *)
Definition parse_header (s : list Z) : list (list Z * list Z) :=
  flat_map (fun f => match parse_field f with Some kv => [kv] | None => [] end) (split_on sep_char s).

Fixpoint bytes_eq (a b : list Z) : bool :=
  match a, b with
  | [], [] => true
  | x :: a', y :: b' => (x =? y) && bytes_eq a' b'
  | _, _ => false
  end.

(* reading the Go map after all assignments: the last one for the key wins *)
Fixpoint hget (k : list Z) (l : list (list Z * list Z)) : option (list Z) :=
  match l with
  | [] => None
  | (k', v) :: l' =>
    match hget k l' with
    | Some v' => Some v'
    | None => if bytes_eq k k' then Some v else None
    end
  end.

(* ParseContentSecurity: an attribute of length 0 counts as missing *)
Definition attr (k s : list Z) : option (list Z) :=
  match hget k (parse_header s) with
  | Some (c :: v) => Some (c :: v)
  | _ => None
  end.

Definition header_accepted (s : list Z) : bool :=
  match attr attr_key s, attr attr_secret s, attr attr_signature s with
  | Some _, Some _, Some _ => true
  | _, _, _ => false
  end.
